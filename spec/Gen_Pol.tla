------------------------------ MODULE Gen_Pol ------------------------------
(* every explored state (starting value, operation history, expected value) as one JSON line *)
EXTENDS MC_Pol, Json, IOUtils, CSV
Emit == CSVWrite("%1$s", <<ToJson([o |-> <<orig.a.re, orig.a.im, orig.b.re, orig.b.im>>, basis |-> orig.basis,
                                   hist |-> hist, cur |-> cur])>>, IOEnv.GEN_OUT)
=============================================================================
