----------------------------- MODULE Trace_Dask -----------------------------
(***************************************************************************)
(* C09, code -> spec.  Every event is one public call of the real code on  *)
(* a signal (drivers, replayed pipelines, the repository's own tests):     *)
(*   ev, kind, a, refused, pre / post summaries (cls = class/dtype, sh,    *)
(*   back, ch, per / t0 / clo = interned metadata), n0 / n1 = executions   *)
(*   of the input graph's tasks before / after the call.                   *)
(* The verdict uses the step predicates of the Dask specification          *)
(* (spec/DaskSteps.tla, the same operators spec/Dask.tla checks on its     *)
(* own transitions).                                                       *)
(***************************************************************************)
EXTENDS TraceBase, DaskSteps
VARIABLES l, nbad
Failed(e) ==
  (IF LazyStep(e.kind, e.n0, e.n1) THEN {} ELSE {"Lazy"})
  \cup (IF e.refused \/ StaysDaskStep(e.kind, e.pre, e.post) THEN {} ELSE {"StaysDask"})
  \cup (IF e.refused \/ NumpyStaysNumpyStep(e.kind, e.pre, e.post) THEN {} ELSE {"NumpyStaysNumpy"})
  \cup (IF ContainerOnlyStep(e.kind, e.pre, e.post) /\ ContainerBackStep(e.kind, e.post)
            /\ (e.kind = "run" => RunStep(e.ev, e.pre, e.post)) THEN {} ELSE {"ContainerOnly"})
  \cup (IF GridStep(e.pre) /\ GridStep(e.post) THEN {} ELSE {"Grid"})
  \cup (IF RefusalStep(e.ev, e.a, e.refused, e.pre) THEN {} ELSE {"Refusal"})
  \cup (IF RerunStep(e.kind, e.n0, e.n1) THEN {} ELSE {"Persisted"})
  \cup (IF e.kind \in {"transform", "container", "run", "rerun"} THEN {} ELSE {"unknown-kind"})
TraceInit == l = 1 /\ nbad = 0
TraceNext ==
  \/ /\ l <= NEvents
     /\ LET e == Trace[l]  f == Failed(e)
        IN /\ Report(l, e, f)
           /\ nbad' = nbad + (IF f = {} THEN 0 ELSE 1)
     /\ l' = l + 1
  \/ /\ l = NEvents + 1
     /\ Summary(NEvents, nbad)
     /\ l' = l + 1
     /\ UNCHANGED nbad
TraceSpec == TraceInit /\ [][TraceNext]_<<l, nbad>>
AllConsumed == TLCGet("stats").diameter >= NEvents + 1
=============================================================================
