SPECIFICATION Spec
CONSTANTS
  Lens <- F_Lens
  Bounds <- F_Bounds
  Steps <- F_Steps
INVARIANT CropsFromEnd
INVARIANT Untouched
INVARIANT Stamped
INVARIANT Emit
CHECK_DEADLOCK FALSE
