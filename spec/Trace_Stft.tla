----------------------------- MODULE Trace_Stft -----------------------------
(***************************************************************************)
(* code -> spec for C20 (STFT / ISTFT at sizes TLC cannot transform        *)
(* itself): the harness sends a bin-centred tone (k cycles per nperseg     *)
(* samples in channel c0) or noise through the real stft / istft and       *)
(* records what came out (exact values of the floats, module Dyadic).      *)
(* TLC decides with the band model  f_i = cf + cbw (i + a - nch/2):        *)
(*   stft   length n div p, nch p sub-channels, rate cbw/p, start kept,    *)
(*          the energy is in sub-channel c0 p + k + p div 2 and nowhere    *)
(*          else, and that sub-channel's label is the tone's absolute      *)
(*          frequency  cf + cbw (c0 + a - nch/2) + k cbw / p               *)
(*   istft  length n - n mod p, nch, rate, start, labels and samples of    *)
(*          the original (error relative to max |z|: 2^-20 for complex64,  *)
(*          2^-40 for complex128)                                          *)
(* u = 2^-eb.  Labels: 8 u (|cf| + nch cbw).                               *)
(***************************************************************************)
EXTENDS TraceBase, Dyadic
VARIABLES l, nbad
U(eb) == DPow2(-eb)
DataTol(eb) == IF eb = 23 THEN DPow2(-20) ELSE DPow2(-40)
Scale(e) == DAdd(DAbs(DJ(e.cf)), DMulInt(DJ(e.cbw), e.nch))
Failed(e) ==
  CASE e.ev = "stft" ->
         LET p == e.p
             cf == DJ(e.cf)  cbw == DJ(e.cbw)
             \* 2p * (tone frequency) for signed bin kk
             tone2p(kk) == DAdd(DMulInt(cf, 2 * p), DMulInt(cbw, p * (2 * e.c0 + e.a2 - e.nch) + 2 * kk))
             lab2p == DMulInt(DJ(e.lab_peak), 2 * p)
             tol == DMulInt(DMul(U(52), Scale(e)), 16 * p)
         IN (IF e.len_out = e.n \div p /\ e.nch_out = e.nch * p THEN {} ELSE {"shape"})
            \cup (IF e.peak = e.c0 * p + e.k + (p \div 2) /\ e.allsame THEN {} ELSE {"peak-position"})
            \cup (IF DClose(lab2p, tone2p(e.k), tol) \/ (2 * e.k = -p /\ DClose(lab2p, tone2p(-e.k), tol))
                  THEN {} ELSE {"peak-label"})
            \cup (IF DLe(DJ(e.peakerr), DataTol(e.eb)) /\ DLe(DJ(e.leak), DataTol(e.eb)) THEN {} ELSE {"energy"})
            \cup (IF DClose(DMulInt(DJ(e.rate_out), p), cbw, DMulInt(DMul(U(52), cbw), 4)) THEN {} ELSE {"rate"})
            \cup (IF e.t_same THEN {} ELSE {"start"})
    [] e.ev = "istft" ->
         (IF e.len_back = e.n - (e.n % e.p) /\ e.nch_back = e.nch THEN {} ELSE {"shape"})
         \cup (IF DLe(DJ(e.recon_err), DataTol(e.eb)) THEN {} ELSE {"samples"})
         \cup (IF DClose(DJ(e.rate_back), DJ(e.rate), DMulInt(DMul(U(52), DJ(e.rate)), 4)) THEN {} ELSE {"rate"})
         \cup (IF DLe(DJ(e.lab_err), DMulInt(U(52), 8)) THEN {} ELSE {"labels"})
         \cup (IF e.t_same THEN {} ELSE {"start"})
    [] OTHER -> {"unknown-event"}
TraceInit == l = 1 /\ nbad = 0
TraceNext ==
  \/ /\ l <= NEvents
     /\ LET e == Trace[l]  f == Failed(e)
        IN /\ Report(l, e, f)
           /\ nbad' = nbad + (IF f = {} THEN 0 ELSE 1)
     /\ l' = l + 1
  \/ /\ l = NEvents + 1
     /\ Summary(NEvents, nbad)
     /\ l' = l + 1
     /\ UNCHANGED nbad
TraceSpec == TraceInit /\ [][TraceNext]_<<l, nbad>>
AllConsumed == TLCGet("stats").diameter >= NEvents + 1
=============================================================================
