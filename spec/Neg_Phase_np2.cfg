SPECIFICATION Spec
CONSTANTS
  MaxK <- N_MaxK
  Lits <- N_Lits
  Factors <- N_Factors
  OKinds <- AllOKinds
  Variant = "pinned_np2"
INVARIANT ResultIsPhase
CHECK_DEADLOCK FALSE
