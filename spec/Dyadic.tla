------------------------------- MODULE Dyadic -------------------------------
(***************************************************************************)
(* Exact dyadic numbers  m * 2^(15 e)  on the BigInt kernel: m a BigInt,   *)
(* e a native integer counting limbs (the kernel's limbs are base 2^15, so *)
(* aligning two numbers is a limb shift, never a multiplication).  Every   *)
(* IEEE float is such a number; sums, differences and products of dyadic   *)
(* numbers are dyadic, so polynomial identities on recorded floats are     *)
(* decided exactly and without the cross-multiplications of Rat.           *)
(***************************************************************************)
EXTENDS BigInt

\* drop zero limbs at the low end (keeps mantissas short)
RECURSIVE DTrimR(_, _)
DTrimR(m, e) == IF m = <<>> THEN [m |-> <<>>, e |-> 0]
                ELSE IF m[1] = 0 THEN DTrimR(SubSeq(m, 2, Len(m)), e + 1) ELSE [m |-> m, e |-> e]
D(m, e) == LET t == DTrimR(m.m, e) IN [m |-> Mk(m.n, t.m), e |-> t.e]
DInt(k) == D(FromInt(k), 0)
DZero == DInt(0)
\* 2^k for any integer k
DPow2(k) == LET q == k \div 15  r == k % 15 IN D(FromInt(2^r), q)
\* mantissa of a at limb exponent e <= a.e
DMant(a, e) == Mk(a.m.n, NShiftL(a.m.m, a.e - e))
DMinE(a, b) == IF a.e <= b.e THEN a.e ELSE b.e
DAdd(a, b) == IF IsZero(a.m) THEN b ELSE IF IsZero(b.m) THEN a
              ELSE LET e == DMinE(a, b) IN D(Add(DMant(a, e), DMant(b, e)), e)
DNeg(a) == [m |-> Neg(a.m), e |-> a.e]
DSub(a, b) == DAdd(a, DNeg(b))
DMul(a, b) == IF IsZero(a.m) \/ IsZero(b.m) THEN DZero ELSE D(Mul(a.m, b.m), a.e + b.e)
DSq(a) == DMul(a, a)
DAbs(a) == [m |-> Abs(a.m), e |-> a.e]
DSign(a) == Sign(a.m)
DCmp(a, b) == IF IsZero(a.m) THEN -Sign(b.m) ELSE IF IsZero(b.m) THEN Sign(a.m)
              ELSE LET e == DMinE(a, b) IN Cmp(DMant(a, e), DMant(b, e))
DLe(a, b) == DCmp(a, b) <= 0
DLt(a, b) == DCmp(a, b) < 0
DEq(a, b) == DCmp(a, b) = 0
DClose(a, b, tol) == DLe(DAbs(DSub(a, b)), tol)
DMulInt(a, k) == DMul(a, DInt(k))
\* a / 2^k
DShr(a, k) == DMul(a, DPow2(-k))
\* from the JSON form {"m": BigInt record, "e": int}
DJ(j) == D(j.m, j.e)
=============================================================================
