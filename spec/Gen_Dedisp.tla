----------------------------- MODULE Gen_Dedisp -----------------------------
(* spec -> code for C06: every explored incoherent_dedispersion call (length, *)
(* rounded delay vector, start time or none) with the specification's result  *)
(* (refusal or realigned source indices, new start) as one JSON line in       *)
(* IOEnv.GEN_OUT; harness/c06.py realises the delay vector with a real band,  *)
(* DM and reference frequency and replays the call on pulsarbat.              *)
EXTENDS MC_Dedisp, Json, IOUtils, CSV
G_IDelays == -5..5
G_Lens == {0, 1, 2, 4, 7}
Emit == (pc = "post" /\ kind = "incoh") =>
          CSVWrite("%1$s", <<ToJson([len |-> par.len, d |-> par.d, hasT |-> par.hasT,
                                     ok |-> res.ok, outlen |-> res.outlen, src |-> res.src,
                                     adv |-> res.adv, cb |-> res.cb, np |-> res.np])>>, IOEnv.GEN_OUT)
=============================================================================
