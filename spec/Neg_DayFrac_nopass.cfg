SPECIFICATION Spec
CONSTANTS
  P <- Q_P
  EMin <- Q_EMin
  EMax <- Q_EMax
  Factors <- Q_Factors
  Divisors <- Q_Divisors
  Variant = "no_second_pass"
INVARIANT FracInRange
CHECK_DEADLOCK FALSE
