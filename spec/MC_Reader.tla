----------------------------- MODULE MC_Reader -----------------------------
(* Constant sets for model checking Reader (C11).                           *)
EXTENDS Reader
Cfg(kind, real, lsb, spf, fpf, nfiles, a, b) ==
  [kind |-> kind, real |-> real, lsb |-> lsb, spf |-> spf, fpf |-> fpf, nfiles |-> nfiles,
   A |-> a, B |-> b, t0 |-> 100, per |-> 4, blk |-> 0, ceil |-> FALSE,
   mask |-> [i \in 1..a |-> [j \in 1..b |-> lsb]]]
\* BasebandReader(lower_sideband=<one flag per element>)
Masked(c) == [c EXCEPT !.mask = [i \in 1..c.A |-> [j \in 1..c.B |-> (i + j) % 2 = 0]]]
\* every output length is 4: complex files have 4 raw samples, real ones 8
AllConfigs ==
  { Cfg("plain", FALSE, l, 2, 2, 1, 2, 1) : l \in BOOLEAN }          \* DADA / VDIF complex, 2 frames
  \cup { Cfg("plain", TRUE, l, 4, 2, 1, 1, 2) : l \in BOOLEAN }      \* VDIF real, 2 frames
  \cup { Cfg("plain", TRUE, l, 3, 3, 1, 1, 2) : l \in BOOLEAN }      \* real, ODD raw count 9: still 4 samples
  \cup { Cfg("guppi", FALSE, l, 1, 2, 2, 2, 2) : l \in BOOLEAN }     \* GUPPI, 2 files x 2 frames
  \cup { Cfg("stokes", FALSE, l, 2, 1, 2, 2, 2) : l \in BOOLEAN }    \* DADA Stokes, 2 files
  \cup { Masked(Cfg("plain", FALSE, FALSE, 2, 2, 1, 2, 2)) }         \* per-element sideband flags
\* two concurrent readers, two reads each, every (o, n) around the bounds
Q_Procs == 1..2
Q_Args == {<<o, n>> : o \in -1..4, n \in -1..5} \ {<<o, n>> \in (-1..4) \X (-1..5) : o + n > 5}
\* three concurrent readers, one read each
T_Procs == 1..3
T_Args == {<<0, 2>>, <<1, 2>>, <<2, 2>>, <<0, 4>>, <<3, 1>>, <<4, 0>>, <<3, 2>>, <<-1, 1>>}
T_Configs == { Cfg("plain", FALSE, FALSE, 2, 2, 1, 2, 1), Cfg("plain", TRUE, TRUE, 4, 2, 1, 1, 2),
               Cfg("guppi", FALSE, TRUE, 1, 2, 2, 2, 2), Cfg("stokes", FALSE, TRUE, 2, 1, 2, 2, 2) }
\* full: longer files, three readers with two reads
F_Configs ==
  AllConfigs
  \cup { Cfg("guppi", FALSE, TRUE, 2, 2, 2, 2, 3), Cfg("plain", TRUE, FALSE, 2, 3, 2, 2, 1) }
F_Args == {<<o, n>> : o \in -1..5, n \in -1..7}
FT_Args == {<<0, 2>>, <<1, 2>>, <<2, 2>>, <<0, 4>>, <<3, 1>>, <<4, 0>>, <<3, 2>>, <<-1, 1>>, <<1, 3>>, <<0, 0>>}
\* negative model (one shared handle): the smallest instance that shows it
N_Configs == { Cfg("plain", FALSE, FALSE, 2, 2, 1, 1, 1) }
N_Args == {<<0, 2>>, <<2, 2>>}
\* negative models of the real-sampled path: conversion in blocks of one output sample; length rounded up
NB_Configs == { [Cfg("plain", TRUE, FALSE, 4, 2, 1, 1, 1) EXCEPT !.blk = 1] }
NB_Args == {<<1, 2>>}
NC_Configs == { [Cfg("plain", TRUE, FALSE, 3, 3, 1, 1, 1) EXCEPT !.ceil = TRUE] }
NC_Args == {<<4, 1>>, <<0, 5>>}
One == 1..1
=============================================================================
