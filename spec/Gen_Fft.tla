------------------------------ MODULE Gen_Fft ------------------------------
EXTENDS MC_Fft, Json, IOUtils, CSV
Q_Shapes == {<<4>>, <<3>>, <<5>>, <<2, 3>>, <<2, 2, 2>>, <<3, 4>>}
T_Shapes == {<<3>>, <<2, 3>>}
Emit == call.name # "none" => CSVWrite("%1$s", <<ToJson([c |-> call, x |-> InputInts(c.sh, c.kind), out |-> out])>>, IOEnv.GEN_OUT)
=============================================================================
