------------------------------ MODULE Gen_Dask ------------------------------
(* Behaviour generation for C09: every explored pipeline (root, chunk grid,  *)
(* operations with the specification's verdicts and post-states, schedule of *)
(* the run as choice indices) is written as one JSON line to IOEnv.GEN_OUT.  *)
EXTENDS MC_Dask, Json, IOUtils, CSV
Rec_ == [root |-> sig.meta.root, hist |-> hist, cur |-> Summary(sig), st |-> phase.st, nexec |-> nexec]
Emit == CSVWrite("%1$s", <<ToJson(Rec_)>>, IOEnv.GEN_OUT)
\* complete pipelines only: a refusal, or all operations done
EmitLeaf == (phase.st = "err" \/ (phase.st = "build" /\ NOps = MaxDepth)) => Emit
\* complete schedules only: a run that has just ended with compute
EmitSched == (phase.st = "build" /\ hist # <<>> /\ hist[Len(hist)].kind = "run" /\ hist[Len(hist)].op = "compute"
              /\ NOps >= 1) => Emit
=============================================================================
