-------------------------------- MODULE Api --------------------------------
(***************************************************************************)
(* Behaviour of the signal API beyond the twenty listed properties         *)
(* (specification growth, DESIGN.md section 12.6): axis lookup, indexing   *)
(* refusals, like() across classes, signal_transform's class selection.    *)
(* State: one object (class, number of dimensions) and the last call with  *)
(* its specified outcome; every call is one action.  Checked by TLC for    *)
(* internal consistency and replayed on the real classes by               *)
(* `./check --extra`.  Nothing here is claimed in MANIFEST.json.           *)
(***************************************************************************)
EXTENDS Integers, Sequences, FiniteSets, TLC

Classes == {"Signal", "RadioSignal", "IntensitySignal", "FullStokesSignal",
            "BasebandSignal", "DualPolarizationSignal"}
MinDim(c) == CASE c = "Signal" -> 1
               [] c \in {"FullStokesSignal", "DualPolarizationSignal"} -> 3
               [] OTHER -> 2
\* axis labels of each class
Labels(c) == CASE c = "Signal" -> {"time"}
               [] c \in {"FullStokesSignal", "DualPolarizationSignal"} -> {"time", "freq", "pol"}
               [] OTHER -> {"time", "freq"}
LabelAxis(l) == CASE l = "time" -> 0 [] l = "freq" -> 1 [] l = "pol" -> 2
Parent(c) == CASE c = "Signal" -> "none" [] c = "RadioSignal" -> "Signal"
               [] c = "IntensitySignal" -> "RadioSignal" [] c = "FullStokesSignal" -> "IntensitySignal"
               [] c = "BasebandSignal" -> "RadioSignal" [] c = "DualPolarizationSignal" -> "BasebandSignal"
RECURSIVE IsSub(_, _)
IsSub(c, d) == c = d \/ (c # "Signal" /\ IsSub(Parent(c), d))
\* keyword arguments each constructor requires (beyond the data)
Required(c) == CASE c = "Signal" -> {"sample_rate"}
                 [] c \in {"RadioSignal", "IntensitySignal", "FullStokesSignal"} -> {"sample_rate", "center_freq", "chan_bw"}
                 [] c = "BasebandSignal" -> {"sample_rate", "center_freq"}
                 [] c = "DualPolarizationSignal" -> {"sample_rate", "center_freq", "pol_type"}
\* attributes an object of class c carries
Attrs(c) == {"sample_rate", "start_time", "meta"}
            \cup (IF c # "Signal" THEN {"center_freq", "chan_bw", "freq_align"} ELSE {})
            \cup (IF c = "DualPolarizationSignal" THEN {"pol_type"} ELSE {})

VARIABLES obj, call, out
vars == <<obj, call, out>>

Ok(v) == [st |-> "ok", v |-> v]
Err(k) == [st |-> "err", v |-> k]

IsCplx(c) == c \in {"BasebandSignal", "DualPolarizationSignal"}
\* length of the third axis of the test objects: 4 Stokes, 2 polarisations, 3 for a free trailing axis, 0 if absent
Ax3(c, ndim) == IF ndim < 3 THEN 0 ELSE IF c = "FullStokesSignal" THEN 4 ELSE IF c = "DualPolarizationSignal" THEN 2 ELSE 3
\* can an object be re-made as class t: keywords, dimensions, fixed axis length, dtype (complex -> real is not a safe cast)
Admits(t, o) ==
  /\ Required(t) \subseteq Attrs(o.cls)
  /\ o.ndim >= MinDim(t)
  /\ (t = "FullStokesSignal" => Ax3(o.cls, o.ndim) = 4)
  /\ (t = "DualPolarizationSignal" => Ax3(o.cls, o.ndim) = 2)
  /\ (t \in {"IntensitySignal", "FullStokesSignal"} => ~IsCplx(o.cls))
Init == /\ \E c \in Classes, extra \in 0..2 : obj = [cls |-> c, ndim |-> MinDim(c) + extra]
        /\ call = <<"none">> /\ out = Ok("none")

\* get_axis(int): the integer is returned as given when it addresses an existing axis
GetAxisInt ==
  \E a \in -6..6 :
    /\ call' = <<"get_axis_int", a>>
    /\ out' = IF a >= -obj.ndim /\ a < obj.ndim THEN Ok(a) ELSE Err("ValueError")
    /\ UNCHANGED obj
GetAxisLabel ==
  \E l \in {"time", "freq", "pol", "foo", ""} :
    /\ call' = <<"get_axis_label", l>>
    /\ out' = IF l \in Labels(obj.cls) THEN Ok(LabelAxis(l)) ELSE Err("ValueError")
    /\ UNCHANGED obj
\* indexing refusals
Index ==
  \E k \in {"int_time", "int_freq", "neg_step_time", "step_freq", "list_time", "ellipsis", "stokes_ok", "stokes_bad",
            "str_on_other", "bool_mask_trailing"} :
    /\ call' = <<"index", k>>
    /\ out' = CASE k = "int_time" -> Err("IndexError")
                [] k = "list_time" -> Err("IndexError")
                [] k = "ellipsis" -> Err("IndexError")
                [] k = "int_freq" -> IF obj.cls = "Signal"
                                     THEN (IF obj.ndim >= 2 THEN Ok("same") ELSE Err("IndexError"))
                                     ELSE Err("IndexError")
                [] k = "neg_step_time" -> Err("AssertionError")
                [] k = "step_freq" -> IF obj.cls = "Signal"
                                      THEN (IF obj.ndim >= 2 THEN Ok("same") ELSE Err("IndexError"))
                                      ELSE Err("AssertionError")
                [] k = "stokes_ok" -> IF obj.cls = "FullStokesSignal" THEN Ok("IntensitySignal") ELSE Err("IndexError")
                [] k = "stokes_bad" -> IF obj.cls = "FullStokesSignal" THEN Err("KeyError") ELSE Err("IndexError")
                [] k = "str_on_other" -> IF obj.cls = "FullStokesSignal" THEN Err("KeyError") ELSE Err("IndexError")
                [] k = "bool_mask_trailing" ->
                     LET lead == IF obj.cls = "Signal" THEN 1 ELSE 2
                     IN IF obj.ndim <= lead THEN Err("IndexError")
                        \* the first trailing axis of these classes has a fixed length: dropping an
                        \* element of it leaves the class contract
                        ELSE IF obj.cls \in {"FullStokesSignal", "DualPolarizationSignal"} THEN Err("ValueError")
                        ELSE Ok("same")
    /\ UNCHANGED obj
\* Target.like(obj): every required keyword of Target must be an attribute of obj
Like ==
  \E t \in Classes :
    /\ call' = <<"like", t>>
    /\ out' = IF Admits(t, obj) THEN Ok(t) ELSE Err("ValueError")
    /\ UNCHANGED obj
\* signal_transform(f)(obj, signal_type=T)
Transform ==
  \E t \in Classes \cup {"none", "ndarray"} :
    /\ call' = <<"signal_transform", t>>
    /\ out' = IF t = "ndarray" THEN Err("TypeError")
              ELSE LET target == IF t = "none" THEN obj.cls ELSE t
                   IN IF Admits(target, obj) THEN Ok(target) ELSE Err("ValueError")
    /\ UNCHANGED obj

Next == GetAxisInt \/ GetAxisLabel \/ Index \/ Like \/ Transform
Spec == Init /\ [][Next]_vars

\* internal consistency
AxisInRange == (call[1] \in {"get_axis_int", "get_axis_label"} /\ out.st = "ok") =>
                  out.v >= -obj.ndim /\ out.v < obj.ndim
LabelsWithinMinDim == \A c \in Classes : \A l \in Labels(c) : LabelAxis(l) < MinDim(c)
LikeUpwardsAlwaysWorks ==
  \* an object can always be re-made as any of its ancestors that needs no more dimensions
  (call[1] = "like" /\ IsSub(obj.cls, call[2])) => out.st = "ok"
\* and never as a class of the other dtype family in the real direction
ComplexNeverBecomesIntensity ==
  (call[1] \in {"like", "signal_transform"} /\ IsCplx(obj.cls) /\ call[2] \in {"IntensitySignal", "FullStokesSignal"})
     => out.st = "err"
=============================================================================
