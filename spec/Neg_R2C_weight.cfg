SPECIFICATION Spec
CONSTANTS
  MaxTW = 5
  MaxCube = 3
  MaxBasis = 1
  MaxTone = 1
  MaxArrN = 1
  Phases <- Q_Phases
  Wrong = TRUE
INVARIANT InvRealPart
CHECK_DEADLOCK FALSE
