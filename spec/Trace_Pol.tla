----------------------------- MODULE Trace_Pol -----------------------------
(***************************************************************************)
(* code -> spec for C13: arbitrary complex samples (many decades) recorded *)
(* from the real to_linear / to_circular / to_stokes / to_intensity /      *)
(* ["I".."V"].  Every number is the exact value of the float the code held *)
(* (a dyadic number, module Dyadic).  TLC evaluates the property's         *)
(* formulas exactly (sqrt2 from the 60-bit fixed-point kernel, i.e. to     *)
(* 2^-59) and accepts an event iff the recorded result is within the       *)
(* rounding budget:                                                        *)
(*   u = 2^-eb   (eb = 52 / 23: mantissa bits of the input's float kind)   *)
(*   conversions        4 u * (|Re a|+|Im a|+|Re b|+|Im b|) per component  *)
(*   Stokes, same basis 4 u * I ;  after a conversion 8 u * I              *)
(*   I^2 = Q^2+U^2+V^2  within 16 u * I^2 ;  I = sum of intensities 2 u I  *)
(***************************************************************************)
EXTENDS TraceBase, Fix, Dyadic
VARIABLES l, nbad

Sqrt2 == D(Shl(SQRTHALF, 1), -4)               \* sqrt(2) to 2^-59
U(eb) == DPow2(-eb)
Seq4(s) == [i \in 1..Len(s) |-> DJ(s[i])]
\* complex numbers as <<re, im>>
ZAdd(x, y) == <<DAdd(x[1], y[1]), DAdd(x[2], y[2])>>
ZSub(x, y) == <<DSub(x[1], y[1]), DSub(x[2], y[2])>>
ZMulI(x) == <<DNeg(x[2]), x[1]>>
ZAbs2(x) == DAdd(DSq(x[1]), DSq(x[2]))
ZCMRe(x, y) == DAdd(DMul(x[1], y[1]), DMul(x[2], y[2]))     \* Re(x* y)
ZCMIm(x, y) == DSub(DMul(x[1], y[2]), DMul(x[2], y[1]))     \* Im(x* y)
Pair(s) == [a |-> <<s[1], s[2]>>, b |-> <<s[3], s[4]>>]
S1(s) == DAdd(DAdd(DAbs(s[1]), DAbs(s[2])), DAdd(DAbs(s[3]), DAbs(s[4])))

\* sqrt2 * (target basis pair) by the property's definition
Target(dir, v) ==
  IF dir = "to_circular" THEN [a |-> ZSub(v.a, ZMulI(v.b)), b |-> ZAdd(v.a, ZMulI(v.b))]
  ELSE [a |-> ZAdd(v.a, v.b), b |-> ZMulI(ZSub(v.a, v.b))]
\* the documented Stokes formulas on the linear pair; a circular pair is first
\* expressed as sqrt2 (X, Y) = (L + R, i(L - R)), which only halves the quadratic forms
StokesExact(basis, v) ==
  LET w == IF basis = "linear" THEN v ELSE Target("to_linear", v)
      h == IF basis = "linear" THEN 0 ELSE 1
  IN <<DShr(DAdd(ZAbs2(w.a), ZAbs2(w.b)), h), DShr(DSub(ZAbs2(w.a), ZAbs2(w.b)), h),
       DShr(DMulInt(ZCMRe(w.a, w.b), 2), h), DShr(DMulInt(ZCMIm(w.a, w.b), 2), h)>>

CloseAll(x, y, tol) == \A i \in 1..Len(x) : DClose(x[i], y[i], tol)
Tol(k, eb, scale) == DMul(DMulInt(U(eb), k), scale)

Failed(e) ==
  CASE e.ev = "conv" ->
         LET x == Seq4(e.x)  y == Seq4(e.y)
             v == Pair(x)  o == Pair(y)  t == Target(e.dir, v)
             so == [i \in 1..4 |-> DMul(Sqrt2, y[i])]
             pin == DAdd(ZAbs2(v.a), ZAbs2(v.b))
             pout == DAdd(ZAbs2(o.a), ZAbs2(o.b))
         IN (IF CloseAll(so, <<t.a[1], t.a[2], t.b[1], t.b[2]>>, Tol(4, e.eb, S1(x))) THEN {} ELSE {"definition"})
            \cup (IF DClose(pin, pout, Tol(8, e.eb, pin)) THEN {} ELSE {"power"})
    [] e.ev = "roundtrip" ->
         LET x == Seq4(e.x) IN (IF CloseAll(x, Seq4(e.y), Tol(8, e.eb, S1(x))) THEN {} ELSE {"roundtrip"})
    [] e.ev = "identity" ->
         (IF \A i \in 1..4 : DEq(DJ(e.x[i]), DJ(e.y[i])) THEN {} ELSE {"identity"})
    [] e.ev = "stokes" ->
         LET s == StokesExact(e.basis, Pair(Seq4(e.x)))
             i == s[1]
             y == Seq4(e.y)
             it == Seq4(e.items)
         IN (IF CloseAll(y, s, Tol(e.ulps, e.eb, i)) THEN {} ELSE {IF e.ulps = 4 THEN "formulas" ELSE "basis-independent"})
            \cup (IF DClose(DSq(y[1]), DAdd(DSq(y[2]), DAdd(DSq(y[3]), DSq(y[4]))), Tol(16, e.eb, DSq(i)))
                  THEN {} ELSE {"polarised"})
            \cup (IF DSign(y[1]) >= 0 THEN {} ELSE {"negative-I"})
            \cup (IF DClose(y[1], DAdd(DJ(e.inten[1]), DJ(e.inten[2])), Tol(2, e.eb, i)) THEN {} ELSE {"intensity-sum"})
            \cup (IF \A j \in 1..4 : DEq(it[j], y[j]) THEN {} ELSE {"item"})
    [] OTHER -> {"unknown-event"}

TraceInit == l = 1 /\ nbad = 0
TraceNext ==
  \/ /\ l <= NEvents
     /\ LET e == Trace[l]  f == Failed(e)
        IN /\ Report(l, e, f)
           /\ nbad' = nbad + (IF f = {} THEN 0 ELSE 1)
     /\ l' = l + 1
  \/ /\ l = NEvents + 1
     /\ Summary(NEvents, nbad)
     /\ l' = l + 1
     /\ UNCHANGED nbad
TraceSpec == TraceInit /\ [][TraceNext]_<<l, nbad>>
AllConsumed == TLCGet("stats").diameter >= NEvents + 1
=============================================================================
