SPECIFICATION Spec
CONSTANTS
  RootLens <- QF_RootLens
  Classes <- RadioClasses
  NChans <- QF_NChans
  Aligns <- AllAligns
  TBounds <- QF_TBounds
  TSteps <- QF_TSteps
  FBounds <- QF_FBounds
  XBounds <- QF_XBounds
  XSteps <- Q_XSteps
  Shifts <- Q_Shifts
  Delays <- Q_Delays
  IDelays <- Q_IDelays
  SnipT <- Q_SnipT
  SnipN <- Q_SnipN
  Ops <- FreqOps
  MaxDepth = 3
  Fixed = TRUE
  SampleK = 0
  SampleRoots = 0
VIEW View
INVARIANT Timestamps
INVARIANT PeriodOK
INVARIANT NoTimeFromNowhere
INVARIANT ChkOK
INVARIANT LabelsKept
INVARIANT LabelsInBand
INVARIANT BasebandCbw
INVARIANT AlignNormal
INVARIANT RadioShape
CHECK_DEADLOCK FALSE
