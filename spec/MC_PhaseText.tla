---------------------------- MODULE MC_PhaseText ----------------------------
(* C15 MC: every string of a small instance of the decimal grammar is      *)
(* parsed by the transcription of from_string and compared with the        *)
(* specification's Decimal; every (count, frac, precision) of a small      *)
(* dyadic lattice is rendered by the transcription of do_format and        *)
(* compared with "exact value rounded to the digits shown".                *)
EXTENDS PhaseText, TLC
CONSTANTS Digs,       \* digit alphabet (byte values)
          MaxDig,     \* at most this many digits before / after the point
          ExpLetters, ExpDigs,
          Counts,     \* integer parts for rendering
          Den,        \* fractions k/Den, |k/Den| <= 1/2
          Precs,      \* precisions, -1 = None
          PVariant, FVariant
VARIABLES st
\* quick instance: 0 5, up to 2 digits, exponents e/D with 0 1 2 3
Q_Digs == {48, 53}
Q_MaxDig == 2
Q_ExpLetters == {101, 68}
Q_ExpDigs == {48, 49, 50, 51}
Q_Counts == {-2, -1, 0, 1, 3}
Q_Den == 16
Q_Precs == {-1, 0, 1, 2, 3, 5}
\* full instance: 0 1 5, up to 3 digits before / 3 after the point
F_Digs == {48, 49, 53}
F_MaxDig == 3
F_ExpLetters == {101, 69, 68}
F_ExpDigs == {48, 49, 50, 51}
F_Counts == {-10, -2, -1, 0, 1, 3, 9, 99}
F_Den == 64
F_Precs == {-1, 0, 1, 2, 3, 4, 5, 6, 7}

RECURSIVE DigStrs(_)
DigStrs(n) == IF n = 0 THEN {<<>>}
              ELSE LET prev == DigStrs(n - 1)
                   IN prev \cup {Append(t, d) : t \in {u \in prev : Len(u) = n - 1}, d \in Digs}
Signs == {<<>>, <<CH_PLUS>>, <<CH_MINUS>>}
Ints == DigStrs(MaxDig)
Fracs == {<<>>} \cup {<<CH_DOT>> \o t : t \in Ints}
Exps == {<<>>} \cup {<<l>> \o sg \o <<d>> : l \in ExpLetters, sg \in Signs, d \in ExpDigs}
         \cup {<<l, 49, d>> : l \in ExpLetters, d \in {50} \cap ExpDigs}
Js == {<<>>, <<CH_J>>}
Strings == {sg \o ip \o fp \o ex \o j : sg \in Signs, ip \in Ints, fp \in Fracs, ex \in Exps, j \in Js}

Heads == {sg \o ip : sg \in Signs, ip \in Ints}
Tails == {fp \o ex \o j : fp \in Fracs, ex \in Exps, j \in Js}
\* Strings == {h \o t : h \in Heads, t \in Tails}: one initial state per head (and per
\* (count, frac) for rendering) so that TLC's workers share the work; the
\* successors append every tail (resp. choose every precision and flag)
Rec(kind, s, c, k, p, im, lvl) == [kind |-> kind, s |-> s, c |-> c, k |-> k, p |-> p, im |-> im, lvl |-> lvl]
Init == st \in {Rec("parse", h, 0, 0, 0, FALSE, 0) : h \in Heads}
            \cup {Rec("fmt", <<>>, c, k, -1, FALSE, 0) : c \in Counts, k \in (0 - (Den \div 2))..(Den \div 2)}
Next == /\ st.lvl = 0
        /\ \/ st.kind = "parse" /\ \E t \in Tails : st' = [st EXCEPT !.s = st.s \o t, !.lvl = 1]
           \/ st.kind = "fmt" /\ \E p \in Precs, im \in BOOLEAN : st' = [st EXCEPT !.p = p, !.im = im, !.lvl = 1]
Spec == Init /\ [][Next]_st

ParseAgrees == st.kind = "parse" => ParseOK(st.s, ParseModel(st.s, PVariant))
\* the grammar instance is not vacuous and Decimal is insensitive to spelling
GrammarSane ==
  st.kind = "parse" =>
    LET d == Decimal(st.s)
    IN /\ d.ok <=> (\E i \in 1..Len(st.s) : IsDigit(st.s[i]) /\ (\A j \in 1..(i-1) : ~IsExpCh(st.s[j])))
       /\ d.ok => /\ REq(Decimal(LowerD(st.s)).v, d.v)
                  /\ (d.im <=> st.s[Len(st.s)] = CH_J)

FV == RAdd(RI(st.c), RQ(st.k, Den))
Rendered == st.kind = "fmt" =>
  FormatOK(FV, st.im, st.p, FormatModel(RI(st.c), RQ(st.k, Den), st.im, st.p, FVariant))
\* the canonical rendering is "rounded to the digits shown" and parses back
\* (from_string(to_string(p)) = p up to the rounding of the rendering)
RoundTrip == st.kind = "fmt" /\ st.p >= 0 =>
  LET s == RenderSpec(FV, st.im, st.p)
      r == ParseModel(s, "fixed")
  IN /\ RoundedTo(s, FV, st.im, st.p)
     /\ r.exc = "none" /\ RoundedTo(s, r.v, st.im, st.p)
     /\ REq(r.v, Decimal(s).v)
=============================================================================
