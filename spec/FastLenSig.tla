----------------------------- MODULE FastLenSig -----------------------------
(***************************************************************************)
(* C18, signal part: fast_len(z) == z[:prev_fast_len(len(z))].             *)
(*                                                                         *)
(* A root signal of Len samples (sample k at tick k, start time optional)  *)
(* is first sliced z[a:b:c] (so that the signal handed to fast_len has a   *)
(* start offset and a stride), then fast_len is applied, written as the    *)
(* code does it: a basic slice [None : PrevFast(len)].  Ledger fields      *)
(* k0 / stride say which root samples are really retained; t0 / per is     *)
(* the stamped time axis (ticks of the root).                              *)
(***************************************************************************)
EXTENDS Integers, Sequences, FiniteSets, TLC, PySlice, SmoothDef
CONSTANTS Lens, Bounds, Steps
VARIABLES root, pre, cur, hist
vars == <<root, pre, cur, hist>>

SliceRec(s, a, b, c) ==
  LET ix == Indices(a, b, c, s.len)
      S  == Select(a, b, c, s.len)
  IN [s EXCEPT !.len = Cardinality(S),
               !.t0 = IF s.hasT THEN s.t0 + ix.start * s.per ELSE 0,
               !.per = s.per * ix.step,
               !.k0 = IF S = {} THEN s.k0 + ix.start * s.stride ELSE s.k0 + SetMin(S) * s.stride,
               !.stride = s.stride * ix.step,
               !.sel = S]
FastLenRec(s) == SliceRec(s, None, PrevFast(s.len), None)

Init == /\ \E n \in Lens, ht \in BOOLEAN :
             root = [len |-> n, hasT |-> ht, t0 |-> 0, per |-> 1, k0 |-> 0, stride |-> 1, sel |-> {}]
        /\ pre = root /\ cur = root /\ hist = <<>>
PreSlice == /\ hist = <<>>
            /\ \E a \in Bounds \cup {None}, b \in Bounds \cup {None}, c \in Steps \cup {None} :
                 /\ pre' = SliceRec(root, a, b, c) /\ cur' = pre'
                 /\ hist' = <<[op |-> "slice", args |-> <<a, b, c>>]>>
            /\ UNCHANGED root
FastLen == /\ (IF hist = <<>> THEN TRUE ELSE hist[Len(hist)].op # "fast_len")
           /\ cur' = FastLenRec(cur)
           /\ hist' = Append(hist, [op |-> "fast_len", args |-> <<>>])
           /\ UNCHANGED <<root, pre>>
Next == PreSlice \/ FastLen
Spec == Init /\ [][Next]_vars

After == IF hist = <<>> THEN FALSE ELSE hist[Len(hist)].op = "fast_len"
\* cropped from the end to exactly prev_fast_len(len) samples
CropsFromEnd == After => /\ cur.len = PrevFast(pre.len)
                         /\ cur.sel = 0..(PrevFast(pre.len) - 1)
                         /\ IsPrevFast(pre.len, cur.len)
\* retained samples and their timestamps untouched
Untouched == After => /\ cur.k0 = pre.k0 /\ cur.stride = pre.stride
                      /\ cur.t0 = pre.t0 /\ cur.per = pre.per /\ cur.hasT = pre.hasT
Stamped == (cur.hasT /\ cur.len > 0) => cur.t0 = cur.k0 /\ cur.per = cur.stride
=============================================================================
