------------------------------ MODULE Signals ------------------------------
(***************************************************************************)
(* Abstract signal records shared by the Pipeline and Concat               *)
(* specifications: the band model for channel labels and the two basic     *)
(* selections (time slice, channel slice) as the code computes them.       *)
(* Units: 4 ticks per root sample period; frequency in units of the root's *)
(* channel bandwidth as exact rationals (module Q).                        *)
(***************************************************************************)
EXTENDS Integers, Sequences, FiniteSets, PySlice, Q

IsRadio(c) == c # "Signal"
IsBaseband(c) == c \in {"BasebandSignal", "DualPolarizationSignal"}
NormAlign(al, n) == IF n % 2 = 1 THEN "center" ELSE al
A2(al) == CASE al = "bottom" -> 0 [] al = "center" -> 1 [] al = "top" -> 2

\* channel label i (0-based) by the documented band model
Label(s, i) == QAdd(s.cf, QMul(s.cbw, Qn(2 * i + A2(s.align) - s.nchan, 2)))
MinFreq(s) == QSub(s.cf, QMul(s.cbw, Qn(s.nchan, 2)))
MaxFreq(s) == QAdd(s.cf, QMul(s.cbw, Qn(s.nchan, 2)))

MkRoot(c, n, ht, nc, al) ==
  [cls |-> c, len |-> n, hasT |-> ht, t0 |-> 0, per |-> 4,
   nchan |-> IF IsRadio(c) THEN nc ELSE 0, cf |-> QI(0), cbw |-> QI(1),
   align |-> IF IsRadio(c) THEN NormAlign(al, nc) ELSE "center",
   areq |-> al,        \* the freq_align value the constructor is called with (normalised for odd nchan)
   k0 |-> 0, stride |-> 1, dly |-> 0, clo |-> 0]

(***************************************************************************)
(* Operations, as the code performs them                                   *)
(***************************************************************************)
\* Signal._time_slice + data[index] + like()
TimeSliceRec(s, a, b, c) ==
  LET ix == Indices(a, b, c, s.len)
      S  == Select(a, b, c, s.len)
  IN [s EXCEPT
        !.len = Cardinality(S),
        !.t0 = IF s.hasT THEN s.t0 + ix.start * s.per ELSE 0,
        !.per = s.per * ix.step,
        !.cbw = IF IsBaseband(s.cls) THEN QDiv(s.cbw, QI(ix.step)) ELSE s.cbw,
        !.k0 = IF S = {} THEN s.k0 + ix.start * s.per ELSE s.k0 + SetMin(S) * s.per,
        !.stride = s.stride * ix.step]

\* RadioSignal._freq_slice (refuses empty ranges)
FreqSliceOK(s, a, b) == LET ix == Indices(a, b, None, s.nchan) IN ix.stop > ix.start
FreqSliceRec(s, a, b) ==
  LET ix == Indices(a, b, None, s.nchan)
      n  == ix.stop - ix.start
  IN [s EXCEPT
        !.cf = QHalf(QAdd(Label(s, ix.start), Label(s, ix.stop - 1))),
        !.align = "center",
        !.nchan = n,
        !.clo = s.clo + ix.start]

=============================================================================
