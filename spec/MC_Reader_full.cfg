SPECIFICATION Spec
CONSTANTS
  Configs <- F_Configs
  Procs <- Q_Procs
  Args <- F_Args
  MaxReads = 2
  Shared = FALSE
VIEW View
INVARIANT TypeOK
INVARIANT ReadIsFunctionOfArgs
INVARIANT BoundsRefused
INVARIANT AdjacentReadsConcatenate
INVARIANT AdjacentStatic
INVARIANT OffsetTimeRoundTrip
CHECK_DEADLOCK FALSE
