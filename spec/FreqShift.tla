------------------------------ MODULE FreqShift ------------------------------
(***************************************************************************)
(* C04: pulsarbat.freq_shift(z, shift) -- moves the spectrum by the given  *)
(* amount and zeroes what leaves the band.                                 *)
(*                                                                         *)
(* OPERATIONAL (transforms.py):                                            *)
(*   shift -> Hz; `if shift.isscalar: shift = shift[None]`  (shape (1,))   *)
(*   refuse shift.ndim >= z.ndim                                           *)
(*   ft = shift[(slice(None),)*ndim + (None,)*rest] * dt     (leading axes)*)
(*   x = fftshift(fft(z * exp(2j pi ft n).astype(z.dtype)))  (broadcast)   *)
(*   zero loop over np.nditer(ft * len(x)) with multi_index  (ShiftOps)    *)
(*   like(z, ifft(ifftshift(x)))                                           *)
(* The loop runs over the UN-broadcast ft*N, which has a length-1 axis     *)
(* wherever the shift is broadcast -- for a scalar shift every axis.       *)
(* Fixed = FALSE is the loop of the current tree (writes at multi_index    *)
(* verbatim: only element (0,...,0) for a scalar), Fixed = TRUE the repair *)
(* (length-1 axes indexed with slice(None)).                               *)
(* The whole-bin product ft*N is a float: it may land just beyond the      *)
(* whole number, then ceil/floor clears one more bin.  `over` models that. *)
(*                                                                         *)
(* DECLARATIVE (per element e with its broadcast shift a_e, in bins):      *)
(* position j of the fftshift'ed output spectrum takes its content from    *)
(* position j - a_e; it is zero exactly if that source is outside the band *)
(* (content wrapped into it); whole-bin shifts are circular moves;         *)
(* |a_e| >= N (the bandwidth) gives zero; metadata unchanged.  For a       *)
(* whole-bin shift the single boundary bin is unconstrained.               *)
(***************************************************************************)
EXTENDS ShiftOps

CONSTANTS
  Ns,           \* signal lengths
  SShapes,      \* sample shapes (rank >= 1: baseband signals have a channel axis)
  Vals(_, _),   \* Vals(N, n): shift values in quarter bins for an n-entry shift array
  Fixed         \* TRUE: repaired zero loop; FALSE: loop of the current tree

VARIABLES phase, N, ssh, shsh, S, over, out,
          prev      \* layout (shift shape) of the previous call of the session, NoPrev for a first call
vars == <<phase, N, ssh, shsh, S, over, out, prev>>

Meta0 == [t0 |-> 0, per |-> 4, cls |-> "BasebandSignal", dtype |-> "in", cf |-> 0, align |-> "center"]

Op(n, sh, P, s, ov) ==
  LET Z == OpZeroO(n, sh, P, s, Fixed, ov)
  IN [zero |-> Z,
      \* whole-bin entries: mixing with exp(2 pi i a n / N) rotates the spectrum
      \* by a bins (DFT modulation theorem), then the zero loop
      sym |-> [c \in (0..(n - 1)) \X Elems(sh) |-> OpSym(n, ShiftOf(c[2], P, s), c[1], c \in Z)],
      meta |-> Meta0]                                           \* type(z).like(z, ...)

Init == /\ phase = "cfg"
        /\ N \in Ns /\ ssh \in SShapes /\ shsh \in ShiftShapes(ssh)
        /\ S = <<>> /\ out = <<>> /\ over = FALSE /\ prev = NoPrev
Call == /\ phase = "cfg"
        /\ phase' = "done"
        /\ over' \in BOOLEAN
        /\ LET P == PadF(shsh, Len(ssh))
           IN /\ S' \in [Elems(P) -> Vals(N, Cardinality(Elems(P)))]
              /\ out' = Op(N, ssh, P, S', over')
        /\ UNCHANGED <<N, ssh, shsh, prev>>
\* a second call on a like signal: the same values on another broadcast layout
\* (per channel [[a],[b]] then per polarisation [[a,b]])
Relayout ==
  /\ phase = "done" /\ prev = NoPrev
  /\ \E t \in ShiftShapes(ssh) :
       LET P == PadF(shsh, Len(ssh))
           P2 == PadF(t, Len(ssh))
       IN /\ P2 # P /\ Cardinality(Elems(P2)) = Cardinality(Elems(P))
          /\ shsh' = t /\ prev' = shsh
          /\ S' = Relaid(S, P, P2)
          /\ out' = Op(N, ssh, P2, S', over)
  /\ UNCHANGED <<phase, N, ssh, over>>
Next == Call \/ Relayout
Spec == Init /\ [][Next]_vars

P0 == PadF(shsh, Len(ssh))
Done == phase = "done"
Whole(e) == ShiftOf(e, P0, S) % 4 = 0

\* the unconstrained cell of a whole-bin shift: the first kept bin next to the cleared edge
FreePos(n, q) == IF q = 0 \/ q % 4 # 0 THEN {}
                 ELSE IF q > 0 THEN {j \in 0..(n - 1) : j = q \div 4}
                 ELSE {j \in 0..(n - 1) : j = n + q \div 4 - 1}
FreeCells == {c \in (0..(N - 1)) \X Elems(ssh) : c[1] \in FreePos(N, ShiftOf(c[2], P0, S))}

(***************************************************************************)
(* Invariants = clauses of the property                                    *)
(***************************************************************************)
\* every bin that content wrapped into is zero, for every element, and no other
\* (up to the boundary bin of whole-bin shifts)
ZeroBinsExact == Done => out.zero \ FreeCells = DeclZero(N, ssh, P0, S) \ FreeCells
\* only the boundary bin can differ, and only when the product overshot
BoundaryOnly == Done => /\ DeclZero(N, ssh, P0, S) \subseteq out.zero
                        /\ (~over => out.zero = DeclZero(N, ssh, P0, S))
\* whole-bin shifts are circular moves of the spectrum with nothing wrapping
WholeBinIsCircularMove ==
  Done => \A e \in Elems(ssh) : Whole(e) =>
             \A j \in (0..(N - 1)) \ FreePos(N, ShiftOf(e, P0, S)) :
                out.sym[<<j, e>>] = DeclSym(N, ShiftOf(e, P0, S), j)
\* a shift of a full bandwidth or more leaves nothing
BeyondBandIsZero ==
  Done => \A e \in Elems(ssh) :
            (ShiftOf(e, P0, S) >= 4 * N \/ ShiftOf(e, P0, S) <= -4 * N)
              => \A j \in 0..(N - 1) : <<j, e>> \in out.zero
MetaUnchanged == Done => out.meta = Meta0
=============================================================================
