------------------------------- MODULE Ufunc -------------------------------
(***************************************************************************)
(* C17 - elementwise NumPy operations on pulsarbat signals.                *)
(*                                                                         *)
(* Two layers are written down operationally, the way the code runs:       *)
(*                                                                         *)
(*  1. NumPy's __array_ufunc__ override resolution                         *)
(*     (numpy/_core/src/umath/override.c):  the operands are the inputs    *)
(*     followed by the given out= objects; of every exact Python type only *)
(*     the first instance that overrides __array_ufunc__ is kept; then,    *)
(*     repeatedly, the leftmost remaining one that has no instance of a    *)
(*     strict subclass to its right is called; NotImplemented passes on    *)
(*     to the next round; when nobody is left a TypeError is raised.       *)
(*     Quantity and dask.array.Array also override __array_ufunc__; both   *)
(*     return NotImplemented when a Signal is among the operands           *)
(*     (astropy: ndarray.__array_ufunc__ declines / the except branch of   *)
(*     Quantity.__array_ufunc__; dask: _should_delegate), so in either     *)
(*     operand order the call ends in Signal.__array_ufunc__.              *)
(*                                                                         *)
(*  2. pulsarbat.core.Signal.__array_ufunc__ : refusal of every method     *)
(*     other than __call__ and of matmul, unwrap of Signal inputs and outs *)
(*     to .data, the inner call, rewrap of every result without an out     *)
(*     object through type(self).like(self, a) (which runs the class's     *)
(*     dtype contract: keep / safe cast to the first required dtype /      *)
(*     InvalidSignalError), given out objects returned as they are.        *)
(*                                                                         *)
(* Two behaviours that are defined by NumPy / astropy rather than by       *)
(* pulsarbat are modelled as those libraries define them and are NOT       *)
(* alarms:  (a) when a later operand is an instance of a strict subclass   *)
(* of an earlier signal's class, NumPy calls the subclass instance first,  *)
(* so the result carries the subclass's type and metadata (DeclResolved;   *)
(* FirstSignalUnlessSubclass states that this is the only exception to     *)
(* "the first signal operand"); (b) `Quantity == Signal` and               *)
(* `Quantity != Signal` are answered by astropy's Quantity.__eq__/__ne__   *)
(* without consulting the signal: a plain boolean array comes back         *)
(* (QtyEqStep).                                                            *)
(*                                                                         *)
(* Error paths are part of the model (round 3): the inner call may raise   *)
(* (rk[1] = "raise": no loop for the dtype, unit mismatch ...) and the     *)
(* exception propagates ("InnerError"); a result whose dtype NumPy may not *)
(* store in the out array under its default casting="same_kind" rule       *)
(* (SameKind over bool < unsigned < signed < float < complex, Fits) makes  *)
(* the call raise ("UFuncTypeError") with every operand untouched.         *)
(* ErrorsAsOnArrays states that signals raise exactly where the bare       *)
(* arrays do.  Fresh results have a new heap index: the replayer reads     *)
(* that as a new object, a buffer shared with no operand and a meta dict   *)
(* of its own, and writes into the result afterwards to see the operands   *)
(* stay bit-identical.                                                     *)
(*                                                                         *)
(* The sample values are uninterpreted terms App(u, k, operand terms)      *)
(* (output k of ufunc u); the replayer gives them a value by applying the  *)
(* same ufunc to the raw arrays.  The property is stated declaratively     *)
(* (Judge) and compared with the operational outcome after every step.     *)
(***************************************************************************)
EXTENDS Integers, Sequences, FiniteSets, TLC

CONSTANTS
  Heaps,       \* initial heaps: sequences of object descriptors (a class name, "arr", "scal", "qty", "dask");
               \* "scal" is ANY operand type that does not override __array_ufunc__ and is converted by
               \* NumPy itself (Python numbers, every NumPy scalar type, 0-d arrays, list, tuple, range,
               \* array.array, memoryview ...: the replayer's catalogue ufunc_replay.SCAL_KINDS) - the
               \* handler must not look at it, only the inner call may refuse it (InnerError)
  Ufuncs,      \* records [name, nin, nout]
  Methods,     \* subset of {"call","reduce","accumulate","reduceat","outer","at"}
  DKinds,      \* abstract dtypes the inner call may return
  OutRK,       \* abstract dtypes the inner call may compute for a slot that has an out object
               \* ("-": one that may be stored there, "!": one that may not, or real dtypes)
  AsDtypes,    \* dtypes requested from np.asarray / np.array ("none" = not given)
  MaxDepth,    \* number of steps
  FreeDepth,   \* steps beyond this depth are in-place operator forms only (chains)
  Canonical,   \* TRUE: the first step uses every heap object, in first-use order (case generation)
  Variant,     \* "real" or the name of a wrong __array_ufunc__ (negative models)
  ArrayProto   \* "fixed": __array__(self, dtype=None, copy=None);  "pinned": __array__(self)

VARIABLES heap0, heap, hist, chk
vars == <<heap0, heap, hist, chk>>

(***************************************************************************)
(* Class lattice and dtype contract                                        *)
(***************************************************************************)
SigClasses == {"Signal", "RadioSignal", "IntensitySignal", "FullStokesSignal",
               "BasebandSignal", "DualPolarizationSignal"}
Parent(c) == CASE c = "RadioSignal" -> "Signal"
               [] c = "IntensitySignal" -> "RadioSignal"
               [] c = "FullStokesSignal" -> "IntensitySignal"
               [] c = "BasebandSignal" -> "RadioSignal"
               [] c = "DualPolarizationSignal" -> "BasebandSignal"
               [] OTHER -> "object"
RECURSIVE IsSub(_, _)
IsSub(c, d) == IF c = d THEN TRUE
               ELSE IF c \in {"Signal", "object"} THEN FALSE
               ELSE IsSub(Parent(c), d)
StrictSub(c, d) == c # d /\ IsSub(c, d)

InSeq(x, s) == \E i \in 1..Len(s) : s[i] = x
\* _req_dtype of the class
Req(c) == CASE c \in {"IntensitySignal", "FullStokesSignal"} -> <<"f8", "f4">>
            [] c \in {"BasebandSignal", "DualPolarizationSignal"} -> <<"c16", "c8">>
            [] OTHER -> <<>>
\* numpy.can_cast(d, t, "safe") for the two targets that occur
SafeTo(d, t) == CASE t = "f8" -> d \in {"b1", "uint", "int", "f2", "f4", "f8"}
                  [] t = "c16" -> d \in {"b1", "uint", "int", "f2", "f4", "f8", "c8", "c16"}
                  [] OTHER -> FALSE
\* Signal.__init__: dtype kept / cast to _req_dtype[0] / refused
Admit(c, d) == IF Req(c) = <<>> \/ InSeq(d, Req(c)) THEN d
               ELSE IF SafeTo(d, Req(c)[1]) THEN Req(c)[1]
               ELSE "refuse"
DefaultDk(c) == IF Req(c) = <<>> THEN "f8" ELSE Req(c)[1]

\* Storing a ufunc result into an out array: NumPy's default rule is
\* casting="same_kind", i.e. numpy.can_cast(from, to, "same_kind"): along
\* bool < unsigned < signed < float < complex only upwards or within a kind,
\* whatever the sizes and byte orders; anything may be stored as object.
CastRank(d) == CASE d = "b1" -> 0 [] d = "uint" -> 1 [] d = "int" -> 2
                 [] d \in {"f2", "f4", "f8", "f16"} -> 3 [] d \in {"c8", "c16", "c32"} -> 4 [] OTHER -> 9
Numeric(d) == CastRank(d) < 9
SameKind(a, b) == IF b = "obj" THEN TRUE
                  ELSE IF Numeric(a) /\ Numeric(b) THEN CastRank(a) <= CastRank(b)
                  ELSE a = b
\* r: what the loop computes for the slot; o: dtype of the out array ("-": not a
\* NumPy array or unknown - dask stores anything)
Fits(r, o) == IF r = "!" THEN FALSE ELSE IF r = "-" \/ o = "-" THEN TRUE ELSE SameKind(r, o)

(***************************************************************************)
(* Data terms and heap objects                                             *)
(***************************************************************************)
Root(i)         == [op |-> "root", u |-> "-", k |-> i, d |-> "-", args |-> <<>>]
App(u, k, args) == [op |-> "app",  u |-> u,   k |-> k, d |-> "-", args |-> args]
Cast(t, d)      == [op |-> "cast", u |-> "-", k |-> 0, d |-> d,   args |-> <<t>>]

\* meta = identity of the signal whose metadata (sample_rate, start_time,
\* center_freq, chan_bw, freq_align, pol_type, meta) the object carries
MkObj(descr, i) ==
  IF descr \in SigClasses
  THEN [kind |-> "sig", cls |-> descr, meta |-> i, dk |-> DefaultDk(descr), term |-> Root(i)]
  ELSE [kind |-> descr, cls |-> "-", meta |-> 0, dk |-> "-", term |-> Root(i)]
MkHeap(ds) == [i \in 1..Len(ds) |-> MkObj(ds[i], i)]

(***************************************************************************)
(* 1. NumPy override resolution                                            *)
(***************************************************************************)
TypeOf(o) == IF o.kind = "sig" THEN o.cls ELSE o.kind
HasOverride(o) == o.kind \in {"sig", "qty", "dask"}
\* isinstance(a, type(b)) and type(a) is not type(b)
StrictInst(a, b) == a.kind = "sig" /\ b.kind = "sig" /\ StrictSub(a.cls, b.cls)

NonZero(x) == x # 0
Args(ins, outs) == ins \o SelectSeq(outs, NonZero)
RemoveAt(s, i) == SubSeq(s, 1, i - 1) \o SubSeq(s, i + 1, Len(s))

\* get_array_ufunc_overrides: first instance of every overriding type
RECURSIVE Uniq(_, _, _)
Uniq(h, args, acc) ==
  IF args = <<>> THEN acc
  ELSE LET x == Head(args)
           seen == \E j \in 1..Len(acc) : TypeOf(h[acc[j]]) = TypeOf(h[x])
       IN Uniq(h, Tail(args), IF HasOverride(h[x]) /\ ~seen THEN Append(acc, x) ELSE acc)
NoSubRight(h, W, i) == ~\E j \in (i + 1)..Len(W) : StrictInst(h[W[j]], h[W[i]])
\* one round of PyUFunc_CheckOverride: leftmost entry without a subtype to its right
PickNext(h, W) == CHOOSE i \in 1..Len(W) :
                    NoSubRight(h, W, i) /\ \A i2 \in 1..(i - 1) : ~NoSubRight(h, W, i2)
RECURSIVE Order(_, _)
Order(h, W) == IF W = <<>> THEN <<>>
               ELSE LET i == PickNext(h, W) IN <<W[i]>> \o Order(h, RemoveAt(W, i))
Resolution(h, ins, outs) == Order(h, Uniq(h, Args(ins, outs), <<>>))

(***************************************************************************)
(* 2. Signal.__array_ufunc__                                               *)
(***************************************************************************)
Unwrap(h, ins) == [j \in 1..Len(ins) |-> h[ins[j]].term]
IsSigIdx(h, i) == h[i].kind = "sig"
SigArgs(h, A) == SelectSeq(A, LAMBDA x : IsSigIdx(h, x))

NoRes == [how |-> "-", idx |-> 0, cls |-> "-", meta |-> 0, dk |-> "-", term |-> Root(0)]
\* type(ref_cls).like(ref, a): class of refc, metadata of refm
Rewrap(h, refc, refm, t, d) ==
  LET a == Admit(h[refc].cls, d)
  IN [how |-> IF a = "refuse" THEN "refuse" ELSE "new", idx |-> 0,
      cls |-> h[refc].cls, meta |-> h[refm].meta, dk |-> a,
      term |-> IF a = d \/ a = "refuse" THEN t ELSE Cast(t, a)]
Given(h, o) == [how |-> "out", idx |-> o, cls |-> h[o].cls, meta |-> h[o].meta, dk |-> h[o].dk, term |-> Root(0)]

Refused(u, m) ==
  CASE Variant = "reduce_through" -> (m \notin {"call", "reduce"}) \/ u.name = "matmul"
    [] Variant = "matmul_through" -> m # "call"
    [] OTHER -> m # "call" \/ u.name = "matmul"

\* result of the handler when called on operand `self`:
\*   [ni |-> TRUE]  (NotImplemented)   or   [ni |-> FALSE, err, res]
\*   err: "InnerError" - the inner call ufunc(*arrays) raised (no loop for the dtype,
\*        unit mismatch, ...; rk[1] = "raise" stands for that), the exception propagates;
\*        "UFuncTypeError" - the inner call refused to store a result in an out array
\*        (same_kind rule); nothing has been written and nothing is returned
SigHandle(h, self, u, m, ins, outs, rk) ==
  IF Refused(u, m) THEN [ni |-> TRUE, err |-> "-", res |-> <<>>]
  ELSE IF Len(rk) > 0 /\ rk[1] = "raise" THEN [ni |-> FALSE, err |-> "InnerError", res |-> <<>>]
  ELSE IF Variant # "cast_unsafe" /\ \E k \in 1..Len(outs) : outs[k] # 0 /\ ~Fits(rk[k], h[outs[k]].dk)
       THEN [ni |-> FALSE, err |-> "UFuncTypeError", res |-> <<>>]
  ELSE
    LET inT  == Unwrap(h, ins)
        nres == IF m = "call" THEN u.nout ELSE 1
        sigins == SigArgs(h, ins)
        refm == IF Variant = "meta_last" /\ sigins # <<>> THEN sigins[Len(sigins)]
                ELSE IF Variant = "wrap_inputs0" THEN ins[1] ELSE self
        refc == IF Variant = "wrap_inputs0" THEN ins[1] ELSE self
        one(k) == IF outs[k] # 0 /\ Variant # "out_not_returned" THEN Given(h, outs[k])
                  ELSE Rewrap(h, refc, refm, App(u.name, k, inT), IF outs[k] # 0 THEN h[outs[k]].dk ELSE rk[k])
        all == [k \in 1..nres |-> one(k)]
    IN IF Variant = "wrap_inputs0" /\ h[ins[1]].kind # "sig"
       THEN [ni |-> FALSE, err |-> "AttributeError", res |-> <<>>]
       ELSE [ni |-> FALSE, err |-> "-",
             res |-> IF Variant = "nout2_first" THEN SubSeq(all, 1, 1) ELSE all]

\* NumPy calls the handlers in resolution order until one does not decline
RECURSIVE TryAll(_, _, _, _, _, _, _)
TryAll(h, ord, u, m, ins, outs, rk) ==
  IF ord = <<>> THEN [self |-> 0, ni |-> TRUE, err |-> "-", res |-> <<>>]
  ELSE LET x == Head(ord)
       IN IF h[x].kind = "sig"
          THEN LET r == SigHandle(h, x, u, m, ins, outs, rk)
               IN IF r.ni THEN TryAll(h, Tail(ord), u, m, ins, outs, rk)
                  ELSE [self |-> x, ni |-> FALSE, err |-> r.err, res |-> r.res]
          ELSE \* Quantity / dask Array: decline because a Signal is among the operands
               TryAll(h, Tail(ord), u, m, ins, outs, rk)

\* complete outcome of   ufunc.method(*ins, out=outs)
\*   st, self, res (returned objects, in order), heap (post-state)
Outcome(h, u, m, ins, outs, rk) ==
  LET r == TryAll(h, Resolution(h, ins, outs), u, m, ins, outs, rk)
  IN IF r.ni THEN [st |-> "TypeError", self |-> 0, res |-> <<>>, heap |-> h]
     ELSE IF r.err # "-" THEN [st |-> r.err, self |-> r.self, res |-> <<>>, heap |-> h]
     ELSE
       LET inT == Unwrap(h, ins)
           \* the inner call has written into every given out object
           hw == [i \in 1..Len(h) |->
                    IF \E k \in 1..Len(outs) : outs[k] = i
                    THEN [h[i] EXCEPT !.term = App(u.name, CHOOSE k \in 1..Len(outs) : outs[k] = i, inT)]
                    ELSE h[i]]
           bad == \E k \in 1..Len(r.res) : r.res[k].how = "refuse"
           news == SelectSeq(r.res, LAMBDA x : x.how = "new")
           \* heap index of result k: a given out keeps its index, new objects are appended
           NewBefore(k) == Cardinality({j \in 1..k : r.res[j].how = "new"})
           res2 == [k \in 1..Len(r.res) |->
                      IF r.res[k].how = "new" THEN [r.res[k] EXCEPT !.idx = Len(h) + NewBefore(k)] ELSE r.res[k]]
           h2 == hw \o [j \in 1..Len(news) |->
                          [kind |-> "sig", cls |-> news[j].cls, meta |-> news[j].meta,
                           dk |-> news[j].dk, term |-> news[j].term]]
       IN IF bad THEN [st |-> "ValueError", self |-> r.self, res |-> <<>>, heap |-> hw]
          ELSE [st |-> "ok", self |-> r.self, res |-> res2, heap |-> h2]

(***************************************************************************)
(* np.asarray / np.array on a signal                                       *)
(***************************************************************************)
\* what NumPy does with a plain array x of dtype dk:  np.array(x, dtype=d, copy=cp)
RawArray(t, dk, d, cp) ==
  LET need == d # "none" /\ d # dk
  IN IF need /\ cp = "false" THEN [st |-> "ValueError", term |-> t]
     ELSE [st |-> "ok", term |-> IF need THEN Cast(t, d) ELSE t]
\* the same request on a signal goes through Signal.__array__
SigArray(o, d, cp) ==
  IF ArrayProto = "pinned"
  THEN IF d # "none" THEN [st |-> "TypeError", term |-> o.term]       \* __array__() takes 1 positional argument
       ELSE IF cp = "false" THEN [st |-> "ValueError", term |-> o.term] \* no copy keyword: NumPy cannot promise no copy
       ELSE [st |-> "ok", term |-> o.term]
  ELSE RawArray(o.term, o.dk, d, cp)

(***************************************************************************)
(* The property, declaratively                                             *)
(***************************************************************************)
\* the signal operand NumPy resolves first: the first signal operand (inputs,
\* then out objects) that has no instance of a strict subclass to its right
DeclResolved(h, A) ==
  LET S == SigArgs(h, A)
      ok(i) == ~\E j \in (i + 1)..Len(S) : StrictInst(h[S[j]], h[S[i]])
  IN S[CHOOSE i \in 1..Len(S) : ok(i) /\ \A i2 \in 1..(i - 1) : ~ok(i2)]
LaterSubclass(h, A) ==
  LET S == SigArgs(h, A)
  IN \E i \in 1..Len(S) : \E j \in (i + 1)..Len(S) : StrictInst(h[S[j]], h[S[i]])
FirstSignal(h, A) == SigArgs(h, A)[1]

AllTrue == [wraps |-> TRUE, first |-> TRUE, values |-> TRUE, outret |-> TRUE, outmeta |-> TRUE,
            refusal |-> TRUE, frame |-> TRUE, contract |-> TRUE, asarray |-> TRUE, errors |-> TRUE]

Judge(h, u, m, ins, outs, rk, oc) ==
  LET A == Args(ins, outs)
      D == DeclResolved(h, A)
      mustRefuse == m # "call" \/ u.name = "matmul"
      inT == Unwrap(h, ins)
      \* what the same call does on the bare arrays: raises / refuses to store / goes through
      innerRaises == ~mustRefuse /\ Len(rk) > 0 /\ rk[1] = "raise"
      castRefuses == ~mustRefuse /\ ~innerRaises /\ \E k \in 1..Len(outs) : outs[k] # 0 /\ ~Fits(rk[k], h[outs[k]].dk)
      proceeds == ~mustRefuse /\ ~innerRaises /\ ~castRefuses
      \* (an inner call that raises half-way may have written: nothing is claimed about its targets)
      written == IF proceeds \/ innerRaises THEN {outs[k] : k \in 1..Len(outs)} \ {0} ELSE {}
      ok == oc.st = "ok"
      free == {k \in 1..Len(outs) : outs[k] = 0}
      contractRefuses == proceeds /\ \E k \in free : Admit(h[D].cls, rk[k]) = "refuse"
  IN [AllTrue EXCEPT
      \* Reductions, accumulations, outer, at and matmul raise TypeError and change nothing
      !.refusal = IF mustRefuse THEN oc.st = "TypeError" /\ oc.heap = h ELSE oc.st # "TypeError",
      \* one result per output; results without an out object are signals of the
      \* class of D carrying the metadata of D
      !.wraps = (proceeds /\ ~contractRefuses) =>
                  /\ ok /\ Len(oc.res) = u.nout /\ oc.self = D
                  /\ \A k \in free :
                       LET r == oc.res[k] IN
                         /\ r.how = "new" /\ r.idx > Len(h)
                         /\ oc.heap[r.idx].kind = "sig"
                         /\ oc.heap[r.idx].cls = h[D].cls
                         /\ oc.heap[r.idx].meta = h[D].meta,
      \* "the first signal operand", whenever no later operand is of a strict subclass
      !.first = (ok /\ ~LaterSubclass(h, A)) => oc.self = FirstSignal(h, A),
      \* values are those of the same ufunc on the underlying arrays (up to the
      \* class's safe cast), both for fresh results and inside out objects
      !.values = (ok /\ Len(oc.res) = u.nout) => \A k \in 1..u.nout :
                   LET t == App(u.name, k, inT)
                       got == oc.heap[oc.res[k].idx].term
                   IN IF k \in free
                      THEN got = (IF Admit(h[D].cls, rk[k]) = rk[k] THEN t ELSE Cast(t, Admit(h[D].cls, rk[k])))
                      ELSE got = t,
      \* given out objects are returned themselves ...
      !.outret = (ok /\ Len(oc.res) = u.nout) => \A k \in 1..u.nout : outs[k] # 0 => (oc.res[k].how = "out" /\ oc.res[k].idx = outs[k]),
      \* ... and nobody's class or metadata ever changes (in particular not the out object's)
      !.outmeta = \A i \in 1..Len(h) : /\ oc.heap[i].kind = h[i].kind /\ oc.heap[i].cls = h[i].cls
                                       /\ oc.heap[i].meta = h[i].meta /\ oc.heap[i].dk = h[i].dk,
      \* operands that are not an out target are left as they were
      !.frame = \A i \in 1..Len(h) : i \notin written => oc.heap[i] = h[i],
      \* a result outside the class's dtype set is refused with ValueError, never wrapped
      \* what raises on the bare arrays raises on signals: an inner error propagates, a result
      \* that NumPy would not store in the out array (same_kind) is not stored in the signal
      \* either - the call raises and leaves every operand as it was
      !.errors = /\ (oc.st = "InnerError") = innerRaises
                 /\ (oc.st = "UFuncTypeError") = castRefuses
                 /\ castRefuses => oc.heap = h,
      !.contract = /\ (oc.st = "ValueError") = contractRefuses
                   /\ \A i \in 1..Len(oc.heap) :
                        oc.heap[i].kind = "sig" => Admit(oc.heap[i].cls, oc.heap[i].dk) = oc.heap[i].dk]

(***************************************************************************)
(* State machine                                                           *)
(***************************************************************************)
OutCand(h) == {i \in 1..Len(h) : h[i].kind \in {"sig", "arr", "qty"}}
HasSig(h, A) == \E i \in 1..Len(A) : h[A[i]].kind = "sig"

\* distinct indices of A in order of first use
RECURSIVE FirstUse(_, _)
FirstUse(A, acc) == IF A = <<>> THEN acc
                    ELSE FirstUse(Tail(A), IF InSeq(Head(A), acc) THEN acc ELSE Append(acc, Head(A)))
UsesAllInOrder(h, A) == FirstUse(A, <<>>) = [i \in 1..Len(h) |-> i]

\* number of array operands / out slots of each calling form
NIns(u, m) == CASE m \in {"reduce", "accumulate", "reduceat"} -> 1
                [] m = "outer" -> 2
                [] OTHER -> u.nin
NOuts(u, m) == CASE m = "call" -> u.nout [] m = "at" -> 0 [] OTHER -> 1
MethodOK(u, m) == CASE m = "call" -> TRUE
                    [] m = "at" -> u.nout = 1
                    [] OTHER -> u.nin = 2 /\ u.nout = 1

Step(rec, oc, j) ==
  /\ heap' = oc.heap
  /\ hist' = Append(hist, rec)
  /\ chk' = j
  /\ UNCHANGED heap0

UfuncRec(u, m, ins, outs, rk, oc) ==
  [act |-> "ufunc", u |-> u.name, nin |-> u.nin, nout |-> u.nout, m |-> m, ins |-> ins, outs |-> outs,
   rk |-> rk, d |-> "-", cp |-> "-", st |-> oc.st, self |-> oc.self,
   res |-> [k \in 1..Len(oc.res) |-> [how |-> oc.res[k].how, idx |-> oc.res[k].idx, cls |-> oc.res[k].cls,
                                      meta |-> oc.res[k].meta, dk |-> oc.res[k].dk]],
   sub |-> IF HasSig(heap, Args(ins, outs)) THEN LaterSubclass(heap, Args(ins, outs)) ELSE FALSE]

UfuncStep ==
  \E u \in Ufuncs, m \in Methods :
    /\ MethodOK(u, m)
    /\ \E ins \in [1..NIns(u, m) -> 1..Len(heap)], outs \in [1..NOuts(u, m) -> {0} \cup OutCand(heap)] :
         /\ \A k1, k2 \in 1..Len(outs) : (k1 # k2 /\ outs[k1] # 0) => outs[k1] # outs[k2]
         /\ HasSig(heap, Args(ins, outs))
         /\ (Canonical /\ hist = <<>>) => UsesAllInOrder(heap, Args(ins, outs))
         /\ Len(hist) >= FreeDepth => (m = "call" /\ u.nout = 1 /\ outs = <<ins[1]>>)
         /\ \E rk \in [1..NOuts(u, m) -> DKinds \cup OutRK \cup {"-", "raise"}] :
              /\ LET live == m = "call" /\ u.name # "matmul" IN
                   \/ \* the inner call raises
                      /\ live /\ Len(hist) < FreeDepth /\ Len(rk) > 0
                      /\ rk[1] = "raise" /\ \A k \in 2..Len(rk) : rk[k] = "-"
                   \/ /\ \A k \in 1..Len(outs) :
                           IF ~live THEN rk[k] = "-"
                           ELSE IF outs[k] = 0 THEN rk[k] \in DKinds
                           ELSE rk[k] \in OutRK
                      \* case generation: a refused store does not depend on the other slots
                      /\ (Canonical /\ \E k \in 1..Len(outs) : rk[k] = "!") =>
                           \A k \in 1..Len(outs) : outs[k] = 0 => rk[k] = "f8"
              /\ LET oc == Outcome(heap, u, m, ins, outs, rk)
                 IN Step(UfuncRec(u, m, ins, outs, rk, oc), oc, Judge(heap, u, m, ins, outs, rk, oc))

AsArrayStep ==
  /\ Len(hist) < FreeDepth \/ Len(hist) = MaxDepth - 1
  /\ \E i \in 1..Len(heap), d \in AsDtypes, cp \in {"none", "true", "false"} :
       /\ heap[i].kind = "sig"
       /\ (Canonical /\ hist = <<>>) => Len(heap) = 1
       /\ LET got == SigArray(heap[i], d, cp)
              raw == RawArray(heap[i].term, heap[i].dk, d, cp)
              h2 == IF got.st = "ok"
                    THEN Append(heap, [kind |-> "arr", cls |-> "-", meta |-> 0, dk |-> "-", term |-> got.term])
                    ELSE heap
          IN Step([act |-> "asarray", u |-> "-", nin |-> 1, nout |-> 1, m |-> "-", ins |-> <<i>>, outs |-> <<>>,
                   rk |-> <<>>, d |-> d, cp |-> cp, st |-> got.st, self |-> i,
                   res |-> <<>>, sub |-> FALSE],
                  [st |-> got.st, heap |-> h2],
                  \* converting a signal yields exactly what converting its data yields
                  [AllTrue EXCEPT !.asarray = got = raw])

(***************************************************************************)
(* astropy's == and != with a Quantity on the left.  Quantity.__eq__ /     *)
(* __ne__ do not go through NumPy's override protocol: they convert the    *)
(* other operand themselves (Signal.__array__) and compare the values, so  *)
(* neither Signal.__array_ufunc__ nor a reflected Signal method is ever    *)
(* consulted.  The result is a plain boolean array (a plain bool when the  *)
(* units do not match) holding the values of the same comparison on the    *)
(* data - it cannot be wrapped by pulsarbat.  Modelled as astropy defines  *)
(* it; the wrapping clause does not apply (documented, not an alarm).      *)
(***************************************************************************)
QtyEqStep ==
  /\ Len(hist) < FreeDepth
  /\ \E q, s \in 1..Len(heap) :
       /\ heap[q].kind = "qty" /\ heap[s].kind = "sig"
       /\ (Canonical /\ hist = <<>>) => (Len(heap) = 2 /\ q = 1 /\ s = 2)
       /\ LET t == App("eq", 1, <<heap[q].term, heap[s].term>>)
              h2 == Append(heap, [kind |-> "arr", cls |-> "-", meta |-> 0, dk |-> "-", term |-> t])
          IN Step([act |-> "qty_eq", u |-> "eq", nin |-> 2, nout |-> 1, m |-> "-", ins |-> <<q, s>>, outs |-> <<>>,
                   rk |-> <<>>, d |-> "-", cp |-> "-", st |-> "ok", self |-> 0,
                   res |-> <<[how |-> "plain", idx |-> Len(heap) + 1, cls |-> "-", meta |-> 0, dk |-> "b1"]>>,
                   sub |-> FALSE],
                  [st |-> "ok", heap |-> h2],
                  \* values of the comparison on the data; operands untouched
                  [AllTrue EXCEPT !.values = h2[Len(h2)].term = App("eq", 1, Unwrap(heap, <<q, s>>)),
                                  !.frame = \A i \in 1..Len(heap) : h2[i] = heap[i]])

Init == /\ heap0 \in Heaps
        /\ heap = MkHeap(heap0)
        /\ hist = <<>>
        /\ chk = AllTrue

Next == /\ Len(hist) < MaxDepth
        /\ (UfuncStep \/ AsArrayStep \/ QtyEqStep)

Spec == Init /\ [][Next]_vars

(***************************************************************************)
(* Invariants (one per clause of the property)                             *)
(***************************************************************************)
WrapsAsResolvedSignal == chk.wraps /\ chk.values
FirstSignalUnlessSubclass == chk.first
OutIsReturned == chk.outret
OutKeepsOwnMeta == chk.outmeta
Refusals == chk.refusal
InputsUnchanged == chk.frame
DtypeContract == chk.contract
AsArrayIsData == chk.asarray
ErrorsAsOnArrays == chk.errors
\* the operational resolution loop and the declarative reading agree on every heap reached
ResolutionAgrees ==
  hist = <<>> =>
  \A a, b \in 1..Len(heap) : \A c \in 0..Len(heap) :
    LET ins == <<a, b>>  outs == <<c>> IN
      HasSig(heap, Args(ins, outs)) =>
        LET ord == Resolution(heap, ins, outs)
            firstSig == SelectSeq(ord, LAMBDA x : IsSigIdx(heap, x))[1]
        IN firstSig = DeclResolved(heap, Args(ins, outs))

View == <<heap, Len(hist), chk>>
=============================================================================
