----------------------------- MODULE Trace_Phase -----------------------------
(***************************************************************************)
(* Trace validation for C07 and C15: every event was recorded from the     *)
(* real pulsarbat.Phase class (harness/phase_drv.py); doubles arrive as    *)
(* exact rationals {p, q} (BigInt limbs), text as byte sequences.  TLC     *)
(* recomputes the exact result with the operators of Phase.tla /           *)
(* PhaseText.tla and names the clauses an event violates.  Clause names    *)
(* starting with "~" are not violations (event outside the property's      *)
(* scope, or on a decision boundary): the harness only counts them.        *)
(*                                                                         *)
(*   operand  X = [k: kind, im: BOOLEAN, v: <<rat, ...>>]  (parts summed)  *)
(*   result   [t: type name, im, i: rat, f: rat]  or  [exc: name]          *)
(***************************************************************************)
EXTENDS TraceBase, FiniteSets, Fix, Phase, PhaseText
VARIABLES pos, nbad

Has(r, fld) == fld \in DOMAIN r
RECURSIVE SumParts(_, _, _)
SumParts(v, i, acc) == IF i > Len(v) THEN acc ELSE SumParts(v, i + 1, RAdd(acc, v[i]))
XVal(x) == PV(IF Len(x.v) = 1 THEN x.v[1] ELSE SumParts(x.v, 2, x.v[1]), x.im)
IsCycleKind(x) == x.k \in CycleKinds

(* clauses every Phase result must satisfy, given the exact expected value *)
PhaseResult(res, v, im, flagFree) ==
  IF Has(res, "exc") THEN {"raises"}
  ELSE IF res.t # "Phase" THEN {"not-a-Phase"}
  ELSE (IF Normalised(res.i, res.f) THEN {} ELSE {"not-normalised"})
       \cup (IF Represents(res.i, res.f, v) THEN {} ELSE {"value"})
       \cup (IF flagFree \/ RSign(v) = 0 \/ res.im = im THEN {} ELSE {"imaginary-flag"})

(***************************************************************************)
(* C07: construction and arithmetic                                        *)
(***************************************************************************)
ArithFailed(e) ==
  LET op    == e.op
      unary == op \in {"neg", "abs", "pos", "new1"}
      L     == XVal(e.l)
      Rv    == IF unary THEN L ELSE XVal(e.r)
      spec  == IF unary THEN Apply1(op, L) ELSE Apply2(op, L, Rv)
      \* operands that are phases / cycle numbers must be in scope too
      scopeL == (op \in {"mul", "div"} /\ e.ord = "op") \/ InScope(L.v)
      scopeR == (op \in {"mul", "div"} /\ e.ord = "po") \/ InScope(Rv.v)
  IN IF ~spec.ok \/ ~MustBePhase(op, e.other, e.ord) THEN {"~not-demanded"}
     ELSE IF ~(InScope(spec.v) /\ scopeL /\ scopeR) THEN {"~out-of-scope"}
     ELSE PhaseResult(e.res, spec.v, spec.im, FALSE)

(* floor_divide / remainder / divmod of real phases.  Near a multiple of   *)
(* the divisor (closer than 2^-52 cycle, but not on it) the neighbouring   *)
(* quotient is a rounding decision, not an error: "~ambiguous-floor".      *)
DivFailed(e) ==
  LET a  == XVal(e.l)
      d  == XVal(e.r)
  IN IF ~(e.ord = "po" /\ e.other \in CycleKinds /\ DivDefined(a, d)) THEN {"~not-demanded"}
     ELSE
     LET qx    == PQuot(a, d)
         rx    == PRem(a, d).v
     IN IF ~(InScope(a.v) /\ InScope(d.v) /\ InScope(RInt(qx))) THEN {"~out-of-scope"}
        ELSE IF Has(e, "exc") THEN {"raises"}
        ELSE
        LET nearD == RSign(RSub(d.v, rx)) # 0 /\ RLe(RAbs(RSub(d.v, rx)), Tol52)   \* just below a multiple
            near0 == RSign(rx) # 0 /\ RLe(RAbs(rx), Tol52)                         \* just above a multiple
            hasQ  == Has(e, "q")
            hasR  == Has(e, "res")
            \* which of the three candidate quotients was used: 0 exact, 1 / -1 neighbours, 2 none
            qcase == IF ~hasQ THEN 9
                     ELSE IF REq(e.q, RInt(qx)) THEN 0
                     ELSE IF REq(e.q, RInt(Add(qx, One))) THEN 1
                     ELSE IF REq(e.q, RInt(Sub(qx, One))) THEN -1 ELSE 2
            RemIs(v) == hasR /\ ~Has(e.res, "exc") /\ e.res.t = "Phase" /\ Represents(e.res.i, e.res.f, v)
            rcase == IF ~hasR THEN 9
                     ELSE IF RemIs(rx) THEN 0
                     ELSE IF RemIs(RSub(rx, d.v)) THEN 1
                     ELSE IF RemIs(RAdd(rx, d.v)) THEN -1 ELSE 2
            shape == IF hasR THEN PhaseResult(e.res, e.res.i, FALSE, TRUE) \ {"value"} ELSE {}
            \* remainder of the right sign: r in [0, d) resp. (d, 0], up to the tolerance
            c     == IF qcase # 9 THEN qcase ELSE rcase
            cons  == (qcase = 9 \/ rcase = 9 \/ qcase = rcase)
        IN IF shape # {} THEN shape
           ELSE IF c = 0 /\ cons THEN {}
           ELSE IF c = 1 /\ cons /\ nearD THEN {"~ambiguous-floor"}
           ELSE IF c = -1 /\ cons /\ near0 THEN {"~ambiguous-floor"}
           ELSE (IF qcase \in {9, 0} THEN {} ELSE {"quotient"})
                \cup (IF rcase \in {9, 0} THEN {} ELSE {"remainder"})
                \cup (IF cons THEN {} ELSE {"quotient-remainder-inconsistent"})

(* sin, cos, exp(i phase): the value of the fractional part, and the very  *)
(* same result for equal fractions with different cycle counts             *)
TrigFailed(e) ==
  LET it  == e.items
      n   == Len(it)
      tol == FTol10(12)
      ValueOK(x) ==
        LET cs == CosSin(x.f)
        IN CASE e.fn = "sin" -> FClose(FFromRat(x.re), cs.s, tol) /\ RSign(x.imv) = 0
             [] e.fn = "cos" -> FClose(FFromRat(x.re), cs.c, tol) /\ RSign(x.imv) = 0
             [] e.fn = "exp" -> FClose(FFromRat(x.re), cs.c, tol) /\ FClose(FFromRat(x.imv), cs.s, tol)
  IN IF Has(e, "exc") THEN {"raises"} ELSE
     (IF \A k \in 1..n : ValueOK(it[k]) THEN {} ELSE {"value"})
     \cup (IF \A j \in 1..n, k \in 1..n :
                 (j < k /\ REq(it[j].f, it[k].f)) => (REq(it[j].re, it[k].re) /\ REq(it[j].imv, it[k].imv))
           THEN {} ELSE {"depends-on-count"})

(***************************************************************************)
(* C15: ordering and reductions                                            *)
(***************************************************************************)
CmpFailed(e) ==
  LET L == XVal(e.l)  Rv == XVal(e.r)
  IN IF ~Comparable(L, Rv) THEN {"~not-demanded"}
     ELSE IF ~(InScope(L.v) /\ InScope(Rv.v)) THEN {"~out-of-scope"}
     ELSE IF Has(e, "exc") THEN {"raises"}
     ELSE IF e.res = CmpHolds(e.op, PCmp(L, Rv)) THEN {} ELSE {"wrong-truth-value"}

RECURSIVE ExtremeR(_, _, _, _)
ExtremeR(vals, i, sgn, acc) ==       \* sgn = 1: maximum, -1: minimum
  IF i > Len(vals) THEN acc
  ELSE ExtremeR(vals, i + 1, sgn, IF sgn * RCmp(vals[i], acc) > 0 THEN vals[i] ELSE acc)
Extreme(vals, sgn) == ExtremeR(vals, 2, sgn, vals[1])
CountEq(vals, x) == Cardinality({k \in 1..Len(vals) : REq(vals[k], x)})
NonDecreasing(vals) == \A k \in 1..(Len(vals) - 1) : RLe(vals[k], vals[k + 1])

RedFailed(e) ==
  LET n    == Len(e.arr)
      vals == [k \in 1..n |-> RAdd(e.arr[k].i, e.arr[k].f)]
      fn   == e.fn
      inscope == \A k \in 1..n : InScope(vals[k])
  IN IF ~inscope THEN {"~out-of-scope"}
     ELSE IF Has(e, "exc") THEN {"raises"}
     ELSE IF Has(e, "badshape") THEN {"wrong-shape"}      \* the result is not laid out along the requested axis
     ELSE CASE fn \in {"argmin", "argmax"} ->
            IF e.idx \in 0..(n - 1) /\ REq(vals[e.idx + 1], Extreme(vals, IF fn = "argmax" THEN 1 ELSE -1))
            THEN {} ELSE {"index-not-at-extremum"}
       [] fn \in {"min", "max"} ->
            LET x == Extreme(vals, IF fn = "max" THEN 1 ELSE -1)
            IN IF e.res.t # "Phase" THEN {"not-a-Phase"}
               ELSE (IF Normalised(e.res.i, e.res.f) THEN {} ELSE {"not-normalised"})
                    \cup (IF REq(RAdd(e.res.i, e.res.f), x) THEN {} ELSE {"not-the-exact-extremum"})
       [] fn = "ptp" ->
            LET d == RSub(Extreme(vals, 1), Extreme(vals, -1))
            IN IF InScope(d) THEN PhaseResult(e.res, d, e.im, TRUE) ELSE {"~out-of-scope"}
       [] fn = "sort" ->
            LET out == [k \in 1..Len(e.out) |-> RAdd(e.out[k].i, e.out[k].f)]
            IN IF e.t # "Phase" THEN {"not-a-Phase"}
               ELSE (IF \A k \in 1..Len(e.out) : Normalised(e.out[k].i, e.out[k].f) THEN {} ELSE {"not-normalised"})
                    \cup (IF Len(out) = n /\ \A k \in 1..n : CountEq(out, vals[k]) = CountEq(vals, vals[k])
                          THEN {} ELSE {"not-a-permutation"})
                    \cup (IF NonDecreasing(out) THEN {} ELSE {"not-sorted"})
       [] fn = "argsort" ->
            IF ~(Len(e.idx) = n /\ {e.idx[k] : k \in 1..Len(e.idx)} = 0..(n - 1)) THEN {"not-a-permutation"}
            ELSE IF NonDecreasing([k \in 1..n |-> vals[e.idx[k] + 1]]) THEN {} ELSE {"not-sorted"}

(***************************************************************************)
(* C15: decimal text                                                       *)
(***************************************************************************)
FromStringFailed(e) ==
  LET d == Decimal(e.s)
  IN IF ~d.ok THEN {"~not-grammatical"}
     ELSE IF ~InScope(d.v) THEN {"~out-of-scope"}
     ELSE IF Has(e.res, "exc") THEN {"raises"}
     ELSE IF e.res.t # "Phase" THEN {"not-a-Phase"}
     ELSE (IF Normalised(e.res.i, e.res.f) THEN {} ELSE {"not-normalised"})
          \cup (IF Represents(e.res.i, e.res.f, d.v) THEN {} ELSE {"value"})
          \cup (IF ~d.im /\ e.res.im THEN {"real-string-imaginary"} ELSE {})
          \cup (IF d.im /\ RSign(d.v) # 0 /\ ~e.res.im THEN {"imaginary-flag"} ELSE {})

Shown(e) == IF e.fmt THEN StripLeft(StripUnit(e.s)) ELSE e.s
ToStringFailed(e) ==
  LET v == RAdd(e.p.i, e.p.f)
  IN IF ~InScope(v) THEN {"~out-of-scope"}
     ELSE IF Has(e, "exc") THEN {"raises"}
     ELSE LET s == Shown(e)  r == Decimal(s)
          IN IF ~r.ok \/ r.hasE \/ r.nint = 0 THEN {"malformed"}
             ELSE IF r.im # e.p.im THEN {"imaginary-flag"}
             ELSE IF e.prec >= 0
             THEN (IF r.nfrac = e.prec THEN {} ELSE {"digits-shown"})
                  \cup (IF RoundedTo(s, v, e.p.im, r.nfrac) THEN {} ELSE {"not-the-rounded-value"})
             ELSE IF ClosePlain(s, v, e.p.im, Tol1e16) THEN {} ELSE {"not-within-1e-16"}

(* from_string(to_string(p)) = p, to the accuracy the two operations are   *)
(* specified to have: rendering error (1e-16, or half a unit of the last   *)
(* digit shown) + 2^-52                                                    *)
RoundTripFailed(e) ==
  LET v == RAdd(e.p.i, e.p.f)
      tol == RAdd(Tol52, IF e.prec < 0 THEN Tol1e16 ELSE RMul(RHalf, RPow10(0 - e.prec)))
  IN IF ~InScope(v) THEN {"~out-of-scope"}
     ELSE IF Has(e, "exc") THEN {"raises"}
     ELSE IF Has(e.res, "exc") THEN {"raises"}
     ELSE IF e.res.t # "Phase" THEN {"not-a-Phase"}
     ELSE (IF RClose(RAdd(e.res.i, e.res.f), v, tol) THEN {} ELSE {"value"})
          \cup (IF Normalised(e.res.i, e.res.f) THEN {} ELSE {"not-normalised"})
          \cup (IF ~e.p.im /\ e.res.im THEN {"real-string-imaginary"} ELSE {})
          \cup (IF e.p.im /\ RSign(RAdd(e.res.i, e.res.f)) # 0 /\ ~e.res.im THEN {"imaginary-flag"} ELSE {})

(* an operand the caller handed in (other than the target of an in-place   *)
(* form) holds different values after the call: later uses go wrong        *)
OperandKept(e) == IF Has(e, "modified") THEN {"operand-modified"} ELSE {}
Judged(e) ==
  CASE e.ev = "arith" -> ArithFailed(e)
    [] e.ev = "divmod" -> DivFailed(e)
    [] e.ev = "trig" -> TrigFailed(e)
    [] e.ev = "cmp" -> CmpFailed(e)
    [] e.ev = "red" -> RedFailed(e)
    [] e.ev = "from_string" -> FromStringFailed(e)
    [] e.ev = "to_string" -> ToStringFailed(e)
    [] e.ev = "roundtrip" -> RoundTripFailed(e)
    \* the real code raised while the harness prepared valid operands by public calls
    \* that are not themselves one of the judged operations (e.g. 1j * phase before exp)
    [] e.ev = "construct" -> {"raises"}
    [] OTHER -> {"unknown-event"}
Failed(e) == Judged(e) \cup OperandKept(e)

TraceInit == pos = 1 /\ nbad = 0
TraceNext ==
  \/ /\ pos <= NEvents
     /\ LET e == Trace[pos]  f == Failed(e)
        IN /\ Report(pos, e, f)
           /\ nbad' = nbad + (IF f = {} THEN 0 ELSE 1)
     /\ pos' = pos + 1
  \/ /\ pos = NEvents + 1
     /\ Summary(NEvents, nbad)
     /\ pos' = pos + 1
     /\ UNCHANGED nbad
TraceSpec == TraceInit /\ [][TraceNext]_<<pos, nbad>>
AllConsumed == TLCGet("stats").diameter >= NEvents + 1
=============================================================================
