SPECIFICATION Spec
CONSTANTS
  Vals <- F_Vals
  Bases <- Both
  MaxConv = 3
  Variant = "code"
INVARIANT PowerKept
INVARIANT RoundTrip
INVARIANT IdentityInOwnBasis
INVARIANT ConversionIsDefinition
INVARIANT StokesFormulas
INVARIANT BasisIndependent
INVARIANT Polarised
INVARIANT IntensitySum
INVARIANT ItemIsComponent
INVARIANT OnlyNamesAnswered
INVARIANT Emit
CHECK_DEADLOCK FALSE
