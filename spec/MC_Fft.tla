------------------------------- MODULE MC_Fft -------------------------------
(***************************************************************************)
(* C20: the case matrix of the pb.fft family (names x shapes x input kind  *)
(* x axis/axes x n/s x norm) as a set of initial states; one step          *)
(* evaluates the specification's definition of the case.                   *)
(***************************************************************************)
EXTENDS FftFamily
CONSTANTS Shapes, Level, Names     \* Level 0: thin (one option varied at a time), 1: n x norm pairs, 2: full product
VARIABLES c, out, done, call
vars == <<c, out, done, call, tab>>

Norms == {"backward", "forward", "ortho"}
PMax(a, b) == IF a >= b THEN a ELSE b
RealOnly(name) == name \in {"rfft", "rfft2", "rfftn", "ihfft"}
C2R(name) == name \in {"irfft", "irfft2", "irfftn", "hfft"}
Kinds(name) == IF RealOnly(name) THEN {"real"} ELSE {"real", "complex"}

\* ---- 1-D names
AxisOpts(r) == {NoneI, -1} \cup 0..(r - 1)
LineLen(sh, a) == sh[Ax(IF a = NoneI THEN -1 ELSE a, Len(sh))]
NOpts(name, L) ==
  \* (the longest lengths, whose O(n^2) reference sum dominates the cost, are left to Level >= 1)
  IF C2R(name) THEN (IF L >= 2 THEN {NoneI} ELSE {}) \cup {n \in {1, L, 2 * L - 1, 2 * L - 2} \cup (IF Level = 0 THEN {} ELSE {2 * L + 1}) : n >= 1}
  ELSE {NoneI} \cup {n \in {1, L - 1, L + 1} \cup (IF Level = 0 THEN {} ELSE {L + 3}) : n >= 1}
N1(name, L) == IF C2R(name) THEN 2 * L - 1 ELSE L + 1
NNorm1(name, L) ==
  IF Level = 2 THEN NOpts(name, L) \X ({"none"} \cup Norms)
  ELSE (NOpts(name, L) \X {"none"}) \cup ({n \in {NoneI, N1(name, L)} : n \in NOpts(name, L)} \X Norms)
\* thin: every axis with default n and norm; every n / norm only on the first axis
Thin1(cc) == Level > 0 \/ (cc.n = NoneI /\ cc.norm = "none") \/ cc.axis = 0
Cases1(name) ==
  {[name |-> name, sh |-> sh, kind |-> k, n |-> nn[1], axis |-> a, s |-> <<>>, axes |-> <<>>, norm |-> nn[2]] :
     sh \in Shapes, k \in Kinds(name), a \in AxisOpts(3), nn \in (0..30 \cup {NoneI}) \X ({"none"} \cup Norms)}
Valid1(cc) == /\ cc.axis \in AxisOpts(Len(cc.sh))
              /\ <<cc.n, cc.norm>> \in NNorm1(cc.name, LineLen(cc.sh, cc.axis))
              /\ Thin1(cc)
              /\ (Level = 0 => (cc.norm = "none" \/ cc.n # NoneI \/ cc.kind = "complex" \/ RealOnly(cc.name)))

\* ---- 2-D and n-D names
Pairs(r) == {<<i, j>> : i \in 0..(r - 1), j \in 0..(r - 1)} \ {<<i, i>> : i \in 0..(r - 1)}
AxesOpts(name, r) ==
  IF name \in Names2 THEN {<<>>, <<-1, -2>>} \cup Pairs(r)
  ELSE {<<>>, <<-1>>} \cup {<<i>> : i \in 0..(r - 1)} \cup Pairs(r)
         \cup (IF r = 3 THEN {<<0, 1, 2>>, <<2, 0, 1>>} ELSE {})
EffAxes(name, r, axes) == IF axes = <<>> THEN DefaultAxes(name, r, <<>>) ELSE axes
Dim(sh, a) == sh[Ax(a, Len(sh))]
\* the natural length along transform axis i of the tuple (2(d-1) for the real-output axis)
Base(name, sh, ea, i) == IF C2R(name) /\ i = Len(ea) THEN 2 * (Dim(sh, ea[i]) - 1) ELSE Dim(sh, ea[i])
SMinus(name, sh, ea) == [i \in 1..Len(ea) |-> PMax(1, Base(name, sh, ea, i) - 1)]
SPlus(name, sh, ea) == [i \in 1..Len(ea) |-> Base(name, sh, ea, i) + (IF i = 1 THEN 2 ELSE 1)]
SOpts(name, sh, axes) ==
  LET r == Len(sh)  ea == EffAxes(name, r, axes)
  IN (IF C2R(name) /\ Dim(sh, ea[Len(ea)]) < 2 THEN {} ELSE {<<>>})
     \cup {SMinus(name, sh, ea), SPlus(name, sh, ea)}
     \cup (IF name \in NamesN /\ axes = <<>> /\ r >= 2
           THEN {[i \in 1..(r - 1) |-> Base(name, sh, [j \in 1..(r - 1) |-> j], i) + 1]} ELSE {})
ThinAxes(name, r) == IF name \in Names2 THEN {<<1, 0>>} ELSE {<<>>, <<0>>}
SNorm(name, sh, axes) ==
  IF Level = 2 THEN SOpts(name, sh, axes) \X ({"none"} \cup Norms)
  ELSE IF Level = 1 \/ axes \in ThinAxes(name, Len(sh))
  THEN (SOpts(name, sh, axes) \X {"none"})
       \cup ((SOpts(name, sh, axes) \cap {<<>>, SPlus(name, sh, EffAxes(name, Len(sh), axes))}) \X Norms)
  ELSE (SOpts(name, sh, axes) \cap {<<>>}) \X {"none"}
CasesN(name) ==
  UNION {LET r == Len(sh)
         IN IF name \in Names2 /\ r < 2 THEN {}
            ELSE UNION {{[name |-> name, sh |-> sh, kind |-> k, n |-> NoneI, axis |-> NoneI,
                          s |-> sn[1], axes |-> ax, norm |-> sn[2]] : sn \in SNorm(name, sh, ax)} :
                        ax \in AxesOpts(name, r)} : sh \in Shapes, k \in Kinds(name)}

\* degenerate arguments: s = () and / or axes = () for the complex-to-complex 2-D / n-D transforms
Degenerate(name) ==
  IF name \notin {"fft2", "ifft2", "fftn", "ifftn"} THEN {}
  ELSE {[name |-> name, sh |-> sh, kind |-> k, n |-> NoneI, axis |-> NoneI, s |-> sa[1], axes |-> sa[2], norm |-> "none"] :
          sh \in {q \in Shapes : Len(q) >= 2}, k \in {"real", "complex"},
          sa \in {<<EmptyT, <<>>>>, <<<<>>, EmptyT>>, <<EmptyT, EmptyT>>}}
IsDegenerate(cc) == cc.s = EmptyT \/ cc.axes = EmptyT
CaseSet == UNION {(IF name \in Names1 THEN {cc \in Cases1(name) : Valid1(cc)} ELSE CasesN(name)) \cup Degenerate(name) : name \in Names}

WithX(cc) == [name |-> cc.name, x |-> Input(cc.sh, cc.kind), n |-> cc.n, axis |-> cc.axis,
              s |-> cc.s, axes |-> cc.axes, norm |-> cc.norm]
Empty == [sh |-> <<>>, v |-> <<>>]

(***************************************************************************)
(* Calls.  A case (name, shape, kind, n/axis or s/axes, norm) fixes the    *)
(* mathematical result; a CALL of it additionally fixes how the arguments  *)
(* are handed over and what the input array's element type is:             *)
(*   dt   input dtype (NumPy name; the small integers of the input are     *)
(*        cast to it)                                                      *)
(*   ct   container of s / axes: tuple ("py"), list, range, ndarray of      *)
(*        int64 / int32 (for the scalars n / axis: int, np.int64, np.int32)*)
(*   cf   how many of (n|s, axis|axes, norm) are passed positionally       *)
(* Every case is expanded into several calls (the result is evaluated      *)
(* once); two sweeps make the coverage independent of any sampling:        *)
(*   dtype sweep  every dtype of the pool, for every name (default args)   *)
(*   form sweep   every container x every positional prefix, for the n-D   *)
(*                and 2-D families whenever len(s) < ndim                  *)
(***************************************************************************)
RealDT == <<"float64", "float32", "float16", "longdouble", "int8", "int16", "int32", "int64",
            "uint8", "uint16", "uint32", "uint64", "bool", ">f8", ">f4", ">i4", ">u2", "<f8">>
CplxDT == <<"complex128", "complex64", "clongdouble", ">c16", ">c8", "<c16">>
DTs(kind) == IF kind = "real" THEN RealDT ELSE CplxDT
Containers == <<"py", "list", "nd64", "nd32", "range">>
NameSeq == <<"fft", "ifft", "rfft", "irfft", "hfft", "ihfft", "fft2", "ifft2", "rfft2", "irfft2",
             "fftn", "ifftn", "rfftn", "irfftn">>
NameIx(name) == CHOOSE i \in 1..14 : NameSeq[i] = name
NormIx(nm) == CASE nm = "none" -> 0 [] nm = "backward" -> 1 [] nm = "forward" -> 2 [] nm = "ortho" -> 3
RECURSIVE SumSeq(_, _)
SumSeq(q, i) == IF i > Len(q) THEN 0 ELSE q[i] + SumSeq(q, i + 1)
\* a number that differs between neighbouring cases (spreads dtypes and forms over the matrix)
H(cc) == Size(cc.sh) + 3 * Len(cc.sh) + (IF cc.n = NoneI THEN 1 ELSE cc.n) + (IF cc.axis = NoneI THEN 2 ELSE cc.axis + 5)
         + 2 * SumSeq(cc.s, 1) + 7 * Len(cc.axes) + SumSeq(cc.axes, 1) + 6 + NormIx(cc.norm) + NameIx(cc.name)
         + (IF cc.kind = "real" THEN 0 ELSE 3)
\* range(a, b) can stand for a tuple only if it counts up by one
RangeOK(q) == q = EmptyT \/ \A i \in 1..(Len(q) - 1) : q[i + 1] = q[i] + 1
CtOK(cc, ct) == IF cc.name \in Names1 THEN ct \in {"py", "nd64", "nd32"}
                ELSE ct = "range" => (RangeOK(cc.s) /\ RangeOK(cc.axes))
CtFix(cc, ct) == IF CtOK(cc, ct) THEN ct ELSE "py"
\* ck: what holds the input: a plain ndarray, an ndarray subclass, a np.memmap, a read-only array, an object whose
\* __array__ hands out its own buffer
MkCallK(cc, dt, ct, cf, ck) == [name |-> cc.name, sh |-> cc.sh, kind |-> cc.kind, n |-> cc.n, axis |-> cc.axis, s |-> cc.s,
                                axes |-> cc.axes, norm |-> cc.norm, dt |-> dt, ct |-> ct, cf |-> cf, ck |-> ck]
MkCall(cc, dt, ct, cf) == MkCallK(cc, dt, ct, cf, "ndarray")
InputKinds == {"subclass", "memmap", "readonly", "arraylike"}
NVar == IF Level = 0 THEN 2 ELSE 3
Cycled(cc) == {MkCall(cc, DTs(cc.kind)[((H(cc) + 5 * k) % Len(DTs(cc.kind))) + 1],
                      CtFix(cc, Containers[((H(cc) + 2 * k) % 5) + 1]), (H(cc) + k) % 4) : k \in 0..(NVar - 1)}
DefaultArgs(cc) == cc.n = NoneI /\ cc.axis = NoneI /\ cc.s = <<>> /\ cc.axes = <<>> /\ cc.norm = "none"
DtSweep(cc) == IF DefaultArgs(cc) /\ cc.sh = <<2, 3>>
               THEN {MkCall(cc, DTs(cc.kind)[i], "py", 0) : i \in 1..Len(DTs(cc.kind))} ELSE {}
KindSweep(cc) == IF DefaultArgs(cc) /\ cc.sh \in {<<2, 3>>, <<3, 4>>}
                 THEN {MkCallK(cc, DTs(cc.kind)[1], "py", H(cc) % 2, ck) : ck \in InputKinds} ELSE {}
FormSweep(cc) == IF IsDegenerate(cc) \/ (cc.name \notin Names1 /\ cc.s # <<>> /\ Len(cc.s) < Len(cc.sh) /\ cc.norm = "none" /\ cc.kind = "real")
                 THEN {MkCall(cc, DTs(cc.kind)[1], Containers[i], cf) : i \in {j \in 1..5 : CtOK(cc, Containers[j])}, cf \in 0..3}
                 ELSE {}
Calls(cc) == Cycled(cc) \cup DtSweep(cc) \cup FormSweep(cc) \cup KindSweep(cc)

NoCall == [name |-> "none"]
Init == TabInit /\ c \in CaseSet /\ out = Empty /\ done = FALSE /\ call = NoCall
Evaluate == ~done /\ out' = Eval(WithX(c)) /\ done' = TRUE /\ UNCHANGED <<c, call, tab>>
Expand == done /\ call.name = "none" /\ call' \in Calls(c) /\ UNCHANGED <<c, out, done, tab>>
Next == Evaluate \/ Expand
Spec == Init /\ [][Next]_vars

\* the result has the documented shape
ShapeOK == done => /\ Size(out.sh) = Len(out.v)
                   /\ Len(out.sh) = Len(c.sh)
\* real-output transforms return real values
RealOut == (done /\ C2R(c.name)) => \A i \in 1..Len(out.v) : out.v[i].im = FZero

=============================================================================
