SPECIFICATION Spec
CONSTANTS
  Lens <- G_Lens
  NChans <- F_NChans
  IDelays <- G_IDelays
  QDelays <- Q_QDelays
  AKdm <- Q_AKdm
  AFreqs <- Q_AFreqs
  ASteps <- Q_ASteps
  Kinds <- GenKinds
  Variant = "code"
  Fixed = TRUE
VIEW View
CHECK_DEADLOCK FALSE
INVARIANT Emit
