---------------------------- MODULE Trace_Dedisp ----------------------------
(***************************************************************************)
(* code -> spec for C05 / C06: events recorded from the real               *)
(* pulsarbat.transforms.dedispersion are judged with the operators of      *)
(* spec/Dedisp.tla.  All numbers arrive exactly (doubles as Rat records,   *)
(* complex samples as 60-bit Fix pairs).  TLC is the only judge: the delay *)
(* law is recomputed in exact rational arithmetic; chirp phases and the    *)
(* delays that decide a ceiling / rounding are recomputed with the         *)
(* bounded-precision operators of Dedisp 1b (error < 2^-60 cycle, 2^-44    *)
(* sample, proven there and re-checked against the exact rationals on the  *)
(* events the harness marks with xcheck), reduced modulo one cycle as      *)
(* integers, and turned into cos / sin by the kernel's Taylor series.      *)
(*                                                                         *)
(* Tolerances (all derived from the arithmetic of the code, u = 2^-53):    *)
(*  delay law   |out - law| <= 1e-14 * K|DM| * max(f^-2, fref^-2)          *)
(*              (90 u of the larger term: the code rounds 2.41e-4, K, K*DM,*)
(*              f^2, 1/f^2, unit scales such as 1e-6, the difference, the  *)
(*              product, the conversion to s and the product with the      *)
(*              rate: about 20 roundings in the worst case; the two terms  *)
(*              cancel, so the error is relative to the larger one; the    *)
(*              largest error seen on 9000 calls is 5 u)                   *)
(*  chirp       |H - exp(-2 pi i phase)| <= 2e-6 + 7 * B per component,    *)
(*              B = 2^-49 * rho * (|phase| + K|DM| |D| (1 + f/fref)) cycles*)
(*              with D = 1/fref - 1/f, rho = (|fc| + |bin|) / f.  2e-6     *)
(*              covers the complex64 rounding (6e-8) with a wide margin;   *)
(*              B bounds the float64 error of the phase: 9 u |phase| for   *)
(*              K, K*DM, the products, the square and the conversion to    *)
(*              radians, 3u(1/fref + 1/f) in D because 1/fref - 1/f        *)
(*              cancels, and 4u(|fc|+|bin|) in f = fc + k * (1/(N dt))     *)
(*              (TLC uses the exact f, the code a rounded one), propagated *)
(*              through d phase/dD = 2 K DM f D and d phase/df =           *)
(*              K DM D (D + 2/f); the sum is below 16 u rho (...) = B.     *)
(*  outputs     1e-5 * max|x| (complex64 chirp / FFT floor, DESIGN 5.2)    *)
(*  start time  2^-50 day + |advance| 2^-50 (passed per event as advtol)   *)
(* Decision boundaries: a band-edge delay within 1e-6 sample of an integer *)
(* (ceil) or a channel delay within 1e-6 of a half-integer (round) makes   *)
(* the event `ambiguous` (counted by the harness, never a violation).      *)
(***************************************************************************)
EXTENDS TraceBase, Dedisp
VARIABLES l, nbad

Ok(c, name) == IF c THEN {} ELSE {name}
\* the reference of a coherent event: finite (e.fref, Hz) or at infinite frequency
Ref(e) == RefOf(e.fref, e.rinf)
\* TLC applies a function expression [i \in S |-> e] by re-evaluating e on
\* every application; TLCEval materialises it once.  EDft is the kernel DFT
\* on materialised input, twiddles and output.
EDft(x, sgn, W) == TLCEval(DftW(x, sgn, W))
Eps6 == RPow10(-6)
RSum(s) == LET RECURSIVE go(_, _)
               go(i, acc) == IF i > Len(s) THEN acc ELSE go(i + 1, RAdd(acc, s[i]))
           IN go(1, RZero)

(***************************************************************************)
(* C06: the delay law                                                      *)
(***************************************************************************)
InvSqE(v, s, inf) == IF inf THEN RZero ELSE InvSq(RMul(v, s))
LawTol(kdm, a, b) == RMul(RMul(RAbs(kdm), RMax(a, b)), RPow10(-14))

DelayFailed(e) ==
  LET kdm == KDM(e.dm)
      a == InvSqE(e.f, e.fs, e.finf)
      b == InvSqE(e.r, e.rs, e.rinf)
      law == DelayI(kdm, a, b)
      tol == LawTol(kdm, a, b)
  IN IF e.ev = "tdelay"
     THEN Ok(RClose(e.out, law, tol), "law")
     ELSE LET rate == RMul(e.rate, e.rates)
          IN Ok(RClose(e.out, RMul(law, rate), RMul(tol, rate)), "law")

\* chain f_1 .. f_n: fwd[i] = delay(f_i, f_i+1), bwd[i] = delay(f_i+1, f_i), tot = delay(f_1, f_n).
\* Sums are judged with n times the largest single tolerance of the chain.
ChainFailed(e) ==
  LET kdm == KDM(e.dm)
      n == Len(e.fq)
      isq == TLCEval([i \in 1..n |-> InvSq(e.fq[i])])
      law(i, j) == DelayI(kdm, isq[i], isq[j])
      tol(i, j) == LawTol(kdm, isq[i], isq[j])
      RECURSIVE mx(_, _)
      mx(i, m) == IF i > n THEN m ELSE mx(i + 1, RMax(m, isq[i]))
      tolmax == LawTol(kdm, mx(2, isq[1]), RZero)
  IN Ok(\A i \in 1..(n - 1) : RClose(e.fwd[i], law(i, i + 1), tol(i, i + 1))
                            /\ RClose(e.bwd[i], law(i + 1, i), tol(i, i + 1))
        /\ RClose(e.tot, law(1, n), tol(1, n)), "law")
     \cup Ok(\A i \in 1..(n - 1) : RLe(RAbs(RAdd(e.fwd[i], e.bwd[i])), RMul(RI(2), tol(i, i + 1))), "antisymmetry")
     \cup Ok(RLe(RAbs(RSub(RSum(e.fwd), e.tot)), RMul(RI(n), tolmax)), "additivity")

(***************************************************************************)
(* Common clauses of every call that returns a signal                      *)
(***************************************************************************)
\* start_time: advanced by `first` samples (adv is the exact difference of
\* the two Time objects in samples), absent iff the input had none
StartClauses(e, first, nonempty) ==
  IF e.hasT
  THEN Ok(e.outT, "start-lost")
       \cup (IF e.outT /\ nonempty THEN Ok(RClose(e.adv, RI(first), e.advtol), "start") ELSE {})
  ELSE Ok(~e.outT, "start-none")
MetaClauses(e) == Ok(e.zin = e.zout, "metadata")

(***************************************************************************)
(* C06: incoherent dedispersion                                            *)
(***************************************************************************)
IncohFailed(e) ==
  LET kdm == KDM(e.dm)
      n == Len(e.fq)
      \* channel delays to 2^-45 sample (Dedisp 1b); beyond 1e-6 of a half-integer
      \* they round like the exact delays
      dx == TLCEval([i \in 1..n |-> DelayFixRat(SampleDelayFix(kdm, e.fq[i], e.fref, e.rate))])
      amb == \E i \in 1..n : RLt(DistToHalf(dx[i]), Eps6)
      big == \E i \in 1..n : ~RLt(RAbs(dx[i]), RI(1000000000))
  IN IF e.xcheck /\ ~(\A i \in 1..n : SampleDelayAgrees(kdm, e.fq[i], e.fref, e.rate))
     THEN {"precondition-delayfix"}
     ELSE IF big THEN {"precondition-delay-range"}
     ELSE IF amb THEN {"ambiguous"}
     ELSE
      LET d == TLCEval([i \in 1..n |-> ToInt(RRound(dx[i]))])
          op == IncohOp(e.len, d, "code")
      IN IF ~op.ok \/ op.outlen = 0
         THEN Ok(e.err \/ e.outlen = 0, "no-valid-time-but-samples-returned")
         ELSE IF e.err THEN {"refused"}
         \* the property says ONLY samples with in-range sources are returned, not that all of them
         \* are: more samples than the valid set is a violation, fewer are judged by the declarative
         \* clause alone (the code's own window is compared only when the lengths agree)
         ELSE IF e.outlen > op.outlen THEN {"length"}
         ELSE
          Ok(e.decoded, "channel-or-trailing-moved")
          \cup (IF e.outlen = op.outlen
                THEN Ok(\A i \in 1..n : \A k \in 1..op.outlen : e.src[i][k] = op.src[i][k], "source")
                ELSE {})
          \* declarative, through the stamped start: sample k has time T = adv + k - 1
          \* and shows the input at T + d_i; without a start time only the
          \* relative alignment of the channels is observable
          \cup (IF e.hasT /\ e.outT
                THEN LET ab == RRound(e.adv)
                         a == IF FitsInt(ab) THEN ToInt(ab) ELSE -1000000000
                     IN Ok(\A i \in 1..n : \A k \in 1..e.outlen :
                              /\ e.src[i][k] = a + k - 1 + d[i]
                              /\ e.src[i][k] >= 0 /\ e.src[i][k] <= e.len - 1, "realign-decl")
                ELSE Ok(\A i \in 1..n : \A k \in 1..e.outlen :
                           e.src[i][k] - d[i] = e.src[1][1] - d[1] + k - 1, "realign-decl"))
          \cup StartClauses(e, op.adv, TRUE)
          \cup MetaClauses(e)

(***************************************************************************)
(* C05: the chirp                                                          *)
(***************************************************************************)
\* phase (floor(phase * 2^75), see Dedisp 1b) and 7 * budget B (Fix, rounded up)
\* of one bin; f must be > 0
BinInfo(kdm, fc, ref, N, dt, k) ==
  LET bin == RDiv(RI(FftBin(k, N)), RMul(RI(N), dt))
      f == RAdd(fc, bin)
      pos == RSign(f) > 0
      rho == RDiv(RAdd(RAbs(fc), RAbs(bin)), f)
  IN [pos |-> pos,
      phase |-> IF pos THEN PhaseFixR(kdm, f, ref) ELSE Zero,
      \* 7 * 2^-49 * K|DM||D| * g * 2^60 < 2^14 * (...), rounded up (Dedisp 1b)
      bud |-> IF pos THEN SlopeFixR(kdm, f, ref, rho, 14) ELSE Zero]
BinExact(kdm, fc, ref, N, dt, k) ==
  LET f == BinFreq(fc, k, N, dt)
  IN /\ PhaseAgreesR(kdm, f, ref)
     /\ LET v == PhaseFixR(kdm, f, ref)
            a == CosSinDy(v)
            b == CosSin(PhaseFixRat(v))
        IN FClose(a.c, b.c, FromInt(8)) /\ FClose(a.s, b.s, FromInt(8))
PhaseH(v) == ChirpHFix(v)
Tol2em6 == FFromRat(RMul(RI(2), RPow10(-6)))
BudFix(bud) == bud
BinOK(kdm, fc, ref, N, dt, k, val) ==
  LET b == BinInfo(kdm, fc, ref, N, dt, k)
  IN b.pos /\ CClose(val, PhaseH(b.phase), Add(Tol2em6, b.bud))

ChirpFailed(e) ==
  LET kdm == KDM(e.dm)
  IN Ok(e.finite, "not-finite")
     \cup Ok(\A j \in 1..Len(e.ks) : BinOK(kdm, e.fc, Ref(e), e.N, e.dt, e.ks[j], e.vals[j]), "chirp-law")
     \* sampled self-check of the bounded-precision phase against the exact one
     \cup (IF e.xcheck >= 0
           THEN Ok(BinExact(kdm, e.fc, Ref(e), e.N, e.dt, e.xcheck), "precondition-phasefix")
           ELSE {})

(***************************************************************************)
(* C05: coherent dedispersion                                              *)
(***************************************************************************)
\* band-edge sample delays; refis names an edge that *is* the reference
\* object (then the code computes an exact zero)
EdgeDelays(e) ==
  LET kdm == KDM(e.dm)
      D(f) == DelayFixRat(DelayFixR(kdm, f, Ref(e), e.rate))          \* to 2^-45 sample (Dedisp 1b)
  IN [top |-> IF e.refis = "top" THEN RZero ELSE D(e.top),
      bot |-> IF e.refis = "bot" THEN RZero ELSE D(e.bot),
      agree |-> ~e.xcheck \/ (DelayAgreesR(kdm, e.top, Ref(e), e.rate)
                              /\ DelayAgreesR(kdm, e.bot, Ref(e), e.rate))]
EdgeAmbiguous(e, dl) ==
  \/ (e.refis # "top" /\ RLt(DistToInt(dl.top), Eps6))
  \/ (e.refis # "bot" /\ RLt(DistToInt(dl.bot), Eps6))
\* length, start time, metadata of the result
CropClauses(e, w) ==
  Ok(e.finite, "not-finite")
  \cup Ok(e.outlen = w.len, "length")
  \cup StartClauses(e, w.first, w.len > 0 /\ e.outlen = w.len)
  \cup MetaClauses(e)

CropFailed(e) ==
  LET dl == EdgeDelays(e)
  IN IF ~dl.agree THEN {"precondition-delayfix"}
     ELSE IF EdgeAmbiguous(e, dl) THEN {"ambiguous"}
     ELSE CropClauses(e, CohWindow(e.N, dl.top, dl.bot, TRUE))

\* a pure tone in bin ks[c] of channel c comes out multiplied by H[ks[c]]
ToneFailed(e) ==
  LET dl == EdgeDelays(e)
      kdm == KDM(e.dm)
      N == e.N
  IN IF ~dl.agree THEN {"precondition-delayfix"}
     ELSE IF EdgeAmbiguous(e, dl) THEN {"ambiguous"}
     ELSE
      LET w == CohWindow(N, dl.top, dl.bot, TRUE)
          scale == e.amp
          \* x[c] is a tone of bin ks[c]: x[n] = x[0] w^n within 3e-7 amp (the
          \* rounding of complex64 input); N such errors add at most
          \* sqrt(N) 3e-7 amp < 1e-5 amp to the output
          tolT == MulInt(FFromRat(RMul(RI(3), RPow10(-7))), scale)
          IsTone(c) ==
            LET wk == CExp(RQ(FftBin(e.ks[c], N), N))
                x == e.x[c]
                RECURSIVE go(_, _)
                go(i, p) == IF i > N THEN TRUE
                            ELSE CClose(x[i], p, tolT) /\ go(i + 1, CMul(p, wk))
            IN go(1, x[1])
          ChanOK(c) ==
            LET b == BinInfo(kdm, e.fq[c], Ref(e), N, e.dt, e.ks[c])
                h == PhaseH(b.phase)
                tol == MulInt(Add(FTol10(5), BudFix(b.bud)), scale)
            IN b.pos /\ \A j \in 1..w.len :
                 CClose(e.out[c][j], CMul(h, e.x[c][w.first + j]), tol)
      IN IF ~(\A c \in 1..Len(e.x) : IsTone(c)) THEN {"precondition-not-a-tone"}
         ELSE CropClauses(e, w)
              \cup (IF e.outlen = w.len
                    THEN Ok(\A c \in 1..Len(e.x) : ChanOK(c), "filtered-by-chirp") ELSE {})

\* N <= 8: the whole output from the kernel DFT.  x[c][n] = <<re, im>> small
\* integers; the real input is x[c][n] * mult[t] for trailing element t
DdFailed(e) ==
  LET dl == EdgeDelays(e)
      kdm == KDM(e.dm)
      N == e.N
  IN IF ~dl.agree THEN {"precondition-delayfix"}
     ELSE IF EdgeAmbiguous(e, dl) THEN {"ambiguous"}
     ELSE
      LET w == CohWindow(N, dl.top, dl.bot, TRUE)
          W == TLCEval(Twiddles(N))
          Chan(c) ==
            LET info == TLCEval([k \in 1..N |-> BinInfo(kdm, e.fq[c], Ref(e), N, e.dt, k - 1)])
                X == EDft(TLCEval([i \in 1..N |-> CFromInts(e.x[c][i][1], e.x[c][i][2])]), -1, W)
                Y == EDft(TLCEval([k \in 1..N |-> CMul(X[k], PhaseH(info[k].phase))]), 1, W)
                y == TLCEval([k \in 1..N |-> CDivSmall(Y[k], N)])
                RECURSIVE mx(_, _)
                mx(k, m) == IF k > N THEN m ELSE mx(k + 1, IF Lt(m, info[k].bud) THEN info[k].bud ELSE m)
            IN [y |-> y, bud |-> mx(1, Zero), pos |-> \A k \in 1..N : info[k].pos]
          ChanOK(c) ==
            LET r == Chan(c)
                \* |delta y| <= sqrt(N) max|x| max|delta H|; sqrt(8) < 3
                tol1 == Add(FTol10(5), MulInt(BudFix(r.bud), 3))
            IN r.pos /\ \A t \in 1..Len(e.mult) :
                 LET m == CFromInts(e.mult[t][1], e.mult[t][2])
                     tol == MulInt(tol1, e.scale * e.mscale[t])
                 IN \A j \in 1..w.len :
                      CClose(e.out[c][t][j], CMul(r.y[w.first + j], m), tol)
      IN CropClauses(e, w)
         \cup (IF e.outlen = w.len
               THEN Ok(\A c \in 1..Len(e.x) : ChanOK(c), "filtered-by-chirp") ELSE {})

\* a supplied chirp gives the same result as the internal one
SuppliedFailed(e) ==
  Ok(e.samelen /\ e.samestart, "supplied-chirp-shape")
  \cup Ok(RLe(e.maxdiff, RMul(RPow10(-5), e.scale)), "supplied-chirp-differs")

\* DM then -DM restores a compactly supported input on the doubly cropped support
RoundTripFailed(e) ==
  LET dl == EdgeDelays(e)
  IN IF ~dl.agree THEN {"precondition-delayfix"}
     ELSE IF EdgeAmbiguous(e, dl) THEN {"ambiguous"}
     ELSE
      LET w1 == CohWindow(e.N, dl.top, dl.bot, TRUE)
          w2 == CohWindow(w1.len, RNeg(dl.top), RNeg(dl.bot), TRUE)
          off == w1.first + w2.first
          tol == FMul(FTol10(5), e.scale)
      \* the input must vanish (< 1e-9 max) outside the doubly cropped range
      IN IF ~(e.lo >= off + 2 /\ e.hi <= off + w2.len - 3) THEN {"precondition-support"}
         ELSE Ok(e.finite, "not-finite")
              \cup Ok(e.len1 = w1.len /\ e.len2 = w2.len, "length")
              \cup (IF e.hasT THEN Ok(RClose(e.adv1, RI(w1.first), e.advtol)
                                      /\ RClose(e.adv2, RI(off), e.advtol), "start") ELSE {})
              \cup (IF e.len2 = w2.len
                    THEN Ok(\A c \in 1..Len(e.x) : \A j \in 1..w2.len :
                               CClose(e.w[c][j], e.x[c][off + j], tol), "not-restored")
                    ELSE {})

Failed(e) ==
  CASE e.ev \in {"tdelay", "sdelay"} -> DelayFailed(e)
    [] e.ev = "chain" -> ChainFailed(e)
    [] e.ev = "lawargs" -> Ok(e.before = e.after, "argument-modified")
    [] e.ev = "incoh" -> IncohFailed(e)
    [] e.ev = "chirp" -> ChirpFailed(e)
    [] e.ev = "crop" -> CropFailed(e)
    [] e.ev = "tone" -> ToneFailed(e)
    [] e.ev = "cohdd" -> DdFailed(e)
    [] e.ev = "supplied" -> SuppliedFailed(e)
    \* lazy combination of Dask results computed in one graph vs the NumPy twins (scale 0: exact)
    [] e.ev = "joint" -> Ok(e.samelen, "joint-shape")
                         \cup Ok(RLe(e.maxdiff, RMul(RPow10(-5), e.scale)), "joint-result-differs-from-numpy-twins")
    [] e.ev = "roundtrip" -> RoundTripFailed(e)
    [] OTHER -> {"unknown-event"}

TraceInit == l = 1 /\ nbad = 0
TraceNext ==
  \/ /\ l <= NEvents
     /\ LET e == Trace[l]  f == Failed(e)
        IN /\ Report(l, e, f)
           /\ nbad' = nbad + (IF f = {} THEN 0 ELSE 1)
     /\ l' = l + 1
  \/ /\ l = NEvents + 1
     /\ Summary(NEvents, nbad)
     /\ l' = l + 1
     /\ UNCHANGED nbad
TraceSpec == TraceInit /\ [][TraceNext]_<<l, nbad>>
AllConsumed == TLCGet("stats").diameter >= NEvents + 1
=============================================================================
