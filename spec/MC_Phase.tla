------------------------------ MODULE MC_Phase ------------------------------
EXTENDS PhaseMachine
AllOKinds == AllKinds
Fs == {<<0, 1>>, <<1, 1>>, <<-1, 1>>, <<2, 1>>, <<-2, 1>>, <<1, 2>>, <<-1, 2>>, <<3, 1>>, <<1, 4>>, <<-4, 1>>}
\* negative configs (pinned variants must be rejected): tiny
N_MaxK == 4
N_Lits == {-4, 0, 1, 4}
N_Factors == {<<1, 1>>, <<2, 1>>, <<-1, 2>>}
\* quick: |value| <= 1 cycle
Q_MaxK == 8
Q_Lits == {-8, -4, -1, 0, 3, 4}
Q_Factors == Fs
\* full: |value| <= 3 cycles
F_MaxK == 24
F_Lits == {-24, -20, -12, -5, -4, -1, 0, 3, 4, 12, 23}
F_Factors == Fs \cup {<<3, 2>>, <<-1, 3>>, <<8, 1>>, <<1, 8>>}
=============================================================================
