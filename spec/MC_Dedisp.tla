----------------------------- MODULE MC_Dedisp -----------------------------
(***************************************************************************)
(* Model checking of spec/Dedisp.tla.  A state is one call: kind "incoh"   *)
(* (incoherent_dedispersion with a vector of rounded delays), "coh"        *)
(* (coherent_dedispersion crop for band-edge delays on a quarter-sample    *)
(* lattice, followed by the inverse call with negated delays) or "alg"     *)
(* (the laws on a small rational lattice).  Init chooses the arguments,    *)
(* the single action performs the call as the code does; the invariants    *)
(* relate the operational result to the declarative statement of C05/C06.  *)
(* Times are counted in samples after the start of the input.              *)
(***************************************************************************)
EXTENDS Dedisp

CONSTANTS
  Lens,        \* signal lengths
  NChans,      \* channel counts of the incoherent case
  IDelays,     \* rounded sample delays (integers)
  QDelays,     \* band-edge delays of the coherent case in quarter samples
  AKdm,        \* K*DM values of the algebraic lattice (Rat)
  AFreqs,      \* frequencies of the algebraic lattice (Rat, > 1/2)
  ASteps,      \* half-widths h of the finite difference (Rat, < 1/2)
  Kinds,       \* which kinds of call are explored
  Variant,     \* "code" | "cropsign" | "nostart"   (Dedisp!IncohOp)
  Fixed        \* coherent crop window clamped (current tree) or not (pinned tree)

VARIABLES kind, par, res, pc
vars == <<kind, par, res, pc>>

Mono(s) == \/ \A i \in 1..(Len(s) - 1) : s[i] <= s[i + 1]
           \/ \A i \in 1..(Len(s) - 1) : s[i] >= s[i + 1]
\* delays follow f^-2 over equally spaced channel labels: monotone in the channel index
DelayVecs == UNION {{s \in [1..n -> IDelays] : Mono(s)} : n \in NChans}

NoRes == [none |-> TRUE]
Q4(q) == RQ(q, 4)

IncohPars == {[len |-> l, d |-> d, hasT |-> h] : l \in Lens, d \in DelayVecs, h \in BOOLEAN}
CohPars == {[len |-> l, dt |-> a, db |-> b, hasT |-> h] : l \in Lens, a \in QDelays, b \in QDelays, h \in BOOLEAN}
AlgPars == {[k |-> k, f1 |-> f1, f2 |-> f2, f3 |-> f3, h |-> h] :
              k \in AKdm, f1 \in AFreqs, f2 \in AFreqs, f3 \in AFreqs, h \in ASteps}

Init ==
  /\ pc = "pre" /\ res = NoRes
  /\ \/ "incoh" \in Kinds /\ kind = "incoh" /\ par \in IncohPars
     \/ "coh" \in Kinds /\ kind = "coh" /\ par \in CohPars
     \/ "alg" \in Kinds /\ kind = "alg" /\ par \in AlgPars

\* incoherent_dedispersion(z, DM): the realigned data and the new start
IncohDD ==
  /\ kind = "incoh"
  /\ LET r == IncohOp(par.len, par.d, Variant)
     IN res' = r @@ [hasT |-> par.hasT, t0 |-> IF par.hasT THEN r.adv ELSE 0]
\* coherent_dedispersion(z, DM) then coherent_dedispersion(., -DM): the two crop windows
CohDD ==
  /\ kind = "coh"
  /\ LET w1 == CohWindow(par.len, Q4(par.dt), Q4(par.db), Fixed)
         w2 == CohWindow(w1.len, Q4(-par.dt), Q4(-par.db), Fixed)
     IN res' = [w1 |-> w1, w2 |-> w2, hasT |-> par.hasT,
                t1 |-> IF par.hasT THEN w1.first ELSE 0,
                t2 |-> IF par.hasT THEN w1.first + w2.first ELSE 0]
Alg == kind = "alg" /\ res' = [done |-> TRUE]

Next == /\ pc = "pre" /\ pc' = "post"
        /\ (IncohDD \/ CohDD \/ Alg)
        /\ UNCHANGED <<kind, par>>
Spec == Init /\ [][Next]_vars

Post(k) == pc = "post" /\ kind = k

(***************************************************************************)
(* C06: incoherent realignment                                             *)
(***************************************************************************)
Valid == IncohValid(par.len, par.d)
\* out[k, i] = in[k + crop_before + d_i, i]: the output sample stamped with
\* time T = t0' + k is the input sample of the same channel at T + d_i
RealignDecl ==
  Post("incoh") /\ res.ok =>
    \A i \in 1..Len(par.d) : \A k \in 1..res.outlen :
       /\ Len(res.src[i]) = res.outlen
       /\ res.src[i][k] = (res.adv + k - 1) + par.d[i]
\* only output times whose source exists in every channel are returned
OnlyValidSources ==
  Post("incoh") /\ res.ok => \A k \in 1..res.outlen : (res.adv + k - 1) \in Valid
\* all of them are returned; with none, the call refuses or returns nothing
AllValidReturned ==
  Post("incoh") =>
    IF Valid = {} THEN (~res.ok \/ res.outlen = 0)
    ELSE res.ok /\ res.outlen = Cardinality(Valid)
\* the new start is the time of the first admissible output sample
StartAdvance ==
  Post("incoh") /\ res.ok /\ res.outlen > 0 =>
    /\ res.adv = SetMin(Valid)
    /\ res.hasT = par.hasT
    /\ (par.hasT => res.t0 = SetMin(Valid))
\* the slices never wrap around although a negative N' is passed to them
NoWrap ==
  Post("incoh") /\ res.ok /\ res.outlen > 0 => res.np = res.outlen

(***************************************************************************)
(* C05: coherent crop                                                      *)
(***************************************************************************)
CropIsValidTimes ==
  Post("coh") => res.w1.sel = CohValid(par.len, Q4(par.dt), Q4(par.db))
CohContiguous ==
  Post("coh") => /\ res.w1.len = Cardinality(res.w1.sel)
                 /\ res.w1.sel = {res.w1.first + j : j \in 0..(res.w1.len - 1)}
CohStartAdvance ==
  Post("coh") /\ res.w1.len > 0 =>
     /\ res.w1.first = SetMin(res.w1.sel)
     /\ (par.hasT => res.t1 = SetMin(res.w1.sel))
\* DM then -DM: the samples that survive both crops are the input samples
\* first1 + first2 + j, exactly those valid for the forward and for the
\* inverse filter
RoundTripSupport ==
  Post("coh") =>
    LET a == res.w1.first
        both == {k \in res.w1.sel :
                   \A d \in {RZero, Q4(-par.dt), Q4(-par.db)} :
                      /\ RLe(RZero, RAdd(RI(k - a), d))
                      /\ RLe(RAdd(RI(k - a), d), RI(res.w1.len - 1))}
    IN /\ {a + j : j \in res.w2.sel} = both
       /\ (res.w2.len > 0 /\ par.hasT => res.t2 = SetMin(both))

(***************************************************************************)
(* Laws on the rational lattice                                            *)
(***************************************************************************)
InverseChirp ==
  Post("alg") => REq(ChirpPhase(RNeg(par.k), par.f1, par.f2), RNeg(ChirpPhase(par.k, par.f1, par.f2)))
ChirpZeroAtRef ==
  Post("alg") => /\ REq(ChirpPhase(par.k, par.f1, par.f1), RZero)
                 /\ RSign(ChirpPhase(par.k, par.f1, par.f2)) \in {0, RSign(par.k)}
\* reference at infinite frequency: the chirp phase is K DM / f and the delay K DM / f^2
InfiniteRef ==
  Post("alg") => /\ REq(ChirpPhaseInf(par.k, par.f1), RDiv(par.k, par.f1))
                 /\ REq(SampleDelayInf(par.k, par.f1, par.f3), RMul(RDiv(par.k, RMul(par.f1, par.f1)), par.f3))
                 /\ REq(RSub(SampleDelayInf(par.k, par.f1, par.f3), SampleDelayInf(par.k, par.f2, par.f3)),
                        SampleDelay(par.k, par.f1, par.f2, par.f3))
DelayAntisym ==
  Post("alg") => REq(Delay(par.k, par.f1, par.f2), RNeg(Delay(par.k, par.f2, par.f1)))
DelayAdditive ==
  Post("alg") => REq(RAdd(Delay(par.k, par.f1, par.f2), Delay(par.k, par.f2, par.f3)),
                     Delay(par.k, par.f1, par.f3))
DelayInverse == Post("alg") => REq(Delay(RNeg(par.k), par.f1, par.f2), RNeg(Delay(par.k, par.f1, par.f2)))
\* lower frequencies arrive later (for K*DM > 0): what makes the band edges the extremes
DelayMonotone ==
  Post("alg") /\ RLt(par.f1, par.f2) =>
     RSign(RSub(Delay(par.k, par.f1, par.f3), Delay(par.k, par.f2, par.f3))) = RSign(par.k)
\* the chirp advances every frequency by its delay: the phase slope is minus
\* the delay, exactly, as a central difference:
\*   phase(f+h) - phase(f-h) = -2h * K*DM * (1/((f+h)(f-h)) - 1/fref^2)
ChirpIsDelay ==
  Post("alg") =>
    LET fp == RAdd(par.f1, par.h)  fm == RSub(par.f1, par.h)
    IN REq(RSub(ChirpPhase(par.k, fp, par.f2), ChirpPhase(par.k, fm, par.f2)),
           RNeg(RMul(RMul(RI(2), par.h), DelayI(par.k, RInv(RMul(fp, fm)), InvSq(par.f2)))))

\* the bounded-cost evaluations of Dedisp 1b agree with the exact laws
FixAgrees ==
  Post("alg") =>
    /\ PhaseFixAgrees(par.k, par.f1, par.f2)
    /\ PhaseAgreesR(par.k, par.f1, RefOf(par.f2, TRUE))
    /\ DelayAgreesR(par.k, par.f1, RefOf(par.f2, TRUE), par.f3)
    /\ DelayAgreesR(par.k, par.f1, RefOf(par.f2, FALSE), par.f3)
    /\ SampleDelayAgrees(par.k, par.f1, par.f2, par.f3)
    /\ LET v == ChirpPhaseFix(par.k, par.f1, par.f2)
           a == CosSinDy(v)
           b == CosSin(PhaseFixRat(v))
       IN FClose(a.c, b.c, FromInt(8)) /\ FClose(a.s, b.s, FromInt(8))

View == <<kind, par, res, pc>>

(***************************************************************************)
(* Constant sets                                                           *)
(***************************************************************************)
AllKinds == {"incoh", "coh", "alg"}
GenKinds == {"incoh"}
Q_Lens == {0, 1, 2, 5, 8}
Q_NChans == {1, 2, 3}
Q_IDelays == -7..7
Q_QDelays == {-37, -33, -32, -31, -20, -13, -9, -8, -5, -4, -3, -1, 0, 1, 2, 4, 6, 8, 11, 20, 30, 32, 33, 39}
Q_AKdm == {RQ(-3, 1), RQ(1, 2), RQ(5, 3)}
Q_AFreqs == {RQ(2, 3), RQ(1, 1), RQ(3, 2), RQ(7, 3)}
Q_ASteps == {RQ(1, 4)}
F_Lens == 0..8
F_NChans == {1, 2, 3, 4}
F_IDelays == -10..10
F_QDelays == -47..47
F_AKdm == {RQ(-3, 1), RQ(-1, 7), RQ(1, 2), RQ(5, 3), RQ(4, 1)}
F_AFreqs == {RQ(2, 3), RQ(1, 1), RQ(3, 2), RQ(7, 3), RQ(5, 1), RQ(11, 2)}
F_ASteps == {RQ(1, 4), RQ(1, 3)}
=============================================================================
