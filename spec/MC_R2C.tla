------------------------------ MODULE MC_R2C ------------------------------
(***************************************************************************)
(* Model checking / generation driver for R2C (C19).  The state is one     *)
(* input case; the cases form a tree (so that TLC's workers share them):   *)
(*   root -> cube <<>> -> cube <<v>> -> ...   all x in {-1,0,1}^N, N<=MaxCube *)
(*        -> basisN N -> basis (N, j)         unit vectors, N <= MaxBasis   *)
(*        -> toneN N  -> tone (N, w, ph)      all integer w in 0..N/2       *)
(*        -> pairN N  -> pair (x1, x2, k)     additivity / homogeneity      *)
(*        -> arrR r   -> array (shape, ax, seed)   rank 1..3, every axis    *)
(* Every invariant is one clause of the property, evaluated with the        *)
(* operational definition R2C.                                              *)
(***************************************************************************)
EXTENDS R2C, TLC
CONSTANTS MaxCube, MaxBasis, MaxTone, MaxArrN, Wrong

VARIABLE st
Vals == {-1, 0, 1}
Phases == {RQ(0, 1), RQ(1, 8), RQ(1, 3), RQ(-1, 4), RQ(7, 16)}
BasisTab == [N \in 1..MaxBasis |-> [j \in 1..N |-> R2C(Unit(N, j))]]

\* deterministic pseudo-random small integers for array cases
ArrVal(p, seed) == ((p * 7 + seed * 3 + (p \div 3) + (p \div 5)) % 3) - 1
ArrShapes(r) ==
  IF r = 1 THEN {<<n>> : n \in 0..MaxArrN}
  ELSE IF r = 2 THEN {<<a, b>> : a \in 0..MaxArrN, b \in 1..3} \cup {<<b, a>> : a \in 0..MaxArrN, b \in 1..3}
  ELSE {<<a, b, c>> : a \in 0..MaxArrN, b \in 1..2, c \in 1..2}
       \cup {<<b, a, c>> : a \in 0..MaxArrN, b \in 1..2, c \in 1..2}
       \cup {<<b, c, a>> : a \in 0..MaxArrN, b \in 1..2, c \in 1..2}
Pairs(N) == {<<a, b, k>> \in (1..N) \X (1..N) \X {-3, 2} : TRUE}

Init == st = [kind |-> "root"]
Next ==
  \/ /\ st.kind = "root"
     /\ \/ st' = [kind |-> "cube", x |-> <<>>]
        \/ \E N \in 1..MaxBasis : st' = [kind |-> "basisN", N |-> N]
        \/ \E N \in 1..MaxTone : st' = [kind |-> "toneN", N |-> N]
        \/ \E N \in 1..MaxCube : st' = [kind |-> "pairN", N |-> N]
        \/ \E r \in 1..3 : st' = [kind |-> "arrR", r |-> r]
  \/ /\ st.kind = "cube" /\ Len(st.x) < MaxCube
     /\ \E v \in Vals : st' = [kind |-> "cube", x |-> Append(st.x, v)]
  \/ /\ st.kind = "basisN"
     /\ \E j \in 1..st.N : st' = [kind |-> "basis", N |-> st.N, j |-> j]
  \/ /\ st.kind = "toneN"
     /\ \E w \in 0..(st.N \div 2) : \E ph \in Phases : st' = [kind |-> "tone", N |-> st.N, w |-> w, ph |-> ph]
  \/ /\ st.kind = "pairN"
     /\ \E t \in Pairs(st.N) :
          st' = [kind |-> "pair", x1 |-> [i \in 1..st.N |-> ArrVal(i + t[1], t[2])],
                 x2 |-> [i \in 1..st.N |-> ArrVal(3 * i + t[2], t[1])], k |-> t[3]]
  \/ /\ st.kind = "arrR"
     /\ \E sh \in ArrShapes(st.r) : \E ax \in 1..st.r : \E seed \in 0..1 :
          st' = [kind |-> "array", shape |-> sh, ax |-> ax, seed |-> seed]
Spec == Init /\ [][Next]_st

\* the input sequence (Fix) of a one-dimensional case
HasInput == st.kind \in {"cube", "basis", "tone"}
Ints(x) == [i \in 1..Len(x) |-> FFromInt(x[i])]
Input == CASE st.kind = "cube" -> Ints(st.x)
           [] st.kind = "basis" -> Unit(st.N, st.j)
           [] st.kind = "tone" -> ToneIn(st.N, st.w, st.ph)
ArrFlat == [p \in 1..Prod(st.shape) |-> FFromInt(ArrVal(p, st.seed))]

(* negative model: the weight of bin N//2 is always 1 (wrong for odd N) *)
\* used only by Neg_R2C.cfg through Wrong = TRUE
WrongR2C(x) ==
  LET N == Len(x)
      X == Spectrum(x)
      Y == [k \in 1..N |-> CScaleInt(X[k], IF k - 1 = N \div 2 /\ N > 1 THEN 1 ELSE HWeight(N, k - 1))]
      y == DftW(Y, 1, TW[N])
      m == [n \in 1..N |-> MulMinusIPow(CDivSmall(y[n], N), n - 1)]
  IN [j \in 1..OutLen(N) |-> m[2 * j - 1]]

InvLen == HasInput => LenClause(Input)
InvRealPart ==
  HasInput => IF Wrong
              THEN LET y == WrongR2C(Input)
                   IN \A m \in 0..(Len(y) - 1) : FClose(MulInt(y[m + 1].re, Sgn(m)), Input[2 * m + 1], Tol)
              ELSE RealPartClause(Input)
InvAnalytic == HasInput => AnalyticClause(Input)
InvLinear == st.kind = "cube" /\ Len(st.x) > 0 => LinearClause(st.x, BasisTab[Len(st.x)])
InvAdd == st.kind = "pair" => AddClause(Ints(st.x1), Ints(st.x2), st.k)
InvTone == st.kind = "tone" => ToneClause(st.N, st.w, st.ph)
InvDtype == st.kind = "root" => DtypeClause
InvAxis == st.kind = "array" /\ Len(st.shape) = 2 => AxisClause(st.shape, ArrFlat)
InvArrayLen == st.kind = "array" =>
  LET r == R2CAxis(st.shape, ArrFlat, st.ax)
  IN r.shape = [st.shape EXCEPT ![st.ax] = (@ + 1) \div 2] /\ Len(r.flat) = Prod(r.shape)
=============================================================================
