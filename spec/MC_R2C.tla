------------------------------ MODULE MC_R2C ------------------------------
(***************************************************************************)
(* Model checking / generation driver for R2C (C19).  The state is one     *)
(* input case `st` and `out`, what the operational definition computes for *)
(* it (computed once, when the case is generated).  The cases form a tree  *)
(* so that TLC's workers share them:                                       *)
(*   root -> cube <<>> -> cube <<v>> -> ...  all x in {-1,0,1}^N, N <= MaxCube *)
(*        -> basisN N -> basis (N, j)        unit vectors, N <= MaxBasis    *)
(*        -> toneN N  -> tone (N, w, ph)     all integer w in 0..N/2        *)
(*        -> pairN N  -> pair (x1, x2, k)    additivity / homogeneity       *)
(*        -> arrR r   -> array (shape, ax, seed)   rank 1..3, every axis    *)
(* Every invariant is one clause of the property.                           *)
(***************************************************************************)
EXTENDS R2C
CONSTANTS MaxCube, MaxBasis, MaxTone, MaxArrN, Phases, Wrong

VARIABLES st, out, basis
vars == <<st, out, basis, tw>>
Vals == {-1, 0, 1}
Q_Phases == {RQ(0, 1), RQ(1, 8), RQ(-1, 3)}                       \* tone phases, cycles
F_Phases == {RQ(0, 1), RQ(1, 8), RQ(-1, 3), RQ(-1, 4), RQ(7, 16), RQ(1, 2)}

\* deterministic pseudo-random small integers for array cases
ArrVal(p, seed) == ((p * 7 + seed * 3 + (p \div 3) + (p \div 5)) % 3) - 1
ArrShapes(r) ==
  IF r = 1 THEN {<<n>> : n \in 0..MaxArrN}
  ELSE IF r = 2 THEN {<<a, b>> : a \in 0..MaxArrN, b \in 1..3} \cup {<<b, a>> : a \in 0..MaxArrN, b \in 1..3}
  ELSE {<<a, b, c>> : a \in 0..MaxArrN, b \in 1..2, c \in 1..2}
       \cup {<<b, a, c>> : a \in 0..MaxArrN, b \in 1..2, c \in 1..2}
       \cup {<<b, c, a>> : a \in 0..MaxArrN, b \in 1..2, c \in 1..2}
Pairs(N) == (1..N) \X (1..N) \X {-3, 2}

Ints(x) == Strict([i \in 1..Len(x) |-> FFromInt(x[i])])
HasInput(s) == s.kind \in {"cube", "basis", "tone"}
InputOf(s) == CASE s.kind = "cube" -> Ints(s.x)
                [] s.kind = "basis" -> Unit(s.N, s.j)
                [] s.kind = "tone" -> ToneIn(s.N, s.w, s.ph)
ArrFlat(s) == Strict([p \in 1..Prod(s.shape) |-> FFromInt(ArrVal(p, s.seed))])

(* negative model (Neg_R2C_weight.cfg, Wrong = TRUE): the weight of bin N//2 is always 1, *)
(* which is wrong for odd N                                                               *)
WrongAnalyticOf(X) ==
  LET N == Len(X)
      Y == Strict([k \in 1..N |-> CScaleInt(X[k], IF k - 1 = N \div 2 /\ N > 1 THEN 1 ELSE HWeight(N, k - 1))])
      y == SDft(Y, 1, TW[N])
  IN IF N = 0 THEN <<>> ELSE Strict([n \in 1..N |-> CDivSmall(y[n], N)])

None == [kind |-> "none"]
Compute(s) ==
  IF HasInput(s)
  THEN LET x == InputOf(s)
           X == Spectrum(x)
           a == IF Wrong THEN WrongAnalyticOf(X) ELSE AnalyticOf(X)
       IN [kind |-> "vec", x |-> x, X |-> X, a |-> a,
           S |-> IF Len(a) = 0 THEN <<>> ELSE SDft(a, -1, TW[Len(a)]),
           y |-> IF Len(x) = 0 THEN <<>> ELSE R2COf(a)]
  ELSE IF s.kind = "pair"
  THEN [kind |-> "pair", y |-> R2C(Strict([i \in 1..Len(s.x1) |-> FFromInt(s.x1[i] + s.k * s.x2[i])])),
        y1 |-> R2C(Ints(s.x1)), y2 |-> R2C(Ints(s.x2))]
  ELSE IF s.kind = "array"
  THEN [kind |-> "array", flat |-> ArrFlat(s), r |-> R2CAxis(s.shape, ArrFlat(s), s.ax)]
  ELSE None

Init == /\ st = [kind |-> "root"] /\ out = None
        /\ tw = TwTable
        /\ basis = Strict([N \in 1..MaxCube |-> Strict([j \in 1..N |-> R2C(Unit(N, j))])])
Step ==
  \/ /\ st.kind = "root"
     /\ \/ st' = [kind |-> "cube", x |-> <<>>]
        \/ \E N \in 1..MaxBasis : st' = [kind |-> "basisN", N |-> N]
        \/ \E N \in 1..MaxTone : st' = [kind |-> "toneN", N |-> N]
        \/ \E N \in 1..MaxCube : st' = [kind |-> "pairN", N |-> N]
        \/ \E r \in 1..3 : st' = [kind |-> "arrR", r |-> r]
  \/ /\ st.kind = "cube" /\ Len(st.x) < MaxCube
     /\ \E v \in Vals : st' = [kind |-> "cube", x |-> Append(st.x, v)]
  \/ /\ st.kind = "basisN"
     /\ \E j \in 1..st.N : st' = [kind |-> "basis", N |-> st.N, j |-> j]
  \/ /\ st.kind = "toneN"
     /\ \E w \in 0..(st.N \div 2) : \E ph \in Phases : st' = [kind |-> "tone", N |-> st.N, w |-> w, ph |-> ph]
  \/ /\ st.kind = "pairN"
     /\ \E t \in Pairs(st.N) :
          st' = [kind |-> "pair", x1 |-> [i \in 1..st.N |-> ArrVal(i + t[1], t[2])],
                 x2 |-> [i \in 1..st.N |-> ArrVal(3 * i + t[2], t[1])], k |-> t[3]]
  \/ /\ st.kind = "arrR"
     /\ \E sh \in ArrShapes(st.r) : \E ax \in 1..st.r : \E seed \in 0..1 :
          st' = [kind |-> "array", shape |-> sh, ax |-> ax, seed |-> seed]
Next == Step /\ out' = Compute(st') /\ UNCHANGED <<tw, basis>>
Spec == Init /\ [][Next]_vars

IsVec == out.kind = "vec"
InvLen == IsVec => LenRel(out.x, out.y)
InvRealPart == IsVec => RealPartRel(out.x, out.y)
InvAnalytic == IsVec => AnalyticRel(out.x, out.a, out.S, out.X)
InvMix == IsVec => MixRel(out.a, out.y)
InvLinear == IsVec /\ st.kind = "cube" /\ Len(st.x) > 0 => LinearRel(st.x, out.y, basis[Len(st.x)])
InvAdd == out.kind = "pair" => AddRel(out.y, out.y1, out.y2, st.k)
InvTone == IsVec /\ st.kind = "tone" => ToneRel(st.N, st.w, st.ph, out.y)
InvDtype == st.kind = "root" => DtypeClause
InvAxis == out.kind = "array" /\ Len(st.shape) = 2 /\ st.ax = 2 => AxisRel(st.shape, out.flat, out.r)
InvArrayLen == out.kind = "array" =>
  /\ out.r.shape = [st.shape EXCEPT ![st.ax] = (@ + 1) \div 2]
  /\ Len(out.r.flat) = Prod(out.r.shape)
=============================================================================
