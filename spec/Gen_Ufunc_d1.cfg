SPECIFICATION Spec
CONSTANTS
  Heaps <- F_ArrHeaps
  Ufuncs <- AllUfuncs
  Methods <- AllMethods
  DKinds <- AllDKinds
  OutRK <- G_OutRK
  AsDtypes <- AllAsDtypes
  MaxDepth = 1
  FreeDepth = 1
  Canonical = TRUE
  Variant = "real"
  ArrayProto = "fixed"
INVARIANT Emit
CHECK_DEADLOCK FALSE
