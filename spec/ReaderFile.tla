----------------------------- MODULE ReaderFile -----------------------------
(***************************************************************************)
(* C11 - constant-level model of a baseband file and of what one read of   *)
(* pulsarbat.readers.BasebandReader / GUPPIRawReader / DADAStokesReader    *)
(* returns.  Shared by Reader (state machine, model checking, generation)  *)
(* and Trace_Reader (validation of recorded reads).                        *)
(*                                                                         *)
(* A file set f is a record                                                *)
(*   kind   "plain" (BasebandReader) | "guppi" | "stokes"                  *)
(*   real   TRUE: real-sampled voltages (two raw samples per output        *)
(*          sample, Hilbert conversion of the block that was read)         *)
(*   lsb    lower sideband (file level; decides the Stokes channel flip)   *)
(*   mask   A x B matrix of BOOLEAN: which elements of a raw sample are    *)
(*          conjugated (all lsb for a file-level sideband; BasebandReader  *)
(*          also accepts one flag per element)                             *)
(*   spf fpf nfiles   raw samples per frame, frames per file, files        *)
(*   A B    shape of one raw sample as the stream reader presents it       *)
(*          (guppi: npol, nchan; stokes: 4, nchan; plain: anything)        *)
(*   t0 per start time and raw sample period in integer ticks              *)
(*   blk ceil  0 / FALSE for the code; other values are negative models    *)
(*          (block-wise conversion, length rounded up), see below          *)
(* Raw sample number i (0-based, global over all frames and files) has     *)
(* content id i; its element (a,b) is the record [src |-> <<i>>, ...].     *)
(***************************************************************************)
EXTENDS Integers, Sequences, FiniteSets

RawLen(f) == f.spf * f.fpf * f.nfiles
\* real data: two raw samples per output sample, an odd last raw sample is not part of the stream.
\* (f.ceil = TRUE is a negative model that rounds the other way, Neg_Reader_ceil.cfg.)
OutLen(f) == IF f.real THEN (IF f.ceil THEN (RawLen(f) + 1) \div 2 ELSE RawLen(f) \div 2) ELSE RawLen(f)
OutPer(f) == IF f.real THEN 2 * f.per ELSE f.per
\* a file stores frames; frame fr (0-based, global) lies in file fr \div fpf
\* and holds the raw samples fr*spf .. fr*spf + spf - 1
FrameIds(f, fr) == [j \in 1..f.spf |-> fr * f.spf + (j - 1)]
FileOfFrame(f, fr) == fr \div f.fpf
NFrames(f) == f.fpf * f.nfiles
IMin2(x, y) == IF x <= y THEN x ELSE y

(***************************************************************************)
(* Stream read as the underlying reader performs it: frame by frame from   *)
(* the handle position, never beyond the last frame.                       *)
(***************************************************************************)
RECURSIVE StreamRead(_, _, _)
StreamRead(f, pos, c) ==
  IF c <= 0 \/ pos >= RawLen(f) \/ pos < 0 THEN <<>>
  ELSE LET fr   == pos \div f.spf
           off  == pos % f.spf
           take == IMin2(c, f.spf - off)
           ids  == FrameIds(f, fr)
       IN [j \in 1..take |-> ids[off + j]] \o StreamRead(f, pos + take, c - take)

(***************************************************************************)
(* Post-processing of what was read (code: _read_baseband/_read_array).    *)
(* A raw sample is an A x B matrix (1-based sequences) of elements.        *)
(***************************************************************************)
Intensity(f) == f.kind = "stokes"
Elem0(f, src, m) == [a \in 1..f.A |-> [b \in 1..f.B |->
                      [src |-> src, m |-> m, a |-> a - 1, b |-> b - 1, cj |-> FALSE]]]
ConjE(e) == [e EXCEPT !.cj = ~@]
MaskM(M, K, Op(_)) == [a \in 1..Len(M) |-> [b \in 1..Len(M[a]) |->
                         IF K[a][b] THEN Op(M[a][b]) ELSE M[a][b]]]
FlipM(M) == [a \in 1..Len(M) |-> [b \in 1..Len(M[a]) |-> M[a][Len(M[a]) + 1 - b]]]
TransM(M) == IF Len(M) = 0 THEN <<>>
             ELSE [x \in 1..Len(M[1]) |-> [y \in 1..Len(M) |-> M[y][x]]]
\* generic in the conjugation operator so that it also acts on value codes
PostSampleG(f, M, Cj(_)) ==
  LET m1 == IF ~Intensity(f) THEN MaskM(M, f.mask, Cj) ELSE M        \* z.conj() / z[:, lsb].conj()
      m2 == IF f.kind = "stokes" /\ f.lsb THEN FlipM(m1) ELSE m1     \* np.flip(z, axis=-1)
  IN IF f.kind = "plain" THEN m2 ELSE TransM(m2)                     \* z.transpose(0, 2, 1)
PostSample(f, M) == PostSampleG(f, M, ConjE)

\* S: the raw ids that were read.  Complex / intensity data: one output
\* sample per raw sample.  Real data: RealToComplex of the whole block
\* (module R2C, property C19), abstractly "output m of block S";
\* ceil(|S|/2) output samples.
\* The conversion is not local: every output sample of a read depends on the WHOLE block of
\* 2n raw samples that was read, so the block (its first id and its length) is part of the value
\* (src).  f.blk = 0 is the code: the read is converted as one block.  f.blk = k > 0 is a negative
\* model (Neg_Reader_block.cfg) that converts consecutive blocks of at most k output samples.
RECURSIVE Blocks(_, _)
Blocks(S, k) == IF Len(S) <= k THEN <<S>> ELSE <<SubSeq(S, 1, k)>> \o Blocks(SubSeq(S, k + 1, Len(S)), k)
RECURSIVE CatR(_, _)
CatR(ss, i) == IF i > Len(ss) THEN <<>> ELSE ss[i] \o CatR(ss, i + 1)
ConvertBlock(f, b) == [m \in 1..((Len(b) + 1) \div 2) |-> PostSample(f, Elem0(f, b, m - 1))]
PostData(f, S) ==
  IF f.real
  THEN LET bs == IF f.blk = 0 THEN <<S>> ELSE Blocks(S, 2 * f.blk)
       IN CatR([i \in 1..Len(bs) |-> ConvertBlock(f, bs[i])], 1)
  ELSE [m \in 1..Len(S) |-> PostSample(f, Elem0(f, <<S[m]>>, 0))]

(***************************************************************************)
(* Times.  time_at(k) = start + k / sample_rate (sample rate halved for    *)
(* real data); offset_at(t) = round-half-even((t - start) * sample_rate),  *)
(* refused outside [0, len].                                               *)
(***************************************************************************)
TimeAt(f, k) == f.t0 + k * OutPer(f)
RoundHE(num, den) ==          \* den > 0
  LET q == num \div den  r == num % den
  IN IF 2 * r < den THEN q ELSE IF 2 * r > den THEN q + 1
     ELSE IF q % 2 = 0 THEN q ELSE q + 1
OffsetAtRel(f, d) ==
  LET k == RoundHE(d, OutPer(f))
  IN IF k < 0 \/ k > OutLen(f) THEN [st |-> "EOFError", k |-> 0] ELSE [st |-> "ok", k |-> k]
OffsetAt(f, t) == OffsetAtRel(f, t - f.t0)

(***************************************************************************)
(* One read, sequentially, on a fresh handle (operational).                *)
(***************************************************************************)
Refusal(f, o, n) ==
  IF o < 0 THEN "ValueError" ELSE IF n < 0 THEN "ValueError"
  ELSE IF o + n > OutLen(f) THEN "EOFError" ELSE "ok"
SeekPos(f, o) == IF f.real THEN 2 * o ELSE o
ReadCount(f, n) == IF f.real THEN 2 * n ELSE n
Result(f, o, data) == [st |-> "ok", t |-> TimeAt(f, o), len |-> Len(data), data |-> data]
Refused(st) == [st |-> st, t |-> 0, len |-> 0, data |-> <<>>]
SeqRead(f, o, n) ==
  IF Refusal(f, o, n) # "ok" THEN Refused(Refusal(f, o, n))
  ELSE Result(f, o, PostData(f, StreamRead(f, SeekPos(f, o), ReadCount(f, n))))

(***************************************************************************)
(* Declarative: what read(o, n) must return - sample m of the result is    *)
(* content o+m (real data: output m of the conversion of raw              *)
(* [2o, 2o+2n) ), axes (time, channel, polarisation), conjugated for lower *)
(* sideband voltages, channel order reversed for lower sideband Stokes.    *)
(***************************************************************************)
OutX(f) == IF f.kind = "plain" THEN f.A ELSE f.B
OutY(f) == IF f.kind = "plain" THEN f.B ELSE f.A
ExpElem(f, o, n, m, x, y) ==     \* m, x, y 0-based
  [src |-> IF f.real THEN [j \in 1..(2 * n) |-> 2 * o + j - 1] ELSE <<o + m>>,
   m   |-> IF f.real THEN m ELSE 0,
   a   |-> IF f.kind = "plain" THEN x ELSE y,
   b   |-> IF f.kind = "plain" THEN y
           ELSE IF f.kind = "stokes" /\ f.lsb THEN f.B - 1 - x ELSE x,
   cj  |-> ~Intensity(f) /\ f.mask[(IF f.kind = "plain" THEN x ELSE y) + 1]
                                   [(IF f.kind = "plain" THEN y ELSE x) + 1]]
Expected(f, o, n) ==
  [st |-> "ok", t |-> f.t0 + o * OutPer(f), len |-> n,
   data |-> [m \in 1..n |-> [x \in 1..OutX(f) |-> [y \in 1..OutY(f) |->
               ExpElem(f, o, n, m - 1, x - 1, y - 1)]]]]

(***************************************************************************)
(* Integer codes of elements (interchange with the harness).               *)
(* K = (i*A + a)*B + b identifies raw sample, and position in the sample;  *)
(* code = 2*(K mod md) + cj.  For real data the identifiable raw sample of *)
(* output m is the even one, src[2m+1] ( (-1)^m Re out[m] = x[2m], C19 ).  *)
(***************************************************************************)
ElemRawId(e) == IF Len(e.src) = 1 THEN e.src[1] ELSE e.src[2 * e.m + 1]
Code(f, e, md) == 2 * ((((ElemRawId(e) * f.A) + e.a) * f.B + e.b) % md) + (IF e.cj THEN 1 ELSE 0)
RECURSIVE FlatR(_, _)
FlatR(ss, i) == IF i > Len(ss) THEN <<>> ELSE ss[i] \o FlatR(ss, i + 1)
Flat(ss) == FlatR(ss, 1)                       \* sequence of sequences -> sequence
Codes(f, data, md) ==
  Flat([m \in 1..Len(data) |-> Flat([x \in 1..Len(data[m]) |->
         [y \in 1..Len(data[m][x]) |-> Code(f, data[m][x][y], md)]])])
=============================================================================
