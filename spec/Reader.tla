------------------------------- MODULE Reader -------------------------------
(***************************************************************************)
(* C11 - readers are position-faithful, stateless and agree with the file. *)
(*                                                                         *)
(* read(o, n) of the code:                                                 *)
(*    bounds check (BaseReader.read)                    -> Call            *)
(*    with self._get_fh() as fh:      fresh handle      -> RdOpen          *)
(*        fh.seek(o   or 2*o)                           -> RdSeek          *)
(*        z = fh.read(n or 2*n)                         -> RdRead          *)
(*    (leaving the with block)        handle closed     -> RdClose         *)
(*    conj / flip / transpose / real_to_complex: local to the caller,      *)
(*    folded into RdClose; start_time = time_at(o).                        *)
(* Every concurrent caller is a process; the four file steps of different  *)
(* processes interleave freely.  A process performs up to MaxReads reads   *)
(* one after the other (histories).                                        *)
(*                                                                         *)
(* Shared = FALSE is the code: the handle of a read is its own.            *)
(* Shared = TRUE is the negative model (one cached handle for everybody:   *)
(* seek and read of different reads meet on the same position); TLC must   *)
(* reject ReadIsFunctionOfArgs for it.                                     *)
(***************************************************************************)
EXTENDS ReaderFile, TLC

CONSTANTS Configs,    \* set of file records (see ReaderFile)
          Procs,      \* 1..NP
          Args,       \* set of <<o, n>> a read may be called with
          MaxReads,   \* reads per process
          Shared      \* BOOLEAN

VARIABLES F,      \* the file set (chosen initially, never changes)
          pc,     \* pc[p] : "idle" "open" "seek" "read" "close" "done" "refused"
          arg,    \* arg[p] = <<o, n>> of the current / last read
          hd,     \* handles: [open, pos]
          raw,    \* raw[p]: raw sample ids delivered by RdRead
          res,    \* res[p]: result of the last completed read
          cnt,    \* cnt[p]: reads completed
          hist    \* observation: the schedule so far, <<p, step>> (hidden by VIEW)
vars == <<F, pc, arg, hd, raw, res, cnt, hist>>
View == <<F, pc, arg, hd, raw, res, cnt>>

HandleIds == IF Shared THEN {0} ELSE Procs
H(p) == IF Shared THEN 0 ELSE p
Closed == [open |-> FALSE, pos |-> 0]
NoRes == [st |-> "none", t |-> 0, len |-> 0, data |-> <<>>]

Init == /\ F \in Configs
        /\ pc = [p \in Procs |-> "idle"]
        /\ arg = [p \in Procs |-> <<0, 0>>]
        /\ hd = [h \in HandleIds |-> Closed]
        /\ raw = [p \in Procs |-> <<>>]
        /\ res = [p \in Procs |-> NoRes]
        /\ cnt = [p \in Procs |-> 0]
        /\ hist = <<>>

Call(p) == /\ pc[p] \in {"idle", "done", "refused"}
           /\ cnt[p] < MaxReads
           /\ \E a \in Args :
                /\ arg' = [arg EXCEPT ![p] = a]
                /\ LET st == Refusal(F, a[1], a[2])
                   IN IF st = "ok"
                      THEN /\ pc' = [pc EXCEPT ![p] = "open"]
                           /\ res' = [res EXCEPT ![p] = NoRes]
                           /\ cnt' = cnt
                      ELSE /\ pc' = [pc EXCEPT ![p] = "refused"]
                           /\ res' = [res EXCEPT ![p] = Refused(st)]
                           /\ cnt' = [cnt EXCEPT ![p] = @ + 1]
           /\ raw' = [raw EXCEPT ![p] = <<>>]
           /\ UNCHANGED <<F, hd, hist>>

Step(p, s) == hist' = Append(hist, <<p, s>>)

RdOpen(p) == /\ pc[p] = "open"
             /\ hd' = [hd EXCEPT ![H(p)] = IF Shared /\ @.open THEN @
                                           ELSE [open |-> TRUE, pos |-> 0]]
             /\ pc' = [pc EXCEPT ![p] = "seek"]
             /\ Step(p, "open")
             /\ UNCHANGED <<F, arg, raw, res, cnt>>
RdSeek(p) == /\ pc[p] = "seek"
             /\ hd' = [hd EXCEPT ![H(p)].pos = SeekPos(F, arg[p][1])]
             /\ pc' = [pc EXCEPT ![p] = "read"]
             /\ Step(p, "seek")
             /\ UNCHANGED <<F, arg, raw, res, cnt>>
RdRead(p) == /\ pc[p] = "read"
             /\ LET c == ReadCount(F, arg[p][2])
                    S == StreamRead(F, hd[H(p)].pos, c)
                IN /\ raw' = [raw EXCEPT ![p] = S]
                   /\ hd' = [hd EXCEPT ![H(p)].pos = @ + Len(S)]
             /\ pc' = [pc EXCEPT ![p] = "close"]
             /\ Step(p, "read")
             /\ UNCHANGED <<F, arg, res, cnt>>
RdClose(p) == /\ pc[p] = "close"
              /\ hd' = IF Shared THEN hd ELSE [hd EXCEPT ![H(p)] = Closed]
              /\ res' = [res EXCEPT ![p] = Result(F, arg[p][1], PostData(F, raw[p]))]
              /\ pc' = [pc EXCEPT ![p] = "done"]
              /\ cnt' = [cnt EXCEPT ![p] = @ + 1]
              /\ Step(p, "close")
              /\ UNCHANGED <<F, arg, raw>>

Next == \E p \in Procs : Call(p) \/ RdOpen(p) \/ RdSeek(p) \/ RdRead(p) \/ RdClose(p)
Spec == Init /\ [][Next]_vars

(***************************************************************************)
(* Property clauses                                                        *)
(***************************************************************************)
\* every completed read returns content[o .. o+n), stamped time_at(o), of
\* length n, whatever the other processes did and whatever was read before
ReadIsFunctionOfArgs ==
  \A p \in Procs : pc[p] = "done" => res[p] = Expected(F, arg[p][1], arg[p][2])

\* a request is refused iff it is outside [0, len]; a refused request never
\* touches a file
BoundsRefused ==
  \A p \in Procs :
    /\ pc[p] \in {"open", "seek", "read", "close", "done"}
         => /\ arg[p][1] >= 0 /\ arg[p][2] >= 0
            /\ arg[p][1] + arg[p][2] <= OutLen(F)
    /\ pc[p] = "refused"
         => /\ arg[p][1] < 0 \/ arg[p][2] < 0 \/ arg[p][1] + arg[p][2] > OutLen(F)
            /\ res[p].st = (IF arg[p][1] < 0 \/ arg[p][2] < 0 THEN "ValueError" ELSE "EOFError")
            /\ res[p].data = <<>>

\* formats without Hilbert conversion: two completed reads whose ranges are
\* adjacent concatenate to the spanning read (and their stamps are adjacent)
AdjacentReadsConcatenate ==
  \A p, q \in Procs :
    (/\ p # q /\ pc[p] = "done" /\ pc[q] = "done" /\ ~F.real
     /\ arg[q][1] = arg[p][1] + arg[p][2])
    => LET sp == SeqRead(F, arg[p][1], arg[p][2] + arg[q][2])
       IN /\ sp.st = "ok"
          /\ res[p].data \o res[q].data = sp.data
          /\ res[p].t = sp.t
          /\ res[q].t = res[p].t + res[p].len * OutPer(F)
\* the same for the sequential function itself, all splits (checked on the
\* initial states only: it does not depend on the rest of the state)
AdjacentStatic ==
  (\A p \in Procs : pc[p] = "idle") /\ ~F.real =>
    \A o \in 0..OutLen(F) : \A n1 \in 0..(OutLen(F) - o) : \A n2 \in 0..(OutLen(F) - o - n1) :
      SeqRead(F, o, n1).data \o SeqRead(F, o + n1, n2).data = SeqRead(F, o, n1 + n2).data

\* offset_at(time_at(k)) = k for every 0 <= k <= len, absolute and relative
\* times; nearest sample in between; refusal outside
OffsetTimeRoundTrip ==
  (\A p \in Procs : pc[p] = "idle") =>
    /\ \A k \in 0..OutLen(F) :
         /\ OffsetAt(F, TimeAt(F, k)) = [st |-> "ok", k |-> k]
         /\ OffsetAtRel(F, k * OutPer(F)) = [st |-> "ok", k |-> k]
         /\ \A d \in (1 - OutPer(F) \div 2)..(OutPer(F) \div 2 - 1) :
               (OutPer(F) % 2 = 0) => OffsetAt(F, TimeAt(F, k) + d) = [st |-> "ok", k |-> k]
    /\ OffsetAt(F, TimeAt(F, -1)).st = "EOFError"
    /\ OffsetAt(F, TimeAt(F, OutLen(F) + 1)).st = "EOFError"
    /\ \A k \in 0..OutLen(F) : SeqRead(F, k, 0).t = TimeAt(F, k)

\* sanity of the model itself
TypeOK ==
  /\ \A p \in Procs : pc[p] \in {"idle", "open", "seek", "read", "close", "done", "refused"}
  /\ \A h \in HandleIds : hd[h].pos >= 0
Terminal == \A p \in Procs : pc[p] \in {"done", "refused"} /\ cnt[p] = MaxReads
=============================================================================
