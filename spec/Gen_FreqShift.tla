---------------------------- MODULE Gen_FreqShift ----------------------------
(* Behaviour generation for C04: every configuration with, per element of   *)
(* the sample shape (row-major), the shift the declarative side broadcasts  *)
(* to it.  Expected spectra / samples come from Gen_Delay (Mode "freq").    *)
EXTENDS MC_FreqShift, Json, IOUtils, CSV
Rec ==
  LET P == P0
      es == ElemSeq(ssh)
      ms == ElemSeq(P)
  IN [N |-> N, ssh |-> ssh, shsh |-> shsh, prev |-> prev,
      S |-> [j \in 1..Len(ms) |-> S[ms[j]]],
      qe |-> [j \in 1..Len(es) |-> ShiftOf(es[j], P, S)]]
\* `over` does not change what is demanded
Emit == (Done /\ ~over) => CSVWrite("%1$s", <<ToJson(Rec)>>, IOEnv.GEN_OUT)
=============================================================================
