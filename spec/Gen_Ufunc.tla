----------------------------- MODULE Gen_Ufunc -----------------------------
(* Case generation: every explored behaviour is written as one JSON line    *)
(* (initial heap descriptors, steps with the specification's expected       *)
(* outcome) to IOEnv.GEN_OUT.                                               *)
EXTENDS MC_Ufunc, Json, IOUtils, CSV
\* the same_kind table of the specification, printed once, for the replayer's dtype pairs
CastKinds == {"b1", "uint", "int", "f2", "f4", "f8", "f16", "c8", "c16", "c32", "obj"}
EmitTable == (hist = <<>> /\ heap0 = <<"Signal">>) =>
               CSVWrite("%1$s", <<ToJson([cast_table |-> {<<a, b>> \in CastKinds \X CastKinds : SameKind(a, b)}])>>,
                        IOEnv.GEN_OUT)
Emit == EmitTable /\ hist # <<>> => CSVWrite("%1$s", <<ToJson([heap0 |-> heap0, hist |-> hist])>>, IOEnv.GEN_OUT)
\* chains: only complete behaviours (prefixes are contained in them)
EmitLeaf == Len(hist) = MaxDepth => Emit
=============================================================================
