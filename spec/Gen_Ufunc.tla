----------------------------- MODULE Gen_Ufunc -----------------------------
(* Case generation: every explored behaviour is written as one JSON line    *)
(* (initial heap descriptors, steps with the specification's expected       *)
(* outcome) to IOEnv.GEN_OUT.                                               *)
EXTENDS MC_Ufunc, Json, IOUtils, CSV
Emit == hist # <<>> => CSVWrite("%1$s", <<ToJson([heap0 |-> heap0, hist |-> hist])>>, IOEnv.GEN_OUT)
\* chains: only complete behaviours (prefixes are contained in them)
EmitLeaf == Len(hist) = MaxDepth => Emit
=============================================================================
