SPECIFICATION Spec
CONSTANTS
  P <- Q_P
  EMin <- Q_EMin
  EMax <- Q_EMax
  Factors <- Q_Factors
  Divisors <- Q_Divisors
  Variant = "round_excess"
INVARIANT DayIntegral
INVARIANT FracInRange
INVARIANT SumExact
INVARIANT PartsAreFloats
CHECK_DEADLOCK FALSE
