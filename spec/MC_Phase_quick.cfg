SPECIFICATION Spec
CONSTANTS
  MaxK <- Q_MaxK
  Lits <- Q_Lits
  Factors <- Q_Factors
  OKinds <- AllOKinds
  Variant = "spec"
INVARIANT TypeOK
INVARIANT ResultIsPhase
INVARIANT NormalisedInv
INVARIANT AddSubInverse
INVARIANT MulDivInverse
INVARIANT ImagRule
INVARIANT DivModLaw
CHECK_DEADLOCK FALSE
