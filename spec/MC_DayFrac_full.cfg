SPECIFICATION Spec
CONSTANTS
  P <- F_P
  EMin <- F_EMin
  EMax <- F_EMax
  Factors <- F_Factors
  Divisors <- F_Divisors
  Variant = "round_excess"
INVARIANT DayIntegral
INVARIANT FracInRange
INVARIANT SumExact
INVARIANT PartsAreFloats
CHECK_DEADLOCK FALSE
