SPECIFICATION Spec
CONSTANTS
  Roots <- N_Roots
  Ops <- Q_Ops
  Scheds = {"sync"}
  MaxDepth = 1
  MaxRuns = 1
  MaxTasks = 12
  FftNeedsOneChunk = TRUE
  ChirpKeyByChannel = TRUE
  EagerOps <- None_
  NumpyOps <- N_NumpyNames
  ReaderPerBlock = FALSE
  OverwriteTags <- None_
  StickyKwargs = FALSE
  LazySetitemLost = FALSE
  RollShortcut = FALSE
  SharedHandle = FALSE
VIEW View
PROPERTY StaysDask
CHECK_DEADLOCK FALSE
