---------------------------- MODULE Trace_Alias ----------------------------
(***************************************************************************)
(* Trace validation for C14.  An event is one public call on the real      *)
(* code: the operation name (a row of Alias!OpTable), the buffer of its    *)
(* signal argument, byte-wise hashes of every live buffer (signal data,    *)
(* array / Quantity arguments) and of every live signal's metadata before  *)
(* and after the call.  The specification, not the harness, decides which  *)
(* buffer the step may change: the argument's buffer iff the operation's   *)
(* row says wr = "target".                                                 *)
(***************************************************************************)
EXTENDS TraceBase, FiniteSets
VARIABLES l, nbad

\* instantiate the table of the Alias specification (constants are irrelevant for it)
A == INSTANCE Alias WITH MaxObjs <- 4, MaxSteps <- 3, IstftInPlace <- FALSE,
                         objs <- <<>>, ver <- <<>>, sanc <- {}, hist <- <<>>

Row(n) == CHOOSE op \in A!OpTable : op.name = n
Known(n) == \E op \in A!OpTable : op.name = n
Allowed(e) == IF Row(e.op).wr = "target" THEN {e.argbuf} ELSE {}

Failed(e) ==
  IF ~Known(e.op) THEN {"unknown-operation"}
  ELSE
    (IF \E i \in 1..Len(e.pre) : e.pre[i].h # e.post[i].h /\ e.pre[i].b \notin Allowed(e)
     THEN {"frame"} ELSE {})
    \cup
    (IF \E i \in 1..Len(e.mpre) : e.mpre[i] # e.mpost[i] THEN {"metadata"} ELSE {})
    \cup
    (IF Len(e.pre) # Len(e.post) \/ Len(e.mpre) # Len(e.mpost) THEN {"malformed"} ELSE {})

TraceInit == l = 1 /\ nbad = 0
TraceNext ==
  \/ /\ l <= NEvents
     /\ LET e == Trace[l]  f == Failed(e)
        IN /\ Report(l, e, f)
           /\ nbad' = nbad + (IF f = {} THEN 0 ELSE 1)
     /\ l' = l + 1
  \/ /\ l = NEvents + 1
     /\ Summary(NEvents, nbad)
     /\ l' = l + 1
     /\ UNCHANGED nbad
TraceSpec == TraceInit /\ [][TraceNext]_<<l, nbad>>
AllConsumed == TLCGet("stats").diameter >= NEvents + 1
=============================================================================
