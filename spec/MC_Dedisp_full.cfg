SPECIFICATION Spec
CONSTANTS
  Lens <- F_Lens
  NChans <- F_NChans
  IDelays <- F_IDelays
  QDelays <- F_QDelays
  AKdm <- F_AKdm
  AFreqs <- F_AFreqs
  ASteps <- F_ASteps
  Kinds <- AllKinds
  Variant = "code"
  Fixed = TRUE
VIEW View
INVARIANT RealignDecl
INVARIANT OnlyValidSources
INVARIANT AllValidReturned
INVARIANT StartAdvance
INVARIANT NoWrap
INVARIANT CropIsValidTimes
INVARIANT CohContiguous
INVARIANT CohStartAdvance
INVARIANT RoundTripSupport
INVARIANT InverseChirp
INVARIANT ChirpZeroAtRef
INVARIANT DelayAntisym
INVARIANT DelayAdditive
INVARIANT DelayInverse
INVARIANT DelayMonotone
INVARIANT ChirpIsDelay
INVARIANT FixAgrees
INVARIANT InfiniteRef
CHECK_DEADLOCK FALSE
