SPECIFICATION Spec
CONSTANTS
  MaxTW = 12
  MaxCube = 6
  MaxBasis = 12
  MaxTone = 12
  MaxArrN = 5
  Phases <- Q_Phases
  Wrong = FALSE
INVARIANT InvLen
INVARIANT InvRealPart
INVARIANT InvAnalytic
INVARIANT InvMix
INVARIANT InvLinear
INVARIANT InvAdd
INVARIANT InvTone
INVARIANT InvDtype
INVARIANT InvAxis
INVARIANT InvArrayLen
CHECK_DEADLOCK FALSE
