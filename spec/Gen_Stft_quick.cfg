SPECIFICATION Spec
CONSTANTS
  NChans <- Q_NChans
  PerSegs <- Q_PerSegs
  Aligns <- AllAligns
  ExtraSegs <- Q_Extra
  Variant = "code"
INVARIANT StftLabelsAreTrueFrequencies
INVARIANT StftMeta
INVARIANT IstftInvertsStft
INVARIANT Emit
CHECK_DEADLOCK FALSE
