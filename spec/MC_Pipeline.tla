---------------------------- MODULE MC_Pipeline ----------------------------
EXTENDS Pipeline
AllClasses == {"Signal", "RadioSignal", "IntensitySignal", "BasebandSignal",
               "DualPolarizationSignal", "FullStokesSignal"}
AllAligns == {"bottom", "center", "top"}
AllOps == {"time_slice", "freq_slice", "tf_slice", "stokes_item", "to_intensity",
           "to_stokes", "fast_len", "shift_crop", "coh_dd", "incoh_dd", "snippet"}
\* quick instance
Q_RootLens == {0, 1, 2, 5}
Q_NChans == {1, 2, 3}
Q_TBounds == {-7, -2, -1, 0, 1, 3, 6}
Q_XBounds == {-1, 1}
Q_XSteps == {2}
Q_TSteps == {2, 3}
Q_FBounds == {-4, -1, 0, 1, 2, 5}
Q_Shifts == {-29, -24, -21, -8, -5, -4, -1, 0, 1, 4, 6, 8, 20, 24, 27}
Q_Delays == {-27, -20, -9, -4, -1, 0, 1, 4, 10, 20, 23}
Q_IDelays == {-4, -3, -1, 0, 1, 2, 4}
Q_SnipT == {-4, 0, 1, 4, 6, 8, 16, 20, 21}
Q_SnipN == {-1, 0, 1, 2, 5}
\* frequency-axis instances (C02): more channels, nested channel selections
FreqOps == {"freq_slice", "tf_slice", "stokes_item", "to_intensity", "to_stokes", "time_slice"}
RadioClasses == AllClasses \ {"Signal"}
QF_NChans == {1, 2, 3, 4, 6}
QF_FBounds == {-5, -2, -1, 0, 1, 3, 6}
QF_XBounds == {1}
QF_TBounds == {-1, 2}
QF_TSteps == {2}
QF_RootLens == {3}
FF_NChans == 1..8
FF_FBounds == -9..9
\* full instance (sized to finish in ~10 minutes on 16 cores: a few times the quick instance)
F_RootLens == {0, 1, 2, 3, 5, 8}
F_NChans == {1, 2, 3, 4}
F_TBounds == {-9, -3, -2, -1, 0, 1, 2, 4, 7, 9}
F_TSteps == {2, 3}
F_FBounds == {-5, -2, -1, 0, 1, 2, 3, 5}
F_XBounds == {-1, 1}
F_XSteps == {2}
F_Shifts == {-37, -33, -32, -21, -8, -5, -4, -1, 0, 1, 2, 4, 6, 8, 20, 32, 35}
F_Delays == {-36, -33, -20, -9, -4, -1, 0, 1, 4, 10, 20, 32, 35}
F_IDelays == {-9, -6, -2, -1, 0, 1, 3, 6, 8}
F_SnipT == {-4, -1, 0, 1, 4, 6, 8, 12, 20, 21, 32, 33}
F_SnipN == {-1, 0, 1, 2, 3, 5, 8, 9}
=============================================================================
