----------------------------- MODULE Trace_R2C -----------------------------
(***************************************************************************)
(* C19, code -> spec.  Events recorded by harness/c19.py:                  *)
(*  "r2c"    x (one lane of the input of a real call of real_to_complex,   *)
(*           exact, 60-bit fixed point), y (the same lane of the result),  *)
(*           digits (tolerance 10^-digits relative to max(1, sum |x|)),    *)
(*           cj (the reader conjugated the result: lower sideband)         *)
(*  "dtype"  din, got: result dtype or "ValueError"                        *)
(*  "reader" real-sampled file: raw / returned length and sample rate      *)
(* The expected lane is R2C!R2C(x), evaluated by TLC.                      *)
(***************************************************************************)
EXTENDS TraceBase, R2C
VARIABLES l, nbad

RECURSIVE SumAbs(_, _)
SumAbs(x, i) == IF i = 0 THEN FZero ELSE Add(Abs(x[i]), SumAbs(x, i - 1))
R2cFailed(e) ==
  LET x == e.x
      want == R2C(x)
      s == SumAbs(x, Len(x))
      tol == FMul(FTol10(e.digits), IF Lt(s, FOne) THEN FOne ELSE s)
      W(m) == IF e.cj THEN CConj(want[m]) ELSE want[m]
  IN IF Len(e.y) # OutLen(Len(x)) THEN {"length"}
     ELSE IF \E m \in 1..Len(e.y) : ~CClose(e.y[m], W(m), tol) THEN {"values"} ELSE {}
DtypeFailed(e) == IF e.got # Outcome(e.din) THEN {"dtype"} ELSE {}
ReaderFailed(e) ==
  (IF e.len # e.rawlen \div 2 THEN {"length"} ELSE {})
  \cup (IF 2 * e.rate # e.rawrate THEN {"sample_rate"} ELSE {})
  \cup (IF e.got # OutLen(2 * e.n) THEN {"read-length"} ELSE {})
Failed(e) ==
  CASE e.ev = "r2c" -> R2cFailed(e)
    [] e.ev = "dtype" -> DtypeFailed(e)
    [] e.ev = "reader" -> ReaderFailed(e)
    [] OTHER -> {"unknown-event"}

TraceInit == l = 1 /\ nbad = 0 /\ tw = TwTable
TraceNext ==
  /\ UNCHANGED tw
  /\ \/ /\ l <= NEvents
        /\ LET e == Trace[l]  f == Failed(e)
           IN /\ Report(l, [id |-> e.id, ev |-> e.ev], f)
              /\ nbad' = nbad + (IF f = {} THEN 0 ELSE 1)
        /\ l' = l + 1
     \/ /\ l = NEvents + 1
        /\ Summary(NEvents, nbad)
        /\ l' = l + 1
        /\ UNCHANGED nbad
TraceSpec == TraceInit /\ [][TraceNext]_<<l, nbad, tw>>
AllConsumed == TLCGet("stats").diameter >= NEvents + 1
=============================================================================
