----------------------------- MODULE Trace_R2C -----------------------------
(***************************************************************************)
(* C19, code -> spec.  Events recorded by harness/c19.py:                  *)
(*  "r2c"    x (one lane of the input of a real call of real_to_complex,   *)
(*           exact, 60-bit fixed point), y (the same lane of the result),  *)
(*           digits (tolerance 10^-digits relative to max(1, sum |x|)),    *)
(*           cj (the reader conjugated the result: lower sideband)         *)
(*  "dtype"  din, got: result dtype or "ValueError"                        *)
(*  "reader" real-sampled file: raw / returned length and sample rate      *)
(*  "longreal" / "longtone"  long axes, sampled output indices (see below) *)
(* The expected lane is R2C!R2C(x), evaluated by TLC.                      *)
(***************************************************************************)
EXTENDS TraceBase, R2C
VARIABLES l, nbad

RECURSIVE SumAbs(_, _)
SumAbs(x, i) == IF i = 0 THEN FZero ELSE Add(Abs(x[i]), SumAbs(x, i - 1))
R2cFailed(e) ==
  LET x == e.x
      want == R2C(x)
      s == SumAbs(x, Len(x))
      tol == FMul(FTol10(e.digits), IF Lt(s, FOne) THEN FOne ELSE s)
      W(m) == IF e.cj THEN CConj(want[m]) ELSE want[m]
  IN IF Len(e.y) # OutLen(Len(x)) THEN {"length"}
     ELSE IF \E m \in 1..Len(e.y) : ~CClose(e.y[m], W(m), tol) THEN {"values"} ELSE {}
DtypeFailed(e) == IF e.got # Outcome(e.din) THEN {"dtype"} ELSE {}
ReaderFailed(e) ==
  (IF e.len # e.rawlen \div 2 THEN {"length"} ELSE {})
  \cup (IF 2 * e.rate # e.rawrate THEN {"sample_rate"} ELSE {})
  \cup (IF e.got # OutLen(2 * e.n) THEN {"read-length"} ELSE {})
(* Long axes (N ~ 1e4 .. 1e5), sampled output indices ms.  No transform is needed for these  *)
(* clauses: the mixing factor is an exact fourth root of unity for every n, so                *)
(* (-1)^m Re(out[m]) = x[2m] up to the rounding of the two FFTs in the working precision:      *)
(* budget 64 * eps * ceil(log2 N) * max|x|  (eps = 2^-23 single, 2^-52 double), plus 2^-50,   *)
(* plus 4 N 2^-52 max|x|: the code evaluates exp(-i pi/2 n) from the double pi/2*n, whose      *)
(* rounding (2^-53 * pi/2 * n) makes the factor inexact in double; measured 1.1 N 2^-52.       *)
RECURSIVE CeilLog2R(_, _, _)
CeilLog2R(n, p, k) == IF p >= n THEN k ELSE CeilLog2R(n, 2 * p, k + 1)
CeilLog2(n) == CeilLog2R(n, 1, 0)
Budget(e) ==
  LET coef == FFromRat(R(FromInt(64 * CeilLog2(e.N)), Pow2(IF e.prec = "single" THEN 23 ELSE 52)))
      phase == FFromRat(R(FromInt(4 * e.N), Pow2(52)))
      a == IF Lt(e.amax, FOne) THEN FOne ELSE e.amax
  IN Add(FMul(Add(coef, phase), a), Tol)
LongRealFailed(e) ==
  (IF e.outlen # OutLen(e.N) THEN {"length"} ELSE {})
  \cup (IF \E i \in 1..Len(e.ms) : ~FClose(MulInt(e.ys[i], Sgn(e.ms[i])), e.xs[i], Budget(e)) THEN {"realpart"} ELSE {})
  \cup {k \in DOMAIN e.flags : ~e.flags[k]}
\* tone at w cycles per N samples -> complex tone at w - N/4 (0 < w < N/2), sampled
ToneOutBig(N, w, ph, m) ==
  CExp(RAdd(R(Mul(FromInt(4 * w - N), FromInt(2 * m)), FromInt(4 * N)), ph))
LongToneFailed(e) ==
  LET ph == R(e.ph.p, e.ph.q)
  IN (IF e.outlen # OutLen(e.N) THEN {"length"} ELSE {})
     \cup (IF \E i \in 1..Len(e.ms) : ~CClose(e.ys[i], ToneOutBig(e.N, e.w, ph, e.ms[i]), Budget(e)) THEN {"tone"} ELSE {})
(* real-sampled stream of rawlen samples: the reader has rawlen \div 2 samples (an odd last raw      *)
(* sample has no partner), its time_length and stop_time say so, the whole stream and its last     *)
(* sample can be read, anything beyond is refused                                                  *)
ReaderLenFailed(e) ==
  LET want == e.rawlen \div 2
      rate == R(e.rate.p, e.rate.q)
      Samples(d, k) == RLe(RAbs(RSub(RMul(R(d.p, d.q), rate), RI(k))), RQ(1, 1000))
  IN (IF e.len # want \/ e.shape0 # want THEN {"length"} ELSE {})
     \cup (IF ~Samples(e.tl, want) THEN {"time_length"} ELSE {})
     \cup (IF ~Samples(e.stop, want) THEN {"stop_time"} ELSE {})
     \cup (IF ~RLe(RAbs(RSub(RMul(rate, RI(2)), R(e.rawrate.p, e.rawrate.q))), RMul(R(e.rawrate.p, e.rawrate.q), RPow2(-50)))
           THEN {"sample_rate"} ELSE {})
     \cup (IF e.full # "ok" \/ e.fulllen # want THEN {"read-all"} ELSE {})
     \cup (IF e.last # "ok" THEN {"read-last"} ELSE {})
     \cup (IF e.beyond1 # "EOFError" \/ e.beyond2 # "EOFError" THEN {"bounds"} ELSE {})
     \cup {k \in DOMAIN e.flags : ~e.flags[k]}
Failed(e) ==
  CASE e.ev = "r2c" -> R2cFailed(e)
    [] e.ev = "readerlen" -> ReaderLenFailed(e)
    [] e.ev = "longreal" -> LongRealFailed(e)
    [] e.ev = "longtone" -> LongToneFailed(e)
    [] e.ev = "dtype" -> DtypeFailed(e)
    [] e.ev = "reader" -> ReaderFailed(e)
    [] OTHER -> {"unknown-event"}

TraceInit == l = 1 /\ nbad = 0 /\ tw = TwTable
TraceNext ==
  /\ UNCHANGED tw
  /\ \/ /\ l <= NEvents
        /\ LET e == Trace[l]  f == Failed(e)
           IN /\ Report(l, [id |-> e.id, ev |-> e.ev], f)
              /\ nbad' = nbad + (IF f = {} THEN 0 ELSE 1)
        /\ l' = l + 1
     \/ /\ l = NEvents + 1
        /\ Summary(NEvents, nbad)
        /\ l' = l + 1
        /\ UNCHANGED nbad
TraceSpec == TraceInit /\ [][TraceNext]_<<l, nbad, tw>>
AllConsumed == TLCGet("stats").diameter >= NEvents + 1
=============================================================================
