------------------------------ MODULE Gen_Stft ------------------------------
EXTENDS Stft, Json, IOUtils, CSV
Q_NChans == {1, 2, 3}
Q_PerSegs == {1, 2, 3, 4}
F_NChans == {1, 2, 3, 4}
F_PerSegs == {1, 2, 3, 4, 5, 6}
AllAligns == {"bottom", "center", "top"}
Q_Extra == {<<2, 1>>, <<1, 0>>}
F_Extra == {<<2, 1>>, <<1, 0>>, <<3, 2>>}
Ints(c) == IF c.mode = "data" THEN [t \in 1..c.n |-> [ch \in 1..c.nch |-> <<DataRe(t, ch), DataIm(t, ch)>>]] ELSE <<>>
Emit == xs # NoXs => CSVWrite("%1$s", <<ToJson([c |-> cs, xs |-> xs, x |-> Ints(cs),
                    st |-> [n |-> res.st.n, nch |-> res.st.nch, align |-> res.st.align, rate |-> res.st.rate,
                            cf |-> res.st.cf, labels |-> [i \in 1..res.st.nch |-> Label(res.st, i - 1)], d |-> res.st.d],
                    inlabels |-> [i \in 1..cs.nch |-> Label(Sig(cs), i - 1)]])>>, IOEnv.GEN_OUT)
=============================================================================
