------------------------------ MODULE FastLen ------------------------------
(***************************************************************************)
(* C18: next_fast_len / prev_fast_len of pulsarbat/utils.py.               *)
(*                                                                         *)
(* Both nested 7-5-3-2 search loops are transcribed statement by           *)
(* statement; the state is the tuple of loop variables and one step is     *)
(* taken at every loop head (pc = the loop whose condition is evaluated    *)
(* next), so that termination is a property of the state graph and not an  *)
(* assumption: every non-final state has a successor (deadlock check) and  *)
(* the step counter, which is part of the state, stays below a bound that  *)
(* is polynomial in the bit length of N (a cycle would be an unbounded     *)
(* path).                                                                  *)
(*                                                                         *)
(* The declarative side: Smooth7(n) (only prime factors 2, 3, 5, 7; 0 is   *)
(* mapped to 0 as the property says), IsNextFast(N, r) <=> r = min{m >= N  *)
(* : Smooth7(m)}, IsPrevFast(N, r) <=> r = max{m <= N : Smooth7(m)}.       *)
(*                                                                         *)
(* The switches Guess2 / OddBreak / PrevLe name the three "termination     *)
(* guesses" of the code; the code has all three TRUE.  The Neg_* configs   *)
(* flip one at a time and TLC must reject them.                            *)
(***************************************************************************)
EXTENDS Integers, Sequences, FiniteSets, TLC, SmoothDef

CONSTANTS
  Ns,         \* the arguments explored (every one is an initial state)
  Fns,        \* subset of {"next", "prev"}
  Guess2,     \* next: initial guess 2N (code) / N (wrong)
  OddBreak,   \* the `if x & 1: break` that leaves the inner loop (code) / no break (wrong: never ends)
  PrevLe      \* prev: loop conditions `<=` (code) / `<` (wrong)

VARIABLES fn, N, pc, f7, f75, x, guess, res, steps, bound
vars == <<fn, N, pc, f7, f75, x, guess, res, steps, bound>>

(***************************************************************************)
(* The loops, as coded                                                     *)
(***************************************************************************)
Odd(v) == v % 2 = 1
Half(v) == v \div 2          \* x >>= 1
Step(newpc) == pc' = newpc /\ steps' = steps + 1 /\ UNCHANGED <<fn, N, bound>>
Return(v) == res' = v /\ Step("Done") /\ UNCHANGED <<f7, f75, x, guess>>

Init ==
  /\ fn \in Fns /\ N \in Ns
  /\ pc = "Start" /\ f7 = 0 /\ f75 = 0 /\ x = 0 /\ guess = 0 /\ res = -1 /\ steps = 0
  /\ bound = StepBound(N)       \* constant of the behaviour (not recomputed in every state)

\* ---- next_fast_len
NStart ==
  /\ fn = "next" /\ pc = "Start"
  /\ IF N <= 10 THEN Return(N)
     ELSE /\ f7' = 1 /\ guess' = (IF Guess2 THEN 2 * N ELSE N)
          /\ Step("L7") /\ UNCHANGED <<f75, x, res>>
NL7 ==      \* while f7 < guess:
  /\ fn = "next" /\ pc = "L7"
  /\ IF f7 < guess THEN /\ f75' = f7 /\ Step("L5") /\ UNCHANGED <<f7, x, guess, res>>
     ELSE Return(guess)
NL5 ==      \* while f75 < guess:
  /\ fn = "next" /\ pc = "L5"
  /\ IF f75 < guess THEN /\ x' = f75 /\ Step("L2") /\ UNCHANGED <<f7, f75, guess, res>>
     ELSE /\ f7' = f7 * 7 /\ Step("L7") /\ UNCHANGED <<f75, x, guess, res>>
NL2 ==      \* while x < N: x *= 2
  /\ fn = "next" /\ pc = "L2"
  /\ IF x < N THEN /\ x' = x * 2 /\ Step("L2") /\ UNCHANGED <<f7, f75, guess, res>>
     ELSE /\ Step("L3") /\ UNCHANGED <<f7, f75, x, guess, res>>
NL3 ==      \* while 1:
  /\ fn = "next" /\ pc = "L3"
  /\ IF x < N THEN /\ x' = x * 3 /\ Step("L3") /\ UNCHANGED <<f7, f75, guess, res>>
     ELSE IF x > N
     THEN /\ guess' = (IF x < guess THEN x ELSE guess)
          /\ IF (OddBreak /\ Odd(x))
             THEN /\ f75' = f75 * 5 /\ Step("L5") /\ UNCHANGED <<f7, x, res>>      \* break
             ELSE /\ x' = Half(x) /\ Step("L3") /\ UNCHANGED <<f7, f75, res>>
     ELSE Return(N)

\* ---- prev_fast_len
Cond(a) == IF PrevLe THEN a <= N ELSE a < N
PStart ==
  /\ fn = "prev" /\ pc = "Start"
  /\ IF N <= 10 THEN Return(N)
     ELSE /\ f7' = 1 /\ guess' = 1 /\ Step("L7") /\ UNCHANGED <<f75, x, res>>
PL7 ==      \* while f7 <= N:
  /\ fn = "prev" /\ pc = "L7"
  /\ IF Cond(f7) THEN /\ f75' = f7 /\ Step("L5") /\ UNCHANGED <<f7, x, guess, res>>
     ELSE Return(guess)
PL5 ==      \* while f75 <= N:
  /\ fn = "prev" /\ pc = "L5"
  /\ IF Cond(f75) THEN /\ x' = f75 /\ Step("L2") /\ UNCHANGED <<f7, f75, guess, res>>
     ELSE /\ f7' = f7 * 7 /\ Step("L7") /\ UNCHANGED <<f75, x, guess, res>>
PL2 ==      \* while x <= N: x *= 2   ; then x >>= 1
  /\ fn = "prev" /\ pc = "L2"
  /\ IF Cond(x) THEN /\ x' = x * 2 /\ Step("L2") /\ UNCHANGED <<f7, f75, guess, res>>
     ELSE /\ x' = Half(x) /\ Step("L3") /\ UNCHANGED <<f7, f75, guess, res>>
PL3 ==      \* while 1:
  /\ fn = "prev" /\ pc = "L3"
  /\ IF x < N
     THEN /\ guess' = (IF x > guess THEN x ELSE guess)
          /\ x' = x * 3 /\ Step("L3") /\ UNCHANGED <<f7, f75, res>>
     ELSE IF x > N
     THEN IF (OddBreak /\ Odd(x))
          THEN /\ f75' = f75 * 5 /\ Step("L5") /\ UNCHANGED <<f7, x, guess, res>>   \* break
          ELSE /\ x' = Half(x) /\ Step("L3") /\ UNCHANGED <<f7, f75, guess, res>>
     ELSE Return(N)

Done == pc = "Done" /\ UNCHANGED vars

Next == NStart \/ NL7 \/ NL5 \/ NL2 \/ NL3 \/ PStart \/ PL7 \/ PL5 \/ PL2 \/ PL3 \/ Done
Spec == Init /\ [][Next]_vars

(***************************************************************************)
(* Properties                                                              *)
(***************************************************************************)
\* together with the deadlock check (every state but Done has a successor)
\* this is termination: no behaviour takes more than StepBound(N) steps
Terminates == steps <= bound
ResultIsNext == (pc = "Done" /\ fn = "next") => IsNextFast(N, res)
ResultIsPrev == (pc = "Done" /\ fn = "prev") => IsPrevFast(N, res)
ZeroIsZero == (pc = "Done" /\ N = 0) => res = 0
=============================================================================
