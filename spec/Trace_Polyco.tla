---------------------------- MODULE Trace_Polyco ----------------------------
(***************************************************************************)
(* Trace validation for property C08 (code -> spec).                       *)
(*                                                                         *)
(* The harness (harness/c08.py) loads polyco texts with the real           *)
(* PhasePredictor.from_polyco and calls p(t), p.f0(t, n), p.phasepol(t),   *)
(* p.time_at(phase), p.intervals, p[rows] on it; every call is one event   *)
(* with its exact arguments and its exact result (or the exception).       *)
(* The polyco text itself travels in the "load" event as bytes and is      *)
(* parsed here by Polyco!Parse: nothing of the Python parser is reused.    *)
(*                                                                         *)
(* Numbers.  dy = [m, e] is the dyadic m * 2^e (an IEEE double, exactly).  *)
(* A time is [u1, u2, a1, a2]: the two doubles jd1, jd2 of the astropy     *)
(* Time in UTC and of the same instant in TAI.  The table holds TMID in    *)
(* UTC; the predictor forms T - TMID through TAI, so DT is taken from the  *)
(* exact difference of the TAI two-doubles; spans are judged in UTC, where *)
(* the code compares them.  That the two-doubles are the TMID of the text  *)
(* (clause "tmid") and that TAI = UTC + DeltaAT (clauses "assume-tai") is  *)
(* checked within the resolution of Time, 2^-51 and 2^-49 day.             *)
(*                                                                         *)
(* Verdict names: a name starting with "ambiguous:", "assume-" or "note:"  *)
(* is not a violation (decision boundary / double-precision limit / an     *)
(* assumption of the harness / a statistic: accepted, but the error is     *)
(* above half the tolerance); everything else is a failed clause.          *)
(***************************************************************************)
EXTENDS TraceBase, Polyco

VARIABLES l, nbad, full, cur, verdict, stats

(***************************************************************************)
(* Constants of the judgement                                              *)
(***************************************************************************)
Tol8 == R(One, Pow10(8))                       \* 1e-8 cycle (the property)
Half8 == R(One, MulInt(Pow10(8), 2))           \* 5e-9 cycle (statistics only)
Rel9 == R(One, Pow10(9))                       \* relative 1e-9 (derivatives)
Floor12 == R(One, Pow10(12))                   \* rounding floor relative to SUM |terms|
TimeRes51 == RPow2(-51)                        \* day
TimeRes49 == RPow2(-49)                        \* day: (k+1) 2^-51 with k = 3 Time operations
TimeRes49s == RMul(RI(86400), RPow2(-49))      \* the same in seconds (1.5e-10 s)
EdgeDelta == R(One, MulInt(Pow10(9), 8))       \* 1.25e-10 day = 10.8 us around span boundaries
PhiMargin == R(One, Pow10(3))                  \* 1e-3 cycle around the phases of interval ends
MergeEdge == R(One, Pow10(13))                 \* 1e-13 day = 8.6 ns around the 1 ms merge rule
JD0 == Dy(FromInt(4800001), -1)                \* 2400000.5

\* double-precision budget of the code's evaluation (poly(dt) in float64, dt = float64 seconds):
\*   F0 * 5e-12 s  +  1.2e-15 * |60 F0 DT|  +  4.5e-15 * SUM |COEFF(i)| |DT|^(i-1)
\* (difference of two TAI jd2 parts: 4.8 ps; 10 roundings on the linear term; <= 40 on the others)
Budget(p, dt) ==
  RAdd(RMul(DecRat(p.f0), R(FromInt(5), Pow10(12))),
       RAdd(RMul(LinearTerm(p, dt), R(FromInt(12), Pow10(16))),
            RMul(SmallScale(p, dt), R(FromInt(45), Pow10(16)))))

\* TAI - UTC in seconds at an MJD (1972 ..), the leap second table
LeapTable == << <<41317, 10>>, <<41499, 11>>, <<41683, 12>>, <<42048, 13>>, <<42413, 14>>,
                <<42778, 15>>, <<43144, 16>>, <<43509, 17>>, <<43874, 18>>, <<44239, 19>>,
                <<44786, 20>>, <<45151, 21>>, <<45516, 22>>, <<46247, 23>>, <<47161, 24>>,
                <<47892, 25>>, <<48257, 26>>, <<48804, 27>>, <<49169, 28>>, <<49534, 29>>,
                <<50083, 30>>, <<50630, 31>>, <<51179, 32>>, <<53736, 33>>, <<54832, 34>>,
                <<56109, 35>>, <<57204, 36>>, <<57754, 37>> >>
RECURSIVE DeltaATR(_, _)
DeltaATR(mjd, i) == IF i = 0 THEN 0 ELSE IF mjd >= LeapTable[i][1] THEN LeapTable[i][2] ELSE DeltaATR(mjd, i - 1)
DeltaAT(mjd) == DeltaATR(mjd, Len(LeapTable))

(***************************************************************************)
(* Times                                                                   *)
(***************************************************************************)
Utc(t) == DySub(DyAdd(t.u1, t.u2), JD0)        \* MJD(UTC), dyadic
Tai(t) == DySub(DyAdd(t.a1, t.a2), JD0)        \* MJD(TAI), dyadic
\* TAI two-double = UTC two-double + DeltaAT within the resolution of Time
TaiOK(t) ==
  LET u == DyRat(Utc(t))
      mjd == ToInt(RFloor(u))
  IN RClose(RSub(DyRat(Tai(t)), u), R(FromInt(DeltaAT(mjd)), FromInt(86400)), TimeRes49)

(***************************************************************************)
(* Table state: rows = prepared entries + span + recorded TAI TMID         *)
(***************************************************************************)
Row(e, rec) ==
  LET p == Prepared(e)
      sp == SpanOfEntry(e)
  IN [p |-> p, sp |-> sp, tai |-> Tai(rec),
      in |-> [a |-> RAdd(sp.a, EdgeDelta), b |-> RSub(sp.b, EdgeDelta)],
      out |-> [a |-> RSub(sp.a, EdgeDelta), b |-> RAdd(sp.b, EdgeDelta)]]
Table(rows, parsed, n) ==
  LET spans == [i \in 1..Len(rows) |-> rows[i].sp]
      mg == IF rows = <<>> THEN <<>> ELSE MergeOfSpans(spans)
  IN [parsed |-> parsed, n |-> n,          \* the text was a polyco with n entries
      rows |-> rows, spans |-> spans, merged |-> mg,
      mergedOut |-> [k \in 1..Len(mg) |-> [a |-> RSub(mg[k].a, EdgeDelta), b |-> RAdd(mg[k].b, EdgeDelta)]],
      \* some gap between rows is within 8.6 ns of exactly 1 ms: the merge decision is a float's
      mergeAmb |-> \E i, j \in 1..Len(rows) :
                      RClose(RSub(spans[j].a, spans[i].b), MS, MergeEdge)]
NoTable == [parsed |-> FALSE, n |-> 0, rows |-> <<>>, spans |-> <<>>, merged |-> <<>>, mergedOut |-> <<>>, mergeAmb |-> FALSE]

\* where a UTC time lies: "in" (strictly inside some span and away from every span
\* boundary), "out" (outside every merged interval), "edge" (within EdgeDelta of a span
\* boundary) or "gap" (inside a merged interval but in no span)
Strict(tb, T) == {i \in 1..Len(tb.rows) : RLe(tb.rows[i].in.a, T) /\ RLe(T, tb.rows[i].in.b)}
NearEdge(tb, T) ==
  \E i \in 1..Len(tb.rows) :
     \/ (RLe(tb.rows[i].out.a, T) /\ RLe(T, tb.rows[i].in.a))
     \/ (RLe(tb.rows[i].in.b, T) /\ RLe(T, tb.rows[i].out.b))
OutsideAll(tb, T) ==
  \A k \in 1..Len(tb.merged) : RLt(T, tb.mergedOut[k].a) \/ RLt(tb.mergedOut[k].b, T)
Where(tb, t) ==
  LET T == DyRat(Utc(t))
  IN IF NearEdge(tb, T) THEN "edge"
     ELSE IF Strict(tb, T) # {} THEN "in"
     ELSE IF OutsideAll(tb, T) THEN "out" ELSE "gap"
Kinds(tb, ts) == {Where(tb, ts[j]) : j \in 1..Len(ts)}

\* DT (dyadic minutes) of time t for a row: exact difference of the TAI two-doubles
DTof(row, t) == MinutesOfDays(DySub(Tai(t), row.tai))

(***************************************************************************)
(* Value judgements                                                        *)
(***************************************************************************)
\* observed phase [int (BigInt), frac (dyadic)] as a dyadic
PhaseDy(ph) == DyAdd(Dy(ph.i, 0), ph.f)

\* "ok" | "ambiguous" | "bad" for one predicted-phase sample against the rows in sel;
\* fw = TRUE adds frequency * 2^-49 day (resolution of a returned Time) to the tolerance
PhaseVerdict(tb, sel, t, obs, fw) ==
  LET dt == [i \in sel |-> DTof(tb.rows[i], t)]
      er == [i \in sel |-> ErrOf(obs, Predict(tb.rows[i].p, dt[i]))]
      \* |d PHASE / d minute| 1440 2^-49 = W 2^(k-49) / q with q the denominator of Predict
      W(i) == IF fw THEN MulInt(Abs(HornerNum(DerivCoeffs(tb.rows[i].p.a, 1), DyFrac(dt[i]).N, DyFrac(dt[i]).k)), 1440)
              ELSE Zero
      ws(i) == DyFrac(dt[i]).k - 49
      extra(i) == IF fw THEN RMul(RAbs(Deriv(tb.rows[i].p, 1, dt[i])), TimeRes49s) ELSE RZero
  IN IF \E i \in sel : ErrWithin(er[i], Half8, W(i), ws(i)) THEN "ok"
     ELSE IF \E i \in sel : ErrWithin(er[i], Tol8, W(i), ws(i)) THEN "ok-over-half"
     ELSE IF \E i \in sel : RLe(ErrRat(er[i]), RAdd(Budget(tb.rows[i].p, dt[i]), extra(i)))
     THEN "ambiguous" ELSE "bad"
VerdictNames(vs, name) ==
  (IF "bad" \in vs THEN {name} ELSE {}) \cup (IF "ambiguous" \in vs THEN {"ambiguous:double-limit"} ELSE {})
  \cup (IF "ok-over-half" \in vs THEN {"note:over-half-tolerance"} ELSE {})

\* the raise / no-raise decision common to p(t), p.f0(t), p.phasepol(t)
\*   some time outside every merged interval  -> ValueError demanded
\*   every time strictly inside a span        -> a value demanded
\*   otherwise (boundary, tolerated gap)      -> no demand
RangeNames(tb, ts, out) ==
  LET ks == Kinds(tb, ts)
  IN IF "out" \in ks
     THEN (IF out.raised = "ValueError" THEN {} ELSE IF out.raised = "" THEN {"outside-not-raised"}
           ELSE {"wrong-exception"})
     ELSE IF ks = {"in"} THEN (IF out.raised = "" THEN {} ELSE {"inside-raised"})
     ELSE {"ambiguous:boundary"}
Valued(tb, ts, out) == Kinds(tb, ts) = {"in"} /\ out.raised = ""

(***************************************************************************)
(* Events                                                                  *)
(***************************************************************************)
\* load: the text is parsed here; the rows are the entries sorted by TMID
LoadTable(e) ==
  LET P == Parse(e.text)
  IN IF ~P.ok THEN NoTable
     ELSE LET es == SortByTmid(P.entries)
          IN IF e.raised # "" \/ Len(e.rows) # Len(es) THEN Table(<<>>, TRUE, Len(es))
             ELSE Table([i \in 1..Len(es) |-> Row(es[i], e.rows[i])], TRUE, Len(es))
LoadFailed(e, tb) ==
  IF ~tb.parsed THEN {"ambiguous:not-a-polyco"}
  ELSE IF e.raised # "" THEN {"load-raised"}
  ELSE IF Len(e.rows) # tb.n THEN {"rows"}
  ELSE (IF \A i \in 1..tb.n : RClose(DyRat(Utc(e.rows[i])), DecRat(tb.rows[i].p.tmid), TimeRes51)
        THEN {} ELSE {"tmid"})
       \cup (IF \A i \in 1..tb.n : TaiOK(e.rows[i]) THEN {} ELSE {"assume-tai"})

CallFailed(tb, e) ==
  RangeNames(tb, e.t, e.out) \cup
  (IF ~Valued(tb, e.t, e.out) THEN {}
   ELSE IF Len(e.out.ph) # Len(e.t) THEN {"shape"}
   ELSE VerdictNames({LET sel == Strict(tb, DyRat(Utc(e.t[j])))
                      IN PhaseVerdict(tb, sel, e.t[j], PhaseDy(e.out.ph[j]), FALSE)
                      : j \in 1..Len(e.t)}, "phase"))

\* p.f0(t, n): the (n+1)-th derivative of the phase in cycle / s^(n+1)
\*   |obs - D| <= 1e-9 |D| + 1e-12 SUM |terms|     (D and the sum have the same denominator)
\* "ambiguous" when only the resolution of dt (5 ps, see Budget) times the next derivative's
\* terms explains the difference (a time within milliseconds of TMID and a vanishing COEFF)
F0Verdict(tb, t, n, obs) ==
  LET sel == Strict(tb, DyRat(Utc(t)))
      dt == [i \in sel |-> DTof(tb.rows[i], t)]
      v == [i \in sel |-> Deriv(tb.rows[i].p, n + 1, dt[i])]
      sc == [i \in sel |-> DerivScale(tb.rows[i].p, n + 1, dt[i])]
      er == [i \in sel |-> ErrOf(obs, v[i])]
  IN IF \E i \in sel : Le(Mul(er[i].L, Pow10(12)), Shl(Add(MulInt(Abs(v[i].p), 1000), sc[i].p), er[i].g))
     THEN "ok"
     ELSE IF \E i \in sel :
               RLe(ErrRat(er[i]),
                   RAdd(RAdd(RMul(Rel9, RAbs(v[i])), RMul(Floor12, sc[i])),
                        RMul(R(FromInt(5), Pow10(12)), DerivScale(tb.rows[i].p, n + 2, dt[i]))))
     THEN "ambiguous" ELSE "bad"
F0Failed(tb, e) ==
  RangeNames(tb, e.t, e.out) \cup
  (IF ~Valued(tb, e.t, e.out) THEN {}
   ELSE IF Len(e.out.v) # Len(e.t) THEN {"shape"}
   ELSE VerdictNames({F0Verdict(tb, e.t[j], e.n, e.out.v[j]) : j \in 1..Len(e.t)}, "f0"))

\* p.phasepol(t0) -> (pol, ref); the harness samples pol at x_j = 15 * xd_j seconds
\* (so that x_j / 60 minutes is dyadic): ref + pol(x_j) must be the prediction of ONE row
\* containing t0 at t0 + x_j
PolFailed(tb, e) ==
  RangeNames(tb, <<e.t>>, e.out) \cup
  (IF ~Valued(tb, <<e.t>>, e.out) THEN {}
   ELSE LET sel == Strict(tb, DyRat(Utc(e.t)))
            ref == PhaseDy(e.out.ref)
            row(i) == tb.rows[i]
            dtj(i, j) == DyAdd(DTof(row(i), e.t), Dy(e.xd[j].m, e.xd[j].e - 2))
            er(i, j) == ErrOf(DyAdd(ref, e.out.v[j]), Predict(row(i).p, dtj(i, j)))
        IN IF \E i \in sel : \A j \in 1..Len(e.xd) : ErrWithin(er(i, j), Tol8, Zero, 0) THEN {}
           ELSE IF \E i \in sel : \A j \in 1..Len(e.xd) :
                      RLe(ErrRat(er(i, j)), RMax(Tol8, RMul(RI(2), Budget(row(i).p, dtj(i, j)))))
           THEN {"ambiguous:double-limit"} ELSE {"phasepol"})

\* p.time_at(phi): ValueError iff phi is outside the phase range of every merged interval;
\* otherwise the returned time t1 lies in a span and Predict(t1) = phi within
\* 1e-8 cycle + frequency * resolution of the returned Time
EndRows(tb, k) ==
  [lo |-> CHOOSE i \in 1..Len(tb.rows) : REq(tb.spans[i].a, tb.merged[k].a),
   hi |-> CHOOSE i \in 1..Len(tb.rows) : REq(tb.spans[i].b, tb.merged[k].b)]
PhaseRange(tb, k) ==
  LET er == EndRows(tb, k)
      h(i) == tb.rows[i].p.span
  IN [lo |-> Predict(tb.rows[er.lo].p, Dy(FromInt(-h(er.lo)), -1)),
      hi |-> Predict(tb.rows[er.hi].p, Dy(FromInt(h(er.hi)), -1))]
TimeAtFailed(tb, e) ==
  LET phi == DyRat(PhaseDy(e.phi))
      rg == [k \in 1..Len(tb.merged) |-> PhaseRange(tb, k)]
      inside == \E k \in 1..Len(rg) : RLe(RAdd(rg[k].lo, PhiMargin), phi) /\ RLe(phi, RSub(rg[k].hi, PhiMargin))
      outside == \A k \in 1..Len(rg) : RLe(phi, RSub(rg[k].lo, PhiMargin)) \/ RLe(RAdd(rg[k].hi, PhiMargin), phi)
  IN IF outside
     THEN (IF e.out.raised = "ValueError" THEN {} ELSE IF e.out.raised = "" THEN {"outside-not-raised"}
           ELSE {"wrong-exception"})
     ELSE IF ~inside THEN {"ambiguous:boundary"}
     ELSE IF e.out.raised # "" THEN {"inside-raised"}
     ELSE LET w == Where(tb, e.out.t)
              sel == Strict(tb, DyRat(Utc(e.out.t)))
          IN (IF TaiOK(e.out.t) THEN {} ELSE {"assume-tai"}) \cup
             (IF w = "edge" THEN {"ambiguous:boundary"}
              ELSE IF w # "in" THEN {"time_at"}
              ELSE VerdictNames({PhaseVerdict(tb, sel, e.out.t, PhaseDy(e.phi), TRUE)}, "time_at"))

\* p.intervals: the merged spans, end points within the resolution of Time
IntervalsFailed(tb, e) ==
  IF tb.mergeAmb THEN {"ambiguous:boundary"}
  ELSE IF Len(e.out) # Len(tb.merged) THEN {"intervals"}
  ELSE IF ~SP!IsAscendingEnumOf(tb.merged, DeclaredOfSpans(tb.spans)) THEN {"assume-merge-spec"}
  ELSE IF \A k \in 1..Len(tb.merged) :
             /\ RClose(DyRat(DySub(DyAdd(e.out[k][1].u1, e.out[k][1].u2), JD0)), tb.merged[k].a, TimeRes49)
             /\ RClose(DyRat(DySub(DyAdd(e.out[k][2].u1, e.out[k][2].u2), JD0)), tb.merged[k].b, TimeRes49)
       THEN {} ELSE {"intervals"}

\* self-test of the decimal reader against Python's fractions.Fraction (machinery, like the
\* kernel self-test): the numeral's bytes and the exact value p/q it denotes (or bad = TRUE)
DecimalFailed(e) ==
  LET d == Decimal(e.s)
  IN IF e.bad THEN (IF d.ok THEN {"assume-decimal"} ELSE {})
     ELSE IF d.ok /\ REq(DecRat(d), R(e.val.p, e.val.q)) THEN {} ELSE {"assume-decimal"}

TimesOf(e) == IF e.ev = "phasepol" THEN <<e.t>> ELSE e.t
TaiNames(e) ==
  IF e.ev \in {"call", "f0", "phasepol"} /\ \E j \in 1..Len(TimesOf(e)) : ~TaiOK(TimesOf(e)[j])
  THEN {"assume-tai"} ELSE {}

\* tb: the table the event is about (for "load": the table just built from its text)
Failed(e, tb) ==
  IF e.ev = "load" THEN LoadFailed(e, tb)
  ELSE IF e.ev = "subset" THEN {}
  ELSE IF e.ev = "decimal" THEN DecimalFailed(e)
  ELSE IF tb.rows = <<>> THEN {"ambiguous:no-table"}
  ELSE TaiNames(e) \cup
       (IF e.ev = "call" THEN CallFailed(tb, e)
        ELSE IF e.ev = "f0" THEN F0Failed(tb, e)
        ELSE IF e.ev = "phasepol" THEN PolFailed(tb, e)
        ELSE IF e.ev = "time_at" THEN TimeAtFailed(tb, e)
        ELSE IF e.ev = "intervals" THEN IntervalsFailed(tb, e)
        ELSE {"unknown-event"})

(***************************************************************************)
(* The trace machine: one event per step.  The new table and the verdict   *)
(* are state variables, so that TLC computes each of them exactly once per *)
(* event (a LET at action level would be re-evaluated at every use).       *)
(***************************************************************************)
Samples(e) == IF e.ev \in {"call", "f0"} THEN Len(e.t)
              ELSE IF e.ev = "phasepol" THEN Len(e.xd) ELSE 1
TraceInit == /\ l = 1 /\ nbad = 0 /\ full = NoTable /\ cur = NoTable
             /\ verdict = {} /\ stats = [samples |-> 0]
TraceNext ==
  \/ /\ l <= NEvents
     /\ full' = (IF Trace[l].ev = "load" THEN LoadTable(Trace[l]) ELSE full)
     /\ cur' = (IF Trace[l].ev = "load" THEN full'
                ELSE IF Trace[l].ev = "subset"
                THEN Table([i \in 1..Len(Trace[l].rows) |-> full.rows[Trace[l].rows[i]]], TRUE, Len(Trace[l].rows))
                ELSE cur)
     /\ verdict' = Failed(Trace[l], cur')
     /\ Report(l, Trace[l], verdict')
     /\ nbad' = nbad + (IF verdict' = {} THEN 0 ELSE 1)
     /\ stats' = [samples |-> stats.samples + Samples(Trace[l])]
     /\ l' = l + 1
  \/ /\ l = NEvents + 1
     /\ Summary(NEvents, nbad)
     /\ l' = l + 1
     /\ UNCHANGED <<nbad, full, cur, verdict, stats>>
TraceSpec == TraceInit /\ [][TraceNext]_<<l, nbad, full, cur, verdict, stats>>
AllConsumed == TLCGet("stats").diameter >= NEvents + 1
=============================================================================
