-------------------------------- MODULE Stft --------------------------------
(***************************************************************************)
(* C20: the contributed short-time Fourier transform and its inverse       *)
(* (pulsarbat/contrib/misc.py), boxcar window, no overlap.                 *)
(*                                                                         *)
(* A baseband signal is [n, nch, cf, cbw, align, t0, rate, d]: n samples   *)
(* of nch channels, d[t][c] complex fixed point; frequencies are exact     *)
(* rationals (module Q) in units of the input's channel bandwidth, with    *)
(* the band model of RadioSignal                                           *)
(*        f_i = cf + cbw (i + a - nch/2),   a = 0, 1/2, 1                  *)
(* Stft(z, p) is written as the code computes it: truncate to a multiple   *)
(* of p (the slice z[:m, :] re-centres the band: cf = mean of first and    *)
(* last label, align = center), reshape (seg, p, chan) -> swap -> DFT ->   *)
(* fftshift -> (seg, chan*p), divide by p, rate/p, align by parity of p.   *)
(* Istft is the inverse the code implements.                               *)
(***************************************************************************)
EXTENDS FftFamily, Q

CONSTANTS NChans, PerSegs, Aligns, ExtraSegs,   \* ExtraSegs: n = p*segs + tail for <<segs, tail>> in ExtraSegs
          Variant    \* "code"; wrong variants TLC must reject: "noshift" (fftshift dropped), "parity" (freq_align by the
                     \* wrong parity), "norecentre" (truncating slice keeps center_freq / freq_align)
VARIABLES cs, res, done, xs
vars == <<tab, cs, res, done, xs>>

A2(al) == CASE al = "bottom" -> 0 [] al = "center" -> 1 [] al = "top" -> 2
NormAlign(al, n) == IF n % 2 = 1 THEN "center" ELSE al
Label(s, i) == QAdd(s.cf, QMul(s.cbw, Qn(2 * i + A2(s.align) - s.nch, 2)))

\* z[:m, :]  (time slice + full frequency slice, as RadioSignal.__getitem__ does it)
Truncate(z, m) ==
  [z EXCEPT !.n = m, !.d = [t \in 1..m |-> z.d[t]],
            !.cf = IF Variant = "norecentre" THEN z.cf ELSE QHalf(QAdd(Label(z, 0), Label(z, z.nch - 1))),
            !.align = IF Variant = "norecentre" THEN z.align ELSE "center"]

Stft(z0, p) ==
  LET z == Truncate(z0, z0.n - (z0.n % p))
      nseg == z.n \div p
      \* X[seg][c] = DFT over k of z.d[seg p + k][c]
      X == [sg \in 0..(nseg - 1) |-> [c \in 1..z.nch |-> DftT([k \in 1..p |-> z.d[sg * p + k][c]], -1)]]
      \* fftshift: output index i (0-based) takes DFT bin (i - p div 2) mod p
      Y == [sg \in 1..nseg |-> [j \in 1..(z.nch * p) |->
              CDivSmall(X[sg - 1][((j - 1) \div p) + 1][((((j - 1) % p) - (IF Variant = "noshift" THEN 0 ELSE p \div 2)) % p) + 1], p)]]
  IN [n |-> nseg, nch |-> z.nch * p, cf |-> z.cf, cbw |-> QDiv(z.cbw, QI(p)), rate |-> QDiv(z.rate, QI(p)),
      align |-> NormAlign(IF (p % 2 = 1) = (Variant # "parity") THEN "center" ELSE "bottom", z.nch * p), t0 |-> z.t0, d |-> Y]

Istft(s, p) ==
  LET nch == s.nch \div p
      \* ifftshift: DFT bin b takes input index (b + p div 2) mod p;  undo the 1/p
      W == [t \in 1..s.n |-> [c \in 1..nch |->
              IDft1([b \in 1..p |-> CScaleInt(s.d[t][((c - 1) * p) + (((b - 1) + (p \div 2)) % p) + 1], p)])]]
  IN [n |-> s.n * p, nch |-> nch, cf |-> s.cf, cbw |-> QMul(s.cbw, QI(p)), rate |-> QMul(s.rate, QI(p)),
      align |-> NormAlign("center", nch), t0 |-> s.t0,
      d |-> [t \in 1..(s.n * p) |-> [c \in 1..nch |-> W[((t - 1) \div p) + 1][c][((t - 1) % p) + 1]]]]

(***************************************************************************)
(* Cases                                                                   *)
(***************************************************************************)
DataRe(t, c) == ((t * t + 2 * t + 3 * c) % 7) - 3
DataIm(t, c) == ((2 * t * t + t + c * c + 1) % 5) - 2
\* signed bin numbers of a p-point DFT
Bins(p) == (-(p \div 2))..(p - 1 - (p \div 2))
MkSig(nch, al, n, d) ==
  [n |-> n, nch |-> nch, cf |-> QI(0), cbw |-> QI(1), rate |-> QI(1), align |-> NormAlign(al, nch), t0 |-> 0, d |-> d]
Sig(c) ==
  IF c.mode = "data"
  THEN MkSig(c.nch, c.align, c.n, [t \in 1..c.n |-> [ch \in 1..c.nch |-> CFromInts(DataRe(t, ch), DataIm(t, ch))]])
  ELSE \* a tone of k cycles per p samples in channel c0 (0-based), nothing elsewhere
       MkSig(c.nch, c.align, c.n, [t \in 1..c.n |-> [ch \in 1..c.nch |->
               IF ch = c.c0 + 1 THEN tab.tw[c.p][(c.k * (t - 1)) % c.p] ELSE CZero]])
Cases ==
  {[mode |-> "data", nch |-> nc, align |-> NormAlign(al, nc), p |-> p, n |-> p * st[1] + st[2], c0 |-> 0, k |-> 0] :
      nc \in NChans, al \in Aligns, p \in PerSegs, st \in ExtraSegs}
  \cup UNION {{[mode |-> "tone", nch |-> nc, align |-> NormAlign(al, nc), p |-> p, n |-> p * st[1] + st[2], c0 |-> c0, k |-> k] :
                 c0 \in 0..(nc - 1), k \in Bins(p)} : nc \in NChans, al \in Aligns, p \in PerSegs, st \in ExtraSegs}

NoRes == [st |-> <<>>, ist |-> <<>>]
\* Sample axes after the channel axis.  The transform acts on every trailing index independently (the signal of
\* index e is the modelled one times a weight the replayer chooses), so a case is evaluated once and then expanded
\* into one generated case per trailing sample shape xs (<<>>: none; the first entry 2 may be the polarisation axis)
ExtraShapes == <<<<>>, <<2>>, <<3>>, <<2, 3>>, <<3, 3>>, <<2, 2>>, <<2, 3, 2>>>>
HS(c) == c.nch + 2 * c.p + c.n + c.c0 + 3 * (c.k + c.p) + (IF c.mode = "data" THEN 1 ELSE 0)
Extras(c) == {ExtraShapes[1]} \cup {ExtraShapes[((HS(c) + 3 * j) % 6) + 2] : j \in 0..1}
NoXs == <<-1>>
Init == TabInit /\ cs \in {c \in Cases : c.n >= c.p /\ c.n <= 64} /\ res = NoRes /\ done = FALSE /\ xs = NoXs
Evaluate == /\ ~done /\ done' = TRUE
            /\ LET st == Stft(Sig(cs), cs.p) IN res' = [st |-> st, ist |-> Istft(st, cs.p)]
            /\ UNCHANGED <<tab, cs, xs>>
Expand == done /\ xs = NoXs /\ xs' \in Extras(cs) /\ UNCHANGED <<tab, cs, res, done>>
Next == Evaluate \/ Expand
Spec == Init /\ [][Next]_vars

(***************************************************************************)
(* Properties                                                              *)
(***************************************************************************)
Tol == FTol10(12)
Half == FDivSmall(FOne, 2)
\* absolute frequency of the tone of case c (units of the input's channel bandwidth)
ToneFreq(c, k) == QAdd(Label(Sig(c), c.c0), Qn(k, c.p))
\* the sub-channel that receives the energy carries the tone's absolute frequency; for the
\* Nyquist bin of an even p the two aliases +-rate/2 are the same tone
StftLabelsAreTrueFrequencies ==
  (done /\ cs.mode = "tone") =>
     LET st == res.st
         hot(sg) == {j \in 1..st.nch : Le(Half, CAbs2(st.d[sg][j]))}
     IN \A sg \in 1..st.n :
          /\ Cardinality(hot(sg)) = 1
          /\ \A j \in 1..st.nch :
               IF j \in hot(sg)
               THEN /\ CClose(st.d[sg][j], COne, Tol)
                    /\ \/ Label(st, j - 1) = ToneFreq(cs, cs.k)
                       \/ (2 * cs.k = -cs.p /\ Label(st, j - 1) = ToneFreq(cs, -cs.k))
               ELSE CClose(st.d[sg][j], CZero, Tol)
\* rate divided by nperseg, start time unchanged, nperseg sub-channels per channel; sub-channel i of
\* channel c is labelled with the centre frequency of DFT bin i - p div 2 of that channel
StftMeta ==
  done => LET z == Sig(cs)  st == res.st
          IN /\ st.rate = QDiv(z.rate, QI(cs.p)) /\ st.cbw = st.rate /\ st.t0 = z.t0
             /\ st.n = z.n \div cs.p /\ st.nch = z.nch * cs.p
             /\ \A c \in 0..(z.nch - 1) : \A i \in 0..(cs.p - 1) :
                  Label(st, c * cs.p + i) = QAdd(Label(z, c), QMul(z.cbw, Qn(i - (cs.p \div 2), cs.p)))
\* ISTFT of the STFT: samples (up to the truncated tail), rate, start time, channel labels
IstftInvertsStft ==
  done => LET z == Sig(cs)  w == res.ist  m == z.n - (z.n % cs.p)
          IN /\ w.n = m /\ w.nch = z.nch /\ w.rate = z.rate /\ w.cbw = z.cbw /\ w.t0 = z.t0
             /\ \A c \in 0..(z.nch - 1) : Label(w, c) = Label(z, c)
             /\ \A t \in 1..m : \A c \in 1..z.nch : CClose(w.d[t][c], z.d[t][c], Tol)
=============================================================================
