SPECIFICATION Spec
CONSTANTS
  MaxTW = 16
  MaxCube = 7
  MaxBasis = 16
  MaxTone = 16
  MaxArrN = 7
  Phases <- F_Phases
  Wrong = FALSE
INVARIANT InvLen
INVARIANT InvRealPart
INVARIANT InvAnalytic
INVARIANT InvMix
INVARIANT InvLinear
INVARIANT InvAdd
INVARIANT InvTone
INVARIANT InvDtype
INVARIANT InvAxis
INVARIANT InvArrayLen
CHECK_DEADLOCK FALSE
