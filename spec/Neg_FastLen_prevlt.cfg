SPECIFICATION Spec
CONSTANTS
  Ns <- T_Ns
  Fns <- OnlyPrev
  Guess2 = TRUE
  OddBreak = TRUE
  PrevLe = FALSE
INVARIANT Terminates
INVARIANT ResultIsNext
INVARIANT ResultIsPrev
INVARIANT ZeroIsZero
CHECK_DEADLOCK TRUE
