------------------------------- MODULE Dedisp -------------------------------
(***************************************************************************)
(* Dispersion by a cold plasma: the f^-2 delay law, the chirp transfer     *)
(* function of coherent dedispersion with its valid-time crop, and the     *)
(* per-channel realignment of incoherent dedispersion (properties C05,     *)
(* C06 of pulsarbat, pulsarbat/transforms/dedispersion.py).                *)
(*                                                                         *)
(* Part 1 (laws) is exact rational arithmetic (module Rat): frequencies    *)
(* in Hz, times in s, DM in pc cm^-3.  Part 2 (coherent crop) and part 3   *)
(* (incoherent realignment) are written twice: operationally, the way the  *)
(* code computes (ceil of the band-edge delays, slice.indices arithmetic   *)
(* through PySlice, crop_before, per-channel slices), and declaratively    *)
(* (which output times have all their sources inside the input and where   *)
(* every output sample comes from).  MC_Dedisp checks that both agree;     *)
(* Trace_Dedisp uses the same operators to judge events recorded from the  *)
(* real code.                                                              *)
(***************************************************************************)
EXTENDS Fix, PySlice, Sequences, FiniteSets, TLC

(***************************************************************************)
(* 1. Laws                                                                 *)
(***************************************************************************)
\* K = 1 / 2.41e-4 s MHz^2 cm^3 / pc = 10^12 / 2.41e-4 s Hz^2 per (pc cm^-3)
\*   = 10^18 / 241 exactly
KDisp == R(Pow10(18), FromInt(241))
KDM(dm) == RMul(KDisp, dm)                      \* s Hz^2

InvSq(f) == RInv(RMul(f, f))                    \* f # 0; an infinite frequency has InvSq = 0
\* delay of frequency f relative to fref, from the inverse squares
DelayI(kdm, if2, ir2) == RMul(kdm, RSub(if2, ir2))
Delay(kdm, f, fref) == DelayI(kdm, InvSq(f), InvSq(fref))            \* seconds
SampleDelay(kdm, f, fref, rate) == RMul(Delay(kdm, f, fref), rate)   \* samples

\* chirp: phase in cycles, H = exp(-2 pi i phase)
ChirpDelta(f, fref) == RSub(RInv(fref), RInv(f))
ChirpPhase(kdm, f, fref) ==
  LET d == ChirpDelta(f, fref) IN RMul(RMul(kdm, f), RMul(d, d))
ChirpH(phase) == LET cs == CosSin(phase) IN C(cs.c, Neg(cs.s))
\* absolute frequency of DFT bin k (0-based index) of a channel centred at fc
BinFreq(fc, k, N, dt) == RAdd(fc, RDiv(RI(FftBin(k, N)), RMul(RI(N), dt)))

(***************************************************************************)
(* 1b. The same phase with bounded cost.  Exact rationals built from       *)
(* doubles reach 40 limbs here and the kernel's long division is cubic, so *)
(* trace validation evaluates the phase in a floating format: BigInt       *)
(* mantissa cut (towards zero) to the BFL = 10 leading limbs, i.e. to      *)
(* >= 136 significant bits, and a binary exponent.  The cancelling         *)
(* difference f - fref is formed exactly first:                            *)
(*     phase = K DM f (1/fref - 1/f)^2 = K DM (f - fref)^2 / (fref^2 f)    *)
(* so only products and one quotient remain, each cut costing a relative   *)
(* error < 2^-135.  ChirpPhaseFix returns floor(phase' * 2^75) with        *)
(*     |phase' - phase| <= 12 * 2^-135 |phase| + 2^-75   cycles,           *)
(* below 2^-73 cycle for |phase| < 2^60 -- 1e-22, against a comparison     *)
(* tolerance of 2e-6.  PhaseFixAgrees (checked on sampled events by        *)
(* Trace_Dedisp and on the lattice by MC_Dedisp) compares it with the      *)
(* exact ChirpPhase.                                                       *)
(***************************************************************************)
BFL == 10
BF(m, e) == [m |-> m, e |-> e]                                  \* m * 2^e
BFTrunc(m, e) == LET n == Len(m.m)
                 IN IF n <= BFL THEN BF(m, e)
                    ELSE BF(Mk(m.n, NShiftR(m.m, n - BFL)), e + 15 * (n - BFL))
BFOf(b) == BFTrunc(b, 0)
BFMul(x, y) == BFTrunc(Mul(x.m, y.m), x.e + y.e)
BFSq(x) == BFMul(x, x)
\* floor(x / y * 2^s), y > 0
BFQuot(x, y, s) == LET sh == x.e - y.e + s
                   IN IF sh >= 0 THEN FloorDiv(Shl(x.m, sh), y.m)
                      ELSE FloorDiv(x.m, Shl(y.m, -sh))
PFBITS == 75
\* f > 0, fref > 0
ChirpPhaseFix(kdm, f, fref) ==
  LET d == RSub(f, fref)
      num == BFMul(BFMul(BFOf(kdm.p), BFSq(BFOf(d.p))), BFMul(BFSq(BFOf(fref.q)), BFOf(f.q)))
      den == BFMul(BFMul(BFOf(kdm.q), BFSq(BFOf(d.q))), BFMul(BFSq(BFOf(fref.p)), BFOf(f.p)))
  IN BFQuot(num, den, PFBITS)
PhaseFixRat(v) == R(v, Pow2(PFBITS))
PhaseFixAgrees(kdm, f, fref) ==
  RClose(PhaseFixRat(ChirpPhaseFix(kdm, f, fref)), ChirpPhase(kdm, f, fref),
         RAdd(RPow2(-73), RMul(RAbs(ChirpPhase(kdm, f, fref)), RPow2(-130))))
\* K|DM| |1/fref - 1/f| * g  (g a positive Rat), times 2^s, rounded down
ChirpSlopeFix(kdm, f, fref, g, s) ==
  LET d == RSub(f, fref)
      num == BFMul(BFMul(BFOf(Abs(kdm.p)), BFOf(Abs(d.p))), BFMul(BFMul(BFOf(fref.q), BFOf(f.q)), BFOf(g.p)))
      den == BFMul(BFMul(BFOf(kdm.q), BFOf(d.q)), BFMul(BFMul(BFOf(fref.p), BFOf(f.p)), BFOf(g.q)))
  IN BFQuot(num, den, s)

(***************************************************************************)
(* 2. Coherent dedispersion: crop to the valid times                       *)
(***************************************************************************)
\* non-negative BigInt -> native int, saturating at cap (a crop bound beyond
\* the signal behaves like any other bound beyond the signal)
CapInt(x, cap) == IF Cmp(x, FromInt(cap)) > 0 THEN cap ELSE ToInt(x)

\* the code:  start = ceil(-min(0, d_top, d_bot))
\*            stop  = N - ceil(max(0, d_top, d_bot))
\*            z[start : max(start, stop)]     (fixed) /  z[start : stop]  (pinned tree)
\* dtop, dbot: Rat sample delays at max_freq / min_freq relative to fref
CohWindow(N, dtop, dbot, fixed) ==
  LET lo == RMin(RZero, RMin(dtop, dbot))
      hi == RMax(RZero, RMax(dtop, dbot))
      start == CapInt(RCeil(RNeg(lo)), N + 1)
      stop  == N - CapInt(RCeil(hi), 2 * N + 2)
      arg   == IF fixed THEN PMax(start, stop) ELSE stop
      ix    == Indices(start, arg, None, N)
  IN [start |-> start, stoparg |-> arg,
      sel |-> Select(start, arg, None, N),
      first |-> ix.start,                        \* what _time_slice adds to start_time
      len |-> RangeLen(ix.start, ix.stop, 1)]

\* declarative: output time k is valid iff every frequency of the band and
\* the reference (delay 0) finds its source k + d inside the input.  Delays
\* are monotone in frequency, so the band edges and 0 are the extremes.
CohValid(N, dtop, dbot) ==
  {k \in 0..(N - 1) : \A d \in {RZero, dtop, dbot} :
      RLe(RZero, RAdd(RI(k), d)) /\ RLe(RAdd(RI(k), d), RI(N - 1))}

(***************************************************************************)
(* 3. Incoherent dedispersion                                              *)
(***************************************************************************)
RECURSIVE SeqMaxR(_, _, _)
SeqMaxR(s, i, m) == IF i > Len(s) THEN m ELSE SeqMaxR(s, i + 1, PMax(m, s[i]))
SeqMax(s) == SeqMaxR(s, 2, s[1])
RECURSIVE SeqMinR(_, _, _)
SeqMinR(s, i, m) == IF i > Len(s) THEN m ELSE SeqMinR(s, i + 1, PMin(m, s[i]))
SeqMin(s) == SeqMinR(s, 2, s[1])

\* Operational, d = rounded sample delays per channel (integers, Len >= 1):
\*   crop_before = -min(0, d[0], d[-1]);  d += crop_before;  N' = len - max(d)
\*   x = stack([data[j : j + N', i] for i, j in enumerate(d)])
\*   new_start = start + crop_before * dt
\* variant: "code" | "cropsign" (crop_before = +min(...)) | "nostart" (start
\* not advanced) -- the last two only exist to show the invariants bite.
IncohOp(len, d, variant) ==
  LET n  == Len(d)
      m0 == PMin(0, PMin(d[1], d[n]))
      cb == IF variant = "cropsign" THEN m0 ELSE -m0
      dd == [i \in 1..n |-> d[i] + cb]
      np == len - SeqMax(dd)
      ix == [i \in 1..n |-> Indices(dd[i], dd[i] + np, None, len)]
      ln == [i \in 1..n |-> RangeLen(ix[i].start, ix[i].stop, 1)]
      ok == \A i \in 1..n : ln[i] = ln[1]              \* np.stack needs equal shapes
  IN [ok |-> ok, cb |-> cb, np |-> np,
      outlen |-> IF ok THEN ln[1] ELSE 0,
      \* src[i][k]: input time index of output sample k (1-based k) of channel i
      src |-> [i \in 1..n |-> [k \in 1..ln[i] |-> ix[i].start + k - 1]],
      adv |-> IF variant = "nostart" THEN 0 ELSE cb]   \* start_time advance in samples

\* Declarative.  Output time T (in samples after the input start) of channel
\* i shows the input sample of channel i at T + d[i].  T is admissible iff
\* that source exists in every channel; the output does not begin before the
\* input does (T >= 0: the reference frequency, delay 0, counts as a source).
IncohValid(len, d) ==
  {T \in 0..(len - 1 - SeqMin(d)) : \A i \in 1..Len(d) : T + d[i] >= 0 /\ T + d[i] <= len - 1}

(***************************************************************************)
(* Rounding of exact delays to whole samples (numpy.round: half to even),  *)
(* and the distance of a value to the nearest rounding / ceiling boundary  *)
(***************************************************************************)
DistToHalf(x) == RAbs(RSub(RFrac(x), RHalf))                      \* in [0, 1/2]
DistToInt(x) == LET f == RFrac(x) IN RMin(f, RSub(ROne, f))      \* in [0, 1/2]
=============================================================================
