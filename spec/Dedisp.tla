------------------------------- MODULE Dedisp -------------------------------
(***************************************************************************)
(* Dispersion by a cold plasma: the f^-2 delay law, the chirp transfer     *)
(* function of coherent dedispersion with its valid-time crop, and the     *)
(* per-channel realignment of incoherent dedispersion (properties C05,     *)
(* C06 of pulsarbat, pulsarbat/transforms/dedispersion.py).                *)
(*                                                                         *)
(* Part 1 (laws) is exact rational arithmetic (module Rat): frequencies    *)
(* in Hz, times in s, DM in pc cm^-3.  Part 2 (coherent crop) and part 3   *)
(* (incoherent realignment) are written twice: operationally, the way the  *)
(* code computes (ceil of the band-edge delays, slice.indices arithmetic   *)
(* through PySlice, crop_before, per-channel slices), and declaratively    *)
(* (which output times have all their sources inside the input and where   *)
(* every output sample comes from).  MC_Dedisp checks that both agree;     *)
(* Trace_Dedisp uses the same operators to judge events recorded from the  *)
(* real code.                                                              *)
(***************************************************************************)
EXTENDS Fix, PySlice, Sequences, FiniteSets, TLC

(***************************************************************************)
(* 1. Laws                                                                 *)
(***************************************************************************)
\* K = 1 / 2.41e-4 s MHz^2 cm^3 / pc = 10^12 / 2.41e-4 s Hz^2 per (pc cm^-3)
\*   = 10^18 / 241 exactly
KDisp == R(Pow10(18), FromInt(241))
KDM(dm) == RMul(KDisp, dm)                      \* s Hz^2

InvSq(f) == RInv(RMul(f, f))                    \* f # 0; an infinite frequency has InvSq = 0
\* delay of frequency f relative to fref, from the inverse squares
DelayI(kdm, if2, ir2) == RMul(kdm, RSub(if2, ir2))
Delay(kdm, f, fref) == DelayI(kdm, InvSq(f), InvSq(fref))            \* seconds
SampleDelay(kdm, f, fref, rate) == RMul(Delay(kdm, f, fref), rate)   \* samples

\* chirp: phase in cycles, H = exp(-2 pi i phase)
ChirpDelta(f, fref) == RSub(RInv(fref), RInv(f))
\* from the inverse reference ir = 1/fref; ir = 0 is the reference at infinite
\* frequency (the convention time_delay uses): phase = K DM / f
ChirpPhaseI(kdm, f, ir) == LET d == RSub(ir, RInv(f)) IN RMul(RMul(kdm, f), RMul(d, d))
ChirpPhase(kdm, f, fref) == ChirpPhaseI(kdm, f, RInv(fref))
ChirpPhaseInf(kdm, f) == ChirpPhaseI(kdm, f, RZero)
SampleDelayInf(kdm, f, rate) == RMul(DelayI(kdm, InvSq(f), RZero), rate)
ChirpH(phase) == LET cs == CosSin(phase) IN C(cs.c, Neg(cs.s))
\* absolute frequency of DFT bin k (0-based index) of a channel centred at fc
BinFreq(fc, k, N, dt) == RAdd(fc, RDiv(RI(FftBin(k, N)), RMul(RI(N), dt)))

(***************************************************************************)
(* 1b. The same phase with bounded cost.  Exact rationals built from       *)
(* doubles reach 40 limbs here and the kernel's long division is cubic, so *)
(* trace validation evaluates the phase in a floating format: BigInt       *)
(* mantissa cut (towards zero) to its L leading limbs, i.e. to more than   *)
(* 15 (L - 1) significant bits, and a binary exponent.  The cancelling     *)
(* difference f - fref is formed exactly first:                            *)
(*     phase = K DM f (1/fref - 1/f)^2 = K DM (f - fref)^2 / (fref^2 f)    *)
(* so only products and one quotient remain; with L = BFL = 8 each of the  *)
(* 18 cuts (9 in the numerator, 9 in the denominator) costs a relative     *)
(* error < 2^-105.  ChirpPhaseFix returns floor(phase' * 2^75) with        *)
(*     |phase' - phase| <= 2^-100 |phase| + 2^-75   cycles,                *)
(* i.e. < 2^-59 cycle (2e-18) for |phase| < 2^40, against a comparison     *)
(* tolerance of 2e-6.  PhaseFixAgrees (checked on sampled events by        *)
(* Trace_Dedisp and on the lattice by MC_Dedisp) compares it with the      *)
(* exact ChirpPhase.                                                       *)
(***************************************************************************)
BFL == 8
BF(m, e) == [m |-> m, e |-> e]                                  \* m * 2^e
BFTrunc(m, e, L) == LET n == Len(m.m)
                    IN IF n <= L THEN BF(m, e)
                       ELSE BF(Mk(m.n, NShiftR(m.m, n - L)), e + 15 * (n - L))
BFOf(b, L) == BFTrunc(b, 0, L)
BFMul(x, y, L) == BFTrunc(Mul(x.m, y.m), x.e + y.e, L)
\* floor(x / y * 2^s), y > 0
BFQuot(x, y, s) == LET sh == x.e - y.e + s
                   IN IF sh >= 0 THEN FloorDiv(Shl(x.m, sh), y.m)
                      ELSE FloorDiv(x.m, Shl(y.m, -sh))
PFLIMBS == 5
PFBITS == 75                                                    \* 15 * PFLIMBS
\* f > 0, fref > 0
ChirpPhaseFix(kdm, f, fref) ==
  LET d == RSub(f, fref)
      M(x, y) == BFMul(x, y, BFL)
      O(b) == BFOf(b, BFL)
      dp == O(d.p)  dq == O(d.q)  rp == O(fref.p)  rq == O(fref.q)
      num == M(M(O(kdm.p), M(dp, dp)), M(M(rq, rq), O(f.q)))
      den == M(M(O(kdm.q), M(dq, dq)), M(M(rp, rp), O(f.p)))
  IN BFQuot(num, den, PFBITS)
PhaseFixRat(v) == R(v, Pow2(PFBITS))
PhaseFixAgrees(kdm, f, fref) ==
  RClose(PhaseFixRat(ChirpPhaseFix(kdm, f, fref)), ChirpPhase(kdm, f, fref),
         RAdd(RPow2(-75), RMul(RAbs(ChirpPhase(kdm, f, fref)), RPow2(-100))))
\* an upper bound of  K|DM| |1/fref - 1/f| g 2^s  (g a positive Rat): three
\* limbs suffice (16 cuts, relative error < 2^-26), then inflated by 2^-20
ChirpSlopeFix(kdm, f, fref, g, s) ==
  LET d == RSub(f, fref)
      M(x, y) == BFMul(x, y, 3)
      O(b) == BFOf(b, 3)
      num == M(M(O(Abs(kdm.p)), O(Abs(d.p))), M(M(O(fref.q), O(f.q)), O(g.p)))
      den == M(M(O(kdm.q), O(d.q)), M(M(O(fref.p), O(f.p)), O(g.q)))
      q == BFQuot(num, den, s)
  IN Add(Add(q, Mk(FALSE, NShr(q.m, 20))), FromInt(2))

\* Sample delay K DM (1/f^2 - 1/fref^2) rate = K DM (fref - f)(fref + f) rate / (f^2 fref^2)
\* as floor(delay' * 2^45), |delay' - delay| <= 2^-100 |delay| + 2^-45: the
\* cancelling factor fref - f is exact, the rest are products (26 cuts to 8 limbs).
\* A delay that is at least 1e-6 away from every integer (half-integer) has the
\* same ceiling (rounding) as this approximation whenever |delay| < 2^50.
DFBITS == 45
SampleDelayFix(kdm, f, fref, rate) ==
  LET a == RSub(fref, f)
      b == RAdd(fref, f)
      M(x, y) == BFMul(x, y, BFL)
      O(x) == BFOf(x, BFL)
      fq == O(f.q)  rq == O(fref.q)  fp == O(f.p)  rp == O(fref.p)
      num == M(M(M(O(kdm.p), O(a.p)), M(O(b.p), O(rate.p))), M(M(fq, fq), M(rq, rq)))
      den == M(M(M(O(kdm.q), O(a.q)), M(O(b.q), O(rate.q))), M(M(fp, fp), M(rp, rp)))
  IN BFQuot(num, den, DFBITS)
DelayFixRat(v) == R(v, Pow2(DFBITS))
SampleDelayAgrees(kdm, f, fref, rate) ==
  LET x == SampleDelay(kdm, f, fref, rate)
  IN RClose(DelayFixRat(SampleDelayFix(kdm, f, fref, rate)), x,
            RAdd(RPow2(-45), RMul(RAbs(x), RPow2(-100))))

\* The same three for the reference at infinite frequency (1/fref = 0):
\* phase = K DM / f,  K|DM| |1/f| g,  delay = K DM rate / f^2
ChirpPhaseFixInf(kdm, f) ==
  BFQuot(BFMul(BFOf(kdm.p, BFL), BFOf(f.q, BFL), BFL), BFMul(BFOf(kdm.q, BFL), BFOf(f.p, BFL), BFL), PFBITS)
ChirpSlopeFixInf(kdm, f, g, s) ==
  LET M(x, y) == BFMul(x, y, 3)
      O(b) == BFOf(b, 3)
      q == BFQuot(M(M(O(Abs(kdm.p)), O(f.q)), O(g.p)), M(M(O(kdm.q), O(f.p)), O(g.q)), s)
  IN Add(Add(q, Mk(FALSE, NShr(q.m, 20))), FromInt(2))
SampleDelayFixInf(kdm, f, rate) ==
  LET M(x, y) == BFMul(x, y, BFL)
      O(x) == BFOf(x, BFL)
      fq == O(f.q)  fp == O(f.p)
  IN BFQuot(M(M(O(kdm.p), O(rate.p)), M(fq, fq)), M(M(O(kdm.q), O(rate.q)), M(fp, fp)), DFBITS)

\* A reference frequency is a record [inf |-> BOOLEAN, v |-> Rat]; the
\* operators below dispatch on it.  rho = (|fc| + |bin|) / f enters the budget
\* g = rho (f |D| + 1 + f / fref), D = 1/fref - 1/f  (Trace_Dedisp header):
\* (|f - fref| + fref + f) / fref for a finite reference, 2 at infinity.
RefOf(v, inf) == [inf |-> inf, v |-> v]
PhaseFixR(kdm, f, ref) == IF ref.inf THEN ChirpPhaseFixInf(kdm, f) ELSE ChirpPhaseFix(kdm, f, ref.v)
SlopeFixR(kdm, f, ref, rho, s) ==
  IF ref.inf THEN ChirpSlopeFixInf(kdm, f, RMul(rho, RI(2)), s)
  ELSE ChirpSlopeFix(kdm, f, ref.v,
                     RMul(rho, RDiv(RAdd(RAbs(RSub(f, ref.v)), RAdd(ref.v, f)), ref.v)), s)
PhaseExactR(kdm, f, ref) == IF ref.inf THEN ChirpPhaseInf(kdm, f) ELSE ChirpPhase(kdm, f, ref.v)
PhaseAgreesR(kdm, f, ref) ==
  RClose(PhaseFixRat(PhaseFixR(kdm, f, ref)), PhaseExactR(kdm, f, ref),
         RAdd(RPow2(-75), RMul(RAbs(PhaseExactR(kdm, f, ref)), RPow2(-100))))
DelayFixR(kdm, f, ref, rate) ==
  IF ref.inf THEN SampleDelayFixInf(kdm, f, rate) ELSE SampleDelayFix(kdm, f, ref.v, rate)
DelayExactR(kdm, f, ref, rate) ==
  IF ref.inf THEN SampleDelayInf(kdm, f, rate) ELSE SampleDelay(kdm, f, ref.v, rate)
DelayAgreesR(kdm, f, ref, rate) ==
  LET x == DelayExactR(kdm, f, ref, rate)
  IN RClose(DelayFixRat(DelayFixR(kdm, f, ref, rate)), x, RAdd(RPow2(-45), RMul(RAbs(x), RPow2(-100))))

\* cos / sin of v / 2^75 cycles (v any BigInt): Fix!CosSin for a dyadic
\* argument, with shifts in place of long divisions.  frac = v mod 2^75 has
\* five limbs; its three leading bits are the octant.
CosSinDy(v) ==
  LET lowm == NLow(v.m, PFLIMBS)                      \* |v| mod 2^75
      fr == IF v.n /\ lowm # <<>> THEN NSub(NPow2(PFBITS), lowm) ELSE lowm
      top == Limb(fr, PFLIMBS)
      o == top \div 4096                              \* octant 0..7
      rem == NTrim([i \in 1..PFLIMBS |-> IF i = PFLIMBS THEN top % 4096 ELSE Limb(fr, i)])
      x == Mk(FALSE, NShr(NMul(PI4.m, rem), PFBITS - 3))   \* pi/4 * rem / 2^72, Fix
      xx == IF o % 2 = 0 THEN x ELSE Sub(PI4, x)
      c == IF IsZero(xx) THEN FOne ELSE FCos0(xx)
      s == IF IsZero(xx) THEN FZero ELSE FSin0(xx)
  IN CASE o = 0 -> [c |-> c,      s |-> s]
       [] o = 1 -> [c |-> s,      s |-> c]
       [] o = 2 -> [c |-> Neg(s), s |-> c]
       [] o = 3 -> [c |-> Neg(c), s |-> s]
       [] o = 4 -> [c |-> Neg(c), s |-> Neg(s)]
       [] o = 5 -> [c |-> Neg(s), s |-> Neg(c)]
       [] o = 6 -> [c |-> s,      s |-> Neg(c)]
       [] o = 7 -> [c |-> c,      s |-> Neg(s)]
\* H = exp(-2 pi i v / 2^75)
ChirpHFix(v) == LET cs == CosSinDy(v) IN C(cs.c, Neg(cs.s))

(***************************************************************************)
(* 2. Coherent dedispersion: crop to the valid times                       *)
(***************************************************************************)
\* non-negative BigInt -> native int, saturating at cap (a crop bound beyond
\* the signal behaves like any other bound beyond the signal)
CapInt(x, cap) == IF Cmp(x, FromInt(cap)) > 0 THEN cap ELSE ToInt(x)

\* the code:  start = ceil(-min(0, d_top, d_bot))
\*            stop  = N - ceil(max(0, d_top, d_bot))
\*            z[start : max(start, stop)]     (fixed) /  z[start : stop]  (pinned tree)
\* dtop, dbot: Rat sample delays at max_freq / min_freq relative to fref
CohWindow(N, dtop, dbot, fixed) ==
  LET lo == RMin(RZero, RMin(dtop, dbot))
      hi == RMax(RZero, RMax(dtop, dbot))
      start == CapInt(RCeil(RNeg(lo)), N + 1)
      stop  == N - CapInt(RCeil(hi), 2 * N + 2)
      arg   == IF fixed THEN PMax(start, stop) ELSE stop
      ix    == Indices(start, arg, None, N)
  IN [start |-> start, stoparg |-> arg,
      sel |-> Select(start, arg, None, N),
      first |-> ix.start,                        \* what _time_slice adds to start_time
      len |-> RangeLen(ix.start, ix.stop, 1)]

\* declarative: output time k is valid iff every frequency of the band and
\* the reference (delay 0) finds its source k + d inside the input.  Delays
\* are monotone in frequency, so the band edges and 0 are the extremes.
CohValid(N, dtop, dbot) ==
  {k \in 0..(N - 1) : \A d \in {RZero, dtop, dbot} :
      RLe(RZero, RAdd(RI(k), d)) /\ RLe(RAdd(RI(k), d), RI(N - 1))}

(***************************************************************************)
(* 3. Incoherent dedispersion                                              *)
(***************************************************************************)
RECURSIVE SeqMaxR(_, _, _)
SeqMaxR(s, i, m) == IF i > Len(s) THEN m ELSE SeqMaxR(s, i + 1, PMax(m, s[i]))
SeqMax(s) == SeqMaxR(s, 2, s[1])
RECURSIVE SeqMinR(_, _, _)
SeqMinR(s, i, m) == IF i > Len(s) THEN m ELSE SeqMinR(s, i + 1, PMin(m, s[i]))
SeqMin(s) == SeqMinR(s, 2, s[1])

\* Operational, d = rounded sample delays per channel (integers, Len >= 1):
\*   crop_before = -min(0, d[0], d[-1]);  d += crop_before;  N' = len - max(d)
\*   x = stack([data[j : j + N', i] for i, j in enumerate(d)])
\*   new_start = start + crop_before * dt
\* variant: "code" | "cropsign" (crop_before = +min(...)) | "nostart" (start
\* not advanced) -- the last two only exist to show the invariants bite.
IncohOp(len, d, variant) ==
  LET n  == Len(d)
      m0 == PMin(0, PMin(d[1], d[n]))
      cb == IF variant = "cropsign" THEN m0 ELSE -m0
      dd == [i \in 1..n |-> d[i] + cb]
      np == len - SeqMax(dd)
      ix == [i \in 1..n |-> Indices(dd[i], dd[i] + np, None, len)]
      ln == [i \in 1..n |-> RangeLen(ix[i].start, ix[i].stop, 1)]
      ok == \A i \in 1..n : ln[i] = ln[1]              \* np.stack needs equal shapes
  IN [ok |-> ok, cb |-> cb, np |-> np,
      outlen |-> IF ok THEN ln[1] ELSE 0,
      \* src[i][k]: input time index of output sample k (1-based k) of channel i
      src |-> [i \in 1..n |-> [k \in 1..ln[i] |-> ix[i].start + k - 1]],
      adv |-> IF variant = "nostart" THEN 0 ELSE cb]   \* start_time advance in samples

\* Declarative.  Output time T (in samples after the input start) of channel
\* i shows the input sample of channel i at T + d[i].  T is admissible iff
\* that source exists in every channel; the output does not begin before the
\* input does (T >= 0: the reference frequency, delay 0, counts as a source).
IncohValid(len, d) ==
  {T \in 0..(len - 1 - SeqMin(d)) : \A i \in 1..Len(d) : T + d[i] >= 0 /\ T + d[i] <= len - 1}

(***************************************************************************)
(* Rounding of exact delays to whole samples (numpy.round: half to even),  *)
(* and the distance of a value to the nearest rounding / ceiling boundary  *)
(***************************************************************************)
DistToHalf(x) == RAbs(RSub(RFrac(x), RHalf))                      \* in [0, 1/2]
DistToInt(x) == LET f == RFrac(x) IN RMin(f, RSub(ROne, f))      \* in [0, 1/2]
=============================================================================
