SPECIFICATION Spec
CONSTANTS MaxMut = 3
INVARIANT BuildMatchesContract
INVARIANT BuiltIsValid
CHECK_DEADLOCK FALSE
