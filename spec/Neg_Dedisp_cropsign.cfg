SPECIFICATION Spec
CONSTANTS
  Lens <- Q_Lens
  NChans <- Q_NChans
  IDelays <- Q_IDelays
  QDelays <- Q_QDelays
  AKdm <- Q_AKdm
  AFreqs <- Q_AFreqs
  ASteps <- Q_ASteps
  Kinds <- AllKinds
  Variant = "cropsign"
  Fixed = TRUE
VIEW View
INVARIANT RealignDecl
INVARIANT OnlyValidSources
INVARIANT AllValidReturned
INVARIANT StartAdvance
INVARIANT NoWrap
INVARIANT CropIsValidTimes
INVARIANT CohContiguous
INVARIANT CohStartAdvance
INVARIANT RoundTripSupport
INVARIANT InverseChirp
INVARIANT ChirpZeroAtRef
INVARIANT DelayAntisym
INVARIANT DelayAdditive
INVARIANT DelayInverse
INVARIANT DelayMonotone
INVARIANT ChirpIsDelay
INVARIANT FixAgrees
INVARIANT InfiniteRef
CHECK_DEADLOCK FALSE
