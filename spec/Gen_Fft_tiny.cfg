SPECIFICATION Spec
CONSTANTS
  Shapes <- T_Shapes
  Full = FALSE
  Names <- AllNames
INVARIANT ShapeOK
INVARIANT RealOut
INVARIANT Emit
CHECK_DEADLOCK FALSE
