SPECIFICATION Spec
CONSTANTS
  Heaps <- G_ChainHeaps
  Ufuncs <- ChainUfuncs
  Methods <- AllMethods
  DKinds <- Q_DKinds
  OutRK <- C_OutRK
  AsDtypes <- Q_AsDtypes
  MaxDepth = 3
  FreeDepth = 0
  Canonical = FALSE
  Variant = "real"
  ArrayProto = "fixed"
INVARIANT EmitLeaf
CHECK_DEADLOCK FALSE
