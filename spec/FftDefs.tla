------------------------------ MODULE FftDefs ------------------------------
(***************************************************************************)
(* C20: properties of the fourteen definitions of FftFamily themselves.    *)
(* One step evaluates every definition (default arguments) on two probes   *)
(* into the state variable pt; the invariants then speak about pt.         *)
(*   NamesDistinct   any two names are told apart by some probe both       *)
(*                   accept (shape, or a value differing by > 1e-6): a     *)
(*                   mis-dispatch fft -> ifft, fft2 -> fftn ... cannot     *)
(*                   hide behind equal outputs                             *)
(*   InversePairs / RealInverse   i*fft* undoes *fft*, for every norm      *)
(***************************************************************************)
EXTENDS FftFamily
CONSTANT Cols      \* which probe columns to evaluate (1: real 3-D, 2: complex 3-D, 3: real 1-D)
VARIABLES pt, ok, phase
vars == <<tab, pt, ok, phase>>
RealOnly(name) == name \in {"rfft", "rfft2", "rfftn", "ihfft"}
ProbeR == Input(<<2, 3, 4>>, "real")
ProbeC == Input(<<3, 2, 4>>, "complex")
ProbeV == Input(<<4>>, "real")
Init == TabInit /\ pt = <<>> /\ ok = TRUE /\ phase = 0
Next == /\ phase = 0 /\ phase' = 1
        /\ pt' = [f \in AllNames |-> <<IF 1 \in Cols THEN Eval(DefaultCase(f, ProbeR)) ELSE ProbeV,
                                       IF 2 \in Cols THEN Eval(DefaultCase(f, ProbeC)) ELSE ProbeV,
                                       IF 3 \in Cols /\ f \notin Names2 THEN Eval(DefaultCase(f, ProbeV)) ELSE ProbeV>>]
        /\ ok' = (1 \in Cols => (InversePairs /\ RealInverse))
        /\ UNCHANGED tab
Spec == Init /\ [][Next]_vars

NamesDistinct ==
  phase = 1 => \A f \in AllNames : \A g \in AllNames \ {f} :
     \/ Differ(pt[f][1], pt[g][1])
     \/ (~RealOnly(f) /\ ~RealOnly(g) /\ Differ(pt[f][2], pt[g][2]))
InversesOK == ok
\* negative control: on a single real 1-D probe the names are NOT all distinguishable
\* (fft = fftn, rfft = rfftn ...); TLC must reject this
NamesDistinctOn1D ==
  phase = 1 => \A f \in AllNames \ Names2 : \A g \in (AllNames \ Names2) \ {f} : Differ(pt[f][3], pt[g][3])
C12 == {1, 2}
C3 == {3}
=============================================================================
