------------------------------ MODULE Gen_Delay ------------------------------
(***************************************************************************)
(* Numeric leaf of C03 / C04 / C12, evaluated by TLC on the kernel's fixed *)
(* point: for every length n, test column c and shift q (quarter samples / *)
(* quarter bins) the expected result column.                               *)
(*   Mode "time": time_shift -- Delay (DFT, ramp exp(-2 pi i k s/N) with   *)
(*     numpy's fftfreq sign convention, inverse DFT), complex and real     *)
(*     input (real part kept), zero on the declared edge region.           *)
(*   Mode "freq": freq_shift -- multiply sample n by exp(2 pi i q n/(4N)), *)
(*     DFT, zero the bins content wrapped into, inverse DFT.               *)
(* One JSON line per (n, c, q) into IOEnv.GEN_OUT.                         *)
(***************************************************************************)
EXTENDS ShiftOps, Json, IOUtils, CSV
CONSTANTS Mode, Lens, NCols, NReal    \* real-input expectation for columns c < NReal
VARIABLES phase, n, c, q
vars == <<phase, n, c, q>>

\* every shift value the Gen_TimeShift / Gen_FreqShift / Gen_Snippet configurations use
TQ(k) == {0, 1, -1, 2, -2, 3, -3, 4, -4, 6, -6, 4 * (k - 1), -4 * (k - 1), 4 * k, -4 * k,
          4 * (k + 1), -4 * (k + 1), 4 * k + 10, -(4 * k + 10)}
\* Mode "snip": only the residual shifts of snippet (C12)
QS(k) == IF Mode = "snip" THEN {-1, -2, -3} ELSE TQ(k)
Q_Lens == 1..6
F_Lens == 1..8

RECURSIVE SortedSeq(_)
SortedSeq(T) == IF T = {} THEN <<>> ELSE LET m == SetMin(T) IN <<m>> \o SortedSeq(T \ {m})
Zeros(k) == Mat([i \in 1..k |-> CZero])
Ints(x) == [i \in 1..Len(x) |-> <<ColRe(n, c, i - 1), ColIm(n, c, i - 1)>>]

TimeRec ==
  LET x == Col(n, c)
      Z == DeclZeroE(n, q)
      all == Cardinality(Z) = n
      yc == IF all THEN Zeros(n) ELSE IF q = 0 THEN x ELSE ZeroAt(Delay(x, q), Z)
      yr == IF c >= NReal THEN <<>> ELSE IF all THEN Zeros(n) ELSE IF q = 0 THEN RealPart(x) ELSE ZeroAt(DelayReal(x, q), Z)
  IN [mode |-> "time", N |-> n, c |-> c, q |-> q, x |-> Ints(x), zero |-> SortedSeq(Z),
      yc |-> yc, yr |-> Mat([i \in 1..Len(yr) |-> yr[i].re])]

\* the bin a whole non-zero shift may or may not clear (float product just beyond the integer)
FreeBin(k, qq) == IF qq = 0 \/ qq % 4 # 0 THEN {}
                  ELSE IF qq > 0 THEN {j \in 0..(k - 1) : j = qq \div 4}
                  ELSE {j \in 0..(k - 1) : j = k + qq \div 4 - 1}
FreqRec ==
  LET x == Col(n, c)
      Z == DeclZeroE(n, q)                 \* positions of the fftshift'ed spectrum
      all == Cardinality(Z) = n
      X == IF all THEN Zeros(n) ELSE ZeroBins(FDftM(Mix(x, q)), Z)
      y == IF all THEN Zeros(n) ELSE IF q = 0 THEN x ELSE IDftM(X)
  IN [mode |-> "freq", N |-> n, c |-> c, q |-> q, x |-> Ints(x),
      zero |-> SortedSeq({NatIdx(j, n) : j \in Z}),
      free |-> SortedSeq({NatIdx(j, n) : j \in FreeBin(n, q)}),
      spec |-> X, y |-> y]

Emit == phase = "q" => CSVWrite("%1$s", <<ToJson(IF Mode = "freq" THEN FreqRec ELSE TimeRec)>>, IOEnv.GEN_OUT)

Init == phase = "start" /\ n = 0 /\ c = 0 /\ q = 0
Next == \/ /\ phase = "start" /\ phase' = "col" /\ n' \in Lens /\ c' \in 0..(NCols - 1) /\ q' = 0
        \/ /\ phase = "col" /\ phase' = "q" /\ q' \in QS(n) /\ UNCHANGED <<n, c>>
Spec == Init /\ [][Next]_vars
=============================================================================
