SPECIFICATION Spec
CONSTANTS
  Cols <- C12
INVARIANT NamesDistinct
INVARIANT InversesOK
CHECK_DEADLOCK FALSE
