SPECIFICATION Spec
CONSTANTS
  Lens <- G_Lens
  Forms <- AllForms
  IntMode = "trunc"
INVARIANT Emit
CHECK_DEADLOCK FALSE
