SPECIFICATION Spec
CONSTANTS
  Digs <- Q_Digs
  MaxDig <- Q_MaxDig
  ExpLetters <- Q_ExpLetters
  ExpDigs <- Q_ExpDigs
  Counts <- Q_Counts
  Den <- Q_Den
  Precs <- Q_Precs
  PVariant = "fixed"
  FVariant = "pinned"
INVARIANT Rendered
CHECK_DEADLOCK FALSE
