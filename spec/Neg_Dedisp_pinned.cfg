SPECIFICATION Spec
CONSTANTS
  Lens <- Q_Lens
  NChans <- Q_NChans
  IDelays <- Q_IDelays
  QDelays <- Q_QDelays
  AKdm <- Q_AKdm
  AFreqs <- Q_AFreqs
  ASteps <- Q_ASteps
  Kinds <- AllKinds
  Variant = "code"
  Fixed = FALSE
VIEW View
INVARIANT CropIsValidTimes
CHECK_DEADLOCK FALSE
