SPECIFICATION Spec
CONSTANTS
  Roots <- S_Roots
  Ops <- S_Ops
  Scheds = {"any"}
  MaxDepth = 1
  MaxRuns = 1
  MaxTasks = 9
  FftNeedsOneChunk = TRUE
  ChirpKeyByChannel = TRUE
  EagerOps <- None_
  NumpyOps <- None_
  ReaderPerBlock = FALSE
  OverwriteTags <- None_
  StickyKwargs = FALSE
  LazySetitemLost = FALSE
  RollShortcut = FALSE
  SharedHandle = FALSE
INVARIANT EmitSched
CHECK_DEADLOCK FALSE
