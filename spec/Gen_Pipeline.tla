---------------------------- MODULE Gen_Pipeline ----------------------------
(* Behaviour generation: every explored state is written as one JSON line   *)
(* (root, operation history, expected current signal) to IOEnv.GEN_OUT.     *)
EXTENDS MC_Pipeline, Json, IOUtils, CSV
Emit == CSVWrite("%1$s", <<ToJson([root |-> root, hist |-> hist, cur |-> cur, st |-> st])>>,
                 IOEnv.GEN_OUT)
\* only complete behaviours (simulation mode): a leaf is a refusal or full depth
EmitLeaf == (st = "err" \/ Len(hist) = MaxDepth) => Emit
=============================================================================
