SPECIFICATION Spec
CONSTANTS
  RootLens <- F_RootLens
  Classes <- AllClasses
  NChans <- F_NChans
  Aligns <- AllAligns
  MaxPieces = 4
  Perturbs <- AllPerturbs
INVARIANT SplitConcatIdentity
INVARIANT RejectsBad
INVARIANT LoopIsConsistency
INVARIANT Associative
CHECK_DEADLOCK FALSE
