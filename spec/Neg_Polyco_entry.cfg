SPECIFICATION Spec
CONSTANTS
  L = 8
  TolU = 2
  TmidMax = 12
  MaxN = 3
  UseTol = TRUE
  Side = "left"
  InvCheck = "entry"
INVARIANT MergeLoopIsDeclared
INVARIANT LoopOperatorAgrees
INVARIANT SelectIsContaining
INVARIANT OutsideRaises
INVARIANT GapNoCrash
INVARIANT InverseRange
CHECK_DEADLOCK FALSE
