------------------------------- MODULE Phase -------------------------------
(***************************************************************************)
(* Specification of pulsarbat's two-part Phase (properties C07, C15).      *)
(*                                                                         *)
(* A phase denotes an EXACT rational number of cycles, optionally times    *)
(* the imaginary unit:  x = [v |-> Rat, im |-> BOOLEAN].  The same shape   *)
(* is used for the dimensionless factors it may be multiplied / divided    *)
(* by.  The two float64 parts the implementation stores ("int", "frac")    *)
(* appear only in Normalised / Represents: int integral, |frac| <= 1/2,    *)
(* int + frac = value to within 2^-52 cycle for |value| <= 2^52.           *)
(*                                                                         *)
(* Pure operators only (no variables): used by the lattice state machine   *)
(* PhaseMachine.tla (model checking) and by Trace_Phase.tla (validation of *)
(* events recorded from the real class).                                   *)
(***************************************************************************)
EXTENDS Rat

PV(v, im) == [v |-> v, im |-> im]
IsZeroPV(x) == RSign(x.v) = 0

(* complex embedding <<re, im>>, used to state the rules for i *)
Cx(x) == IF x.im THEN <<RZero, x.v>> ELSE <<x.v, RZero>>
CxMul(a, b) == <<RSub(RMul(a[1], b[1]), RMul(a[2], b[2])),
                 RAdd(RMul(a[1], b[2]), RMul(a[2], b[1]))>>
CxEq(a, b) == REq(a[1], b[1]) /\ REq(a[2], b[2])
CxNeg(a) == <<RNeg(a[1]), RNeg(a[2])>>
CxI == <<RZero, ROne>>

(* results: ok = FALSE means "no Phase is defined" (the implementation may *)
(* refuse or fall back to a plain Quantity; nothing is demanded then).     *)
Ok(v, im) == [ok |-> TRUE, v |-> v, im |-> im]
Undefined == [ok |-> FALSE, v |-> RZero, im |-> FALSE]

(***************************************************************************)
(* Construction and arithmetic                                             *)
(***************************************************************************)
PNew1(x) == Ok(x.v, x.im)
PNew2(x, y) == IF x.im = y.im THEN Ok(RAdd(x.v, y.v), x.im) ELSE Undefined
PAdd(a, b) == IF a.im = b.im THEN Ok(RAdd(a.v, b.v), a.im) ELSE Undefined
PSub(a, b) == IF a.im = b.im THEN Ok(RSub(a.v, b.v), a.im) ELSE Undefined
PPos(a) == Ok(a.v, a.im)
PNeg(a) == Ok(RNeg(a.v), a.im)
(* |x|: the absolute value of a real or purely imaginary phase is the real *)
(* number of cycles |x|  (|i x| = |x|)                                     *)
PAbs(a) == Ok(RAbs(a.v), FALSE)
(* multiplication by a dimensionless factor f (real or purely imaginary):  *)
(* magnitudes multiply, flags combine by XOR, and i*i = -1                 *)
PMul(a, f) == Ok(IF a.im /\ f.im THEN RNeg(RMul(a.v, f.v)) ELSE RMul(a.v, f.v),
                 a.im # f.im)
(* division by a dimensionless divisor d # 0:  x / (i d) = -i x / d,       *)
(* (i x) / (i d) = x / d                                                   *)
PDiv(a, d) ==
  IF IsZeroPV(d) THEN Undefined
  ELSE LET q == RDiv(a.v, d.v)
       IN Ok(IF d.im /\ ~a.im THEN RNeg(q) ELSE q, a.im # d.im)
(* floor division / remainder of real phases (Python semantics: the        *)
(* remainder has the sign of the divisor)                                  *)
DivDefined(a, d) == ~a.im /\ ~d.im /\ ~IsZeroPV(d)
PQuot(a, d) == RFloor(RDiv(a.v, d.v))                         \* BigInt
PRem(a, d) == Ok(RSub(a.v, RMul(RInt(PQuot(a, d)), d.v)), FALSE)
(* comparison of two phases with equal flags: -1, 0, 1 *)
Comparable(a, b) == a.im = b.im
PCmp(a, b) == RCmp(a.v, b.v)
CmpHolds(op, c) ==
  CASE op = "lt" -> c < 0 [] op = "le" -> c <= 0 [] op = "eq" -> c = 0
    [] op = "ne" -> c # 0 [] op = "ge" -> c >= 0 [] op = "gt" -> c > 0

Apply2(op, a, b) ==
  CASE op = "add" -> PAdd(a, b) [] op = "sub" -> PSub(a, b)
    [] op = "mul" -> PMul(a, b) [] op = "div" -> PDiv(a, b)
    [] op = "mod" -> IF DivDefined(a, b) THEN PRem(a, b) ELSE Undefined
    [] op = "new2" -> PNew2(a, b)
    [] OTHER -> Undefined
Apply1(op, a) ==
  CASE op = "neg" -> PNeg(a) [] op = "abs" -> PAbs(a) [] op = "pos" -> PPos(a)
    [] op = "new1" -> PNew1(a) [] OTHER -> Undefined

(***************************************************************************)
(* The two-double representation                                           *)
(***************************************************************************)
Tol52 == RPow2(-52)
Cap52 == RAdd(RPow2(52), RHalf)
InScope(v) == RLe(RAbs(v), Cap52)                  \* counts up to 2^52 (and a fraction up to 1/2)
Normalised(i, f) == RIsInt(i) /\ RLe(RAbs(f), RHalf)
Represents(i, f, v) == RClose(RAdd(i, f), v, Tol52)
(* the canonical normal form (round half to even); on an exact tie the     *)
(* other neighbour is equally admissible, see IsNormalFormOf               *)
NormInt(v) == RRound(v)                                           \* BigInt
NormFrac(v) == RSub(v, RInt(NormInt(v)))
IsNormalFormOf(i, f, v) == Normalised(i, f) /\ REq(RAdd(i, f), v)

(***************************************************************************)
(* Dispatch: which operand kinds must yield a Phase.                       *)
(* other = kind of the operand that is not the Phase ("phase" if both      *)
(* are); ord = "po" for  phase OP other,  "op" for  other OP phase.        *)
(***************************************************************************)
PlainKinds == {"pyint", "pyfloat", "npint", "npfloat", "npfloat32", "arr0", "arrn", "arrint"}
ComplexKinds == {"pycomplex", "npcomplex", "arrcomplex"}
DimlessKinds == {"dimless", "dimlessarr", "dimscaled", "dimscaledarr"}    \* dimscaled: scaled unit (percent, km/m): the number value*scale
CycleKinds == {"cycleq", "cycleqarr", "angle", "phase", "phasearr"}
AllKinds == PlainKinds \cup ComplexKinds \cup DimlessKinds \cup CycleKinds

MustBePhase(op, other, ord) ==
  CASE op \in {"new1", "new2"} -> other \in PlainKinds \cup ComplexKinds \cup CycleKinds
    [] op \in {"neg", "abs", "pos"} -> TRUE
    [] op \in {"add", "sub"} -> other \in PlainKinds \cup ComplexKinds \cup CycleKinds
    [] op = "mul" -> other \in PlainKinds \cup ComplexKinds \cup DimlessKinds
    [] op = "div" -> ord = "po" /\ other \in PlainKinds \cup ComplexKinds \cup DimlessKinds
    [] op \in {"mod", "divmod"} -> ord = "po" /\ other \in CycleKinds
    [] OTHER -> FALSE
(* floor_divide yields a dimensionless integer-valued number, never a Phase *)
QuotientDefined(op, other, ord) ==
  op \in {"floordiv", "divmod"} /\ ord = "po" /\ other \in CycleKinds
=============================================================================
