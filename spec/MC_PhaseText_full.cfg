SPECIFICATION Spec
CONSTANTS
  Digs <- F_Digs
  MaxDig <- F_MaxDig
  ExpLetters <- F_ExpLetters
  ExpDigs <- F_ExpDigs
  Counts <- F_Counts
  Den <- F_Den
  Precs <- F_Precs
  PVariant = "fixed"
  FVariant = "fixed"
INVARIANT ParseAgrees
INVARIANT GrammarSane
INVARIANT Rendered
INVARIANT RoundTrip
CHECK_DEADLOCK FALSE
