----------------------------- MODULE Gen_Reader -----------------------------
(* Schedule generation (C11): every complete behaviour of the concurrent     *)
(* readers is written as one JSON line - file set, the (o, n) of each        *)
(* process, the schedule (sequence of <<process, step>>) and the result each *)
(* read must have.  No VIEW: the schedule is part of the state, so every     *)
(* interleaving is a distinct terminal state.                                *)
EXTENDS MC_Reader, Json, IOUtils, CSV

\* file sets as the harness writes them (harness/reader_lib.py WRITTEN),
\* in units of `scale` real samples per model sample
G_Configs ==
  { Cfg("plain", FALSE, FALSE, 2, 8, 1, 1, 2),        \* vdifc   VDIF complex, 8 frames
    Cfg("plain", FALSE, TRUE, 2, 8, 1, 1, 2),         \* vdifc, lower_sideband=True
    Cfg("plain", TRUE, FALSE, 2, 8, 1, 1, 2),         \* vdifr   VDIF real
    Cfg("plain", TRUE, TRUE, 2, 8, 1, 1, 2),          \* vdifr, lower_sideband=True
    Cfg("plain", TRUE, FALSE, 15, 1, 5, 1, 4),        \* realodd real DADA, 75 raw samples (odd), scale 1
    Cfg("plain", FALSE, FALSE, 2, 1, 4, 2, 1),        \* dada    4 files of one frame
    Cfg("guppi", FALSE, FALSE, 2, 2, 3, 2, 4),        \* guppi   3 files x 2 frames
    Cfg("guppi", FALSE, TRUE, 2, 2, 3, 2, 4),         \* guppil  OBSBW < 0
    Cfg("stokes", FALSE, FALSE, 2, 1, 4, 4, 4),       \* stokesu BW > 0
    Cfg("stokes", FALSE, TRUE, 2, 1, 4, 4, 4) }       \* stokesl BW < 0
G2_Args == {<<0, 2>>, <<1, 3>>, <<2, 2>>}
G3_Configs == { Cfg("guppi", FALSE, TRUE, 2, 2, 3, 2, 4), Cfg("plain", TRUE, FALSE, 2, 8, 1, 1, 2) }
G3_Args == {<<1, 2>>, <<2, 3>>, <<3, 3>>}
G3_ArgOf == <<<<1, 2>>, <<2, 3>>, <<3, 3>>>>
\* three readers: one fixed argument triple (the schedules are what is enumerated)
G3_Fixed == \A p \in Procs : pc[p] # "idle" => arg[p] = G3_ArgOf[p]

ElemRec(e) == <<ElemRawId(e), e.a, e.b, IF e.cj THEN 1 ELSE 0>>
ResRec(r) == [st |-> r.st, t |-> r.t, len |-> r.len,
              data |-> [m \in 1..Len(r.data) |-> [x \in 1..Len(r.data[m]) |->
                         [y \in 1..Len(r.data[m][x]) |-> ElemRec(r.data[m][x][y])]]]]
\* the steps of one process come in the order open, seek, read, close, so the
\* sequence of process numbers determines the schedule
Emit == CSVWrite("%1$s", <<ToJson([F |-> F, args |-> arg,
                                    sched |-> [i \in 1..Len(hist) |-> hist[i][1]],
                                    res |-> [p \in Procs |-> ResRec(res[p])]])>>, IOEnv.GEN_OUT)
EmitTerminal == Terminal => Emit
\* deterministic sample of the three-reader schedules (quick tier): of the
\* schedule prefixes of length 5 and of length 9 only those whose weighted
\* sum is 0 modulo 6 (shifted by the seed) are continued: about 1/36 of the
\* 34650 interleavings, a different subset for every seed.
GenSeed == IF "GEN_SEED" \in DOMAIN IOEnv THEN atoi(IOEnv.GEN_SEED) ELSE 0
RECURSIVE WSum(_, _)
WSum(h, i) == IF i = 0 THEN 0 ELSE i * h[i][1] + WSum(h, i - 1)
G3_Sample == Len(hist) \in {5, 9} => (WSum(hist, Len(hist)) + GenSeed) % 6 = 0
=============================================================================
