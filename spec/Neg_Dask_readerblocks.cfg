SPECIFICATION Spec
CONSTANTS
  Roots <- N_ReaderRoots
  Ops <- N_NoOps
  Scheds = {"sync"}
  MaxDepth = 1
  MaxRuns = 1
  MaxTasks = 12
  FftNeedsOneChunk = TRUE
  ChirpKeyByChannel = TRUE
  EagerOps <- None_
  NumpyOps <- None_
  ReaderPerBlock = TRUE
  OverwriteTags <- None_
  StickyKwargs = FALSE
  LazySetitemLost = FALSE
  RollShortcut = FALSE
  SharedHandle = FALSE
VIEW View
INVARIANT SameAsNumpy
CHECK_DEADLOCK FALSE
