SPECIFICATION Spec
CONSTANTS
  L = 8
  TolU = 2
  TmidMax = 12
  MaxN = 3
  UseTol = FALSE
  Side = "left"
  InvCheck = "merged"
INVARIANT MergeLoopIsDeclared
INVARIANT LoopOperatorAgrees
INVARIANT SelectIsContaining
INVARIANT OutsideRaises
INVARIANT GapNoCrash
INVARIANT InverseRange
CHECK_DEADLOCK FALSE
