SPECIFICATION Spec
CONSTANTS
  Roots <- N_Roots
  Ops <- N_KwOps
  Scheds = {"sync"}
  MaxDepth = 2
  MaxRuns = 1
  MaxTasks = 12
  FftNeedsOneChunk = TRUE
  ChirpKeyByChannel = TRUE
  EagerOps <- None_
  NumpyOps <- None_
  ReaderPerBlock = FALSE
  OverwriteTags <- None_
  StickyKwargs = TRUE
  LazySetitemLost = FALSE
  RollShortcut = FALSE
  SharedHandle = FALSE
VIEW View
INVARIANT SameAsNumpy
CHECK_DEADLOCK FALSE
