----------------------------- MODULE Trace_Demo -----------------------------
(* Smallest complete trace-validation spec: events "radd" carry two exact   *)
(* rationals and the claimed sum; used by the framework self-test.          *)
EXTENDS TraceBase, Rat
VARIABLES l, nbad
Failed(e) ==
  IF e.ev = "radd"
  THEN (IF REq(RAdd(R(e.a.p, e.a.q), R(e.b.p, e.b.q)), R(e.c.p, e.c.q)) THEN {} ELSE {"sum"})
  ELSE {"unknown-event"}
TraceInit == l = 1 /\ nbad = 0
TraceNext ==
  \/ /\ l <= NEvents
     /\ LET e == Trace[l]  f == Failed(e)
        IN /\ Report(l, e, f)
           /\ nbad' = nbad + (IF f = {} THEN 0 ELSE 1)
     /\ l' = l + 1
  \/ /\ l = NEvents + 1
     /\ Summary(NEvents, nbad)
     /\ l' = l + 1
     /\ UNCHANGED nbad
TraceSpec == TraceInit /\ [][TraceNext]_<<l, nbad>>
AllConsumed == TLCGet("stats").diameter >= NEvents + 1
=============================================================================
