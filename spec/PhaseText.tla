----------------------------- MODULE PhaseText -----------------------------
(***************************************************************************)
(* C15, decimal text of phases.  Strings are sequences of byte values.     *)
(*                                                                         *)
(*   Decimal(s)      the specification's own parser of the plain decimal   *)
(*                   grammar  [sign] digits [. digits] [(e|E|d|D) [sign]   *)
(*                   digits] [j]  (at least one mantissa digit) into an    *)
(*                   exact rational and a real/imaginary flag;             *)
(*   RoundedTo       "the exact value rounded to the digits shown";        *)
(*   RenderSpec      a canonical rendering (used for the round trip law);  *)
(*   ParseModel      operational transcriptions of _parse_string +         *)
(*                   check_imaginary + from_string ("pinned" = the tree as *)
(*                   found, "fixed" = the proposed repair);                *)
(*   FormatModel     operational transcription of to_string.do_format      *)
(*                   ("pinned" / "fixed") on exactly representable values. *)
(* Pure operators; the model-checking wrapper is MC_PhaseText.tla, events  *)
(* of the real code are judged in Trace_Phase.tla.                         *)
(***************************************************************************)
EXTENDS Rat

CH_PLUS == 43   CH_MINUS == 45   CH_DOT == 46   CH_0 == 48   CH_J == 106
CH_SPACE == 32
IsDigit(c) == c >= 48 /\ c <= 57
IsExpCh(c) == c \in {101, 69, 100, 68}                \* e E d D
IsJ(c) == c \in {106, 74}

\* end (exclusive) of the digit run starting at i, not beyond position m
RECURSIVE DigitsEnd(_, _, _)
DigitsEnd(s, i, m) == IF i <= m /\ IsDigit(s[i]) THEN DigitsEnd(s, i + 1, m) ELSE i
\* value of the digits s[i..j-1] appended to acc (BigInt)
RECURSIVE DigVal(_, _, _, _)
DigVal(s, i, j, acc) ==
  IF i >= j THEN acc ELSE DigVal(s, i + 1, j, Add(MulInt(acc, 10), FromInt(s[i] - 48)))
\* small native value of a short digit run (exponents)
RECURSIVE DigInt(_, _, _, _)
DigInt(s, i, j, acc) == IF i >= j THEN acc ELSE DigInt(s, i + 1, j, 10 * acc + (s[i] - 48))

Bad == [ok |-> FALSE, v |-> RZero, im |-> FALSE, nfrac |-> 0, nint |-> 0, neg |-> FALSE, hasE |-> FALSE]

(* parse s[1..m]; allowJ: a trailing j is part of the grammar *)
DecimalCore(s, allowJ) ==
  LET n    == Len(s)
      hasJ == allowJ /\ n > 0 /\ IsJ(s[n])
      m    == IF hasJ THEN n - 1 ELSE n
      sgn  == m >= 1 /\ s[1] \in {CH_PLUS, CH_MINUS}
      neg  == m >= 1 /\ s[1] = CH_MINUS
      p1   == IF sgn THEN 2 ELSE 1
      p2   == DigitsEnd(s, p1, m)                       \* integer digits [p1, p2)
      dot  == p2 <= m /\ s[p2] = CH_DOT
      p3   == IF dot THEN p2 + 1 ELSE p2
      p4   == IF dot THEN DigitsEnd(s, p3, m) ELSE p3   \* fraction digits [p3, p4)
      hasE == p4 <= m /\ IsExpCh(s[p4])
      p5   == IF hasE THEN p4 + 1 ELSE p4
      esg  == hasE /\ p5 <= m /\ s[p5] \in {CH_PLUS, CH_MINUS}
      eneg == esg /\ s[p5] = CH_MINUS
      p6   == IF esg THEN p5 + 1 ELSE p5
      p7   == IF hasE THEN DigitsEnd(s, p6, m) ELSE p6  \* exponent digits [p6, p7)
      good == /\ (p2 - p1) + (p4 - p3) >= 1
              /\ (hasE => (p7 > p6 /\ p7 - p6 <= 4))
              /\ p7 = m + 1
  IN IF ~good THEN Bad
     ELSE LET mant == DigVal(s, p3, p4, DigVal(s, p1, p2, Zero))
              ex   == (IF hasE THEN (IF eneg THEN -1 ELSE 1) * DigInt(s, p6, p7, 0) ELSE 0)
                      - (p4 - p3)
              mag  == RMul(RInt(mant), RPow10(ex))
          IN [ok |-> TRUE, v |-> IF neg THEN RNeg(mag) ELSE mag, im |-> hasJ,
              nfrac |-> p4 - p3, nint |-> p2 - p1, neg |-> neg, hasE |-> hasE]
Decimal(s) == DecimalCore(s, TRUE)

(***************************************************************************)
(* Rendering                                                               *)
(***************************************************************************)
EndsWith(s, t) == Len(s) >= Len(t) /\ SubSeq(s, Len(s) - Len(t) + 1, Len(s)) = t
UNIT_SUFFIX == <<32, 99, 121, 99, 108, 101>>                     \* " cycle"
StripUnit(s) == IF EndsWith(s, UNIT_SUFFIX) THEN SubSeq(s, 1, Len(s) - 6) ELSE s
RECURSIVE StripLeft(_)
StripLeft(s) == IF s # <<>> /\ s[1] = CH_SPACE THEN StripLeft(Tail(s)) ELSE s

(* s shows a plain decimal number with exactly d decimals that is the      *)
(* exact value v rounded to d decimals (either neighbour on an exact tie), *)
(* with a trailing j exactly for imaginary values                          *)
RoundedTo(s, v, im, d) ==
  LET r == Decimal(s)
  IN /\ r.ok /\ ~r.hasE /\ r.nfrac = d /\ r.nint >= 1
     /\ r.im = im
     /\ RLe(RMul(RAbs(RSub(r.v, v)), RInt(MulInt(Pow10(d), 2))), ROne)
     /\ (r.neg => RSign(v) < 0)                    \* "-0.00" is fine for a small negative value
(* default rendering: plain decimal within tol of the value *)
ClosePlain(s, v, im, tol) ==
  LET r == Decimal(s)
  IN r.ok /\ ~r.hasE /\ r.im = im /\ RClose(r.v, v, tol)
Tol1e16 == RPow10(-16)

\* decimal digits of a natural number (limbs), most significant first
RECURSIVE NDigitsR(_, _)
NDigitsR(a, acc) == IF a = <<>> THEN acc
                    ELSE LET x == NDivSmall(a, 10) IN NDigitsR(x[1], <<48 + x[2]>> \o acc)
NDigits(a) == IF a = <<>> THEN <<48>> ELSE NDigitsR(a, <<>>)
PadLeft(s, d) == IF Len(s) >= d THEN s ELSE [i \in 1..(d - Len(s)) |-> 48] \o s
(* canonical rendering of v with d decimals, half-even *)
RenderSpec(v, im, d) ==
  LET n    == RRound(RMul(RAbs(v), RInt(Pow10(d))))            \* BigInt >= 0
      digs == PadLeft(NDigits(n.m), d + 1)
      k    == Len(digs) - d
      body == IF d = 0 THEN digs ELSE SubSeq(digs, 1, k) \o <<CH_DOT>> \o SubSeq(digs, k + 1, Len(digs))
  IN (IF RSign(v) < 0 /\ ~IsZero(n) THEN <<CH_MINUS>> ELSE <<>>) \o body
     \o (IF im THEN <<CH_J>> ELSE <<>>)

(***************************************************************************)
(* Python string helpers used by the transcriptions                        *)
(***************************************************************************)
RECURSIVE FindFrom(_, _, _)
FindFrom(s, c, i) == IF i > Len(s) THEN 0 ELSE IF s[i] = c THEN i ELSE FindFrom(s, c, i + 1)
RECURSIVE RFindFrom(_, _, _)
RFindFrom(s, c, i) == IF i < 1 THEN 0 ELSE IF s[i] = c THEN i ELSE RFindFrom(s, c, i - 1)
\* str.partition / str.rpartition: <<head, found?, tail>>
Partition(s, c) == LET i == FindFrom(s, c, 1)
                   IN IF i = 0 THEN <<s, FALSE, <<>>>>
                      ELSE <<SubSeq(s, 1, i - 1), TRUE, SubSeq(s, i + 1, Len(s))>>
RPartition(s, c) == LET i == RFindFrom(s, c, Len(s))
                    IN IF i = 0 THEN <<<<>>, FALSE, s>>
                       ELSE <<SubSeq(s, 1, i - 1), TRUE, SubSeq(s, i + 1, Len(s))>>
LowerD(s) == [i \in 1..Len(s) |->
                IF s[i] \in {68, 100, 69} THEN 101 ELSE IF s[i] = 74 THEN 106 ELSE s[i]]
\* s[-n:] and s[:-n] with Python's meaning for n = 0
LastN(s, n) == IF n = 0 THEN s ELSE SubSeq(s, Len(s) - n + 1, Len(s))
DropLastN(s, n) == IF n = 0 THEN <<>> ELSE SubSeq(s, 1, Len(s) - n)
\* float(s) / int(s) of an unsigned-or-signed literal without j
PyFloat(s) == DecimalCore(s, FALSE)
MinI2(a, b) == IF a <= b THEN a ELSE b

(***************************************************************************)
(* Phase.from_string = _parse_string + vectorize(complex) + Phase(count,   *)
(* frac) -> check_imaginary.  Result: [exc, v, im].                        *)
(***************************************************************************)
Res(v, im) == [exc |-> "none", v |-> v, im |-> im]
Raise(e) == [exc |-> e, v |-> RZero, im |-> FALSE]

ParseModel(s0, variant) ==
  LET s1  == LowerD(s0)
  IN IF s1 = <<>> THEN Raise("IndexError") ELSE
  LET isj == s1[Len(s1)] = CH_J
      s2  == IF isj THEN SubSeq(s1, 1, Len(s1) - 1) ELSE s1
  IN IF s2 = <<>> THEN Raise("IndexError") ELSE
  LET neg == s2[1] = CH_MINUS
      s3  == IF s2[1] \in {CH_PLUS, CH_MINUS} THEN Tail(s2) ELSE s2
      test == PyFloat(s3)
  IN IF ~test.ok THEN Raise("ValueError") ELSE
  LET pe     == Partition(s3, 101)
      sfloat == pe[1]
      sexp   == pe[3]
      pd     == IF variant = "pinned" THEN RPartition(sfloat, CH_DOT)
                ELSE Partition(sfloat, CH_DOT)
      ex0    == IF pe[2] THEN PyFloat(sexp) ELSE Bad       \* int(s_exp)
      e0     == IF pe[2] THEN ToInt(RFloor(ex0.v)) ELSE 0
      nneg   == MinI2(Len(pd[1]), 0 - e0)
      npos   == MinI2(Len(pd[3]), e0)
      scount == IF e0 < 0 THEN DropLastN(pd[1], nneg)
                ELSE IF e0 > 0 THEN pd[1] \o SubSeq(pd[3], 1, npos) ELSE pd[1]
      sfrac  == IF e0 < 0 THEN LastN(pd[1], nneg) \o pd[3]
                ELSE IF e0 > 0 THEN SubSeq(pd[3], npos + 1, Len(pd[3])) ELSE pd[3]
      e1     == IF e0 < 0 THEN e0 + nneg ELSE IF e0 > 0 THEN e0 - npos ELSE 0
      factor == RMul(IF neg THEN RI(-1) ELSE ROne, RPow10(e1))
      fracv  == RMul(PyFloat(<<CH_0, CH_DOT>> \o sfrac).v, factor)
      countv == RMul(PyFloat(<<CH_0>> \o scount).v, factor)
      testv  == IF neg THEN RNeg(test.v) ELSE test.v
  IN IF ~REq(RAdd(countv, fracv), testv) THEN Raise("AssertionError")
     ELSE IF variant = "pinned"
     THEN \* both parts become complex; check_imaginary tests real == 0 first
          LET imc == isj \/ RSign(countv) = 0
              imf == isj \/ RSign(fracv) = 0
          IN IF imc # imf THEN Raise("ValueError")
             ELSE Res(IF isj \/ ~imc THEN RAdd(countv, fracv) ELSE RZero, imc)
     ELSE \* fixed: the flag is returned explicitly by _parse_string
          Res(RAdd(countv, fracv), isj)

(* what C15 demands of from_string on a grammatical string *)
ParseOK(s, res) ==
  LET d == Decimal(s)
  IN d.ok => /\ res.exc = "none"
             /\ REq(res.v, d.v)
             /\ (~d.im => ~res.im)                       \* a real string is never imaginary
             /\ (d.im /\ RSign(d.v) # 0 => res.im)

(***************************************************************************)
(* Phase.to_string.do_format on a value count + frac (count integral,      *)
(* |frac| <= 1/2, both exactly representable, so that Python's float       *)
(* formatting is exact decimal rounding).  precision = -1 means None.      *)
(***************************************************************************)
\* "{:1.<d>f}".format(x) for an exact rational 0 <= x
FmtF(x, d) == RenderSpec(x, FALSE, d)
\* str(x) for an exactly representable 0 <= x < 2 with few digits: shortest
\* exact expansion, at least one decimal
RECURSIVE ShortestD(_, _)
ShortestD(x, d) == IF RIsInt(RMul(x, RInt(Pow10(d)))) \/ d >= 12 THEN d ELSE ShortestD(x, d + 1)
PyStr(x) == FmtF(x, ShortestD(x, 1))
Func(x, prec) == IF prec < 0 THEN PyStr(x) ELSE FmtF(x, prec)
\* int(text) of a (possibly empty / signed) digit string; ok = FALSE -> ValueError
Two(n) == IF n < 0 THEN <<CH_MINUS>> \o NDigits(NFromInt(0 - n))     \* "{:02d}": the sign counts
          ELSE PadLeft(NDigits(NFromInt(n)), 2)
SliceFrom(s, i) == IF i > Len(s) THEN <<>> ELSE SubSeq(s, i, Len(s))     \* s[i-1:], i 1-based
Slice(s, i, j) == IF i > Len(s) THEN <<>> ELSE SubSeq(s, i, MinI2(j, Len(s)))

FRes(s) == [exc |-> "none", s |-> s]
FRaise(e) == [exc |-> e, s |-> <<>>]

FormatModel(count0, frac0, im, prec, variant) ==
  IF variant = "fixed" /\ prec >= 0
  THEN FRes(RenderSpec(RAdd(count0, frac0), im, prec))
  ELSE
  LET negv  == RSign(RAdd(count0, frac0)) < 0
      c1    == IF negv THEN RNeg(count0) ELSE count0
      f1    == IF negv THEN RNeg(frac0) ELSE frac0
      c2    == IF RSign(f1) < 0 THEN RSub(c1, ROne) ELSE c1
      f2    == IF RSign(f1) < 0 THEN RAdd(f1, ROne) ELSE f1
      sign  == IF negv THEN <<CH_MINUS>> ELSE <<>>
      tail  == IF im THEN <<CH_J>> ELSE <<>>
      CountStr(c) == NDigits(RFloor(c).m)
  IN IF RLt(f2, RQ(1, 4))
     THEN LET fs  == Func(RAdd(f2, RQ(1, 4)), prec)
              t24 == Slice(fs, 3, 4)                                   \* frac_str[2:4]
          IN IF t24 = <<>> THEN FRaise("ValueError")                   \* int('')
             ELSE LET f24 == DigInt(t24, 1, Len(t24) + 1, 0)
                      mid == IF prec < 0 /\ Len(fs) = 3 THEN Two(f24 * 10 - 25)
                             ELSE IF prec < 0 /\ Len(fs) = 4 /\ fs[4] = 53
                             THEN NDigits(NFromInt(((f24 - 5) \div 10) - 2))
                             ELSE Two(f24 - 25)
                  IN FRes(sign \o CountStr(c2) \o SliceFrom(SubSeq(fs, 1, 2) \o mid \o SliceFrom(fs, 5), 2) \o tail)
     ELSE LET fs == Func(f2, prec)
              c3 == IF fs[1] = 49 THEN RAdd(c2, ROne) ELSE c2
          IN FRes(sign \o CountStr(c3) \o SliceFrom(fs, 2) \o tail)

(* what C15 demands of to_string *)
FormatOK(v, im, prec, res) ==
  /\ res.exc = "none"
  /\ IF prec >= 0 THEN RoundedTo(res.s, v, im, prec) ELSE ClosePlain(res.s, v, im, Tol1e16)
=============================================================================
