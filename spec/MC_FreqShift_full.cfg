SPECIFICATION Spec
CONSTANTS
  Ns <- F_Ns
  SShapes <- AllShapes
  Vals <- F_Vals
  Fixed = TRUE
INVARIANT ZeroBinsExact
INVARIANT BoundaryOnly
INVARIANT WholeBinIsCircularMove
INVARIANT BeyondBandIsZero
INVARIANT MetaUnchanged
CHECK_DEADLOCK FALSE
