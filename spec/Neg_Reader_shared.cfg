SPECIFICATION Spec
CONSTANTS
  Configs <- N_Configs
  Procs <- Q_Procs
  Args <- N_Args
  MaxReads = 1
  Shared = TRUE
VIEW View
INVARIANT ReadIsFunctionOfArgs
CHECK_DEADLOCK FALSE
