SPECIFICATION Spec
CONSTANTS
  Roots <- G2Q_Roots
  Ops <- R_Ops
  Scheds = {"sync"}
  MaxDepth = 2
  MaxRuns = 2
  MaxTasks = 12
  FftNeedsOneChunk = TRUE
  ChirpKeyByChannel = TRUE
  EagerOps <- None_
  NumpyOps <- None_
  ReaderPerBlock = FALSE
  OverwriteTags <- None_
INVARIANT EmitLeaf
CHECK_DEADLOCK FALSE
