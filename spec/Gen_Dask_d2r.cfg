SPECIFICATION Spec
CONSTANTS
  Roots <- GR_Roots
  Ops <- GR_Ops
  Scheds = {"sync"}
  MaxDepth = 2
  MaxRuns = 2
  MaxTasks = 12
  FftNeedsOneChunk = TRUE
  ChirpKeyByChannel = TRUE
  EagerOps <- None_
  NumpyOps <- None_
  ReaderPerBlock = FALSE
  OverwriteTags <- None_
  StickyKwargs = FALSE
  LazySetitemLost = FALSE
  RollShortcut = FALSE
  SharedHandle = FALSE
INVARIANT EmitLeaf
CHECK_DEADLOCK FALSE
