SPECIFICATION Spec
CONSTANTS
  Lens <- Q_Lens
  Bounds <- Q_Bounds
  Steps <- Q_Steps
INVARIANT CropsFromEnd
INVARIANT Untouched
INVARIANT Stamped
INVARIANT Emit
CHECK_DEADLOCK FALSE
