--------------------------- MODULE Trace_FastLen ---------------------------
(***************************************************************************)
(* code -> spec for C18: events {N, next, prev} (BigInt limb records)      *)
(* recorded from the real next_fast_len / prev_fast_len for arbitrary      *)
(* N < 2^62.  TLC decides every event with BigInt arithmetic:              *)
(*   smooth     the results have no prime factor other than 2, 3, 5, 7     *)
(*              (repeated division), 0 only for N = 0                      *)
(*   order      prev <= N <= next                                          *)
(*   adjacent   prev and next are the lattice neighbours of N: the lattice *)
(*              (every 7-smooth number < 2^62, enumerated by TLC from      *)
(*              spec/Smooth.tla, sorted) is searched by bisection          *)
(***************************************************************************)
EXTENDS TraceBase, BigInt
VARIABLES l, nbad

Lattice == JsonDeserialize(IOEnv.LATTICE_FILE)      \* sorted sequence of BigInt records
NLat == Len(Lattice)
\* bisection is valid only on a strictly increasing sequence
ASSUME \A i \in 1..(NLat - 1) : Lt(Lattice[i], Lattice[i + 1])
ASSUME NLat >= 1 /\ Eq(Lattice[1], One)

RECURSIVE StripBig(_, _)
StripBig(w, p) == LET qr == NDivSmall(w, p) IN IF qr[2] = 0 THEN StripBig(qr[1], p) ELSE w
SmoothBig(v) == ~v.n /\ (v.m = <<>> \/ StripBig(StripBig(StripBig(StripBig(v.m, 2), 3), 5), 7) = <<1>>)

\* greatest index i with Lattice[i] <= v   (requires Lattice[lo] <= v, and v < Lattice[hi + 1] or hi = NLat)
RECURSIVE Floor(_, _, _)
Floor(v, lo, hi) == IF lo = hi THEN lo
                    ELSE LET mid == (lo + hi + 1) \div 2
                         IN IF Le(Lattice[mid], v) THEN Floor(v, mid, hi) ELSE Floor(v, lo, mid - 1)

Failed(e) ==
  IF e.ev # "fastlen" THEN {"unknown-event"}
  ELSE LET v == e.N  nx == e.next  pv == e.prev
       IN IF IsZero(v) THEN (IF IsZero(nx) /\ IsZero(pv) THEN {} ELSE {"zero"})
          ELSE LET i == Floor(v, 1, NLat)
                   hit == Eq(Lattice[i], v)
               IN (IF SmoothBig(nx) /\ SmoothBig(pv) /\ ~IsZero(nx) /\ ~IsZero(pv) THEN {} ELSE {"smooth"})
                  \cup (IF Le(pv, v) /\ Le(v, nx) THEN {} ELSE {"order"})
                  \cup (IF v.n \/ (i >= NLat /\ ~hit) THEN {"out-of-lattice-range"}
                        ELSE IF /\ Eq(pv, Lattice[i])
                                /\ Eq(nx, IF hit THEN v ELSE Lattice[i + 1])
                             THEN {} ELSE {"adjacent"})
TraceInit == l = 1 /\ nbad = 0
TraceNext ==
  \/ /\ l <= NEvents
     /\ LET e == Trace[l]  f == Failed(e)
        IN /\ Report(l, e, f)
           /\ nbad' = nbad + (IF f = {} THEN 0 ELSE 1)
     /\ l' = l + 1
  \/ /\ l = NEvents + 1
     /\ Summary(NEvents, nbad)
     /\ l' = l + 1
     /\ UNCHANGED nbad
TraceSpec == TraceInit /\ [][TraceNext]_<<l, nbad>>
AllConsumed == TLCGet("stats").diameter >= NEvents + 1
=============================================================================
