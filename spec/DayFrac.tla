------------------------------ MODULE DayFrac ------------------------------
(***************************************************************************)
(* C07 MC-2: pulsarbat.pulsar.phase.day_frac transcribed over a toy binary *)
(* floating point and model-checked for every pair of toy floats.          *)
(*                                                                         *)
(* A toy float is m * 2^e with |m| < 2^P (P = 5 significand bits, round to *)
(* nearest even, no exponent bounds: the error-free transformations assume *)
(* no under/overflow).  Exact dyadic values are pairs <<M, E>> on native   *)
(* integers.  two_sum is transcribed operation by operation (six rounded   *)
(* additions); two_product is modelled as what it is specified to return:  *)
(* the rounded product and its exact error.                                *)
(*                                                                         *)
(* Checked for every val1, val2 (and every toy factor / divisor):          *)
(*   DayIntegral   day is an integer                                       *)
(*   FracInRange   |frac| <= 1/2                                           *)
(*   SumExact      |day + frac - exact| <= 2^-(P-1)  whenever the exact    *)
(*                 result is a count up to 2^(P-1)  (the toy analogue of   *)
(*                 "2^-52 cycle for counts up to 2^52", P = 53)            *)
(* Variant "as_written" is the algorithm of the pinned tree: its second    *)
(* pass computes floor(frac + 0.5) in floating point, and for frac = 1/2 - *)
(* half an ulp that sum rounds up to 1.0, so the result has |frac| > 1/2   *)
(* (TLC finds -15/64 + -11/8 over 3 for P = 4; on the real code            *)
(* Phase(-0.5000000000000001, 4.4e-17) has frac = -0.5000000000000001).    *)
(* "round_excess" is the repair (excess = np.round(frac), exact) and is    *)
(* what MC_DayFrac_{quick,full}.cfg verify; "as_written", "no_second_pass" *)
(* (excess pass dropped) and "floor_only" (floor(x) instead of             *)
(* floor(x + 1/2)) must be rejected (Neg_DayFrac_*.cfg).                   *)
(***************************************************************************)
EXTENDS Integers, TLC
CONSTANTS P, EMin, EMax,        \* significands 2^(P-1)..2^P-1, exponents EMin..EMax of the operands
          Factors, Divisors,    \* sets of <<m, e>>
          Variant
VARIABLES st

(* ---- exact dyadic arithmetic on <<M, E>> ------------------------------ *)
RECURSIVE Pow2(_)
Pow2(k) == IF k = 0 THEN 1 ELSE 2 * Pow2(k - 1)
RECURSIVE BitLen(_)
BitLen(n) == IF n = 0 THEN 0 ELSE 1 + BitLen(n \div 2)          \* n >= 0
AbsI(n) == IF n < 0 THEN 0 - n ELSE n
RECURSIVE NormD(_)
NormD(x) == IF x[1] = 0 THEN <<0, 0>>
            ELSE IF x[1] % 2 = 0 THEN NormD(<<x[1] \div 2, x[2] + 1>>) ELSE x
DAdd(x, y) == LET e == IF x[2] <= y[2] THEN x[2] ELSE y[2]
              IN NormD(<<x[1] * Pow2(x[2] - e) + y[1] * Pow2(y[2] - e), e>>)
DNeg(x) == <<0 - x[1], x[2]>>
DSub(x, y) == DAdd(x, DNeg(y))
DMul(x, y) == NormD(<<x[1] * y[1], x[2] + y[2]>>)
DSign(x) == IF x[1] > 0 THEN 1 ELSE IF x[1] < 0 THEN -1 ELSE 0
DAbs(x) == <<AbsI(x[1]), x[2]>>
DLe(x, y) == DSign(DSub(x, y)) <= 0
DIsInt(x) == NormD(x)[2] >= 0
DFloor(x) == IF x[2] >= 0 THEN x ELSE NormD(<<x[1] \div Pow2(0 - x[2]), 0>>)   \* \div floors
Half == <<1, -1>>
\* np.round: nearest integer, ties to even (exact on a float)
DRint(x) == LET f == DFloor(DAdd(x, Half))
            IN IF DSub(f, x) = Half /\ f[1] % 2 # 0 /\ f[2] = 0 THEN DSub(f, <<1, 0>>) ELSE f

(* ---- toy floating point ------------------------------------------------ *)
\* round an exact dyadic to P bits, half to even; sticky = TRUE: the exact value is
\* slightly larger in magnitude than x (used by division)
RndS(x, sticky) ==
  LET n == NormD(x)
      a == AbsI(n[1])
      L == BitLen(a)
  IN IF L <= P THEN n
     ELSE LET s == L - P
              q == a \div Pow2(s)
              r == a % Pow2(s)
              h == Pow2(s - 1)
              up == r > h \/ (r = h /\ (sticky \/ q % 2 = 1))
              q1 == IF up THEN q + 1 ELSE q
          IN NormD(<<(IF n[1] < 0 THEN 0 - q1 ELSE q1), n[2] + s>>)
Rnd(x) == RndS(x, FALSE)
FAdd(x, y) == Rnd(DAdd(x, y))
FSub(x, y) == Rnd(DSub(x, y))
FMul(x, y) == Rnd(DMul(x, y))
\* correctly rounded quotient (y # 0): P + 3 quotient bits and a sticky flag
FDiv(x, y) ==
  IF x[1] = 0 THEN <<0, 0>>
  ELSE LET k == P + 3 + BitLen(AbsI(y[1]))
           n == AbsI(x[1]) * Pow2(k)
           q == n \div AbsI(y[1])
           rem == n % AbsI(y[1])
           sg == IF (x[1] < 0) # (y[1] < 0) THEN -1 ELSE 1
       IN RndS(<<sg * q, x[2] - y[2] - k>>, rem # 0)

\* astropy.time.utils.two_sum, operation by operation
TwoSum(a, b) ==
  LET x   == FAdd(a, b)
      eb0 == FSub(x, a)
      ea0 == FSub(x, eb0)
      eb  == FSub(b, eb0)
      ea  == FSub(a, ea0)
  IN <<x, FAdd(ea, eb)>>
\* two_product: rounded product and its exact error (representable: checked)
TwoProduct(a, b) == LET x == FMul(a, b) IN <<x, DSub(DMul(a, b), x)>>
IsFloat(x) == BitLen(AbsI(NormD(x)[1])) <= P

(* ---- day_frac(val1, val2, factor, divisor) ----------------------------- *)
None == <<0, 1000>>
DayFracOf(val1, val2, factor, divisor) ==
  LET s0   == TwoSum(val1, val2)
      s1   == IF factor = None THEN s0
              ELSE LET tp == TwoProduct(s0[1], factor)
                       carry == FAdd(tp[2], FMul(s0[2], factor))
                   IN TwoSum(tp[1], carry)
      s2   == IF divisor = None THEN s1
              ELSE LET q1 == FDiv(s1[1], divisor)
                       pp == TwoProduct(q1, divisor)
                       dd == TwoSum(s1[1], DNeg(pp[1]))
                       d2 == FSub(FAdd(dd[2], s1[2]), pp[2])
                       q2 == FDiv(FAdd(dd[1], d2), divisor)
                   IN TwoSum(q1, q2)
      sum12 == s2[1]
      err12 == s2[2]
      Round(x) == IF Variant = "floor_only" THEN DFloor(x) ELSE DFloor(FAdd(x, Half))
      day0  == Round(sum12)
      t0    == TwoSum(sum12, DNeg(day0))
      frac0 == FAdd(t0[2], FAdd(t0[1], err12))
      excess == IF Variant = "round_excess" THEN DRint(frac0) ELSE Round(frac0)
      day1  == IF Variant = "no_second_pass" THEN day0 ELSE FAdd(day0, excess)
      t1    == TwoSum(sum12, DNeg(day1))
      frac1 == FAdd(t1[2], FAdd(t1[1], err12))
  IN <<day1, frac1>>

(* ---- model checking wrapper -------------------------------------------- *)
Mants == Pow2(P - 1)..(Pow2(P) - 1)
Floats == {<<0, 0>>} \cup {NormD(<<sg * m, e>>) : sg \in {-1, 1}, m \in Mants, e \in EMin..EMax}
Cases == {<<"sum", None>>} \cup {<<"mul", f>> : f \in Factors} \cup {<<"div", d>> : d \in Divisors}
\* one initial state per val1 (so that TLC's workers share the pairs); its
\* successors are all val2 and all cases
Start == <<"sum", None>>
Init == st \in [a : Floats, b : {<<0, 0>>}, c : {Start}, lvl : {0}]
Next == st.lvl = 0 /\ st' \in [a : {st.a}, b : Floats, c : Cases, lvl : {1}]
Spec == Init /\ [][Next]_st

Result == DayFracOf(st.a, st.b, IF st.c[1] = "mul" THEN st.c[2] ELSE None,
                    IF st.c[1] = "div" THEN st.c[2] ELSE None)
ExactSum == DAdd(st.a, st.b)
Cap == <<1, P - 1>>                      \* counts up to 2^(P-1)
Tol == <<1, 1 - P>>                      \* 2^-(P-1)
\* the exact result is a count up to 2^(P-1) (beyond, a P-bit "day" cannot even hold the integer)
InScope ==
  CASE st.c[1] = "sum" -> DLe(DAbs(ExactSum), Cap)
    [] st.c[1] = "mul" -> DLe(DAbs(DMul(ExactSum, st.c[2])), Cap)
    [] st.c[1] = "div" -> DLe(DAbs(ExactSum), DMul(Cap, DAbs(st.c[2])))
DayIntegral == InScope => DIsInt(Result[1])
FracInRange == InScope => DLe(DAbs(Result[2]), Half)
SumExact ==
  LET got == DAdd(Result[1], Result[2])
  IN InScope =>
     CASE st.c[1] = "sum" -> DLe(DAbs(DSub(got, ExactSum)), Tol)
       [] st.c[1] = "mul" -> DLe(DAbs(DSub(got, DMul(ExactSum, st.c[2]))), Tol)
       [] st.c[1] = "div" -> \* |got * d - S| <= tol * |d|
                             DLe(DAbs(DSub(DMul(got, st.c[2]), ExactSum)), DMul(Tol, DAbs(st.c[2])))
PartsAreFloats == InScope => IsFloat(Result[1]) /\ IsFloat(Result[2])
=============================================================================
