SPECIFICATION Spec
CONSTANTS
  L = 8
  TolU = 2
  TmidMax = 12
  MaxN = 3
  UseTol = TRUE
  Side = "right"
INVARIANT MergeLoopIsDeclared
INVARIANT LoopOperatorAgrees
INVARIANT SelectIsContaining
INVARIANT OutsideRaises
INVARIANT GapNoCrash
CHECK_DEADLOCK FALSE
