----------------------------- MODULE Trace_Ufunc -----------------------------
(***************************************************************************)
(* code -> spec for C17.  Every recorded call of the real                  *)
(* pulsarbat.Signal.__array_ufunc__ (one event: ufunc kind, method, the    *)
(* operands by kind / class / identity, the out tuple, which operand was   *)
(* `self`, the dtype each inner result had when it reached like(), and     *)
(* what came back) is decided with the operators of spec/Ufunc.tla:        *)
(*   resolution  `self` is the operand NumPy's override resolution (Ufunc! *)
(*               Resolution) reaches first among the signals; for refused  *)
(*               calls, one of the signals in that order                   *)
(*   refusal     NotImplemented exactly for methods other than __call__    *)
(*               and for matmul                                            *)
(*   casting     UFuncTypeError exactly when the dtype the loop computes   *)
(*               may not be stored (same_kind) in the out array given      *)
(*   contract    ValueError exactly when Ufunc!Admit refuses a result dtype *)
(*   count / identity / class / dtype / metadata                           *)
(*               the returned objects are what Ufunc!SigHandle says        *)
(***************************************************************************)
EXTENDS TraceBase, Ufunc
VARIABLES l, nbad

T_None == {}
Ok(c, name) == IF c THEN {} ELSE {name}
Min2(a, b) == IF a < b THEN a ELSE b

HeapOf(e) == [i \in 1..Len(e.objs) |->
                [kind |-> e.objs[i].kind, cls |-> e.objs[i].cls, meta |-> i, dk |-> e.objs[i].dk, term |-> Root(i)]]

OneResult(e, r, k) ==
  IF r.res[k].how = "out"
  THEN Ok(e.res[k].ident = r.res[k].idx, "identity")
  ELSE Ok(e.res[k].ident = 0, "identity")
       \cup Ok(e.res[k].cls = r.res[k].cls, "class")
       \cup Ok(e.res[k].dk = r.res[k].dk, "dtype")
       \cup Ok(InSeq(r.res[k].meta, e.res[k].metaeq), "metadata")

Failed(e) ==
  IF e.ev # "array_ufunc" THEN {"unknown-event"}
  ELSE
    LET h == HeapOf(e)
        u == [name |-> IF e.matmul THEN "matmul" ELSE "elementwise", nin |-> e.nin, nout |-> e.nout]
        sigs == SelectSeq(Resolution(h, e.ins, e.outs), LAMBDA x : IsSigIdx(h, x))
        refused == e.m # "call" \/ e.matmul
        r == SigHandle(h, e.self, u, e.m, e.ins, e.outs, e.rk)
    IN Ok(IF refused THEN InSeq(e.self, sigs) ELSE (sigs # <<>> /\ sigs[1] = e.self), "resolution")
       \cup Ok(r.ni = (e.result = "NotImplemented"), "refusal")
       \cup (IF r.ni \/ e.result = "NotImplemented" THEN {}
             \* a result NumPy would not store into the out array (same_kind over the dtype
             \* lattice, Ufunc!Fits) must make the call raise - and only such a result
             \* (no statement where the tracer could not name the loop's dtype or the out
             \* array's dtype: strings, datetimes, objects, dask or Quantity containers)
             ELSE IF r.err = "UFuncTypeError" \/ e.result = "UFuncTypeError"
                  THEN IF r.err # "UFuncTypeError" /\ \E k \in 1..Len(e.outs) :
                            e.outs[k] # 0 /\ (e.rk[k] = "-" \/ h[e.outs[k]].dk = "-")
                       THEN {}
                       ELSE Ok(r.err = "UFuncTypeError" /\ e.result = "UFuncTypeError", "casting")
             ELSE IF \E k \in 1..Len(r.res) : r.res[k].how = "refuse"
                  THEN Ok(e.result = "ValueError", "contract")
                  ELSE Ok(e.result = "ok", "contract")
                       \cup (IF e.result # "ok" THEN {}
                             ELSE Ok(Len(e.res) = Len(r.res), "count")
                                  \cup UNION {OneResult(e, r, k) : k \in 1..Min2(Len(e.res), Len(r.res))}))

TraceInit == /\ l = 1 /\ nbad = 0
             /\ heap0 = <<>> /\ heap = <<>> /\ hist = <<>> /\ chk = AllTrue
TraceNext ==
  /\ UNCHANGED vars
  /\ \/ /\ l <= NEvents
        /\ LET e == Trace[l]  f == Failed(e)
           IN /\ Report(l, e, f)
              /\ nbad' = nbad + (IF f = {} THEN 0 ELSE 1)
        /\ l' = l + 1
     \/ /\ l = NEvents + 1
        /\ Summary(NEvents, nbad)
        /\ l' = l + 1
        /\ UNCHANGED nbad
TraceSpec == TraceInit /\ [][TraceNext]_<<l, nbad, heap0, heap, hist, chk>>
AllConsumed == TLCGet("stats").diameter >= NEvents + 1
=============================================================================
