SPECIFICATION Spec
CONSTANTS
  Configs <- T_Configs
  Procs <- T_Procs
  Args <- FT_Args
  MaxReads = 2
  Shared = FALSE
VIEW View
INVARIANT TypeOK
INVARIANT ReadIsFunctionOfArgs
INVARIANT BoundsRefused
INVARIANT AdjacentReadsConcatenate
INVARIANT AdjacentStatic
INVARIANT OffsetTimeRoundTrip
CHECK_DEADLOCK FALSE
