------------------------------ MODULE MC_Dask ------------------------------
(* Instances of spec/Dask.tla: quick (Q_), full (F_), and the schedule      *)
(* generator (S_).                                                          *)
EXTENDS Dask

O(op, a) == [op |-> op, a |-> a]
ClsFor(sh) == IF sh[3] = 2 THEN {"Signal", "BasebandSignal", "DualPolarizationSignal"}
              ELSE {"Signal", "BasebandSignal"}
\* every Dask root: every class the shape admits, every chunk grid of at most nb blocks; plus NumPy roots
RootsOf(Shapes, nb) ==
  UNION {UNION {{[cls |-> c, sh |-> sh, back |-> "dask", ch |-> g] : g \in {h \in Grids(sh) : NB(h) <= nb}}
                \cup {[cls |-> c, sh |-> sh, back |-> "np", ch |-> Single(sh)]} : c \in ClsFor(sh)} : sh \in Shapes}
\* dask reads of a reader: every chunk grid, also those that split the time axis
ReaderRoots(Shapes, nb) ==
  UNION {{[cls |-> c, sh |-> sh, back |-> "reader", ch |-> g] : g \in {h \in Grids(sh) : NB(h) <= nb},
                                                             c \in {"Signal", "BasebandSignal"}} : sh \in Shapes}
\* pb.concatenate of several dask reads of ONE reader (one per time chunk), then rechunked
ReadsRoots(Shapes, nb) ==
  UNION {{[cls |-> "BasebandSignal", sh |-> sh, back |-> "reads", ch |-> g] :
            g \in {h \in Grids(sh) : NB(h) <= nb /\ Len(h[1]) >= 2}} : sh \in Shapes}
ShapesUpTo(n, c, p) == {<<i, j, k>> : i \in 1..n, j \in 1..c, k \in 1..p}

CoreOps == {
  O("tslice", <<1, None, None>>), O("tslice", <<None, -1, None>>), O("tslice", <<None, None, 2>>),
  O("tslice", <<1, 3, None>>),
  O("fslice", <<1, None>>), O("fslice", <<None, -1>>),
  O("ufunc", <<>>), O("iufunc", <<>>), O("map_blocks", <<0>>), O("map_blocks", <<2>>), O("map_blocks_col", <<>>), O("to_intensity", <<>>),
  O("stokes_item", <<0>>), O("stokes_item", <<3>>), O("to_stokes", <<>>), O("to_circular", <<>>),
  O("time_shift", <<0, 4>>), O("time_shift", <<1, -6>>), O("time_shift", <<0, 1>>), O("time_shift", <<0, -8>>),
  O("time_shift", <<1, 8>>),
  O("time_shift", <<1, 5, -4>>), O("time_shift", <<0, 2, 0, -3>>),
  O("freq_shift", <<3>>), O("freq_shift", <<-4>>), O("freq_shift", <<3, -4>>), O("freq_shift", <<2, -3, 5>>),
  O("coh_dd", <<3, -2>>), O("coh_dd", <<0, 5>>),
  O("incoh_dd", <<0, 1>>), O("incoh_dd", <<-1, 1>>), O("incoh_dd", <<0, 0>>),
  O("splitcat", <<1, 1>>), O("splitcat", <<1, 2>>), O("splitcat", <<2, 1>>),
  O("fft_axis", <<1>>), O("fft_axis", <<2>>), O("fft_axis", <<3>>),
  O("stft", <<2>>), O("istft", <<2>>),
  O("rechunk", <<0>>), O("rechunk", <<1>>), O("rechunk", <<2>>), O("rechunk", <<3>>),
  O("to_dask", <<>>)}

\* quick: every shape up to 3 x 2 x 2 and 4 x 1 x 1, all grids, depth 2
Q_Roots == RootsOf({<<2, 2, 2>>, <<3, 2, 1>>, <<4, 1, 1>>}, 4) \cup ReaderRoots({<<4, 2, 1>>, <<0, 2, 1>>, <<1, 2, 1>>}, 4) \cup ReadsRoots({<<4, 2, 1>>}, 4)
\* quick, all schedules: depth 1
QS_Roots == RootsOf({<<2, 2, 2>>, <<4, 2, 1>>}, 4) \cup ReadsRoots({<<4, 2, 1>>, <<3, 1, 1>>}, 4)
\* pipelines with runs in the middle (persist -> operation -> compute ...)
R_Ops == {O("tslice", <<1, None, None>>), O("ufunc", <<>>), O("iufunc", <<>>), O("fft_axis", <<1>>), O("time_shift", <<1, -6>>), O("to_stokes", <<>>),
          O("coh_dd", <<3, -2>>), O("rechunk", <<1>>), O("splitcat", <<1, 1>>)}
F2_Roots == RootsOf(ShapesUpTo(3, 2, 2) \cup {<<4, 1, 1>>, <<4, 2, 1>>, <<4, 3, 1>>, <<4, 1, 2>>}, 4)
Q_Ops == CoreOps
\* full: N <= 4, c <= 3, p <= 2
F_Roots == RootsOf(ShapesUpTo(4, 3, 2), 12) \cup ReaderRoots({<<4, 2, 1>>, <<3, 1, 2>>, <<4, 3, 1>>}, 12) \cup ReadsRoots({<<4, 2, 1>>, <<3, 1, 2>>}, 6)
F_Ops == CoreOps
FS_Roots == F2_Roots
\* negative instances
N_Roots == RootsOf({<<4, 2, 1>>, <<2, 2, 2>>}, 4)
N_CohOps == {O("coh_dd", <<3, -2>>)}
N_FftOps == {O("time_shift", <<0, 4>>), O("map_blocks_col", <<>>), O("fft_axis", <<1>>)}
N_EagerNames == {"time_shift"}
N_NumpyNames == {"to_intensity"}
\* schedule generation: few pipelines, every complete order as a sequence of choice indices
S_Roots == {[cls |-> "BasebandSignal", sh |-> <<4, 2, 1>>, back |-> "dask", ch |-> <<<<4>>, <<1, 1>>, <<1>>>>],
            [cls |-> "BasebandSignal", sh |-> <<4, 3, 1>>, back |-> "dask", ch |-> <<<<2, 2>>, <<1, 2>>, <<1>>>>],
            [cls |-> "DualPolarizationSignal", sh |-> <<2, 2, 2>>, back |-> "dask", ch |-> <<<<2>>, <<1, 1>>, <<1, 1>>>>]}
S_Ops == {O("time_shift", <<1, 5, -4>>), O("coh_dd", <<3, -2>>), O("to_stokes", <<>>), O("incoh_dd", <<0, 1>>)}
\* behaviour generation
G_Ops == {
  O("tslice", <<1, None, None>>), O("tslice", <<None, None, 2>>), O("tslice", <<1, 3, None>>),
  O("fslice", <<1, None>>), O("ufunc", <<>>), O("iufunc", <<>>), O("map_blocks", <<0>>), O("map_blocks", <<2>>), O("map_blocks_col", <<>>),
  O("to_intensity", <<>>), O("stokes_item", <<3>>), O("to_stokes", <<>>), O("to_circular", <<>>),
  O("time_shift", <<0, 4>>), O("time_shift", <<1, -6>>), O("time_shift", <<1, 5, -4>>),
  O("freq_shift", <<3>>), O("freq_shift", <<3, -4>>), O("coh_dd", <<3, -2>>), O("incoh_dd", <<-1, 1>>),
  O("splitcat", <<1, 2>>), O("splitcat", <<2, 1>>), O("fft_axis", <<1>>), O("fft_axis", <<2>>),
  O("stft", <<2>>), O("istft", <<2>>), O("rechunk", <<0>>), O("rechunk", <<1>>), O("rechunk", <<2>>),
  O("to_dask", <<>>)}
G1_Roots == RootsOf(ShapesUpTo(4, 3, 2), 8) \cup ReaderRoots({<<4, 2, 1>>, <<3, 1, 2>>, <<4, 3, 1>>, <<2, 2, 2>>, <<0, 2, 1>>, <<0, 1, 2>>, <<1, 2, 1>>}, 8) \cup ReadsRoots({<<4, 2, 1>>, <<3, 1, 2>>, <<4, 3, 1>>}, 8)
G1Q_Roots == RootsOf(ShapesUpTo(3, 2, 2) \cup {<<4, 3, 1>>, <<4, 1, 2>>}, 6) \cup ReaderRoots({<<4, 2, 1>>, <<3, 1, 2>>, <<0, 2, 1>>, <<0, 1, 2>>, <<1, 2, 1>>}, 6) \cup ReadsRoots({<<4, 2, 1>>, <<3, 1, 2>>}, 6)
G2_Roots == RootsOf({<<2, 2, 2>>, <<4, 2, 1>>, <<3, 3, 1>>, <<4, 1, 2>>}, 4)
G2Q_Roots == RootsOf({<<2, 2, 2>>, <<4, 2, 1>>}, 2) \cup ReaderRoots({<<4, 2, 1>>}, 2)
\* negative instances: per-block reads; in-place FFT tasks on blocks the graph holds
N_ReaderRoots == ReaderRoots({<<4, 2, 1>>}, 4)
N_NoOps == {O("ufunc", <<>>)}
N_OverRoots == {[cls |-> "BasebandSignal", sh |-> <<2, 2, 1>>, back |-> "np", ch |-> Single(<<2, 2, 1>>)]}
N_OverOps == {O("to_dask", <<>>), O("fft_axis", <<1>>)}
N_OverTags == {"fft"}
\* same-object histories and runs in the middle: look, change / transform, look again
GR_Roots == {[cls |-> "BasebandSignal", sh |-> <<4, 2, 1>>, back |-> b, ch |-> g] :
               b \in {"dask", "reader"}, g \in {Single(<<4, 2, 1>>), <<<<2, 2>>, <<2>>, <<1>>>>}}
            \cup {[cls |-> "BasebandSignal", sh |-> <<4, 2, 1>>, back |-> "dask", ch |-> <<<<4>>, <<1, 1>>, <<1>>>>],
                  [cls |-> "BasebandSignal", sh |-> <<4, 2, 1>>, back |-> "np", ch |-> Single(<<4, 2, 1>>)]}
GR_Ops == {O("ufunc", <<>>), O("iufunc", <<>>), O("fft_axis", <<1>>), O("time_shift", <<1, -6>>)}
\* negative instances, round 3
N_KwOps == {O("map_blocks", <<0>>), O("map_blocks", <<2>>)}
N_VecOps == {O("freq_shift", <<3, -4>>)}
N_RollOps == {O("time_shift", <<0, 4>>), O("time_shift", <<0, -8>>)}
N_ReadsRoots == ReadsRoots({<<4, 2, 1>>}, 2)
None_ == {}
=============================================================================
