SPECIFICATION Spec
CONSTANTS
  Roots <- G1Q_Roots
  Ops <- Q_Ops
  Scheds = {"sync"}
  MaxDepth = 1
  MaxRuns = 0
  MaxTasks = 12
  FftNeedsOneChunk = TRUE
  ChirpKeyByChannel = TRUE
  EagerOps <- None_
  NumpyOps <- None_
  ReaderPerBlock = FALSE
  OverwriteTags <- None_
  StickyKwargs = FALSE
  LazySetitemLost = FALSE
  RollShortcut = FALSE
  SharedHandle = FALSE
INVARIANT EmitLeaf
CHECK_DEADLOCK FALSE
