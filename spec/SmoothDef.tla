----------------------------- MODULE SmoothDef -----------------------------
(***************************************************************************)
(* C18, declarative side (constant module, native integers): Smooth7(n)    *)
(* = the only prime factors of n are 2, 3, 5, 7 (0 is mapped to 0 as the   *)
(* property says); IsNextFast(N, r) <=> r = min{m >= N : Smooth7(m)};      *)
(* IsPrevFast(N, r) <=> r = max{m <= N : Smooth7(m)}.                      *)
(***************************************************************************)
EXTENDS Integers
RECURSIVE Strip(_, _)
Strip(n, p) == IF n % p = 0 THEN Strip(n \div p, p) ELSE n
Smooth7(n) == n = 0 \/ (n > 0 /\ Strip(Strip(Strip(Strip(n, 2), 3), 5), 7) = 1)

\* r = min{m >= n : Smooth7(m)}   /   r = max{m <= n : Smooth7(m)}
IsNextFast(n, r) == r >= n /\ Smooth7(r) /\ \A m \in n..(r - 1) : ~Smooth7(m)
IsPrevFast(n, r) == r <= n /\ r >= 0 /\ Smooth7(r) /\ \A m \in (r + 1)..n : ~Smooth7(m)
\* the functions themselves (a power of two lies in [n, 2n], and 0 <= n)
NextFast(n) == CHOOSE r \in n..(2 * n) : IsNextFast(n, r)
PrevFast(n) == CHOOSE r \in 0..n : IsPrevFast(n, r)

RECURSIVE Bits(_)
Bits(n) == IF n = 0 THEN 0 ELSE 1 + Bits(n \div 2)
\* at most (b+2) values of f7, (b+2) of f75 for each, and 4(b+2) inner steps for each
StepBound(n) == LET b == Bits(2 * n) + 2 IN 4 * b * b * b
=============================================================================
