SPECIFICATION Spec
CONSTANTS
  Mode = "time"
  Lens <- Q_Lens
  NCols = 6
INVARIANT Emit
CHECK_DEADLOCK FALSE
