SPECIFICATION Spec
CONSTANTS
  Mode = "time"
  Lens <- Q_Lens
  NCols = 4
  NReal = 2
INVARIANT Emit
CHECK_DEADLOCK FALSE
