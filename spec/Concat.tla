------------------------------- MODULE Concat -------------------------------
(***************************************************************************)
(* concatenate as the inverse of splitting (C10).                          *)
(*                                                                         *)
(* A root signal is split at cut points along time or frequency with the   *)
(* real slicing operations of module Signals; some pieces lose their start *)
(* time, at most one piece is perturbed (one-sample gap / overlap, swapped *)
(* order, sample rate, class, channel bandwidth, labels shifted by one     *)
(* channel, start time on a non-time axis).  ConcatOp transcribes          *)
(* pulsarbat.concatenate check by check; the invariants state that         *)
(* unperturbed pieces give back the root (whatever the grouping) and that  *)
(* every perturbation is refused.                                          *)
(***************************************************************************)
EXTENDS Signals, TLC

CONSTANTS RootLens, Classes, NChans, Aligns, MaxPieces, Perturbs

VARIABLES root, axis, cuts, pieces, pert, res, phase
vars == <<root, axis, cuts, pieces, pert, res, phase>>

Roots == {MkRoot(c, n, ht, nc, al) :
            c \in Classes, n \in RootLens, ht \in BOOLEAN, nc \in NChans, al \in Aligns}

\* a piece: the signal record plus explicit ledgers of the root samples /
\* channels it holds, and a sample-rate multiplier used by perturbations
Piece(s) == [sig |-> s, ratemul |-> "1",
             src |-> [j \in 1..s.len |-> (s.k0 + (j - 1) * s.per) \div 4],
             chs |-> [j \in 1..s.nchan |-> s.clo + j - 1]]

\* nondecreasing cut sequences of length k over 0..n
RECURSIVE CutSeqs(_, _, _)
CutSeqs(k, lo, n) == IF k = 0 THEN {<<>>}
                     ELSE UNION {{<<c>> \o t : t \in CutSeqs(k - 1, c, n)} : c \in lo..n}
\* strictly increasing interior cuts (frequency pieces must be non-empty)
RECURSIVE FCutSeqs(_, _, _)
FCutSeqs(k, lo, n) == IF k = 0 THEN {<<>>}
                      ELSE UNION {{<<c>> \o t : t \in FCutSeqs(k - 1, c + 1, n)} : c \in lo..(n - 1)}

SplitTime(r, cs) ==
  LET b == <<0>> \o cs \o <<r.len>>
  IN [i \in 1..(Len(cs) + 1) |-> Piece(TimeSliceRec(r, b[i], b[i + 1], None))]
SplitFreq(r, cs) ==
  LET b == <<0>> \o cs \o <<r.nchan>>
  IN [i \in 1..(Len(cs) + 1) |-> Piece(FreqSliceRec(r, b[i], b[i + 1]))]

(***************************************************************************)
(* pulsarbat.concatenate, check by check                                   *)
(***************************************************************************)
Err(k) == [err |-> k]
IsErr(x) == "err" \in DOMAIN x

\* time-axis loop: ref_st from the first piece that has a start time
RECURSIVE TimeLoop(_, _, _, _, _)
\* returns <<ok, hasRef, ref>>
TimeLoop(ps, i, n, hasRef, ref) ==
  IF i > Len(ps) THEN <<TRUE, hasRef, ref>>
  ELSE LET s == ps[i].sig
           per == ps[1].sig.per
       IN IF s.hasT
          THEN IF ~hasRef THEN TimeLoop(ps, i + 1, n + s.len, TRUE, s.t0 - n * per)
               ELSE IF ref + n * per # s.t0 THEN <<FALSE, hasRef, ref>>
               ELSE TimeLoop(ps, i + 1, n + s.len, hasRef, ref)
          ELSE TimeLoop(ps, i + 1, n + s.len, hasRef, ref)

RECURSIVE Flatten(_, _, _)
Flatten(ps, i, f) == IF i > Len(ps) THEN <<>> ELSE ps[i][f] \o Flatten(ps, i + 1, f)
RECURSIVE SumLen(_, _)
SumLen(ps, i) == IF i > Len(ps) THEN 0 ELSE ps[i].sig.len + SumLen(ps, i + 1)
RECURSIVE SumChan(_, _)
SumChan(ps, i) == IF i > Len(ps) THEN 0 ELSE ps[i].sig.nchan + SumChan(ps, i + 1)

LabelsOf(s) == [i \in 1..s.nchan |-> Label(s, i - 1)]

ConcatOp(ps, ax) ==
  LET f == ps[1].sig
      n == Len(ps)
      withT == {i \in 1..n : ps[i].sig.hasT}
  IN IF \E i \in 1..n : ps[i].sig.cls # f.cls THEN Err("TypeError")
     ELSE IF \E i \in 1..n : ps[i].ratemul # ps[1].ratemul \/ ps[i].sig.per # f.per THEN Err("ValueError")
     ELSE LET tl == IF ax = "time" THEN TimeLoop(ps, 1, 0, FALSE, 0)
                    ELSE IF withT = {} THEN <<TRUE, FALSE, 0>>
                    ELSE LET i0 == CHOOSE i \in withT : \A j \in withT : i <= j
                         IN <<\A j \in withT : ps[j].sig.t0 = ps[i0].sig.t0, TRUE, ps[i0].sig.t0>>
          IN IF ~tl[1] THEN Err("ValueError")
             ELSE IF ~IsRadio(f.cls)
                  THEN (IF ax = "freq" THEN Err("TypeError")
                        ELSE [sig |-> [f EXCEPT !.len = SumLen(ps, 1), !.hasT = tl[2], !.t0 = IF tl[2] THEN tl[3] ELSE 0],
                              ratemul |-> ps[1].ratemul, src |-> Flatten(ps, 1, "src"), chs |-> ps[1].chs])
             ELSE IF \E i \in 1..n : ps[i].sig.cbw # f.cbw THEN Err("ValueError")
             ELSE IF ax = "freq"
                  THEN IF \E i \in 1..(n - 1) :
                            QSub(Label(ps[i + 1].sig, 0), Label(ps[i].sig, ps[i].sig.nchan - 1)) # f.cbw
                       THEN Err("ValueError")
                       ELSE IF \E i \in 1..n : ps[i].sig.len # f.len THEN Err("ValueError")   \* np.concatenate
                       ELSE LET l == ps[n].sig
                                nc == SumChan(ps, 1)
                            IN [sig |-> [f EXCEPT !.nchan = nc, !.hasT = tl[2], !.t0 = IF tl[2] THEN tl[3] ELSE 0,
                                             !.cf = QHalf(QAdd(Label(f, 0), Label(l, l.nchan - 1))),
                                             !.align = "center"],
                                ratemul |-> ps[1].ratemul, src |-> ps[1].src, chs |-> Flatten(ps, 1, "chs")]
                  ELSE IF \E i \in 1..n : LabelsOf(ps[i].sig) # LabelsOf(f) THEN Err("ValueError")
                       ELSE [sig |-> [f EXCEPT !.len = SumLen(ps, 1), !.hasT = tl[2], !.t0 = IF tl[2] THEN tl[3] ELSE 0,
                                        !.cf = QHalf(QAdd(Label(f, 0), Label(f, f.nchan - 1))),
                                        !.align = "center"],
                             ratemul |-> ps[1].ratemul, src |-> Flatten(ps, 1, "src"), chs |-> ps[1].chs]

(***************************************************************************)
(* perturbations of one piece                                              *)
(***************************************************************************)
OtherClass(c) == CASE c = "Signal" -> "RadioSignal" [] c = "RadioSignal" -> "IntensitySignal"
                   [] c = "IntensitySignal" -> "RadioSignal" [] c = "FullStokesSignal" -> "IntensitySignal"
                   [] c = "BasebandSignal" -> "RadioSignal" [] c = "DualPolarizationSignal" -> "BasebandSignal"
\* declarative: the start times present are consistent with the pieces being
\* contiguous in the given order (independent of the TimeLoop transcription)
RECURSIVE OffsetOf(_, _)
OffsetOf(ps, i) == IF i = 1 THEN 0 ELSE OffsetOf(ps, i - 1) + ps[i - 1].sig.len
TimeConsistent(ps) ==
  \A i, j \in {k \in 1..Len(ps) : ps[k].sig.hasT} :
     ps[j].sig.t0 - ps[i].sig.t0 = (OffsetOf(ps, j) - OffsetOf(ps, i)) * ps[1].sig.per
CanPerturb(ps, ax, k, i) ==
  LET s == ps[i].sig
  IN CASE k \in {"shift+1", "shift-1"} ->
            \* a one-sample gap / overlap is knowable iff some other piece also has a start time
            ax = "time" /\ s.hasT /\ (\E j \in 1..Len(ps) : j # i /\ ps[j].sig.hasT)
       [] k = "swap" -> i < Len(ps) /\
            (IF ax = "time"
             THEN ~TimeConsistent([ps EXCEPT ![i] = ps[i + 1], ![i + 1] = ps[i]])
             ELSE TRUE)
       [] k \in {"rate2", "ratefine"} -> Len(ps) > 1
       [] k = "cls" -> Len(ps) > 1 /\ (ax = "time" \/ IsRadio(OtherClass(s.cls))) /\ s.cls # "Signal"
       [] k = "cbw" -> Len(ps) > 1 /\ IsRadio(s.cls) /\ ~IsBaseband(s.cls)
       [] k \in {"labels+1", "labels-1"} -> Len(ps) > 1 /\ IsRadio(s.cls) /\ i > 1
       [] k = "t0mismatch" -> ax = "freq" /\ Len(ps) > 1 /\ s.hasT /\ (\E j \in 1..Len(ps) : j # i /\ ps[j].sig.hasT)
       \* the same number in another unit (4 kHz for 4 MHz) is another rate
       [] k = "rateunit" -> Len(ps) > 1
       \* the same centre frequency with another alignment: every label moves by half a channel
       [] k = "align" -> Len(ps) > 1 /\ IsRadio(s.cls) /\ s.nchan % 2 = 0
DoPerturb(ps, k, i) ==
  LET s == ps[i].sig
  IN CASE k = "shift+1" -> [ps EXCEPT ![i].sig.t0 = s.t0 + s.per]
       [] k = "shift-1" -> [ps EXCEPT ![i].sig.t0 = s.t0 - s.per]
       [] k = "swap" -> [ps EXCEPT ![i] = ps[i + 1], ![i + 1] = ps[i]]
       [] k = "rate2" -> [ps EXCEPT ![i].ratemul = "2"]
       [] k = "ratefine" -> [ps EXCEPT ![i].ratemul = "fine"]
       [] k = "cls" -> [ps EXCEPT ![i].sig.cls = OtherClass(s.cls)]
       [] k = "cbw" -> [ps EXCEPT ![i].sig.cbw = QMul(s.cbw, QI(2))]
       [] k = "labels+1" -> [ps EXCEPT ![i].sig.cf = QAdd(s.cf, s.cbw)]
       [] k = "labels-1" -> [ps EXCEPT ![i].sig.cf = QSub(s.cf, s.cbw)]
       [] k = "t0mismatch" -> [ps EXCEPT ![i].sig.t0 = s.t0 + s.per]
       [] k = "rateunit" -> [ps EXCEPT ![i].ratemul = "unit"]
       [] k = "align" -> [ps EXCEPT ![i].sig.align = IF s.align = "center" THEN "bottom" ELSE "center"]

Init == /\ root \in Roots
        /\ axis \in (IF IsRadio(root.cls) THEN {"time", "freq"} ELSE {"time"})
        /\ cuts = <<>> /\ pieces = <<>> /\ pert = <<"none", 0>> /\ res = Err("none") /\ phase = "split"

Split ==
  /\ phase = "split"
  /\ \E k \in 0..(MaxPieces - 1) :
       IF axis = "time"
       THEN \E cs \in CutSeqs(k, 0, root.len) : cuts' = cs /\ pieces' = SplitTime(root, cs)
       ELSE \E cs \in FCutSeqs(k, 1, root.nchan) : cuts' = cs /\ pieces' = SplitFreq(root, cs)
  /\ phase' = "mask"
  /\ UNCHANGED <<root, axis, pert, res>>

\* any subset of pieces lacks its start time
Mask ==
  /\ phase = "mask"
  /\ \E drop \in SUBSET (1..Len(pieces)) :
       pieces' = [i \in 1..Len(pieces) |->
                    IF i \in drop THEN [pieces[i] EXCEPT !.sig.hasT = FALSE, !.sig.t0 = 0] ELSE pieces[i]]
  /\ phase' = "perturb"
  /\ UNCHANGED <<root, axis, cuts, pert, res>>

Perturb ==
  /\ phase = "perturb"
  /\ \/ /\ pert' = <<"none", 0>> /\ UNCHANGED pieces
     \/ \E k \in Perturbs, i \in 1..Len(pieces) :
          /\ CanPerturb(pieces, axis, k, i)
          /\ pert' = <<k, i>>
          /\ pieces' = DoPerturb(pieces, k, i)
  /\ phase' = "concat"
  /\ UNCHANGED <<root, axis, cuts, res>>

Concatenate ==
  /\ phase = "concat"
  /\ res' = ConcatOp(pieces, axis)
  /\ phase' = "done"
  /\ UNCHANGED <<root, axis, cuts, pieces, pert>>

Next == Split \/ Mask \/ Perturb \/ Concatenate
Spec == Init /\ [][Next]_vars

(***************************************************************************)
(* Properties                                                              *)
(***************************************************************************)
Done == phase = "done"
\* unperturbed pieces reproduce the root
SplitConcatIdentity ==
  (Done /\ pert[1] = "none") =>
     /\ ~IsErr(res)
     /\ res.sig.cls = root.cls /\ res.sig.len = root.len /\ res.sig.per = root.per
     /\ res.src = [j \in 1..root.len |-> j - 1]
     /\ res.sig.nchan = root.nchan /\ res.chs = [j \in 1..root.nchan |-> j - 1]
     /\ res.sig.hasT = (\E i \in 1..Len(pieces) : pieces[i].sig.hasT)
     /\ (res.sig.hasT => res.sig.t0 = root.t0)
     /\ (IsRadio(root.cls) => LabelsOf(res.sig) = LabelsOf(root) /\ res.sig.cbw = root.cbw)
\* the time loop accepts exactly the consistent arrangements
LoopIsConsistency ==
  (Done /\ axis = "time" /\ pert[1] \in {"none", "shift+1", "shift-1", "swap"}) =>
     (TimeLoop(pieces, 1, 0, FALSE, 0)[1] <=> TimeConsistent(pieces))
\* every perturbation is refused
RejectsBad == (Done /\ pert[1] # "none") => IsErr(res)

\* concatenation is associative: any grouping into consecutive groups, each
\* concatenated first, gives the same result (or the same refusal)
RECURSIVE Groupings(_)
Groupings(n) == IF n = 0 THEN {<<>>}
                ELSE UNION {{<<k>> \o g : g \in Groupings(n - k)} : k \in 1..n}
RECURSIVE Starts(_, _, _)
Starts(g, i, acc) == IF i > Len(g) THEN <<>> ELSE <<acc>> \o Starts(g, i + 1, acc + g[i])
Grouped(ps, g) ==
  LET st == Starts(g, 1, 1)
  IN [i \in 1..Len(g) |-> ConcatOp(SubSeq(ps, st[i], st[i] + g[i] - 1), axis)]
Associative ==
  Done =>
    \A g \in Groupings(Len(pieces)) :
      LET inner == Grouped(pieces, g)
      IN IF \E i \in 1..Len(inner) : IsErr(inner[i])
         THEN IsErr(res)
         ELSE LET outer == ConcatOp(inner, axis)
              IN IF IsErr(res) THEN IsErr(outer)
                 ELSE ~IsErr(outer) /\ outer.src = res.src /\ outer.chs = res.chs
                      /\ outer.sig.len = res.sig.len /\ outer.sig.hasT = res.sig.hasT
                      /\ outer.sig.t0 = res.sig.t0 /\ outer.sig.per = res.sig.per
                      /\ (IsRadio(root.cls) => LabelsOf(outer.sig) = LabelsOf(res.sig))
=============================================================================
