---------------------------- MODULE MC_FastLen ----------------------------
EXTENDS FastLen
Both == {"next", "prev"}
OnlyNext == {"next"}
OnlyPrev == {"prev"}
Q_Ns == 0..20000
F_Ns == 0..200000
T_Ns == 0..2000
T2_Ns == 0..40
\* the functions agree with the relations (small range; evaluated once)
ASSUME \A n \in 0..300 : IsNextFast(n, NextFast(n)) /\ IsPrevFast(n, PrevFast(n))
ASSUME NextFast(0) = 0 /\ PrevFast(0) = 0 /\ NextFast(11) = 12 /\ PrevFast(11) = 10
=============================================================================
