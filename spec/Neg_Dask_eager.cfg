SPECIFICATION Spec
CONSTANTS
  Roots <- N_Roots
  Ops <- Q_Ops
  Scheds = {"sync"}
  MaxDepth = 1
  MaxRuns = 1
  MaxTasks = 12
  FftNeedsOneChunk = TRUE
  ChirpKeyByChannel = TRUE
  EagerOps <- N_EagerNames
  NumpyOps <- None_
  ReaderPerBlock = FALSE
  OverwriteTags <- None_
  StickyKwargs = FALSE
  LazySetitemLost = FALSE
  RollShortcut = FALSE
  SharedHandle = FALSE
VIEW View
PROPERTY Lazy
CHECK_DEADLOCK FALSE
