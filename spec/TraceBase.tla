------------------------------ MODULE TraceBase ------------------------------
(***************************************************************************)
(* Common part of every trace-validation specification (code -> spec).     *)
(*                                                                         *)
(* The harness records one JSON event per public call of the real code     *)
(* into the file named by IOEnv.TRACE_FILE (a JSON array).  A Trace_*      *)
(* module EXTENDS this one and defines, for an event e and the current     *)
(* specification state, the set of clause names the event violates.  The   *)
(* trace is consumed one event per TLC step; a rejected event never stops  *)
(* the run: its verdict is written to IOEnv.VERDICT_FILE (one JSON line    *)
(* per rejected event, plus one summary line) and validation continues     *)
(* with the next event, so the whole trace is always examined.             *)
(* Acceptance: POSTCONDITION AllConsumed.  Run with -workers 1.            *)
(***************************************************************************)
EXTENDS Integers, Sequences, TLC, Json, IOUtils, CSV

Trace == JsonDeserialize(IOEnv.TRACE_FILE)
NEvents == Len(Trace)

Report(i, e, failed) ==
  IF failed = {} THEN TRUE
  ELSE CSVWrite("%1$s", <<ToJson([line |-> i, id |-> e.id, ev |-> e.ev, failed |-> failed])>>,
                IOEnv.VERDICT_FILE)
Summary(n, nbad) ==
  CSVWrite("%1$s", <<ToJson([summary |-> TRUE, events |-> n, rejected |-> nbad])>>, IOEnv.VERDICT_FILE)
=============================================================================
