SPECIFICATION Spec
CONSTANTS
  Configs <- G_Configs
  Procs <- Q_Procs
  Args <- G2_Args
  MaxReads = 1
  Shared = FALSE
INVARIANT ReadIsFunctionOfArgs
INVARIANT EmitTerminal
CHECK_DEADLOCK FALSE
