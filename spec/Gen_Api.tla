------------------------------ MODULE Gen_Api ------------------------------
EXTENDS Api, Json, IOUtils, CSV
Emit == (call[1] # "none") =>
  CSVWrite("%1$s", <<ToJson([obj |-> obj, call |-> [k |-> call[1], a |-> ToString(call[2])], out |-> [st |-> out.st, v |-> ToString(out.v)]])>>, IOEnv.GEN_OUT)
=============================================================================
