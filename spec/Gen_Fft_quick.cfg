SPECIFICATION Spec
CONSTANTS
  Shapes <- Q_Shapes
  Level = 0
  Names <- AllNames
INVARIANT ShapeOK
INVARIANT RealOut
INVARIANT Emit
CHECK_DEADLOCK FALSE
