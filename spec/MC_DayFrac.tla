----------------------------- MODULE MC_DayFrac -----------------------------
EXTENDS DayFrac
\* quick: 4-bit significands, exponents -5..1 (values 2^-2 .. 30), all pairs
Q_P == 4
Q_EMin == -5
Q_EMax == 1
Q_Factors == {<<3, 0>>, <<5, -3>>, <<-7, -2>>}
Q_Divisors == {<<3, 0>>, <<5, -3>>, <<-7, -2>>}
\* full: 5-bit significands (DESIGN C07 MC-2), exponents -8..1 (values 2^-4 .. 62)
F_P == 5
F_EMin == -8
F_EMax == 1
F_Factors == {<<3, 0>>, <<5, -3>>, <<-7, -2>>, <<13, -5>>, <<31, -4>>, <<17, -7>>}
F_Divisors == {<<3, 0>>, <<5, -3>>, <<-7, -2>>, <<11, -1>>, <<29, -6>>, <<25, -2>>}
=============================================================================
