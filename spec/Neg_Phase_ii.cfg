SPECIFICATION Spec
CONSTANTS
  MaxK <- N_MaxK
  Lits <- N_Lits
  Factors <- N_Factors
  OKinds <- AllOKinds
  Variant = "pinned_ii"
INVARIANT ImagRule
CHECK_DEADLOCK FALSE
