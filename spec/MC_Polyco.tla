----------------------------- MODULE MC_Polyco -----------------------------
(***************************************************************************)
(* Exhaustive check of the span logic of PhasePredictor (property C08) on  *)
(* an integer time lattice.  One lattice unit is half a millisecond, so    *)
(* the 1 ms tolerance of the code is TolU = 2 units; all rows have the     *)
(* same span length L (the constructor refuses anything else).  A table is *)
(* built row by row (TMIDs in non-decreasing order, as the constructor     *)
(* sorts them; duplicates allowed), then the `intervals` loop of the code  *)
(* is run one iteration per step, and in the final state every query time  *)
(* of the lattice is examined.                                             *)
(*                                                                         *)
(* Consecutive TMID differences cover: overlapping (< L), touching (= L),  *)
(* half a millisecond apart (L+1), exactly 1 ms apart (L+2, still merged), *)
(* 1.5 ms apart (L+3, separate) and far apart.                             *)
(***************************************************************************)
EXTENDS Integers, Sequences, FiniteSets, TLC
CONSTANTS L,          \* span length in lattice units (even)
          TolU,       \* 1 ms in lattice units
          TmidMax,    \* TMIDs range over 0..TmidMax
          MaxN,       \* at most this many rows
          UseTol,     \* TRUE: the code's merge; FALSE: negative model without tolerance
          Side,       \* "left": the code's searchsorted; "right": negative model
          InvCheck    \* "merged": time_at's range check against merged intervals (the code);
                      \* "entry": strictly inside one row's span (negative model)

IntLeq(x, y) == x <= y
IntNear(x, y) == (IF x >= y THEN x - y ELSE y - x) <= TolU
S == INSTANCE PolycoSpans WITH Leq <- IntLeq, Near <- IntNear

VARIABLES tm,   \* sequence of TMIDs (rows)
          pc,   \* "build" | "merge" | "done"
          ls    \* state of the merge loop
vars == <<tm, pc, ls>>
H == L \div 2
SpanOf(t) == [a |-> t - H, b |-> t + H]
Spans == [i \in 1..Len(tm) |-> SpanOf(tm[i])]
NoLoop == [stack |-> <<>>, start |-> 0, end |-> 0, merged |-> <<>>]

Init == tm = <<>> /\ pc = "build" /\ ls = NoLoop
AddRow == /\ pc = "build" /\ Len(tm) < MaxN
          /\ \E t \in (IF tm = <<>> THEN 0 ELSE tm[Len(tm)])..TmidMax : tm' = Append(tm, t)
          /\ UNCHANGED <<pc, ls>>
Freeze == /\ pc = "build" /\ tm # <<>>
          /\ pc' = "merge" /\ ls' = S!LoopInit(Spans) /\ UNCHANGED tm
Iterate == /\ pc = "merge"
           /\ IF S!LoopDone(ls) THEN pc' = "done" /\ UNCHANGED ls
              ELSE ls' = S!LoopStep(ls, UseTol) /\ UNCHANGED pc
           /\ UNCHANGED tm
Next == AddRow \/ Freeze \/ Iterate
Spec == Init /\ [][Next]_vars

\* ---- the code's answers in the final state
Merged == S!LoopResult(ls)
Times == (tm[1] - H - TolU - 3)..(tm[Len(tm)] + H + TolU + 3)
Index(t) == IF Side = "left" THEN S!SearchLeft(Spans, t) ELSE S!SearchRight(Spans, t)
\* _get_index_and_dt: "ValueError", "IndexError" or the selected row
Answer(t) == IF ~S!Accepts(Merged, t) THEN "ValueError"
             ELSE IF Index(t) > Len(tm) THEN "IndexError" ELSE "row"

\* time_at's range check.  On the lattice the phase is a strictly increasing function of time, so
\* a phase is identified with the instant it is predicted for:
\*   check = any(self(a) < phase < self(b) for a, b in self.intervals)   else ValueError
InvAccepts(t) ==
  IF InvCheck = "merged" THEN \E k \in 1..Len(Merged) : Merged[k].a < t /\ t < Merged[k].b
  ELSE \E i \in 1..Len(tm) : Spans[i].a < t /\ t < Spans[i].b

\* ---- invariants (clauses of C08)
\* the loop, run step by step, ends with exactly the declared union
MergeLoopIsDeclared ==
  pc = "done" => S!IsAscendingEnumOf(Merged, S!DeclaredMerge(Spans))
\* the step-wise run equals the recursive operator used by the trace specification
LoopOperatorAgrees ==
  (pc = "done" /\ UseTol) => Merged = S!MergeLoop(Spans)
\* a time inside some row's span is accepted and evaluated from a row containing it
SelectIsContaining ==
  pc = "done" => \A t \in Times :
     S!Containing(Spans, t) # {} => (Answer(t) = "row" /\ Index(t) \in S!Containing(Spans, t))
\* a time outside every declared interval raises ValueError; nothing else does
OutsideRaises ==
  pc = "done" => \A t \in Times :
     (Answer(t) = "ValueError") <=> ~(\E iv \in S!DeclaredMerge(Spans) : S!InSpan(iv, t))
\* inside a tolerated (<= 1 ms) gap the call neither raises nor crashes
GapNoCrash ==
  pc = "done" => \A t \in Times : S!InToleratedGap(Spans, t) => Answer(t) = "row"
\* time_at accepts exactly the phases predicted strictly inside a declared interval: in
\* particular the instant where two rows touch (and a tolerated gap) is invertible
InverseRange ==
  pc = "done" => \A t \in Times :
     InvAccepts(t) <=> (\E iv \in S!DeclaredMerge(Spans) : iv.a < t /\ t < iv.b)
\* vacuity guards: reported through TLCGet/TLCSet counters at the end
=============================================================================
