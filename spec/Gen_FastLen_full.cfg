SPECIFICATION Spec
CONSTANTS
  Ns <- F_Ns
  Fns <- Both
  Guess2 = TRUE
  OddBreak = TRUE
  PrevLe = TRUE
INVARIANT Terminates
INVARIANT ResultIsNext
INVARIANT ResultIsPrev
INVARIANT ZeroIsZero
INVARIANT EmitDone
CHECK_DEADLOCK TRUE
