------------------------------- MODULE Polyco -------------------------------
(***************************************************************************)
(* Property C08: tempo-style polyco files and the phase they predict.      *)
(*                                                                         *)
(*  1. Decimal(bytes)   a decimal numeral (sign, digits, '.', exponent     *)
(*                      marked E/e/D/d) as an exact number m * 10^e        *)
(*  2. Parse(bytes)     the polyco text format as from_polyco reads it:    *)
(*                      lines, whitespace-separated fields, two header     *)
(*                      lines and ceil(NCOEFF/3) coefficient lines per     *)
(*                      entry                                              *)
(*  3. Predict, Deriv   the tempo formula                                  *)
(*        DT    = (T - TMID) * 1440                         (minutes)      *)
(*        PHASE = RPHASE + 60*DT*F0 + SUM_i COEFF(i) * DT^(i-1)            *)
(*                      and its exact derivatives, on exact numbers        *)
(*  4. spans            TMID -/+ SPAN/2, membership, Merge (PolycoSpans)   *)
(*                                                                         *)
(* Numbers.  A decimal is [m |-> BigInt, e |-> Int] = m * 10^e; an IEEE    *)
(* double arrives as a dyadic [m |-> BigInt, e |-> Int] = m * 2^e.  A      *)
(* polynomial with decimal coefficients is brought to one common power of  *)
(* ten (integers a_i with A_i = a_i / 10^s) and evaluated at a dyadic      *)
(* argument N / 2^k by an integer Horner scheme                            *)
(*     P = SUM_i a_i N^i 2^(k(n-i)),   value = P / (10^s 2^(kn)),          *)
(* so that one evaluation costs n multiplications of a long by a short     *)
(* number and no division; values are compared by cross-multiplication.    *)
(***************************************************************************)
EXTENDS Rat, FiniteSets

(***************************************************************************)
(* Bytes, lines, fields                                                    *)
(***************************************************************************)
WS == {9, 10, 11, 12, 13, 32}            \* what str.split() strips (ASCII)
NL == 10
IsDigit(c) == c >= 48 /\ c <= 57

\* first index j >= i with b[j] in (or not in) set C; Len(b) + 1 if none
RECURSIVE FindIn(_, _, _)
FindIn(b, i, C) == IF i > Len(b) THEN i ELSE IF b[i] \in C THEN i ELSE FindIn(b, i + 1, C)
RECURSIVE FindNotIn(_, _, _)
FindNotIn(b, i, C) == IF i > Len(b) THEN i ELSE IF b[i] \notin C THEN i ELSE FindNotIn(b, i + 1, C)

\* readline(): the text is cut after every '\n'; a last unterminated piece is a line
RECURSIVE LinesR(_, _, _)
LinesR(b, i, acc) ==
  IF i > Len(b) THEN acc
  ELSE LET j == FindIn(b, i, {NL})
       IN LinesR(b, j + 1, Append(acc, SubSeq(b, i, j - 1)))
Lines(b) == LinesR(b, 1, <<>>)

\* str.split(): maximal runs of non-whitespace
RECURSIVE FieldsR(_, _, _)
FieldsR(b, i, acc) ==
  LET s == FindNotIn(b, i, WS)
  IN IF s > Len(b) THEN acc
     ELSE LET t == FindIn(b, s, WS)
          IN FieldsR(b, t, Append(acc, SubSeq(b, s, t - 1)))
Fields(b) == FieldsR(b, 1, <<>>)

(***************************************************************************)
(* Decimal numerals                                                        *)
(*   [+-] digits* [ '.' digits* ] [ (E|e|D|d) [+-] digits+ ]               *)
(* with at least one digit in the mantissa.  Result:                       *)
(*   [ok |-> TRUE, m |-> signed BigInt, e |-> Int]   (value m * 10^e)      *)
(***************************************************************************)
\* digits b[lo..hi] (all digits) -> natural number, four digits per step
RECURSIVE DigitsR(_, _, _, _)
DigitsR(b, i, hi, acc) ==
  IF i > hi THEN acc
  ELSE IF hi - i >= 3
  THEN DigitsR(b, i + 4, hi,
         NAdd(NMulSmall(acc, 10000),
              NFromInt((b[i] - 48) * 1000 + (b[i + 1] - 48) * 100 + (b[i + 2] - 48) * 10 + (b[i + 3] - 48))))
  ELSE DigitsR(b, i + 1, hi, NAdd(NMulSmall(acc, 10), NFromInt(b[i] - 48)))
DigitsNat(b, lo, hi) == DigitsR(b, lo, hi, <<>>)
AllDigits(b, lo, hi) == \A i \in lo..hi : IsDigit(b[i])
\* small decimal integer (exponents, SPAN, NCOEFF): at most 9 digits
RECURSIVE SmallR(_, _, _, _)
SmallR(b, i, hi, acc) == IF i > hi THEN acc ELSE SmallR(b, i + 1, hi, acc * 10 + (b[i] - 48))
SmallInt(b, lo, hi) == SmallR(b, lo, hi, 0)
IsSmallInt(b) == Len(b) >= 1 /\ Len(b) <= 9 /\ AllDigits(b, 1, Len(b))

BadNumber == [ok |-> FALSE, m |-> Zero, e |-> 0]
Decimal(b) ==
  LET n == Len(b)
      neg == n >= 1 /\ b[1] = 45
      i0 == IF n >= 1 /\ b[1] \in {43, 45} THEN 2 ELSE 1       \* after the sign
      i1 == FindNotIn(b, i0, 48..57)                          \* end of integer digits
      dot == i1 <= n /\ b[i1] = 46
      f0 == IF dot THEN i1 + 1 ELSE i1                         \* first fraction digit
      i2 == IF dot THEN FindNotIn(b, f0, 48..57) ELSE i1       \* end of fraction digits
      nint == i1 - i0
      nfrac == i2 - f0
      hasexp == i2 <= n
      x0 == IF hasexp /\ i2 + 1 <= n /\ b[i2 + 1] \in {43, 45} THEN i2 + 2 ELSE i2 + 1
      xneg == hasexp /\ i2 + 1 <= n /\ b[i2 + 1] = 45
      expok == ~hasexp \/ (b[i2] \in {69, 101, 68, 100} /\ x0 <= n /\ n - x0 <= 3 /\ AllDigits(b, x0, n))
      x == IF hasexp /\ expok THEN (IF xneg THEN -SmallInt(b, x0, n) ELSE SmallInt(b, x0, n)) ELSE 0
      mant == NAdd(NMul(DigitsNat(b, i0, i1 - 1), NPow(<<10>>, nfrac)), DigitsNat(b, f0, i2 - 1))
  IN IF n = 0 \/ nint + nfrac = 0 \/ ~expok THEN BadNumber
     ELSE [ok |-> TRUE, m |-> Mk(neg, mant), e |-> x - nfrac]

DecRat(d) == IF d.e >= 0 THEN RInt(Mul(d.m, Pow10(d.e))) ELSE R(d.m, Pow10(-d.e))
DecOfInt(k) == [ok |-> TRUE, m |-> FromInt(k), e |-> 0]

(***************************************************************************)
(* Parse: the file as from_polyco reads it                                 *)
(*                                                                         *)
(*   while (line := readline()):                                           *)
(*       psr, _, _, TMID, dm, *_       = line.split()                      *)
(*       RPHASE, F0, obs, SPAN, NCOEFF, freq, *_ = readline().split()      *)
(*       coefficients = the fields of the next ceil(NCOEFF/3) lines,       *)
(*                      with D/d read as the exponent mark                 *)
(*                                                                         *)
(* An entry is [tmid, span, rphase, f0, ncoeff, c] with tmid, rphase, f0   *)
(* and c[1..ncoeff] decimals and span (minutes), ncoeff integers.  A text  *)
(* that does not have this shape (missing lines or fields, a numeral that  *)
(* is not a decimal, a coefficient count different from NCOEFF) gives      *)
(* ok = FALSE: the tempo format does not define it.                        *)
(***************************************************************************)
RECURSIVE CoefFields(_, _, _, _)
CoefFields(lines, i, hi, acc) ==
  IF i > hi THEN acc ELSE CoefFields(lines, i + 1, hi, acc \o Fields(lines[i]))

RECURSIVE ParseR(_, _, _)
ParseR(lines, li, acc) ==
  IF li > Len(lines) THEN [ok |-> TRUE, entries |-> acc]
  ELSE IF li + 1 > Len(lines) THEN [ok |-> FALSE, entries |-> acc]
  ELSE
    LET h1 == Fields(lines[li])
        h2 == Fields(lines[li + 1])
    IN IF Len(h1) < 5 \/ Len(h2) < 6 \/ ~IsSmallInt(h2[4]) \/ ~IsSmallInt(h2[5])
       THEN [ok |-> FALSE, entries |-> acc]
       ELSE
         LET ncoeff == SmallInt(h2[5], 1, Len(h2[5]))
             span == SmallInt(h2[4], 1, Len(h2[4]))
             nl == (ncoeff + 2) \div 3
             cf == IF li + 1 + nl <= Len(lines) THEN CoefFields(lines, li + 2, li + 1 + nl, <<>>) ELSE <<>>
             c == [i \in 1..Len(cf) |-> Decimal(cf[i])]
             tmid == Decimal(h1[4])
             rphase == Decimal(h2[1])
             f0 == Decimal(h2[2])
         IN IF \/ li + 1 + nl > Len(lines) \/ ncoeff < 1 \/ Len(cf) # ncoeff \/ span < 1
               \/ ~tmid.ok \/ ~rphase.ok \/ ~f0.ok \/ \E i \in 1..Len(c) : ~c[i].ok
               \/ tmid.e > 0 \/ tmid.e < -30          \* TMID is a plain decimal
            THEN [ok |-> FALSE, entries |-> acc]
            ELSE ParseR(lines, li + 2 + nl,
                        Append(acc, [tmid |-> tmid, span |-> span, rphase |-> rphase, f0 |-> f0,
                                     ncoeff |-> ncoeff, c |-> c]))
Parse(bytes) == ParseR(Lines(bytes), 1, <<>>)

(***************************************************************************)
(* Exact numbers: dyadics and common-scale integer polynomials             *)
(***************************************************************************)
Dy(m, e) == [m |-> m, e |-> e]
DyAdd(x, y) ==
  IF x.e <= y.e THEN Dy(Add(x.m, Shl(y.m, y.e - x.e)), x.e)
  ELSE Dy(Add(Shl(x.m, x.e - y.e), y.m), y.e)
DyNeg(x) == Dy(Neg(x.m), x.e)
DySub(x, y) == DyAdd(x, DyNeg(y))
DyMulInt(x, k) == Dy(MulInt(x.m, k), x.e)
DyRat(x) == RDy(x.m, x.e)
\* as N / 2^k with k >= 0
DyFrac(x) == IF x.e >= 0 THEN [N |-> Shl(x.m, x.e), k |-> 0] ELSE [N |-> x.m, k |-> -x.e]

\* powers of ten 10^0 .. 10^S as a sequence (index k + 1)
RECURSIVE P10R(_, _)
P10R(acc, S) == IF Len(acc) > S THEN acc ELSE P10R(Append(acc, NMulSmall(acc[Len(acc)], 10)), S)
P10Tab(S) == P10R(<<<<1>>>>, S)

MinI2(x, y) == IF x <= y THEN x ELSE y
RECURSIVE MinExpR(_, _, _)
MinExpR(ds, i, acc) == IF i > Len(ds) THEN acc ELSE MinExpR(ds, i + 1, MinI2(acc, ds[i].e))
\* decimals ds -> [s, a] with ds[i] = a[i] / 10^s, a[i] integers
CommonScale(ds) ==
  LET s == -MinExpR(ds, 1, 0)
      tab == P10Tab(s + 1)
  IN [s |-> s,
      a |-> [i \in 1..Len(ds) |-> IF ds[i].e + s = 0 THEN ds[i].m
                                  ELSE Mk(ds[i].m.n, NMul(ds[i].m.m, tab[ds[i].e + s + 1]))]]

\* SUM_i a[i] N^(i-1) 2^(k (n - i + 1)),  n = Len(a) - 1   (numerator of the value)
RECURSIVE HornerR(_, _, _, _, _)
HornerR(a, N, k, i, acc) ==
  IF i = 0 THEN acc
  ELSE HornerR(a, N, k, i - 1, Add(Mul(acc, N), Shl(a[i], k * (Len(a) - i))))
HornerNum(a, N, k) == IF a = <<>> THEN Zero ELSE HornerR(a, N, k, Len(a) - 1, a[Len(a)])
\* value of the polynomial with coefficients a[i] / 10^s at N / 2^k, as a Rat
\* (ten = 10^s is kept with the entry so that it is not recomputed for every evaluation)
PolyValue(a, ten, N, k) ==
  IF a = <<>> THEN RZero
  ELSE R(HornerNum(a, N, k), Shl(ten, k * (Len(a) - 1)))

\* (j+1)(j+2)...(j+m) as a BigInt
RECURSIVE RisingR(_, _, _)
RisingR(j, m, acc) == IF m = 0 THEN acc ELSE RisingR(j, m - 1, MulInt(acc, j + m))
Rising(j, m) == RisingR(j, m, One)
\* coefficients of the m-th derivative
DerivCoeffs(a, m) ==
  IF m >= Len(a) THEN <<>>
  ELSE [j \in 1..(Len(a) - m) |-> Mul(a[j + m], Rising(j - 1, m))]
AbsCoeffs(a) == [i \in 1..Len(a) |-> Abs(a[i])]

(***************************************************************************)
(* The tempo formula                                                       *)
(*   A(1) = COEFF(1) + RPHASE,  A(2) = COEFF(2) + 60 F0,  A(i) = COEFF(i)  *)
(*   PHASE = SUM_i A(i) DT^(i-1)                                           *)
(* Prepared(e) adds the common-scale integers to a parsed entry.           *)
(***************************************************************************)
DecMulInt(d, k) == [ok |-> TRUE, m |-> MulInt(d.m, k), e |-> d.e]
Prepared(e) ==
  LET f60 == DecMulInt(e.f0, 60)
      all == e.c \o <<e.rphase, f60>>           \* one scale for everything
      cs == CommonScale(all)
      n == e.ncoeff
      rph == cs.a[n + 1]
      lin == cs.a[n + 2]
      c == SubSeq(cs.a, 1, n)
      \* NCOEFF = 1 still has the linear term 60 DT F0
      cc == IF n = 1 THEN <<c[1], Zero>> ELSE c
  IN [tmid |-> e.tmid, span |-> e.span, rphase |-> e.rphase, f0 |-> e.f0, ncoeff |-> n, c |-> e.c,
      s |-> cs.s, ten |-> Pow10(cs.s),
      a |-> [i \in 1..Len(cc) |-> IF i = 1 THEN Add(cc[1], rph) ELSE IF i = 2 THEN Add(cc[2], lin) ELSE cc[i]],
      \* the coefficients without RPHASE and 60 F0 (for error budgets)
      small |-> AbsCoeffs(cc),
      lin |-> lin]

\* DT in minutes as a dyadic, from a dyadic number of days
MinutesOfDays(d) == Dy(MulInt(d.m, 45), d.e + 5)              \* 1440 = 45 * 2^5
\* PHASE at DT = dt (dyadic minutes)
Predict(p, dt) == LET f == DyFrac(dt) IN PolyValue(p.a, p.ten, f.N, f.k)
\* d^m PHASE / dt^m with t in seconds: cycles / s^m
Deriv(p, m, dt) ==
  LET f == DyFrac(dt)
      v == PolyValue(DerivCoeffs(p.a, m), p.ten, f.N, f.k)
  IN R(v.p, Mul(v.q, Pow(FromInt(60), m)))
\* SUM_i |coefficient of the m-th derivative| |DT|^i: the scale against which the
\* rounding of a floating-point evaluation is measured
DerivScale(p, m, dt) ==
  LET f == DyFrac(dt)
      v == PolyValue(AbsCoeffs(DerivCoeffs(p.a, m)), p.ten, Abs(f.N), f.k)
  IN R(v.p, Mul(v.q, Pow(FromInt(60), m)))
SmallScale(p, dt) == LET f == DyFrac(dt) IN PolyValue(p.small, p.ten, Abs(f.N), f.k)
LinearTerm(p, dt) == LET f == DyFrac(dt) IN R(Abs(Mul(p.lin, f.N)), Shl(p.ten, f.k))

(***************************************************************************)
(* Judging an observed double against an exact value without division:     *)
(* the values above have very long denominators q; |obs - p/q| is kept as  *)
(* L / (2^g q) and compared by multiplying through.                        *)
(***************************************************************************)
ErrOf(obs, v) ==
  LET g == IF obs.e < 0 THEN -obs.e ELSE 0
      mo == IF obs.e < 0 THEN obs.m ELSE Shl(obs.m, obs.e)
  IN [L |-> Abs(Sub(Mul(mo, v.q), Shl(v.p, g))), g |-> g, q |-> v.q]
\* L / (2^g q)  <=  t + wn 2^ws / q     (t a short Rat >= 0, wn a BigInt >= 0)
ErrWithin(err, t, wn, ws) ==
  LET lhs == Mul(err.L, t.q)
      a == Mul(err.q, t.p)
      b == Mul(wn, t.q)
  IN IF ws >= 0 THEN Le(lhs, Shl(Add(a, Shl(b, ws)), err.g))
     ELSE Le(Shl(lhs, -ws), Shl(Add(Shl(a, -ws), b), err.g))
ErrRat(err) == R(err.L, Shl(err.q, err.g))

(***************************************************************************)
(* Spans (exact rationals, MJD days) and their merge                       *)
(***************************************************************************)
MS == R(One, FromInt(86400000))                               \* 1 ms in days
RNear(x, y) == RLe(RAbs(RSub(x, y)), MS)
SP == INSTANCE PolycoSpans WITH Leq <- RLe, Near <- RNear
SpanOfEntry(e) ==
  LET t == DecRat(e.tmid)
      h == R(FromInt(e.span), FromInt(2880))                  \* SPAN/2 minutes in days
  IN [a |-> RSub(t, h), b |-> RAdd(t, h)]
SpansOf(entries) == [i \in 1..Len(entries) |-> SpanOfEntry(entries[i])]
MergeOfSpans(sp) == SP!MergeLoop(sp)
DeclaredOfSpans(sp) == SP!DeclaredMerge(sp)
Merge(entries) == LET sp == SpansOf(entries) IN SP!MergeLoop(sp)
DeclaredMerge(entries) == LET sp == SpansOf(entries) IN SP!DeclaredMerge(sp)
\* rows whose span contains T (an entry "selected" for T is any of these)
Select(entries, T) == SP!Containing(SpansOf(entries), T)

\* the constructor sorts the rows by TMID (stable)
RECURSIVE InsertByTmid(_, _, _)
InsertByTmid(sorted, e, i) ==
  IF i = 0 \/ RLe(DecRat(sorted[i].tmid), DecRat(e.tmid))
  THEN SubSeq(sorted, 1, i) \o <<e>> \o SubSeq(sorted, i + 1, Len(sorted))
  ELSE InsertByTmid(sorted, e, i - 1)
RECURSIVE SortByTmidR(_, _, _)
SortByTmidR(es, i, acc) ==
  IF i > Len(es) THEN acc ELSE SortByTmidR(es, i + 1, InsertByTmid(acc, es[i], Len(acc)))
SortByTmid(es) == SortByTmidR(es, 1, <<>>)
=============================================================================
