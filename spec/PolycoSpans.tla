---------------------------- MODULE PolycoSpans ----------------------------
(***************************************************************************)
(* Validity spans of a polyco table over an abstract, totally ordered time *)
(* domain (property C08).  The module is instantiated twice:               *)
(*   - MC_Polyco: times are integers on a lattice (exhaustive checking),   *)
(*   - Polyco / Trace_Polyco: times are exact rationals (Rat), MJD days.   *)
(*                                                                         *)
(* A span is a record [a |-> start, b |-> end]; a table is a sequence of   *)
(* spans in row order (rows are sorted by TMID by the constructor, and all *)
(* rows have the same length, so rows are also sorted by start and end).   *)
(*                                                                         *)
(*   Leq(x, y)   x <= y                                                    *)
(*   Near(x, y)  |x - y| <= 1 ms   (Time.isclose(.., 1 ms) of the code)    *)
(***************************************************************************)
EXTENDS Integers, Sequences, FiniteSets
CONSTANTS Leq(_, _), Near(_, _)

Lt(x, y) == ~Leq(y, x)
MinT(x, y) == IF Leq(x, y) THEN x ELSE y
MaxT(x, y) == IF Leq(x, y) THEN y ELSE x
InSpan(s, t) == Leq(s.a, t) /\ Leq(t, s.b)

(***************************************************************************)
(* 1. Operational transcription of PhasePredictor.intervals                *)
(*                                                                         *)
(*   intervals = sorted(zip(tstart, tstop), key=lambda x: x[1])            *)
(*   merged = []                                                           *)
(*   start, end = intervals.pop()                                          *)
(*   while intervals:                                                      *)
(*       next_start, next_end = intervals.pop()                            *)
(*       if next_end >= start or start.isclose(next_end, 1 ms):            *)
(*           start = min(start, next_start)                                *)
(*       else:                                                             *)
(*           merged.append([start, end]); start, end = next_start, next_end*)
(*   merged.append([start, end]); return tuple(reversed(merged))           *)
(***************************************************************************)
\* Python's sorted(): stable insertion by end
RECURSIVE InsertByEnd(_, _, _)
InsertByEnd(sorted, s, i) ==
  IF i = 0 \/ Leq(sorted[i].b, s.b)
  THEN SubSeq(sorted, 1, i) \o <<s>> \o SubSeq(sorted, i + 1, Len(sorted))
  ELSE InsertByEnd(sorted, s, i - 1)
RECURSIVE SortByEndR(_, _, _)
SortByEndR(spans, i, acc) ==
  IF i > Len(spans) THEN acc
  ELSE SortByEndR(spans, i + 1, InsertByEnd(acc, spans[i], Len(acc)))
SortByEnd(spans) == SortByEndR(spans, 1, <<>>)

\* loop state: [stack, start, end, merged]
LoopInit(spans) ==
  LET st == SortByEnd(spans)
      top == st[Len(st)]
  IN [stack |-> SubSeq(st, 1, Len(st) - 1), start |-> top.a, end |-> top.b, merged |-> <<>>]
\* Tol = TRUE: the code; Tol = FALSE: the merge without the 1 ms tolerance
\* (negative model, must be rejected by MergeLoopIsDeclared)
LoopStep(ls, Tol) ==
  LET nx == ls.stack[Len(ls.stack)]
      rest == SubSeq(ls.stack, 1, Len(ls.stack) - 1)
  IN IF Leq(ls.start, nx.b) \/ (Tol /\ Near(ls.start, nx.b))
     THEN [ls EXCEPT !.stack = rest, !.start = MinT(ls.start, nx.a)]
     ELSE [stack |-> rest, start |-> nx.a, end |-> nx.b,
           merged |-> Append(ls.merged, [a |-> ls.start, b |-> ls.end])]
LoopDone(ls) == ls.stack = <<>>
Reverse(s) == [i \in 1..Len(s) |-> s[Len(s) + 1 - i]]
LoopResult(ls) == Reverse(Append(ls.merged, [a |-> ls.start, b |-> ls.end]))

RECURSIVE LoopRun(_, _)
LoopRun(ls, Tol) == IF LoopDone(ls) THEN LoopResult(ls) ELSE LoopRun(LoopStep(ls, Tol), Tol)
MergeLoop(spans) == LoopRun(LoopInit(spans), TRUE)            \* spans # <<>>

(***************************************************************************)
(* 2. Declarative: the union of the spans, where two spans are joined when *)
(* they overlap, touch, or are at most 1 ms apart.                         *)
(***************************************************************************)
Joined(s, t) == /\ (Leq(s.a, t.b) \/ Near(s.a, t.b))
                /\ (Leq(t.a, s.b) \/ Near(t.a, s.b))
\* reachability on row indices: the relation is tabulated once, then the class
\* of each row is grown to a fixpoint
RECURSIVE Grow(_, _, _)
Grow(J, n, C) ==
  LET D == C \cup {j \in 1..n : \E i \in C : J[i][j]}
  IN IF D = C THEN C ELSE Grow(J, n, D)
Classes(spans) ==
  LET n == Len(spans)
      J == [i \in 1..n |-> [j \in 1..n |-> Joined(spans[i], spans[j])]]
  IN {Grow(J, n, {i}) : i \in 1..n}
Hull(spans, C) ==
  LET lo == CHOOSE i \in C : \A j \in C : Leq(spans[i].a, spans[j].a)
      hi == CHOOSE i \in C : \A j \in C : Leq(spans[j].b, spans[i].b)
  IN [a |-> spans[lo].a, b |-> spans[hi].b]
DeclaredMerge(spans) == {Hull(spans, C) : C \in Classes(spans)}

\* a sequence is the ascending enumeration of a set of disjoint intervals
IsAscendingEnumOf(seq, S) ==
  /\ {seq[i] : i \in 1..Len(seq)} = S
  /\ Len(seq) = Cardinality(S)
  /\ \A i \in 1..(Len(seq) - 1) : Lt(seq[i].b, seq[i + 1].a)

(***************************************************************************)
(* 3. Range check and row selection of _get_index_and_dt                   *)
(*      check = any(a <= t <= b for a, b in intervals) else ValueError     *)
(*      index = np.searchsorted(span_ends, t)      (side = 'left')         *)
(***************************************************************************)
Accepts(merged, t) == \E i \in 1..Len(merged) : InSpan(merged[i], t)
\* side = 'left': number of ends strictly below t, plus one (may be Len + 1)
SearchLeft(spans, t) == 1 + Cardinality({i \in 1..Len(spans) : Lt(spans[i].b, t)})
SearchRight(spans, t) == 1 + Cardinality({i \in 1..Len(spans) : Leq(spans[i].b, t)})
Containing(spans, t) == {i \in 1..Len(spans) : InSpan(spans[i], t)}
\* t lies in a gap of at most 1 ms between two joined spans: inside a merged
\* interval but in no span (the property leaves the outcome open there)
InToleratedGap(spans, t) == Containing(spans, t) = {} /\ Accepts(MergeLoop(spans), t)
=============================================================================
