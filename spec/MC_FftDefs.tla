----------------------------- MODULE MC_FftDefs -----------------------------
(* state-independent properties of the fourteen definitions, checked once *)
EXTENDS Gen_Fft
ASSUME NamesDistinctT
ASSUME InversePairs
ASSUME RealInverse
=============================================================================
