----------------------------- MODULE MC_FftDefs -----------------------------
(* state-independent properties of the fourteen definitions: checked as invariants of a *)
(* one-case instance (they only need the tables held in `tab`)                          *)
EXTENDS Gen_Fft
One_Shapes == {<<3>>}
One_Names == {"fft"}
=============================================================================
