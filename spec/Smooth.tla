------------------------------- MODULE Smooth -------------------------------
(***************************************************************************)
(* C18: the lattice of 7-smooth numbers below a bound.                     *)
(*                                                                         *)
(* State: the exponent vector (a, b, c, d) and the value 2^a 3^b 5^c 7^d   *)
(* as a BigInt.  Actions: multiply by 2, 3, 5 or 7 while the product stays *)
(* below 2^Bits.  The reachable set is exactly the set of 7-smooth         *)
(* numbers in [1, 2^Bits): closed under the four multiplications from 1,   *)
(* and every such number is reached by its own factorisation.  TLC         *)
(* enumerates it exhaustively (75 711 states for Bits = 62).               *)
(***************************************************************************)
EXTENDS BigInt, TLC
CONSTANT Bits
VARIABLES a, b, c, d, v
vars == <<a, b, c, d, v>>
Limit == Pow2(Bits)
Init == a = 0 /\ b = 0 /\ c = 0 /\ d = 0 /\ v = One
Times(k) == LET w == MulInt(v, k) IN Lt(w, Limit) /\ v' = w
Next == \/ Times(2) /\ a' = a + 1 /\ UNCHANGED <<b, c, d>>
        \/ Times(3) /\ b' = b + 1 /\ UNCHANGED <<a, c, d>>
        \/ Times(5) /\ c' = c + 1 /\ UNCHANGED <<a, b, d>>
        \/ Times(7) /\ d' = d + 1 /\ UNCHANGED <<a, b, c>>
Spec == Init /\ [][Next]_vars

\* the value is what the exponents say (checked by division, not by the
\* multiplications that built it)
RECURSIVE DivOut(_, _, _)
DivOut(w, p, k) == IF k = 0 THEN w ELSE DivOut(NDivSmall(w, p)[1], p, k - 1)
RECURSIVE DivRem(_, _, _)
DivRem(w, p, k) == IF k = 0 THEN TRUE
                   ELSE LET qr == NDivSmall(w, p) IN qr[2] = 0 /\ DivRem(qr[1], p, k - 1)
ValueIsProduct ==
  /\ DivRem(v.m, 2, a)
  /\ DivRem(DivOut(v.m, 2, a), 3, b)
  /\ DivRem(DivOut(DivOut(v.m, 2, a), 3, b), 5, c)
  /\ DivRem(DivOut(DivOut(DivOut(v.m, 2, a), 3, b), 5, c), 7, d)
  /\ DivOut(DivOut(DivOut(DivOut(v.m, 2, a), 3, b), 5, c), 7, d) = <<1>>
InRange == IsBig(v) /\ ~v.n /\ Lt(v, Limit) /\ Le(One, v)
=============================================================================
