--------------------------- MODULE Gen_FastLenSig ---------------------------
EXTENDS FastLenSig, Json, IOUtils, CSV
Q_Lens == 0..64
Q_Bounds == {-3, 1, 5}
Q_Steps == {2, 3}
F_Lens == 0..130
F_Bounds == {-70, -3, 1, 2, 5, 40}
F_Steps == {1, 2, 3, 5}
Emit == After => CSVWrite("%1$s", <<ToJson([root |-> [len |-> root.len, hasT |-> root.hasT], hist |-> hist,
           pre |-> [len |-> pre.len, k0 |-> pre.k0, stride |-> pre.stride],
           cur |-> [len |-> cur.len, t0 |-> cur.t0, per |-> cur.per, k0 |-> cur.k0,
                    stride |-> cur.stride, hasT |-> cur.hasT]])>>, IOEnv.GEN_OUT)
=============================================================================
