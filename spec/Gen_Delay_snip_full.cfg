SPECIFICATION Spec
CONSTANTS
  Mode = "snip"
  Lens <- F_Lens
  NCols = 6
  NReal = 3
INVARIANT Emit
CHECK_DEADLOCK FALSE
