SPECIFICATION Spec
CONSTANTS
  RootLens <- Q_RootLens
  Classes <- AllClasses
  NChans <- Q_NChans
  Aligns <- AllAligns
  MaxPieces = 3
  Perturbs <- AllPerturbs
INVARIANT SplitConcatIdentity
INVARIANT RejectsBad
INVARIANT LoopIsConsistency
INVARIANT Associative
CHECK_DEADLOCK FALSE
