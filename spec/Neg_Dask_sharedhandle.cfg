SPECIFICATION Spec
CONSTANTS
  Roots <- N_ReadsRoots
  Ops <- N_NoOps
  Scheds = {"any"}
  MaxDepth = 1
  MaxRuns = 1
  MaxTasks = 12
  FftNeedsOneChunk = TRUE
  ChirpKeyByChannel = TRUE
  EagerOps <- None_
  NumpyOps <- None_
  ReaderPerBlock = FALSE
  OverwriteTags <- None_
  StickyKwargs = FALSE
  LazySetitemLost = FALSE
  SharedHandle = TRUE
VIEW View
INVARIANT OrderIndependent
CHECK_DEADLOCK FALSE
