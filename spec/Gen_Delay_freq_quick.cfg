SPECIFICATION Spec
CONSTANTS
  Mode = "freq"
  Lens <- Q_Lens
  NCols = 4
  NReal = 2
INVARIANT Emit
CHECK_DEADLOCK FALSE
