SPECIFICATION Spec
CONSTANTS
  Mode = "freq"
  Lens <- Q_Lens
  NCols = 6
  NReal = 3
INVARIANT Emit
CHECK_DEADLOCK FALSE
