SPECIFICATION Spec
CONSTANTS
  RootLens <- Q_RootLens
  Classes <- AllClasses
  NChans <- Q_NChans
  Aligns <- AllAligns
  TBounds <- Q_TBounds
  TSteps <- Q_TSteps
  FBounds <- Q_FBounds
  XBounds <- Q_XBounds
  XSteps <- Q_XSteps
  Shifts <- Q_Shifts
  Delays <- Q_Delays
  IDelays <- Q_IDelays
  SnipT <- Q_SnipT
  SnipN <- Q_SnipN
  Ops <- AllOps
  MaxDepth = 1
  Fixed = FALSE
  SampleK = 0
  SampleRoots = 0
VIEW View
INVARIANT Timestamps
INVARIANT PeriodOK
INVARIANT NoTimeFromNowhere
INVARIANT ContainsOK
INVARIANT ChkOK
INVARIANT LabelsKept
INVARIANT LabelsInBand
INVARIANT BasebandCbw
INVARIANT AlignNormal
INVARIANT RadioShape
CHECK_DEADLOCK FALSE
