SPECIFICATION Spec
CONSTANTS
  Shapes <- Q_Shapes
  Full = TRUE
  Names <- AllNames
INVARIANT ShapeOK
INVARIANT RealOut
INVARIANT Emit
CHECK_DEADLOCK FALSE
