-------------------------------- MODULE Dask --------------------------------
(***************************************************************************)
(* C09 - Dask-backed pulsarbat signals: identical results, lazily, for any *)
(* chunking and any scheduler.                                             *)
(*                                                                         *)
(* A signal is an array with three axes (time, frequency, polarisation /   *)
(* rest) that is either NumPy-backed (back = "np": it holds its samples)   *)
(* or Dask-backed (back = "dask": it holds a chunk grid - one composition  *)
(* of every axis length - and, per block of the grid, the task that will   *)
(* produce the block).  Every public operation has                         *)
(*   - its NumPy meaning: one function applied to the whole array,         *)
(*   - a graph rule: the output chunk grid, one task per output block      *)
(*     (kind, parameters as the task closure holds them: block-local       *)
(*     offsets, the shifts of the block's own channels, ...), the input    *)
(*     blocks / helper tasks it depends on, and                            *)
(*   - a chunk precondition; operations that take an FFT along an axis     *)
(*     refuse (dask.array.fft.fft_wrap raises ValueError) unless that axis *)
(*     is a single chunk.                                                  *)
(* Samples are symbolic terms: the root sample (i,c,p) is X(i,c,p), an     *)
(* operation wraps the terms of the samples it reads.  BlockEval gives the *)
(* value of a task from the values of its dependencies; the NumPy meaning  *)
(* of an operation is the same function applied to one block that is the   *)
(* whole array, so SameAsNumpy (assembled blocks = whole-array value) is   *)
(* exactly the claim that the graph rule - chunk arithmetic, dependencies, *)
(* per-block parameters, preconditions - is right.                         *)
(*                                                                         *)
(* Building never runs a task (Lazy).  Compute / Persist / AsArray start a *)
(* run: RunTask(t) is enabled for every needed task whose dependencies are *)
(* done, so TLC explores every topological order (= every interleaving of  *)
(* a threaded or multi-process scheduler at task granularity); the         *)
(* synchronous scheduler is the policy "lowest ready task first".  A task  *)
(* reads the *locations* (keys) of its dependencies and writes the         *)
(* location named by its own key.  OrderIndependent: every executed task's *)
(* location holds that task's denotation; it fails as soon as two          *)
(* different computations share a key (two writers of one location), e.g.  *)
(* dask.delayed(pure=True) calls whose token ignores an argument.          *)
(***************************************************************************)
EXTENDS Integers, Sequences, FiniteSets, TLC, PySlice, DaskSteps

CONSTANTS
  Roots,          \* set of root descriptions [cls, sh, back, ch]
  Ops,            \* set of operations [op |-> name, a |-> <<integer arguments>>]
  Scheds,         \* scheduler policies: subset of {"sync", "any"}
  MaxDepth,       \* number of operations in a pipeline (runs not counted)
  MaxRuns,        \* number of compute / persist / asarray runs in a pipeline
  MaxTasks,       \* bound on the size of the task graph
  FftNeedsOneChunk,  \* TRUE: the code refuses an FFT over a chunked axis (fft_wrap)
  ChirpKeyByChannel, \* TRUE: the chirp's delayed key tokenises the channel frequency
  EagerOps,       \* operations whose Dask path computes its input while building (mutant models)
  NumpyOps,       \* operations whose Dask path returns a NumPy-backed result (mutant models)
  ReaderPerBlock, \* TRUE: a dask read issues one _read_array per time chunk (mutant model)
  OverwriteTags,  \* transforms whose tasks work in place on the block they are given (mutant model)
  StickyKwargs,   \* TRUE: keywords of an earlier map_blocks call leak into later Dask calls (mutant model)
  LazySetitemLost, \* TRUE: for several shifts the zeroing is assigned to a slice of the Dask array, i.e. lost (mutant model)
  RollShortcut,   \* TRUE: the Dask path moves the blocks (da.roll) for a scalar whole-number time shift (mutant model)
  SharedHandle    \* TRUE: the reads of one reader seek / read on one shared stream handle (mutant model)

VARIABLES
  sig,      \* the current signal
  graph,    \* sequence of task records (the id of a task is its index)
  phase,    \* [st: "build" | "run" | "err", mode, sch, needed]
  done,     \* set of tasks executed in the current / last run
  store,    \* location (key) -> value written by the last task that wrote it
  nexec,    \* total number of task executions (the sentinel counter)
  hist,     \* observation: the operations performed so far
  choices   \* observation: schedule of the current run as choice indices
vars == <<sig, graph, phase, done, store, nexec, hist, choices>>

(***************************************************************************)
(* Terms                                                                   *)
(***************************************************************************)
T(h, a, s) == [h |-> h, a |-> a, s |-> s]
X(ix) == T("x", ix, <<>>)
Zero == T("0", <<>>, <<>>)

(***************************************************************************)
(* Chunk grids                                                             *)
(***************************************************************************)
Offs(c) == [j \in 1..Len(c) |-> Sum(SubSeq(c, 1, j - 1))]
Single(sh) == <<<<sh[1]>>, <<sh[2]>>, <<sh[3]>>>>
Ones(n) == IF n = 0 THEN <<0>> ELSE [j \in 1..n |-> 1]
IsGrid(ch, sh) == \A a \in 1..3 : IsComposition(ch[a], sh[a])
\* all compositions of n
RECURSIVE Compositions(_)
Compositions(n) ==
  IF n = 0 THEN {<<0>>}
  ELSE {<<n>>} \cup UNION {{<<k>> \o r : r \in Compositions(n - k)} : k \in 1..(n - 1)}
Grids(sh) == {<<a, b, c>> : a \in Compositions(sh[1]), b \in Compositions(sh[2]), c \in Compositions(sh[3])}

NB(ch) == Len(ch[1]) * Len(ch[2]) * Len(ch[3])
BlockSet(ch) == (1..Len(ch[1])) \X (1..Len(ch[2])) \X (1..Len(ch[3]))
Rank(ch, b) == ((b[1] - 1) * Len(ch[2]) + (b[2] - 1)) * Len(ch[3]) + b[3]
UnRank(ch, n) == LET m == n - 1  n3 == Len(ch[3])  n2 == Len(ch[2])
                 IN <<(m \div (n2 * n3)) + 1, ((m \div n3) % n2) + 1, (m % n3) + 1>>
BSh(ch, b) == <<ch[1][b[1]], ch[2][b[2]], ch[3][b[3]]>>
BOff(ch, b) == <<Offs(ch[1])[b[1]], Offs(ch[2])[b[2]], Offs(ch[3])[b[3]]>>
Idx(sh) == (0..(sh[1] - 1)) \X (0..(sh[2] - 1)) \X (0..(sh[3] - 1))
V3Add(x, y) == <<x[1] + y[1], x[2] + y[2], x[3] + y[3]>>
V3Sub(x, y) == <<x[1] - y[1], x[2] - y[2], x[3] - y[3]>>
InBox(g, off, sh) == \A a \in 1..3 : g[a] >= off[a] /\ g[a] < off[a] + sh[a]
\* index of the chunk of c that contains position i
ChunkOf(c, i) == CHOOSE j \in 1..Len(c) : Offs(c)[j] <= i /\ i < Offs(c)[j] + c[j]
Range(s) == {s[j] : j \in 1..Len(s)}
\* sorted sequence of a finite set of integers
RECURSIVE SortSet(_)
SortSet(S) == IF S = {} THEN <<>> ELSE LET m == SetMin(S) IN <<m>> \o SortSet(S \ {m})
\* chunk list of length n cut at the boundary set B (0 and n included)
Cut(B, n) == IF n = 0 THEN <<0>>
             ELSE LET bs == SortSet((B \cap (0..n)) \cup {0, n})
                  IN [j \in 1..(Len(bs) - 1) |-> bs[j + 1] - bs[j]]
Bounds(c) == {Offs(c)[j] : j \in 1..Len(c)} \cup {Sum(c)}

(***************************************************************************)
(* Task parameters (one uniform record shape) and the value of a task      *)
(***************************************************************************)
Par(f, i, m) == [f |-> f, i |-> i, m |-> m]
NoPar == Par("", <<>>, <<>>)
Rec(kind, par, deps) == [kind |-> kind, par |-> par, deps |-> deps]
Dep(b) == [h |-> 0, b |-> b]          \* block b of the input array
Hlp(j) == [h |-> j, b |-> <<0, 0, 0>>]  \* j-th helper task of the rule

\* the samples of `v` along axis ax through local index l; n = length of that axis
Line(v, l, ax, n) == [j \in 1..n |-> v[[l EXCEPT ![ax] = j - 1]]]
\* the dependency (1..D) whose box contains global index g
WhichDep(g, doff, dsh, D) == CHOOSE j \in 1..D : InBox(g, doff[j], dsh[j])
ZeroedAt(k, n, s) == (s > 0 /\ k < Ceil4(s)) \/ (s < 0 /\ k >= n + Floor4(s))

BlockEval(kind, par, ins, osh, lit) ==
  CASE kind = "src" -> lit
    [] kind = "gen" ->       \* helper vector (ramp, chirp): element j of par.i[1], parameters Tail(par.i)
         [l \in Idx(osh) |-> T(par.f, <<l[1]>> \o par.i, <<>>)]
    [] kind = "ew" -> [l \in Idx(osh) |-> T(par.f, par.i, <<ins[1][l]>>)]
    [] kind = "sl" ->        \* strided window: offset par.m[1], steps par.m[2]
         [l \in Idx(osh) |->
            ins[1][<<par.m[1][1] + par.m[2][1] * l[1], par.m[1][2] + par.m[2][2] * l[2],
                     par.m[1][3] + par.m[2][3] * l[3]>>]]
    [] kind = "rc" ->        \* gather: global offset par.m[1], dependency boxes par.m[1+j], par.m[1+D+j]
         LET D == par.i[1]
             doff == [j \in 1..D |-> par.m[1 + j]]
             dsh == [j \in 1..D |-> par.m[1 + D + j]]
         IN [l \in Idx(osh) |-> LET g == V3Add(par.m[1], l)  j == WhichDep(g, doff, dsh, D)
                                IN ins[j][V3Sub(g, doff[j])]]
    [] kind = "mix" ->       \* pol. mixing: component q from pol 0 (dep ia, local la) and pol 1 (dep ib, local lb)
         [l \in Idx(osh) |-> T(par.f, <<par.i[1]>>,
                               <<ins[par.i[2]][<<l[1], l[2], par.i[3]>>], ins[par.i[4]][<<l[1], l[2], par.i[5]>>]>>)]
    [] kind = "col" ->       \* transform along axis ax of the block the task holds (n = its length there)
         LET ax == par.i[1]  n == par.i[2]  lc == par.i[3]  aux == par.i[4]
             zf == par.i[5]       \* 1: the lazy setitem (zero fill) reaches the array
             s == par.m[1]
         IN [l \in Idx(osh) |->
               LET li == IF lc = 0 THEN l ELSE <<l[1], lc - 1, l[3]>>
                   sc == IF s = <<>> THEN 0 ELSE s[l[2] + 1]
               IN IF s # <<>> /\ zf = 1 /\ ZeroedAt(l[ax], n, sc) THEN Zero
                  ELSE T(par.f, <<l[ax]>> \o (IF s = <<>> THEN <<>> ELSE <<sc>>),
                         Line(ins[1], li, ax, n)
                         \o (IF aux = 0 THEN <<>> ELSE Line(ins[2], <<0, 0, 0>>, 1, n)))]
    [] kind = "seek" ->      \* position a stream handle: the location holds the position
         [l \in Idx(osh) |-> T("pos", <<par.i[1]>>, <<>>)]
    [] kind = "rd" ->        \* read n = osh[1] samples from wherever the handle stands
         LET pos == ins[1][<<0, 0, 0>>].a[1]
         IN [l \in Idx(osh) |-> X(<<pos + l[1], l[2], l[3], osh[1]>>)]
    [] kind = "stft" ->      \* segments of n samples of the gathered time axis -> n channels
         LET n == par.i[1]  D == par.i[2]
             doff == [j \in 1..D |-> par.m[j]]
             dsh == [j \in 1..D |-> par.m[D + j]]
             at(g) == LET j == WhichDep(g, doff, dsh, D) IN ins[j][V3Sub(g, doff[j])]
         IN [l \in Idx(osh) |->
               T("stft", <<l[2] % n>>,
                 [j \in 1..n |-> at(<<l[1] * n + j - 1, l[2] \div n, l[3]>>)])]
    [] kind = "istft" ->     \* n channels -> n samples
         LET n == par.i[1]
         IN [l \in Idx(osh) |->
               T("istft", <<l[1] % n>>,
                 [j \in 1..n |-> ins[1][<<l[1] \div n, l[2] * n + j - 1, l[3]>>]])]

(***************************************************************************)
(* Rules.  A rule R for the signal s is a record                           *)
(*   ok      precondition on the chunk grid (FALSE: the operation refuses) *)
(*   osh     output shape           och   output chunk grid                *)
(*   np      [kind, par] of the whole-array (NumPy) meaning                *)
(*   hl      helper tasks: sequence of [key, par, len]                     *)
(*   task    out block -> Rec(kind, par, deps)                             *)
(*   meta    new metadata                                                  *)
(* `task` is only evaluated for Dask-backed signals.                       *)
(***************************************************************************)
Rule(ok, osh, och, np, hl, task, meta) ==
  [ok |-> ok, osh |-> osh, och |-> och, np |-> np, hl |-> hl, task |-> task, meta |-> meta]
ChOf(s) == IF s.back = "dask" THEN s.ch ELSE Single(s.sh)
Key(n, a) == [n |-> n, a |-> a]

\* ---- elementwise (ufuncs, arithmetic with scalars, to_intensity, map_blocks of an elementwise function)
EwRule(s, f, cls) ==
  Rule(TRUE, s.sh, ChOf(s), Rec("ew", Par(f, <<>>, <<>>), <<>>), <<>>,
       [b \in BlockSet(ChOf(s)) |-> Rec("ew", Par(f, <<>>, <<>>), <<Dep(b)>>)],
       [s.meta EXCEPT !.cls = cls])

\* a signal_transform-decorated function with an optional keyword: k = 0 means "not given" (default).
\* The NumPy path sees k; the tasks see kd (the same, unless keywords leak between calls).
EwRuleK(s, f, k, kd, cls) ==
  Rule(TRUE, s.sh, ChOf(s), Rec("ew", Par(f, <<k>>, <<>>), <<>>), <<>>,
       [b \in BlockSet(ChOf(s)) |-> Rec("ew", Par(f, <<kd>>, <<>>), <<Dep(b)>>)],
       [s.meta EXCEPT !.cls = cls])

\* ---- basic slice a:b:c on axis ax (dask: every output block is a window of one input block;
\*      input chunks that contribute nothing disappear)
SliceRule(s, ax, a, b, c, meta) ==
  LET n == s.sh[ax]
      ix == Indices(a, b, c, n)
      cnt == RangeLen(ix.start, ix.stop, ix.step)
      sel == [k \in 1..cnt |-> ix.start + (k - 1) * ix.step]
      ich == ChOf(s)[ax]
      \* per input chunk: selected positions inside it
      inside(j) == {k \in 1..cnt : Offs(ich)[j] <= sel[k] /\ sel[k] < Offs(ich)[j] + ich[j]}
      live == SortSet({j \in 1..Len(ich) : inside(j) # {}})
      oc == IF cnt = 0 THEN <<0>> ELSE [q \in 1..Len(live) |-> Cardinality(inside(live[q]))]
      \* with nothing selected dask keeps one empty block taken from the first chunk
      srcj(q) == IF cnt = 0 THEN 1 ELSE live[q]
      first(q) == IF cnt = 0 THEN 0 ELSE sel[SetMin(inside(live[q]))] - Offs(ich)[live[q]]
      och == [ChOf(s) EXCEPT ![ax] = oc]
      unit == <<1, 1, 1>>
      zero == <<0, 0, 0>>
  IN Rule(TRUE, [s.sh EXCEPT ![ax] = cnt], och,
          Rec("sl", Par("", <<>>, <<[zero EXCEPT ![ax] = ix.start], [unit EXCEPT ![ax] = ix.step]>>), <<>>),
          <<>>,
          [bo \in BlockSet(och) |->
             Rec("sl", Par("", <<>>, <<[zero EXCEPT ![ax] = first(bo[ax])], [unit EXCEPT ![ax] = ix.step]>>),
                 <<Dep([bo EXCEPT ![ax] = srcj(bo[ax])])>>)],
          meta)
TimeSliceMeta(s, a, b, c) ==
  LET ix == Indices(a, b, c, s.sh[1])
  IN [s.meta EXCEPT !.t0 = s.meta.t0 + ix.start * s.meta.per, !.per = s.meta.per * ix.step]
FreqSliceMeta(s, a, b) ==
  [s.meta EXCEPT !.clo = s.meta.clo + Indices(a, b, None, s.sh[2]).start]

\* ---- polarisation mixing (to_stokes: 4 components, to_circular / to_linear: 2); np.stack gives
\*      one chunk per component
MixRule(s, g, nq, cls) ==
  LET ich == ChOf(s)
      och == [ich EXCEPT ![3] = Ones(nq)]
      b0 == ChunkOf(ich[3], 0)
      b1 == ChunkOf(ich[3], 1)
  IN Rule(TRUE, [s.sh EXCEPT ![3] = nq], och,
          Rec("mix", Par(g, <<0, 1, 0, 1, 1>>, <<>>), <<>>), <<>>,
          [bo \in BlockSet(och) |->
             Rec("mix", Par(g, <<bo[3] - 1, 1, 0 - Offs(ich[3])[b0], IF b0 = b1 THEN 1 ELSE 2, 1 - Offs(ich[3])[b1]>>, <<>>),
                 IF b0 = b1 THEN <<Dep(<<bo[1], bo[2], b0>>)>>
                 ELSE <<Dep(<<bo[1], bo[2], b0>>), Dep(<<bo[1], bo[2], b1>>)>>)],
          [s.meta EXCEPT !.cls = cls])
\* the NumPy meaning builds every component q: whole-array value, see NpVal

\* ---- transform along an axis (FFT based): one task per block, the block must span the axis
\*      shifts: <<>> (none), <<s>> (scalar) or one per channel; helper: ramp / arange of the length
ColRule(s, tag, ax, shifts, helper, force) ==
  LET ich == ChOf(s)
      n == s.sh[ax]
      sv(c0, cn) == IF shifts = <<>> THEN <<>>
                    ELSE [j \in 1..cn |-> IF Len(shifts) = 1 THEN shifts[1] ELSE shifts[c0 + j]]
      hl == IF helper = "" THEN <<>>
            ELSE <<[key |-> Key(helper, <<n>>), par |-> Par(helper, <<n>>, <<>>), len |-> n]>>
      aux == IF helper = "" THEN 0 ELSE 1
  IN Rule(force \/ ~FftNeedsOneChunk \/ Len(ich[ax]) = 1, s.sh, ich,
          Rec("col", Par(tag, <<ax, n, 0, aux, 1>>, <<sv(0, s.sh[2])>>), <<>>), hl,
          [bo \in BlockSet(ich) |->
             Rec("col", Par(tag, <<ax, ich[ax][bo[ax]], 0, aux, IF LazySetitemLost /\ Len(shifts) > 1 THEN 0 ELSE 1>>,
                            <<sv(Offs(ich[2])[bo[2]], ich[2][bo[2]])>>),
                 <<Dep(bo)>> \o (IF helper = "" THEN <<>> ELSE <<Hlp(1)>>))],
          s.meta)

\* ---- coherent dedispersion: fft * chirp, ifft.  The chirp is np.stack of one from_delayed
\*      vector per channel (key = tokenised arguments, pure=True), so the product has one
\*      chunk per channel.
ChirpKey(n, per, lab, dm) ==
  IF ChirpKeyByChannel THEN Key("chirp", <<n, per, lab>> \o dm) ELSE Key("chirp", <<n, per>> \o dm)
CohRule(s, dm) ==
  LET ich == ChOf(s)
      n == s.sh[1]
      C == s.sh[2]
      och == [ich EXCEPT ![2] = Ones(C)]
      hl == [c \in 1..C |->
               [key |-> ChirpKey(n, s.meta.per, s.meta.clo + c - 1, dm),
                par |-> Par("chirp", <<n, s.meta.per, s.meta.clo + c - 1>> \o dm, <<>>), len |-> n]]
  IN Rule(~FftNeedsOneChunk \/ Len(ich[1]) = 1, s.sh, och,
          Rec("cdd", NoPar, <<>>), hl,
          [bo \in BlockSet(och) |->
             LET bc == ChunkOf(ich[2], bo[2] - 1)
             IN Rec("col", Par("cdd", <<1, ich[1][bo[1]], (bo[2] - 1) - Offs(ich[2])[bc] + 1, 1, 1>>, <<<<>>>>),
                    <<Dep(<<bo[1], bc, bo[3]>>), Hlp(bo[2])>>)],
          s.meta)

\* ---- incoherent dedispersion: channel c is the window d[c] .. d[c]+nout of the time axis;
\*      np.stack unifies the chunks of the channels (common refinement)
Delay(d0, dl, C, c) == IF C = 1 THEN d0 ELSE d0 + ((dl - d0) * (c - 1)) \div (C - 1)
IncohRule(s, d0, dl) ==
  LET ich == ChOf(s)
      n == s.sh[1]
      C == s.sh[2]
      cb == -PMin(0, PMin(d0, dl))
      d == [c \in 1..C |-> Delay(d0, dl, C, c) + cb]
      nout == n - SetMax({d[c] : c \in 1..C})
      tb == UNION {{x - d[c] : x \in Bounds(ich[1])} : c \in 1..C}
      oc == Cut(tb, nout)
      och == <<oc, Ones(C), ich[3]>>
  IN Rule(TRUE, <<nout, C, s.sh[3]>>, och,
          Rec("incoh", Par("", d, <<>>), <<>>), <<>>,
          [bo \in BlockSet(och) |->
             LET c == bo[2]
                 g0 == Offs(oc)[bo[1]] + d[c]            \* first input sample of this block
                 bt == ChunkOf(ich[1], g0)
                 bc == ChunkOf(ich[2], c - 1)
             IN Rec("sl", Par("", <<>>, <<<<g0 - Offs(ich[1])[bt], (c - 1) - Offs(ich[2])[bc], 0>>, <<1, 1, 1>>>>),
                    <<Dep(<<bt, bc, bo[3]>>)>>)],
          [s.meta EXCEPT !.t0 = s.meta.t0 + cb * s.meta.per])

\* ---- concatenate([z[:k], z[k:]], axis): the pieces' chunks side by side
SplitCatRule(s, ax, k) ==
  LET ich == ChOf(s)
      n == s.sh[ax]
      oc == Cut(Bounds(ich[ax]) \cup {k}, n)
      och == [ich EXCEPT ![ax] = oc]
      zero == <<0, 0, 0>>
  IN Rule(TRUE, s.sh, och, Rec("ew0", NoPar, <<>>), <<>>,
          [bo \in BlockSet(och) |->
             LET g0 == Offs(oc)[bo[ax]]
                 bj == IF n = 0 THEN 1 ELSE ChunkOf(ich[ax], g0)
             IN Rec("sl", Par("", <<>>, <<[zero EXCEPT ![ax] = g0 - Offs(ich[ax])[bj]], <<1, 1, 1>>>>),
                    <<Dep([bo EXCEPT ![ax] = bj])>>)],
          s.meta)

\* ---- rechunk: every output block gathers the input blocks it overlaps
Overlap(ich, och, bo) ==
  LET off == BOff(och, bo)  sh == BSh(och, bo)
  IN {bi \in BlockSet(ich) :
        \A a \in 1..3 : LET o == Offs(ich[a])[bi[a]]
                        IN (o < off[a] + sh[a] /\ off[a] < o + ich[a][bi[a]])
                           \/ (sh[a] = 0 /\ bi[a] = 1)}
RechunkRule(s, och) ==
  LET ich == ChOf(s)
  IN Rule(TRUE, s.sh, och, Rec("ew0", NoPar, <<>>), <<>>,
          [bo \in BlockSet(och) |->
             LET ov == Overlap(ich, och, bo)
                 ds == [j \in 1..Cardinality(ov) |-> UnRank(ich, SortSet({Rank(ich, bi) : bi \in ov})[j])]
                 D == Len(ds)
             IN Rec("rc", Par("", <<D>>, <<BOff(och, bo)>> \o [j \in 1..D |-> BOff(ich, ds[j])]
                                          \o [j \in 1..D |-> BSh(ich, ds[j])]),
                    [j \in 1..D |-> Dep(ds[j])])],
          s.meta)

\* ---- contrib.stft(nperseg = n): crop to a multiple of n, reshape, fft; dask's reshape
\*      regroups the time chunks, modelled as one task per (frequency, pol) block
StftRule(s, n) ==
  LET ich == ChOf(s)
      nseg == s.sh[1] \div n
      och == <<<<nseg>>, [j \in 1..Len(ich[2]) |-> ich[2][j] * n], ich[3]>>
      D == Len(ich[1])
  IN Rule(TRUE, <<nseg, s.sh[2] * n, s.sh[3]>>, och,
          Rec("stft", Par("stft", <<n, 1>>, <<<<0, 0, 0>>, s.sh>>), <<>>), <<>>,
          [bo \in BlockSet(och) |->
             Rec("stft", Par("stft", <<n, D>>,
                             [j \in 1..D |-> <<Offs(ich[1])[j], 0, 0>>]
                             \o [j \in 1..D |-> BSh(ich, <<j, bo[2], bo[3]>>)]),
                 [j \in 1..D |-> Dep(<<j, bo[2], bo[3]>>)])],
          [s.meta EXCEPT !.per = s.meta.per * n])
\* ---- contrib.istft(nperseg = n): ifft over groups of n channels.  The reshape splits the
\*      frequency axis into (groups, n); the n-axis is one chunk exactly when every frequency
\*      chunk holds whole groups, otherwise fft_wrap refuses.
IstftRule(s, n) ==
  LET ich == ChOf(s)
      och == <<[j \in 1..Len(ich[1]) |-> ich[1][j] * n], [j \in 1..Len(ich[2]) |-> ich[2][j] \div n], ich[3]>>
  IN Rule(~FftNeedsOneChunk \/ \A j \in 1..Len(ich[2]) : (ich[2][j] % n) = 0,
          <<s.sh[1] * n, s.sh[2] \div n, s.sh[3]>>, och,
          Rec("istft", Par("istft", <<n>>, <<>>), <<>>), <<>>,
          [bo \in BlockSet(och) |-> Rec("istft", Par("istft", <<n>>, <<>>), <<Dep(bo)>>)],
          [s.meta EXCEPT !.per = s.meta.per \div n])

(***************************************************************************)
(* Whole-array (NumPy) value of a rule                                     *)
(***************************************************************************)
HelperVal(h) == BlockEval("gen", h.par, <<>>, <<h.len, 1, 1>>, <<>>)
NpVal(s, R) ==
  LET k == R.np.kind
  IN CASE k = "ew0" -> s.val                       \* same samples (container / concatenate of a split)
       [] k = "mix" ->                             \* component q from the two polarisations
            [l \in Idx(R.osh) |-> T(R.np.par.f, <<l[3]>>, <<s.val[<<l[1], l[2], 0>>], s.val[<<l[1], l[2], 1>>]>>)]
       [] k = "cdd" ->                             \* channel c against its own chirp
            LET hv == [c \in 1..Len(R.hl) |-> HelperVal(R.hl[c])]
            IN [l \in Idx(R.osh) |->
                  T("cdd", <<l[1]>>, Line(s.val, l, 1, s.sh[1]) \o Line(hv[l[2] + 1], <<0, 0, 0>>, 1, s.sh[1]))]
       [] k = "incoh" -> [l \in Idx(R.osh) |-> s.val[<<l[1] + R.np.par.i[l[2] + 1], l[2], l[3]>>]]
       [] OTHER -> BlockEval(k, R.np.par, <<s.val>> \o [j \in 1..Len(R.hl) |-> HelperVal(R.hl[j])], R.osh, <<>>)

(***************************************************************************)
(* Applying a rule to a state S = [sig, g]                                 *)
(***************************************************************************)
FindTask(g, key, par) ==
  LET hit == {i \in 1..Len(g) : g[i].key = key /\ g[i].kind = "gen" /\ g[i].par = par}
  IN IF hit = {} THEN 0 ELSE SetMin(hit)
RECURSIVE AddHelpers(_, _, _, _)
AddHelpers(g, hl, j, ids) ==
  IF j > Len(hl) THEN [g |-> g, ids |-> ids]
  ELSE LET h == hl[j]
           f == FindTask(g, h.key, h.par)
       IN IF f # 0 THEN AddHelpers(g, hl, j + 1, Append(ids, f))
          ELSE AddHelpers(Append(g, [key |-> h.key, kind |-> "gen", par |-> h.par, deps |-> <<>>,
                                     osh |-> <<h.len, 1, 1>>, lit |-> <<>>, den |-> HelperVal(h)]),
                          hl, j + 1, Append(ids, Len(g) + 1))

Apply(S, R, name) ==
  LET s == S.sig
      val == NpVal(s, R)
  IN IF s.back = "np"
     THEN [sig |-> [s EXCEPT !.sh = R.osh, !.val = val, !.data = val, !.meta = R.meta], g |-> S.g]
     ELSE LET H == AddHelpers(S.g, R.hl, 1, <<>>)
              g1 == H.g
              base == Len(g1)
              mk(n) ==
                LET b == UnRank(R.och, n)
                    r == R.task[b]
                    dids == [j \in 1..Len(r.deps) |->
                               IF r.deps[j].h = 0 THEN s.blk[r.deps[j].b] ELSE H.ids[r.deps[j].h]]
                    osh == BSh(R.och, b)
                IN [key |-> Key(name, <<base + n>>), kind |-> r.kind, par |-> r.par, deps |-> dids,
                    osh |-> osh, lit |-> <<>>,
                    den |-> BlockEval(r.kind, r.par, [j \in 1..Len(dids) |-> g1[dids[j]].den], osh, <<>>)]
          IN [sig |-> [s EXCEPT !.sh = R.osh, !.ch = R.och, !.val = val, !.meta = R.meta,
                                !.blk = [b \in BlockSet(R.och) |-> base + Rank(R.och, b)]],
              g |-> g1 \o [n \in 1..NB(R.och) |-> mk(n)]]

(***************************************************************************)
(* Operations: Plan(s, o) = the rules an operation applies in sequence     *)
(***************************************************************************)
IsBaseband(c) == c \in {"BasebandSignal", "DualPolarizationSignal"}
Arg(o, j) == o.a[j]

\* crop window of time_shift(crop=True) and coherent_dedispersion (as in spec/Pipeline.tla, repaired tree)
ShiftCrop(n, shifts) ==
  LET start == SetMax({0} \cup {Ceil4(x) : x \in {y \in Range(shifts) : y >= 0}})
      stop == SetMin({0} \cup {Floor4(x) : x \in {y \in Range(shifts) : y < 0}})
  IN <<start, PMax(start, n + stop)>>
CohCrop(n, dt, db) ==
  LET start == Ceil4(-PMin(0, PMin(dt, db)))
      stop == n - Ceil4(PMax(0, PMax(dt, db)))
  IN <<start, PMax(start, stop)>>

\* does the operation apply to this signal at all (class / shape requirements; not a refusal)
Applies(s, o) ==
  LET op == o.op  cls == s.meta.cls
  IN CASE op = "tslice" -> TRUE
       [] op = "fslice" -> SliceLen(Arg(o, 1), Arg(o, 2), None, s.sh[2]) >= 1
       [] op = "ufunc" -> TRUE
       [] op = "iufunc" -> TRUE          \* x += y, np.add(x, y, out=x): the same signal object, new graph
       [] op = "map_blocks" -> TRUE
       [] op = "map_blocks_col" -> FftNeedsOneChunk => Len(ChOf(s)[1]) = 1   \* documented: per-block application
       [] op = "to_intensity" -> IsBaseband(cls)
       [] op = "stokes_item" -> cls = "FullStokesSignal"
       [] op = "to_stokes" -> cls = "DualPolarizationSignal"
       [] op = "to_circular" -> cls = "DualPolarizationSignal"
       [] op = "time_shift" -> s.sh[1] >= 1 /\ (Len(o.a) = 2 \/ (Len(o.a) = 1 + s.sh[2] /\ s.sh[2] > 1))
       [] op = "freq_shift" -> IsBaseband(cls) /\ s.sh[1] >= 1
                               /\ (Len(o.a) = 1 \/ (Len(o.a) = s.sh[2] /\ s.sh[2] > 1))
       [] op = "coh_dd" -> IsBaseband(cls) /\ s.sh[1] >= 1
       [] op = "incoh_dd" -> /\ cls # "Signal" /\ (s.sh[2] = 1 => Arg(o, 1) = Arg(o, 2))
                             /\ s.sh[1] - (PMax(Arg(o, 1), Arg(o, 2)) - PMin(0, PMin(Arg(o, 1), Arg(o, 2)))) >= 1
       [] op = "splitcat" -> Arg(o, 2) >= 1 /\ Arg(o, 2) < s.sh[Arg(o, 1)]
       [] op = "fft_axis" -> s.sh[Arg(o, 1)] >= 1 /\ cls \in {"Signal", "BasebandSignal", "DualPolarizationSignal"}
       [] op = "stft" -> IsBaseband(cls) /\ s.sh[1] >= Arg(o, 1)
       [] op = "istft" -> IsBaseband(cls) /\ (s.sh[2] % Arg(o, 1)) = 0 /\ (s.meta.per % Arg(o, 1)) = 0
       [] op = "rechunk" -> TRUE
       [] op = "to_dask" -> TRUE
       [] OTHER -> FALSE

\* rechunk targets: 0 default (-1 on time, auto elsewhere = one chunk here), 1 all ones,
\* 2 time halved, 3 one chunk per channel, 4.. explicit grid number (full instance)
RechunkTarget(s, k) ==
  CASE k = 0 -> Single(s.sh)
    [] k = 1 -> <<Ones(s.sh[1]), Ones(s.sh[2]), Ones(s.sh[3])>>
    [] k = 2 -> <<Cut({(s.sh[1] + 1) \div 2}, s.sh[1]), <<s.sh[2]>>, <<s.sh[3]>>>>
    [] k = 3 -> <<<<s.sh[1]>>, Ones(s.sh[2]), <<s.sh[3]>>>>
    [] OTHER -> Single(s.sh)

\* One step of a plan: S -> [S, ok].  The steps of an operation are applied in order; the
\* first refusing precondition refuses the operation.
RECURSIVE RunPlan(_, _, _)
RunPlan(S, o, step) ==
  LET s == S.sig
      op == o.op
      fin(S2) == [S |-> S2, ok |-> TRUE]
      one(R, name) == IF R.ok THEN fin(Apply(S, R, name)) ELSE [S |-> S, ok |-> FALSE]
      two(R, name) == IF R.ok THEN RunPlan(Apply(S, R, name), o, step + 1) ELSE [S |-> S, ok |-> FALSE]
  IN CASE op = "tslice" -> one(SliceRule(s, 1, Arg(o, 1), Arg(o, 2), Arg(o, 3), TimeSliceMeta(s, Arg(o, 1), Arg(o, 2), Arg(o, 3))), "getitem")
       [] op = "fslice" -> one(SliceRule(s, 2, Arg(o, 1), Arg(o, 2), None, FreqSliceMeta(s, Arg(o, 1), Arg(o, 2))), "getitem")
       [] op = "ufunc" -> one(EwRule(s, "abs", s.meta.cls), "absolute")
       [] op = "iufunc" -> one(EwRule(s, "iadd", s.meta.cls), "add")
       [] op = "map_blocks" ->
            LET k == Arg(o, 1)
                before == {j \in 1..Len(hist) : hist[j].op = "map_blocks" /\ hist[j].a[1] # 0 /\ hist[j].pre.back = "dask"}
                kd == IF StickyKwargs /\ k = 0 /\ before # {} THEN hist[SetMax(before)].a[1] ELSE k
            IN one(EwRuleK(s, "mb", k, kd, s.meta.cls), "mapblocks")
       [] op = "map_blocks_col" -> one(ColRule(s, "mbcol", 1, <<>>, "", TRUE), "mapblocks")
       [] op = "to_intensity" -> one(EwRule(s, "abs2", "IntensitySignal"), "intensity")
       [] op = "stokes_item" ->
            one(SliceRule(s, 3, Arg(o, 1), Arg(o, 1) + 1, None, [s.meta EXCEPT !.cls = "IntensitySignal"]), "take")
       [] op = "to_stokes" -> one(MixRule(s, "stokes", 4, "FullStokesSignal"), "stack")
       [] op = "to_circular" -> one(MixRule(s, "circ", 2, s.meta.cls), "stack")
       [] op = "time_shift" ->
            LET sh == Tail(o.a)
                w == ShiftCrop(s.sh[1], sh)
            IN IF \A j \in 1..Len(sh) : sh[j] = 0 THEN fin(S)        \* "if shifts are zero, do nothing"
               ELSE IF step = 1
               THEN LET R0 == ColRule(s, "tsh", 1, sh, "fftfreq", FALSE)
                        \* mutant model: no transform at all on the Dask path, the samples are only moved
                        R == IF RollShortcut /\ Len(sh) = 1 /\ (sh[1] % 4) = 0
                             THEN [R0 EXCEPT !.ok = TRUE, !.hl = <<>>, !.task = EwRuleK(s, "roll", sh[1], sh[1], s.meta.cls).task]
                             ELSE R0
                    IN IF Arg(o, 1) = 1 THEN two(R, "ifft") ELSE one(R, "ifft")
               ELSE one(SliceRule(s, 1, w[1], w[2], None, TimeSliceMeta(s, w[1], w[2], None)), "getitem")
       [] op = "freq_shift" -> one(ColRule(s, "fsh", 1, o.a, "arange", FALSE), "ifft")
       [] op = "coh_dd" ->
            LET w == CohCrop(s.sh[1], Arg(o, 1), Arg(o, 2))
            IN IF step = 1 THEN two(CohRule(s, o.a), "ifft")
               ELSE one(SliceRule(s, 1, w[1], w[2], None, TimeSliceMeta(s, w[1], w[2], None)), "getitem")
       [] op = "incoh_dd" -> one(IncohRule(s, Arg(o, 1), Arg(o, 2)), "stack")
       [] op = "splitcat" -> one(SplitCatRule(s, Arg(o, 1), Arg(o, 2)), "concatenate")
       [] op = "fft_axis" -> one(ColRule(s, "fft", Arg(o, 1), <<>>, "", FALSE), "fft")
       [] op = "stft" ->
            LET n == Arg(o, 1)  keep == s.sh[1] - (s.sh[1] % n)
            IN IF step = 1 THEN two(SliceRule(s, 1, None, keep, None, s.meta), "getitem")
               ELSE one(StftRule(s, n), "reshape")
       [] op = "istft" -> one(IstftRule(s, Arg(o, 1)), "reshape")

\* container operations (never refuse)
ToDask(S) ==
  LET s == S.sig
  IN IF s.back = "dask" THEN S
     ELSE [sig |-> [s EXCEPT !.back = "dask", !.ch = Single(s.sh), !.data = <<>>,
                             !.blk = [b \in BlockSet(Single(s.sh)) |-> Len(S.g) + 1]],
           g |-> Append(S.g, [key |-> Key("array", <<Len(S.g) + 1>>), kind |-> "src", par |-> NoPar,
                              deps |-> <<>>, osh |-> s.sh, lit |-> s.data, den |-> s.data])]
Rechunk(S, k) ==
  LET S1 == ToDask(S)
      tgt == RechunkTarget(S1.sig, k)
  IN IF tgt = S1.sig.ch THEN S1 ELSE Apply(S1, RechunkRule(S1.sig, tgt), "rechunk")

(***************************************************************************)
(* Initial states                                                          *)
(***************************************************************************)
RootVal(sh) == [l \in Idx(sh) |-> X(l)]
\* what a reader returns for a span of n samples may depend on the whole span (real-sampled
\* baseband is converted with a transform over exactly the samples read): sample l of a read of n
SpanVal(sh, off, n) == [l \in Idx(sh) |-> X(<<off + l[1], l[2], l[3], n>>)]
SrcTask(name, n, osh, v) ==
  [key |-> Key(name, <<n>>), kind |-> "src", par |-> NoPar, deps |-> <<>>, osh |-> osh, lit |-> v, den |-> v]
MkRoot(r) ==
  LET val == IF r.back = "reader" THEN SpanVal(r.sh, 0, r.sh[1]) ELSE RootVal(r.sh)
      meta == [cls |-> r.cls, per |-> 4, t0 |-> 0, clo |-> 0, root |-> r]
      npsig == [sh |-> r.sh, back |-> "np", ch |-> <<>>, blk |-> <<>>, val |-> val, data |-> val, meta |-> meta]
  IN CASE r.back = "np" -> [sig |-> npsig, g |-> <<>>]
       [] r.back = "reader" ->
            \* reader.read(offset, n, use_dask=True, chunks=r.ch): ONE delayed _read_array of the whole
            \* span (from_delayed), then rechunk.  Mutant model: one read per time chunk.
            LET tch == IF ReaderPerBlock THEN r.ch[1] ELSE <<r.sh[1]>>
                ch0 == <<tch, <<r.sh[2]>>, <<r.sh[3]>>>>
                S0 == [sig |-> [npsig EXCEPT !.back = "dask", !.ch = ch0, !.data = <<>>,
                                             !.blk = [b \in BlockSet(ch0) |-> b[1]]],
                       g |-> [j \in 1..Len(tch) |->
                                SrcTask("read", j, <<tch[j], r.sh[2], r.sh[3]>>,
                                        SpanVal(<<tch[j], r.sh[2], r.sh[3]>>, Offs(tch)[j], tch[j]))]]
            IN IF r.ch = ch0 THEN S0 ELSE Apply(S0, RechunkRule(S0.sig, r.ch), "rechunk")
       [] r.back = "reads" ->
            \* pb.concatenate of one dask read per time chunk of r.ch: every read positions a stream
            \* handle ("seek" task) and reads from it ("rd" task).  Each read has its own handle;
            \* mutant model: all reads of the reader share one (one location written by every seek).
            LET tch == r.ch[1]
                ch0 == <<tch, <<r.sh[2]>>, <<r.sh[3]>>>>
                pieces == [l \in Idx(r.sh) |-> LET j == ChunkOf(tch, l[1]) IN X(<<l[1], l[2], l[3], tch[j]>>)]
                seek(j) == [key |-> Key("handle", <<IF SharedHandle THEN 0 ELSE j>>), kind |-> "seek",
                            par |-> Par("", <<Offs(tch)[j]>>, <<>>), deps |-> <<>>, osh |-> <<1, 1, 1>>, lit |-> <<>>,
                            den |-> BlockEval("seek", Par("", <<Offs(tch)[j]>>, <<>>), <<>>, <<1, 1, 1>>, <<>>)]
                rd(j) == LET osh == <<tch[j], r.sh[2], r.sh[3]>>
                         IN [key |-> Key("read", <<j>>), kind |-> "rd", par |-> NoPar, deps |-> <<j>>, osh |-> osh, lit |-> <<>>,
                             den |-> BlockEval("rd", NoPar, <<seek(j).den>>, osh, <<>>)]
                K == Len(tch)
                S0 == [sig |-> [npsig EXCEPT !.back = "dask", !.ch = ch0, !.data = <<>>, !.val = pieces,
                                             !.blk = [b \in BlockSet(ch0) |-> K + b[1]]],
                       g |-> [j \in 1..(2 * K) |-> IF j <= K THEN seek(j) ELSE rd(j - K)]]
            IN IF r.ch = ch0 THEN S0 ELSE Apply(S0, RechunkRule(S0.sig, r.ch), "rechunk")
       [] OTHER ->
            [sig |-> [npsig EXCEPT !.back = "dask", !.ch = r.ch, !.data = <<>>,
                                   !.blk = [b \in BlockSet(r.ch) |-> Rank(r.ch, b)]],
             \* sentinel input blocks: one task per block, counting its execution
             g |-> [n \in 1..NB(r.ch) |->
                      LET b == UnRank(r.ch, n)
                      IN SrcTask("input", n, BSh(r.ch, b),
                                 [l \in Idx(BSh(r.ch, b)) |-> X(V3Add(BOff(r.ch, b), l))])]]

Idle == [st |-> "build", mode |-> "", sch |-> "", needed |-> {}]
Init ==
  /\ \E r \in Roots : LET S == MkRoot(r) IN sig = S.sig /\ graph = S.g
  /\ phase = Idle /\ done = {} /\ store = <<>> /\ nexec = 0 /\ hist = <<>> /\ choices = <<>>

(***************************************************************************)
(* Actions                                                                 *)
(***************************************************************************)
Summary(s) == [cls |-> s.meta.cls, sh |-> s.sh, back |-> s.back, ch |-> s.ch, per |-> s.meta.per,
               t0 |-> s.meta.t0, clo |-> s.meta.clo]
Log(kind, o, refused, s2, g2) ==
  hist' = Append(hist, [kind |-> kind, op |-> o.op, a |-> o.a, refused |-> refused,
                        pre |-> Summary(sig), post |-> Summary(s2), ntasks |-> Len(g2)])
NOps == Cardinality({j \in 1..Len(hist) : hist[j].kind # "run"})
NRuns == Cardinality({j \in 1..Len(hist) : hist[j].kind = "run"})

\* eager mutant: the operation computes its input while building
RECURSIVE Anc(_, _)
Anc(g, Tset) == LET more == Tset \cup UNION {Range(g[t].deps) : t \in Tset}
                IN IF more = Tset THEN Tset ELSE Anc(g, more)
BlockTasks(s) == {s.blk[b] : b \in BlockSet(s.ch)}

\* contrib.stft reshapes the time axis into segments before the FFT; whether dask's reshape
\* leaves the segment axis in one chunk depends on how the time chunks fall on the segment
\* boundaries (not modelled): with a chunked time axis both outcomes are admitted.
MayAlsoRefuse(o) == o.op = "stft" /\ sig.back = "dask" /\ Len(sig.ch[1]) > 1

Accept(o, P) ==
  /\ Len(P.S.g) <= MaxTasks
  /\ IF o.op \in NumpyOps /\ sig.back = "dask"
     THEN sig' = [P.S.sig EXCEPT !.back = "np", !.ch = <<>>, !.blk = <<>>, !.data = P.S.sig.val]
     ELSE sig' = P.S.sig
  /\ graph' = P.S.g
  /\ IF o.op \in EagerOps /\ sig.back = "dask"
     THEN LET ran == Anc(graph, BlockTasks(sig))
          IN done' = done \cup ran /\ nexec' = nexec + Cardinality(ran)
     ELSE UNCHANGED <<done, nexec>>
  /\ Log("transform", o, FALSE, sig', P.S.g)
  /\ UNCHANGED <<phase, store, choices>>
Refuse(o) ==
  /\ phase' = [phase EXCEPT !.st = "err"]
  /\ Log("transform", o, TRUE, sig, graph)
  /\ UNCHANGED <<sig, graph, done, store, nexec, choices>>
Transform(o) ==
  /\ phase.st = "build" /\ NOps < MaxDepth
  /\ o.op \notin {"rechunk", "to_dask"}
  /\ Applies(sig, o)
  /\ LET P == RunPlan([sig |-> sig, g |-> graph], o, 1)
     IN IF P.ok THEN Accept(o, P) \/ (MayAlsoRefuse(o) /\ Refuse(o)) ELSE Refuse(o)

Container(o) ==
  /\ phase.st = "build" /\ NOps < MaxDepth
  /\ o.op \in {"rechunk", "to_dask"}
  /\ LET S2 == IF o.op = "to_dask" THEN ToDask([sig |-> sig, g |-> graph])
               ELSE Rechunk([sig |-> sig, g |-> graph], Arg(o, 1))
     IN /\ Len(S2.g) <= MaxTasks
        /\ sig' = S2.sig /\ graph' = S2.g
        /\ Log("container", o, FALSE, S2.sig, S2.g)
  /\ UNCHANGED <<phase, done, store, nexec, choices>>

\* compute / persist / np.asarray run the tasks the signal needs.  Which of the three it is
\* only matters when the run ends (FinishRun), so the runs are explored once.
StartRun(sch) ==
  /\ sch # "sync"
  /\ phase.st = "build" /\ NRuns < MaxRuns
  /\ sig.back = "dask"
  /\ phase' = [st |-> "run", mode |-> "", sch |-> sch, needed |-> Anc(graph, BlockTasks(sig))]
  /\ done' = {} /\ store' = <<>> /\ choices' = <<>>
  /\ UNCHANGED <<sig, graph, nexec, hist>>

\* compute / persist of a NumPy-backed signal: "has no effect"
RunNumpy(mode) ==
  /\ phase.st = "build" /\ NRuns < MaxRuns
  /\ sig.back = "np"
  /\ Log("run", [op |-> mode, a |-> <<>>], FALSE, sig, graph)
  /\ UNCHANGED <<sig, graph, phase, done, store, nexec, choices>>

ReadySet == {t \in phase.needed \ done : Range(graph[t].deps) \subseteq done}
ExecIn(st, t) == LET r == graph[t]
                 IN BlockEval(r.kind, r.par, [j \in 1..Len(r.deps) |-> st[graph[r.deps[j]].key]], r.osh, r.lit)
Put(f, k, v) == IF k \in DOMAIN f THEN [f EXCEPT ![k] = v] ELSE (k :> v) @@ f
\* mutant model: a task that transforms "in place" scribbles over the block it was given; if that
\* block is data held by the graph (a persisted block, a from_array block) the graph is damaged
Scribbled(v) == [l \in DOMAIN v |-> T("garbage", <<>>, <<v[l]>>)]
GraphAfter(t) ==
  LET r == graph[t]
  IN IF r.kind = "col" /\ r.par.f \in OverwriteTags /\ graph[r.deps[1]].kind = "src"
     THEN [graph EXCEPT ![r.deps[1]].lit = Scribbled(graph[r.deps[1]].lit)]
     ELSE graph
RunTask(t) ==
  /\ phase.st = "run"
  /\ t \in ReadySet
  /\ store' = Put(IF GraphAfter(t) = graph THEN store
                  ELSE Put(store, graph[graph[t].deps[1]].key, Scribbled(store[graph[graph[t].deps[1]].key])),
                  graph[t].key, ExecIn(store, t))
  /\ graph' = GraphAfter(t)
  /\ done' = done \cup {t}
  /\ nexec' = nexec + 1
  /\ choices' = Append(choices, Cardinality({r \in ReadySet : r < t}))
  /\ UNCHANGED <<sig, phase, hist>>

\* the samples found in the locations of the signal's blocks
AssembledIn(st) ==
  [l \in Idx(sig.sh) |->
     LET b == <<ChunkOf(sig.ch[1], l[1]), ChunkOf(sig.ch[2], l[2]), ChunkOf(sig.ch[3], l[3])>>
     IN st[graph[sig.blk[b]].key][V3Sub(l, BOff(sig.ch, b))]]
\* the end of a run with the locations st: compute -> NumPy-backed signal holding the samples;
\* persist -> same chunks and keys, the tasks now hold data; np.asarray -> the signal stays lazy
EndRun(mode, sch, st, needed, chs) ==
  /\ (CASE mode = "compute" ->
            /\ sig' = [sig EXCEPT !.back = "np", !.ch = <<>>, !.blk = <<>>, !.data = AssembledIn(st)]
            /\ graph' = graph
       [] mode = "persist" ->
            LET base == Len(graph)
                lit(n) == LET t == sig.blk[UnRank(sig.ch, n)]
                          IN [key |-> graph[t].key, kind |-> "src", par |-> NoPar, deps |-> <<>>,
                              osh |-> graph[t].osh, lit |-> st[graph[t].key], den |-> st[graph[t].key]]
            IN /\ graph' = graph \o [n \in 1..NB(sig.ch) |-> lit(n)]
               /\ sig' = [sig EXCEPT !.blk = [b \in BlockSet(sig.ch) |-> base + Rank(sig.ch, b)]]
       [] OTHER ->
            /\ UNCHANGED <<sig, graph>>)
  /\ hist' = Append(hist, [kind |-> "run", op |-> mode, a |-> <<>>, refused |-> FALSE, sch |-> sch,
                           pre |-> Summary(sig), post |-> Summary(sig'), ntasks |-> Cardinality(needed),
                           choices |-> chs])
FinishRun(mode) ==
  /\ phase.st = "run"
  /\ phase.needed \subseteq done
  /\ mode = "persist" => Len(graph) + NB(sig.ch) <= MaxTasks + 4
  /\ phase' = Idle
  /\ EndRun(mode, phase.sch, store, phase.needed, choices)
  /\ UNCHANGED <<done, store, nexec, choices>>

\* the synchronous scheduler: the lowest ready task first; tasks are numbered in creation
\* order, so this is the ascending order of the needed tasks.  Explored as one step.
RECURSIVE RunSeq(_, _)
RunSeq(st, ts) == IF ts = <<>> THEN st
                  ELSE RunSeq(Put(st, graph[Head(ts)].key, ExecIn(st, Head(ts))), Tail(ts))
RunSync(mode) ==
  /\ "sync" \in Scheds /\ OverwriteTags = {}
  /\ phase.st = "build" /\ NRuns < MaxRuns
  /\ sig.back = "dask"
  /\ mode = "persist" => Len(graph) + NB(sig.ch) <= MaxTasks + 4
  /\ LET needed == Anc(graph, BlockTasks(sig))
         st == RunSeq(<<>>, SortSet(needed))
     IN /\ store' = st /\ done' = needed /\ nexec' = nexec + Cardinality(needed)
        /\ choices' = [j \in 1..Cardinality(needed) |-> 0]
        /\ EndRun(mode, "sync", st, needed, choices')
  /\ UNCHANGED phase

\* "peek" = x.compute() whose result is looked at while the Dask-backed object x lives on
\* (same-object histories: look, change in place, look again); np.asarray(x) likewise
Modes == {"compute", "persist", "asarray", "peek"}
Next ==
  \/ \E o \in Ops : Transform(o) \/ Container(o)
  \/ \E sc \in Scheds : StartRun(sc)
  \/ \E m \in Modes : RunNumpy(m) \/ FinishRun(m) \/ RunSync(m)
  \/ \E t \in 1..Len(graph) : RunTask(t)
Spec == Init /\ [][Next]_vars

(***************************************************************************)
(* Properties                                                              *)
(***************************************************************************)
LastKind == IF hist' # hist THEN hist'[Len(hist')].kind ELSE "internal"
Lazy == [][/\ (hist' # hist => LazyStep(LastKind, nexec, nexec'))
           /\ (done' # done => phase.st = "run" \/ phase'.st = "run" \/ LastKind = "run")]_vars
LazyDone == [][(LastKind \in {"transform", "container"}) => done' = done]_vars
StaysDask == [][hist' # hist => /\ StaysDaskStep(LastKind, Summary(sig), Summary(sig'))
                                /\ NumpyStaysNumpyStep(LastKind, Summary(sig), Summary(sig'))]_vars
ContainerOnly ==
  [][hist' # hist =>
       /\ ContainerOnlyStep(LastKind, Summary(sig), Summary(sig'))
       /\ ContainerBackStep(LastKind, Summary(sig'))
       /\ (LastKind \in {"container", "run"} => sig'.val = sig.val)
       /\ (LastKind = "run" => RunStep(hist'[Len(hist')].op, Summary(sig), Summary(sig')))]_vars
\* persist: the blocks of the result are data, nothing of the old graph is needed any more
PersistHolds ==
  [][(hist' # hist /\ LastKind = "run" /\ hist'[Len(hist')].op = "persist" /\ sig.back = "dask") =>
       \A t \in Anc(graph', BlockTasks(sig')) : graph'[t].kind = "src" /\ graph'[t].deps = <<>>]_vars
\* running never changes what the graph holds: a second run sees the same inputs
InputsStable == [][\A t \in 1..Len(graph) : graph'[t].lit = graph[t].lit]_vars
RefusalsLegit == \A j \in 1..Len(hist) : RefusalStep(hist[j].op, hist[j].a, hist[j].refused, hist[j].pre)

\* the blocks of a Dask-backed signal denote the value NumPy computes; a computed signal holds it
SameAsNumpy ==
  /\ sig.back = "np" => sig.data = sig.val
  /\ (sig.back = "dask" /\ phase.st # "run") =>
       /\ IsGrid(sig.ch, sig.sh)
       /\ \A b \in BlockSet(sig.ch) :
            LET t == graph[sig.blk[b]]
            IN /\ t.osh = BSh(sig.ch, b)
               /\ \A l \in Idx(t.osh) : t.den[l] = sig.val[V3Add(BOff(sig.ch, b), l)]
  /\ (phase.st = "run" /\ phase.needed \subseteq done) => AssembledIn(store) = sig.val
\* every executed task's location holds that task's value, in every order of execution
OrderIndependent ==
  \A t \in done : graph[t].key \in DOMAIN store /\ store[graph[t].key] = graph[t].den
\* structural form of the same: a key names one computation
KeysSound == phase.st # "run" => \A i, j \in 1..Len(graph) : graph[i].key = graph[j].key => graph[i].den = graph[j].den
TypeOK ==
  /\ sig.back \in {"np", "dask"}
  /\ phase.st \in {"build", "run", "err"}
  /\ done \subseteq 1..Len(graph)
  /\ \A t \in 1..Len(graph) : \A d \in Range(graph[t].deps) : d < t

View == <<sig, graph, phase, done, store, NOps, NRuns>>
=============================================================================
