SPECIFICATION Spec
CONSTANTS
  Ns <- G_Ns
  SShapes <- AllShapes
  Vals <- G_Vals
  Fixed = TRUE
INVARIANT Emit
CHECK_DEADLOCK FALSE
