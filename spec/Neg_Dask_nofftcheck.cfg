SPECIFICATION Spec
CONSTANTS
  Roots <- N_Roots
  Ops <- N_FftOps
  Scheds = {"sync"}
  MaxDepth = 1
  MaxRuns = 1
  MaxTasks = 12
  FftNeedsOneChunk = FALSE
  ChirpKeyByChannel = TRUE
  EagerOps <- None_
  NumpyOps <- None_
  ReaderPerBlock = FALSE
  OverwriteTags <- None_
  StickyKwargs = FALSE
  LazySetitemLost = FALSE
  RollShortcut = FALSE
  SharedHandle = FALSE
VIEW View
INVARIANT SameAsNumpy
CHECK_DEADLOCK FALSE
