SPECIFICATION TraceSpec
CONSTANTS
  Heaps <- T_None
  Ufuncs <- T_None
  Methods <- T_None
  DKinds <- T_None
  OutRK <- T_None
  AsDtypes <- T_None
  MaxDepth = 0
  FreeDepth = 0
  Canonical = FALSE
  Variant = "real"
  ArrayProto = "fixed"
POSTCONDITION AllConsumed
CHECK_DEADLOCK FALSE
