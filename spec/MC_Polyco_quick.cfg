SPECIFICATION Spec
CONSTANTS
  L = 8
  TolU = 2
  TmidMax = 20
  MaxN = 4
  UseTol = TRUE
  Side = "left"
INVARIANT MergeLoopIsDeclared
INVARIANT LoopOperatorAgrees
INVARIANT SelectIsContaining
INVARIANT OutsideRaises
INVARIANT GapNoCrash
CHECK_DEADLOCK FALSE
