SPECIFICATION Spec
CONSTANTS
  Heaps <- Q_ArrHeaps
  Ufuncs <- AllUfuncs
  Methods <- AllMethods
  DKinds <- Q_DKinds
  OutRK <- MC_OutRK
  AsDtypes <- Q_AsDtypes
  MaxDepth = 1
  FreeDepth = 1
  Canonical = TRUE
  Variant = "reduce_through"
  ArrayProto = "fixed"
VIEW View
INVARIANT WrapsAsResolvedSignal
INVARIANT FirstSignalUnlessSubclass
INVARIANT OutIsReturned
INVARIANT OutKeepsOwnMeta
INVARIANT Refusals
INVARIANT InputsUnchanged
INVARIANT DtypeContract
INVARIANT AsArrayIsData
INVARIANT ErrorsAsOnArrays
INVARIANT ResolutionAgrees
CHECK_DEADLOCK FALSE
