---------------------------- MODULE Trace_Reader ----------------------------
(***************************************************************************)
(* C11, code -> spec.  Every event is one call on a real reader recorded   *)
(* by harness/c11.py; Failed(e) is the set of property clauses it breaks.  *)
(*                                                                         *)
(* "read"   f (file record, ReaderFile), o, n, st, len, shape, dt (exact   *)
(*          seconds from the reader's start to the result's start), rate,  *)
(*          codes (flat (n, X, Y) element codes of the returned data) and  *)
(*          mode "ramp"  : the file was written by the harness, value ->   *)
(*                         (raw sample, a, b, conjugated?) = code          *)
(*               "direct": raw = value codes of an independent             *)
(*                         baseband.open(...).seek(pos); read(cnt)         *)
(*          flags: discrete facts decided in Python (must all be TRUE).    *)
(* "offset" offset_at(t): d = exact t - start (seconds), got.              *)
(* "meta"   reader / signal metadata against the header of the file.       *)
(***************************************************************************)
EXTENDS TraceBase, Rat, ReaderFile
VARIABLES l, nbad


\* 3 * 2^-51 day in seconds: two astropy Times (two doubles each) and one difference
TimeTol == RMul(RI(3 * 86400), RPow2(-51))

(* ---- read ---- *)
Strip(c) == (c \div 2) * 2
RampExpected(e) ==
  LET c == Codes(e.f, SeqRead(e.f, e.o, e.n).data, e.md)
  IN IF e.f.real THEN [i \in 1..Len(c) |-> Strip(c[i])] ELSE c     \* Re out does not show conjugation
CjCode(f, c) == (c \div 1000) * 1000 + (f.cjtop - (c % 1000))
RawMat(e, m) == [a \in 1..e.f.A |-> [b \in 1..e.f.B |-> e.raw[((m - 1) * e.f.A + (a - 1)) * e.f.B + b]]]
DirectExpected(e) ==
  LET f == e.f
      nraw == Len(e.raw) \div (f.A * f.B)
      Cj(c) == CjCode(f, c)
      \* real data: (-1)^m Re out[m] = raw[2m] (C19), no conjugation visible
      ms == IF f.real THEN [m \in 1..((nraw + 1) \div 2) |-> 2 * m - 1] ELSE [m \in 1..nraw |-> m]
      g == IF f.real THEN [f EXCEPT !.mask = [a \in 1..f.A |-> [b \in 1..f.B |-> FALSE]]] ELSE f
  IN Flat([m \in 1..Len(ms) |-> Flat(PostSampleG(g, RawMat(e, ms[m]), Cj))])
ReadFailed(e) ==
  LET f == e.f
      want == Refusal(f, e.o, e.n)
  IN IF e.st # want THEN {"status"}
     ELSE IF want # "ok" THEN {}
     ELSE (IF e.len # e.n THEN {"length"} ELSE {})
          \cup (IF e.shape # <<e.n, OutX(f), OutY(f)>> THEN {"shape"} ELSE {})
          \cup (IF ~RLe(RAbs(RSub(RMul(R(e.dt.p, e.dt.q), R(e.rate.p, e.rate.q)), RI(e.o))),
                        RMul(TimeTol, R(e.rate.p, e.rate.q))) THEN {"start"} ELSE {})
          \cup (IF e.mode = "ramp" /\ e.codes # RampExpected(e) THEN {"content"} ELSE {})
          \cup (IF e.mode = "direct" /\ (Len(e.raw) # ReadCount(f, e.n) * f.A * f.B
                                          \/ e.codes # DirectExpected(e)) THEN {"content"} ELSE {})
          \cup {k \in DOMAIN e.flags : ~e.flags[k]}

(* ---- offset_at ---- *)
OffsetFailed(e) ==
  LET p == Mul(e.d.p, e.rate.p)  q == Mul(e.d.q, e.rate.q)     \* exact position x = p/q in samples, q > 0
      y2 == Add(MulInt(p, 2), q)  q2 == MulInt(q, 2)            \* x + 1/2 = y2/q2
      k == FloorDiv(y2, q2)                                     \* nearest integer unless x is a tie
      r == Sub(y2, Mul(k, q2))                                  \* r/q2 = frac(x + 1/2)
      amb == Lt(MulInt(r, 1000), q2) \/ Lt(MulInt(Sub(q2, r), 1000), q2)   \* within 1e-3 of a tie
      inb == ~k.n /\ Le(k, FromInt(e.len))
      want == IF inb THEN [st |-> "ok", k |-> ToInt(k)] ELSE [st |-> "EOFError", k |-> 0]
  IN IF amb THEN {"ambiguous"}
     ELSE (IF [st |-> e.got.st, k |-> e.got.k] # want THEN {"nearest"} ELSE {})
          \cup (IF e.pert = 0 /\ e.k >= 0 /\ e.k <= e.len /\ (e.got.st # "ok" \/ e.got.k # e.k)
                THEN {"roundtrip"} ELSE {})
          \* contains(t) for the instant of sample k + pert/10 (absolute times, any time scale):
          \* start <= t < stop, i.e. 0 <= k + pert/10 < len
          \cup (IF e.inside # "n/a" /\
                   e.inside # (IF 10 * e.k + e.pert >= 0 /\ 10 * e.k + e.pert < 10 * e.len THEN "yes" ELSE "no")
                THEN {"contains"} ELSE {})

(* ---- metadata ---- *)
RelClose(a, b) == RLe(RAbs(RSub(a, b)), RMul(RAbs(b), RPow2(-50)))
QR(r) == R(r.p, r.q)
MetaFailed(e) ==
  LET f == e.f  h == e.hdr  g == e.got
      rate == IF f.real THEN RDiv(QR(h.rate), RI(2)) ELSE QR(h.rate)
  IN (IF ~RelClose(QR(g.rate), rate) THEN {"sample_rate"} ELSE {})
     \cup (IF g.len # (IF f.real THEN h.len \div 2 ELSE h.len) \/ g.len # OutLen(f) THEN {"len"} ELSE {})
     \cup (IF g.shape # <<OutLen(f), OutX(f), OutY(f)>> THEN {"shape"} ELSE {})
     \cup (IF ~RLe(RAbs(RSub(QR(g.start), QR(h.start))), RPow2(-51)) THEN {"start_time"} ELSE {})   \* days
     \cup (IF g.dtype # (IF Intensity(f) THEN "float32" ELSE "complex64") THEN {"dtype"} ELSE {})
     \cup (IF f.kind = "guppi" /\
              (\/ ~RelClose(QR(g.cf), QR(h.freq)) \/ g.align # "center" \/ g.sigtype # "DualPolarizationSignal"
               \/ g.pol # (IF h.poln = "LIN" THEN "linear" ELSE "circular")
               \/ ~RelClose(QR(g.cbw), QR(g.rate))
               \/ f.lsb # (h.bwsign < 0)) THEN {"guppi-header"} ELSE {})
     \cup (IF f.kind = "stokes" /\
              (\/ ~RelClose(QR(g.cf), QR(h.freq)) \/ g.sigtype # "FullStokesSignal"
               \/ g.align # (IF h.bwsign < 0 THEN "top" ELSE "bottom")
               \/ ~RelClose(QR(g.cbw), RDiv(RAbs(QR(h.bw)), RI(h.nchan)))
               \/ f.lsb # (h.bwsign < 0) \/ f.A # 4 \/ f.B # h.nchan) THEN {"stokes-header"} ELSE {})

(* ---- derived attributes against the sample rate and start time the reader reports ---- *)
DerivedFailed(e) ==
  LET rate == QR(e.rate)
      Near(d, k) == RLe(RAbs(RSub(RMul(QR(d), rate), RI(k))), RMul(TimeTol, rate))      \* elapsed time d = k samples
  IN (IF ~RelClose(RMul(QR(e.dt), rate), ROne) THEN {"dt"} ELSE {})
     \cup (IF ~RelClose(RMul(QR(e.tl), rate), RI(e.len)) /\ e.len > 0 THEN {"time_length"} ELSE {})
     \cup (IF ~Near(e.stop, e.len) THEN {"stop_time"} ELSE {})
     \cup (IF ~Near(e.t1, 1) \/ ~RelClose(RMul(QR(e.t1rel), rate), ROne) THEN {"time_at"} ELSE {})
     \cup (IF ~Near(e.read1, 1) THEN {"read-start"} ELSE {})
     \cup (IF ~RelClose(QR(e.rate_read), rate) THEN {"read-sample_rate"} ELSE {})
     \cup {k \in DOMAIN e.flags : ~e.flags[k]}
Failed(e) ==
  CASE e.ev = "read" -> ReadFailed(e)
    [] e.ev = "derived" -> DerivedFailed(e)
    [] e.ev = "offset" -> OffsetFailed(e)
    [] e.ev = "meta" -> MetaFailed(e)
    [] OTHER -> {"unknown-event"}

TraceInit == l = 1 /\ nbad = 0
TraceNext ==
  \/ /\ l <= NEvents
     /\ LET e == Trace[l]  f == Failed(e)
        IN /\ Report(l, [id |-> e.id, ev |-> e.ev], f)
           /\ nbad' = nbad + (IF f = {} THEN 0 ELSE 1)
     /\ l' = l + 1
  \/ /\ l = NEvents + 1
     /\ Summary(NEvents, nbad)
     /\ l' = l + 1
     /\ UNCHANGED nbad
TraceSpec == TraceInit /\ [][TraceNext]_<<l, nbad>>
AllConsumed == TLCGet("stats").diameter >= NEvents + 1
=============================================================================
