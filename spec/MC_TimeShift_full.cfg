SPECIFICATION Spec
CONSTANTS
  Ns <- F_Ns
  SShapes <- AllShapes
  Vals <- F_Vals
  Fixed = TRUE
INVARIANT ZeroRegionExact
INVARIANT CountsAsStated
INVARIANT CropIsEdgeRemoval
INVARIANT IntegerShiftMovesSamples
INVARIANT MetaUnchanged
INVARIANT EarlyReturnOnlyForZero
CHECK_DEADLOCK FALSE
