----------------------------- MODULE Gen_Smooth -----------------------------
EXTENDS Smooth, Json, IOUtils, CSV
Emit == CSVWrite("%1$s", <<ToJson([e |-> <<a, b, c, d>>, v |-> v])>>, IOEnv.GEN_OUT)
=============================================================================
