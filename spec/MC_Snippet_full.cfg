SPECIFICATION Spec
CONSTANTS
  Lens <- F_Lens
  Forms <- AllForms
  IntMode = "trunc"
INVARIANT Refusals
INVARIANT ExactlyN
INVARIANT StartExact
INVARIANT SamplesAtRequestedTimes
INVARIANT WholeSampleIsSlice
INVARIANT NoZeroFill
INVARIANT FormsAgree
CHECK_DEADLOCK FALSE
