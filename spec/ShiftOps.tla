------------------------------ MODULE ShiftOps ------------------------------
(***************************************************************************)
(* Pure operators shared by TimeShift, FreqShift and Snippet (C03, C04,    *)
(* C12): sample shapes and their elements, how the code places a shift     *)
(* array on the sample axes, the zero-fill loop exactly as coded (and as   *)
(* repaired), crop windows, and the numeric leaf (DFT delay / mixing on    *)
(* the kernel's fixed point).                                              *)
(*                                                                         *)
(* Units.  A shift is an integer number q of QUARTER samples (time_shift)  *)
(* or quarter bins (freq_shift); s = q/4.  A sample shape is a sequence of *)
(* positive integers, an element of it a tuple of 0-based indices.         *)
(***************************************************************************)
EXTENDS Integers, Sequences, FiniteSets, TLC, PySlice, Fix

(***************************************************************************)
(* Shapes                                                                  *)
(***************************************************************************)
RECURSIVE Elems(_)
Elems(sh) == IF sh = <<>> THEN {<<>>}
             ELSE {<<i>> \o r : i \in 0..(sh[1] - 1), r \in Elems(Tail(sh))}

\* row-major (C order) list of the elements, as numpy / nditer enumerate them
RECURSIVE ElemSeq(_)
ElemSeq(sh) == IF sh = <<>> THEN << <<>> >>
               ELSE LET r == ElemSeq(Tail(sh))
                    IN [j \in 1..(sh[1] * Len(r)) |->
                          <<(j - 1) \div Len(r)>> \o r[((j - 1) % Len(r)) + 1]]

\* shift shapes the code accepts for a sample shape (doc string: "axes with
\* length more than 1 match z.sample_shape"; rank <= rank of the sample shape)
RECURSIVE ShapesOfRank(_, _)
ShapesOfRank(ssh, r) == IF r = 0 THEN {<<>>}
                        ELSE {Append(p, v) : p \in ShapesOfRank(ssh, r - 1), v \in {1, ssh[r]}}
ShiftShapes(ssh) == UNION {ShapesOfRank(ssh, r) : r \in 0..Len(ssh)}

\* time_shift:  shift = shift[(slice(None),)*ndim + (None,)*(z.ndim-ndim-1)]
\* only `if shift.ndim > 0`: a 0-d shift stays 0-d
PadT(shsh, r) == IF shsh = <<>> THEN <<>>
                 ELSE shsh \o [i \in 1..(r - Len(shsh)) |-> 1]
\* freq_shift:  `if shift.isscalar: shift = shift[None]` first, then the same
PadF(shsh, r) == PadT(IF shsh = <<>> THEN <<1>> ELSE shsh, r)

\* NumPy broadcasting of the padded shift array P against the sample shape:
\* which entry of the shift array element e of the sample shape sees
Proj(e, P) == [d \in 1..Len(P) |-> IF P[d] = 1 THEN 0 ELSE e[d]]

(***************************************************************************)
(* Histories of calls.  A call event is (layout, values): the shape of the *)
(* shift array is part of it, so the same list of values laid out along    *)
(* other sample axes ((a,1) / (a,) then (1,a)) is a different call.  The   *)
(* functions are stateless: every step of a history must satisfy the       *)
(* per-element clauses on its own layout, whatever was called before.      *)
(***************************************************************************)
NoPrev == <<0>>                       \* "no earlier call in this session" (not a shape)
\* the row-major list of values of S (on padded shape P) laid out on padded shape P2
Relaid(S, P, P2) ==
  LET a == ElemSeq(P)
      b == ElemSeq(P2)
  IN [m \in Elems(P2) |-> S[a[CHOOSE j \in 1..Len(b) : b[j] = m]]]

(***************************************************************************)
(* The zero loop                                                           *)
(*     it = np.nditer(shift, flags=["multi_index"])                        *)
(*     for a in it:                                                        *)
(*         if a < 0: a = int(floor(a)); ix = (np.s_[a:],) + it.multi_index *)
(*         else:     a = int(ceil(a));  ix = (np.s_[:a],) + it.multi_index *)
(*         shifted[ix] = 0                                                 *)
(* `shift` is the un-broadcast padded array, so multi_index has a 0 on     *)
(* every length-1 axis.  fixed = FALSE transcribes this verbatim: the cell *)
(* (row, e) is written iff e agrees with multi_index on all its axes.      *)
(* fixed = TRUE is the repaired loop: length-1 axes are indexed with       *)
(* slice(None).  A 0-d shift has the empty multi_index: the basic index    *)
(* (slice,) covers every element in both versions.                         *)
(***************************************************************************)
Rows(q, N) == IF q < 0 THEN Select(Floor4(q), None, None, N)      \* [floor a:]
                       ELSE Select(None, Ceil4(q), None, N)       \* [:ceil a]
Hit(m, P, e, fixed) ==
  \A d \in 1..Len(m) : IF fixed /\ P[d] = 1 THEN TRUE ELSE e[d] = m[d]
\* over: +1 on the integer bound of whole non-zero shifts (models a float
\* product that lands just beyond the whole number; freq_shift only)
RowsOver(q, N, over) ==
  IF over /\ q # 0 /\ q % 4 = 0
  THEN (IF q < 0 THEN Select(Floor4(q) - 1, None, None, N) ELSE Select(None, Ceil4(q) + 1, None, N))
  ELSE Rows(q, N)
OpZeroO(N, ssh, P, S, fixed, over) ==
  UNION { RowsOver(S[m], N, over) \X {e \in Elems(ssh) : Hit(m, P, e, fixed)} : m \in Elems(P) }
OpZero(N, ssh, P, S, fixed) == OpZeroO(N, ssh, P, S, fixed, FALSE)

\* start / stop accumulated by the same loop
IMax(S) == IF S = {} THEN 0 ELSE SetMax(S)
IMin(S) == IF S = {} THEN 0 ELSE SetMin(S)
OpStart(P, S) == IMax({0} \cup {Ceil4(S[m]) : m \in {m \in Elems(P) : S[m] >= 0}})
OpStop(P, S)  == IMin({0} \cup {Floor4(S[m]) : m \in {m \in Elems(P) : S[m] < 0}})
\* x[start : max(start, len(x) + stop)]
OpWindow(N, P, S) == Select(OpStart(P, S), PMax(OpStart(P, S), N + OpStop(P, S)), None, N)

(***************************************************************************)
(* Declarative side, per element                                           *)
(***************************************************************************)
\* output position k (time_shift: sample; freq_shift: bin of the fftshift'ed
\* spectrum) takes its content from position k - q/4; it must be zero iff
\* that source lies outside the input positions 0 .. N-1
SourceOutside(k, q, N) == 4 * k - q < 0 \/ 4 * k - q > 4 * (N - 1)
DeclZeroE(N, q) == {k \in 0..(N - 1) : q # 0 /\ SourceOutside(k, q, N)}
\* the property's wording: the first ceil(s) for s > 0, the last ceil(|s|) for s < 0
StatedZeroE(N, q) == IF q > 0 THEN {k \in 0..(N - 1) : k < Ceil4(q)}
                     ELSE IF q < 0 THEN {k \in 0..(N - 1) : k >= N - Ceil4(-q)}
                     ELSE {}
ShiftOf(e, P, S) == S[Proj(e, P)]
DeclZero(N, ssh, P, S) ==
  {c \in (0..(N - 1)) \X Elems(ssh) : c[1] \in DeclZeroE(N, ShiftOf(c[2], P, S))}
\* crop = True keeps exactly the positions that are an edge sample of no element
DeclKeep(N, ssh, P, S) ==
  {k \in 0..(N - 1) : \A e \in Elems(ssh) : k \notin DeclZeroE(N, ShiftOf(e, P, S))}

\* whole-sample shifts on symbolic data: value = index of the input sample
\* the output holds, -1 = zero.  Operationally the phase ramp of a whole
\* shift is the circular rotation (DFT shift theorem), then the zero loop.
OpSym(N, q, k, zeroed) == IF zeroed THEN -1 ELSE (k - q \div 4) % N
DeclSym(N, q, k) == LET j == k - q \div 4 IN IF j >= 0 /\ j < N THEN j ELSE -1

(***************************************************************************)
(* Numeric leaf (N <= 8): columns of complex Fix, x[n+1] = sample n        *)
(***************************************************************************)
\* TLC keeps [k \in S |-> e] as an unevaluated lambda; Mat evaluates every
\* element once and returns the explicit tuple
RECURSIVE MatR(_, _, _)
MatR(f, i, acc) == IF i > Len(f) THEN acc ELSE MatR(f, i + 1, Append(acc, f[i]))
Mat(f) == MatR(f, 1, <<>>)
\* the kernel's DFT (Fix!DftW) with an explicit twiddle table and explicit results
TwT(N) == Mat([j \in 1..N |-> CExp(RQ(j - 1, N))])
DftM(x, sgn) == LET N == Len(x)
                    T == TwT(N)
                IN IF N = 0 THEN <<>> ELSE Mat(DftW(x, sgn, [j \in 0..(N - 1) |-> T[j + 1]]))
FDftM(x) == DftM(x, -1)
IDftM(x) == LET y == DftM(x, 1) IN Mat([k \in 1..Len(x) |-> CDivSmall(y[k], Len(x))])

\* time_shift: fft, multiply bin k by exp(-2 pi i * shift * fftfreq[k]), ifft
Delay(x, q) ==
  LET N == Len(x)
      X == FDftM(x)
  IN IDftM(Mat([k \in 1..N |-> CMul(X[k], CExp(RQ(-(FftBin(k - 1, N) * q), 4 * N)))]))
RealPart(x) == Mat([k \in 1..Len(x) |-> C(x[k].re, FZero)])
\* real data: the code keeps `shifted.real`
DelayReal(x, q) == RealPart(Delay(RealPart(x), q))
ZeroAt(y, Z) == Mat([k \in 1..Len(y) |-> IF (k - 1) \in Z THEN CZero ELSE y[k]])

\* freq_shift: multiply sample n by exp(2 pi i * ft * n), ft = q/(4N) cycles per sample
Mix(x, q) == LET N == Len(x) IN Mat([n \in 1..N |-> CMul(x[n], CExp(RQ(q * (n - 1), 4 * N)))])
\* natural (fft) index of position j of the fftshift'ed spectrum
NatIdx(j, N) == (j + N - N \div 2) % N
ShiftedIdx(k, N) == (k + N \div 2) % N
\* spectrum (natural order) after the zero loop on shifted positions Z
ZeroBins(X, Z) == Mat([k \in 1..Len(X) |-> IF ShiftedIdx(k - 1, Len(X)) \in Z THEN CZero ELSE X[k]])
\* freq_shift as a whole: mix, fft, zero the bins in Z (shifted positions), ifft
FreqShifted(x, q, Z) == IDftM(ZeroBins(FDftM(Mix(x, q)), Z))

\* test columns: small non-zero integers, different for every (N, c)
ColRe(N, c, n) == LET v == (((n * n + 3 * n * c + 5 * c + 2 * N + 1) * 7) % 13) - 6 IN IF v = 0 THEN 7 ELSE v
ColIm(N, c, n) == LET v == (((n * n * c + 2 * n + 3 * c + N + 4) * 5) % 11) - 5 IN IF v = 0 THEN -6 ELSE v
Col(N, c) == Mat([n \in 1..N |-> CFromInts(ColRe(N, c, n - 1), ColIm(N, c, n - 1))])
=============================================================================
