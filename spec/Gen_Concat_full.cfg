SPECIFICATION Spec
CONSTANTS
  RootLens <- F_RootLens
  Classes <- AllClasses
  NChans <- F_NChans
  Aligns <- AllAligns
  MaxPieces = 4
  Perturbs <- AllPerturbs



CHECK_DEADLOCK FALSE
INVARIANT Emit
