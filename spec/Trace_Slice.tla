---------------------------- MODULE Trace_Slice ----------------------------
(***************************************************************************)
(* Trace validation for C01 on sizes TLC cannot enumerate: each event is   *)
(* one real time-slice z[a:b:c] of a signal with up to ~10^9 samples.      *)
(* Lengths and bounds arrive as BigInt, times (days) and rates (Hz) as     *)
(* exact rationals of the doubles the objects hold.  The slice arithmetic  *)
(* is PySlice!Indices lifted to BigInt; the judgement is the C01 clause:   *)
(*   len' = |range(start, stop, step)|,  rate' = rate / step,              *)
(*   start_time' = start_time + start / rate,  no start time stays none.   *)
(***************************************************************************)
EXTENDS TraceBase, Rat
VARIABLES l, nbad

\* a bound is [none |-> BOOLEAN, v |-> BigInt]
BClamp(x, len, dflt) == IF x.none THEN dflt
                        ELSE IF x.v.n THEN (LET y == Add(x.v, len) IN IF y.n THEN Zero ELSE y)
                        ELSE IF Le(x.v, len) THEN x.v ELSE len
BIndices(a, b, c, len) == [start |-> BClamp(a, len, Zero), stop |-> BClamp(b, len, len),
                           step |-> IF c.none THEN One ELSE c.v]
BRangeLen(ix) == IF Lt(ix.start, ix.stop)
                 THEN FloorDiv(Add(Sub(ix.stop, ix.start), Sub(ix.step, One)), ix.step)
                 ELSE Zero

RR(x) == R(x.p, x.q)
Ulp == RPow2(-52)
DayTol == RPow2(-51)          \* two Time operations of 2^-52 day each
SecPerDay == RI(86400)

Failed(e) ==
  LET ix == BIndices(e.a, e.b, e.c, e.n)
      n1 == BRangeLen(ix)
      rate == RR(e.rate)  rate1 == RR(e.rate1)
      step == RInt(ix.step)
      dt == RDiv(RInt(ix.start), rate)                       \* seconds dropped in front
  IN (IF n1 # e.n1 THEN {"length"} ELSE {})
     \cup (IF RLe(RAbs(RSub(RMul(rate1, step), rate)), RMul(RMul(RI(4), Ulp), rate)) THEN {} ELSE {"sample_rate"})
     \cup (IF e.hasT # e.hasT1 THEN {"start_time_none"} ELSE {})
     \cup (IF e.hasT /\ e.hasT1 /\ ~IsZero(n1)
           THEN LET got == RMul(RSub(RR(e.t1), RR(e.t)), SecPerDay)
                    tol == RAdd(RMul(DayTol, SecPerDay), RMul(RMul(RI(8), Ulp), dt))
                IN IF RLe(RAbs(RSub(got, dt)), tol) THEN {} ELSE {"start_time"}
           ELSE {})
     \cup (IF e.hasT1 /\ ~IsZero(n1)
           THEN LET span == RDiv(RInt(n1), rate1)
                    got == RMul(RSub(RR(e.stop1), RR(e.t1)), SecPerDay)
                    tol == RAdd(RMul(DayTol, SecPerDay), RMul(RMul(RI(8), Ulp), span))
                IN IF RLe(RAbs(RSub(got, span)), tol) THEN {} ELSE {"stop_time"}
           ELSE {})

TraceInit == l = 1 /\ nbad = 0
TraceNext ==
  \/ /\ l <= NEvents
     /\ LET e == Trace[l]  f == Failed(e)
        IN /\ Report(l, e, f)
           /\ nbad' = nbad + (IF f = {} THEN 0 ELSE 1)
     /\ l' = l + 1
  \/ /\ l = NEvents + 1
     /\ Summary(NEvents, nbad)
     /\ l' = l + 1
     /\ UNCHANGED nbad
TraceSpec == TraceInit /\ [][TraceNext]_<<l, nbad>>
AllConsumed == TLCGet("stats").diameter >= NEvents + 1
=============================================================================
