SPECIFICATION Spec
CONSTANTS
  Shapes <- T_Shapes
  Full = FALSE
  Names <- Names1
CHECK_DEADLOCK FALSE
