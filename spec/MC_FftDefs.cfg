SPECIFICATION Spec
CONSTANTS
  Shapes <- One_Shapes
  Full = FALSE
  Names <- One_Names
INVARIANT NamesDistinct
INVARIANT InversePairs
INVARIANT RealInverse
CHECK_DEADLOCK FALSE
