------------------------------ MODULE Gen_R2C ------------------------------
(* C19 generation: every input case of MC_R2C with the output the            *)
(* operational definition computes for it, one JSON line each (numbers as    *)
(* 60-bit fixed point, BigInt limb records).  The Gen configurations also    *)
(* list every invariant of MC_R2C, so one TLC run is model checking and      *)
(* generation.                                                                *)
EXTENDS MC_R2C, Json, IOUtils, CSV
Rec ==
  IF out.kind = "vec"
  THEN [kind |-> st.kind, shape |-> <<Len(out.x)>>, ax |-> 1, flat |-> out.x,
        oshape |-> <<Len(out.y)>>, oflat |-> out.y]
  ELSE [kind |-> "array", shape |-> st.shape, ax |-> st.ax, flat |-> out.flat,
        oshape |-> out.r.shape, oflat |-> out.r.flat]
Emit == CSVWrite("%1$s", <<ToJson(Rec)>>, IOEnv.GEN_OUT)
\* the dtype rule as a table (emitted once, at the root)
DtypeRec == [kind |-> "dtypes", table |-> [d \in RealDtypes \cup ComplexDtypes |-> Outcome(d)]]
EmitCase == /\ out.kind \in {"vec", "array"} => Emit
            /\ st.kind = "root" => CSVWrite("%1$s", <<ToJson(DtypeRec)>>, IOEnv.GEN_OUT)
=============================================================================
