SPECIFICATION Spec
CONSTANTS
  RootLens <- Q_RootLens
  Classes <- AllClasses
  NChans <- Q_NChans
  Aligns <- AllAligns
  TBounds <- Q_TBounds
  TSteps <- Q_TSteps
  FBounds <- Q_FBounds
  XBounds <- Q_XBounds
  XSteps <- Q_XSteps
  Shifts <- Q_Shifts
  Delays <- Q_Delays
  IDelays <- Q_IDelays
  SnipT <- Q_SnipT
  SnipN <- Q_SnipN
  Ops <- AllOps
  MaxDepth = 1
  Fixed = TRUE
  SampleK = 0
  SampleRoots = 0
VIEW GenView










CHECK_DEADLOCK FALSE
INVARIANT Emit
