----------------------------- MODULE Trace_Shift -----------------------------
(***************************************************************************)
(* code -> spec for C03 / C04 at lengths beyond the DFT leaf (N ~ 1e3).    *)
(* The harness drives pb.time_shift / pb.freq_shift with probe signals and *)
(* records, per element of the sample shape (row-major), what it observed; *)
(* TLC decides every event with the operators of ShiftOps and CosSin.      *)
(*                                                                         *)
(* "tshift": input = tone at signed DFT bin k (complex: exp(2 pi i k n/N), *)
(*   real: 2 + cos(2 pi k n/N), the constant keeps every true output value *)
(*   away from 0), arbitrary shift array S (exact rationals of             *)
(*   the doubles the code sees, row-major over the padded shift shape).    *)
(*   Observed: lead / trail = number of leading / trailing samples that    *)
(*   are exactly 0.0, inner = exact zeros elsewhere, r = least-squares     *)
(*   complex ratio out/in on the non-zero samples, dev = max residual.     *)
(*   Demanded: zero exactly on the edge region of s_e (per element, s_e by *)
(*   the documented broadcast), r = exp(-2 pi i k s_e / N) within 1e-5.    *)
(* "fshift": shift array A in bins (exact rationals a = df * N / rate).    *)
(*   kind "impulse" (unit impulse at n0, flat spectrum): lead / trail =    *)
(*   number of bins of the fftshift'ed output spectrum with |Y| <= 1e-6,   *)
(*   inner likewise elsewhere, probes Y[k] at kept bins, demanded          *)
(*   Y[k] = exp(2 pi i (a - k) n0 / N): content moved from bin k - a.      *)
(*   kind "tone" (tone at bin b, whole-bin a): all energy at bin b + a, or *)
(*   nowhere if that left the band.  When a is within rounding of a whole  *)
(*   bin the single boundary bin is unconstrained (w or w + 1 bins zero).  *)
(***************************************************************************)
EXTENDS TraceBase, ShiftOps
VARIABLES l, nbad

Tol5 == FTol10(5)
Rr(x) == R(x.p, x.q)
RECURSIVE FlatR(_, _, _, _)
FlatR(m, P, d, acc) == IF d > Len(m) THEN acc ELSE FlatR(m, P, d + 1, acc * P[d] + m[d])
\* broadcast value for element e: entry of the row-major list V of the padded shift array
ValOf(e, P, V) == Rr(V[FlatR(Proj(e, P), P, 1, 0) + 1])

\* min(N, ceil(x)) for a positive rational x, as a native integer
CeilClip(x, N) == LET c == RCeil(x) IN IF Le(FromInt(N), c) THEN N ELSE ToInt(c)
Nearest(x) == RRound(x)
\* x within rounding (2^-49 relative: a handful of double operations) of a whole number
NearWhole(x) == RLe(RAbs(RSub(x, RInt(Nearest(x)))), RMul(RAbs(x), RPow2(-49)))
ClipN(b, N) == IF Le(FromInt(N), b) THEN N ELSE IF b.n THEN 0 ELSE ToInt(b)

(***************************************************************************)
(* time_shift                                                              *)
(***************************************************************************)
TFailedE(e, o, s) ==
  LET N == e.N
      pos == RSign(s) > 0
      neg == RSign(s) < 0
      expLead == IF pos THEN CeilClip(s, N) ELSE 0
      expTrail == IF neg THEN CeilClip(RNeg(s), N) ELSE 0
      all == expLead = N \/ expTrail = N
      want == CExp(RMul(RQ(-o.k, N), s))
  IN (IF all THEN (IF o.lead = N THEN {} ELSE {"zero-region"})
      ELSE (IF o.lead = expLead /\ o.trail = expTrail THEN {} ELSE {"zero-region"})
           \cup (IF o.inner = 0 THEN {} ELSE {"zeroed-inside"})
           \* nfit = 0: too few kept samples to measure a ratio
           \cup (IF o.nfit = 0 \/ CClose(C(o.r.re, o.r.im), want, Tol5) THEN {} ELSE {"phase"})
           \cup (IF o.nfit = 0 \/ Le(o.dev, Tol5) THEN {} ELSE {"not-a-delayed-tone"}))

TFailed(e) ==
  LET P == PadT(e.shsh, Len(e.ssh))
      es == ElemSeq(e.ssh)
  IN UNION {TFailedE(e, e.el[j], ValOf(es[j], P, e.S)) : j \in 1..Len(es)}

(***************************************************************************)
(* freq_shift                                                              *)
(***************************************************************************)
\* allowed numbers of zeroed bins at the low (a > 0) / high (a < 0) end
AllowedCount(x, N) ==       \* x > 0
  IF RLt(x, RPow2(-900)) THEN {0, 1}       \* df * dt underflows to zero or not: float decision boundary
  ELSE IF NearWhole(x) THEN {ClipN(Nearest(x), N), ClipN(Add(Nearest(x), One), N)}
  ELSE {CeilClip(x, N)}

FFailedE(e, o, a) ==
  LET N == e.N
      pos == RSign(a) > 0
      neg == RSign(a) < 0
      leads == IF pos THEN AllowedCount(a, N) ELSE {0}
      trails == IF neg THEN AllowedCount(RNeg(a), N) ELSE {0}
      all == leads = {N} \/ trails = {N}
      \* a subnormal shift turns the phase by < 1e-270 cycle: evaluated as 0 (keeps CosSin off 1000-bit rationals)
      aph == IF RLt(RAbs(a), RPow2(-900)) THEN RZero ELSE a
  IN IF e.kind = "impulse"
     THEN (IF o.lead = N THEN (IF N \in leads \/ N \in trails THEN {} ELSE {"zero-bins"})
           ELSE (IF o.lead \in leads /\ o.trail \in trails THEN {} ELSE {"zero-bins"})
                \cup (IF o.inner = 0 THEN {} ELSE {"zeroed-inside"})
                \cup UNION {IF CClose(C(p.y.re, p.y.im),
                                      CExp(RMul(RSub(aph, RI(p.k)), RQ(o.n0, N))), Tol5)
                            THEN {} ELSE {"moved-content"} : p \in {o.probes[i] : i \in 1..Len(o.probes)}})
     ELSE \* tone at bin b, whole-bin shift w
       LET w == Nearest(a)
           dest == Add(FromInt(o.b + N \div 2), w)               \* position in the shifted spectrum
           inband == ~dest.n /\ Lt(dest, FromInt(N))
           free == inband /\ ((pos /\ Eq(dest, w)) \/ (neg /\ Eq(dest, Add(FromInt(N - 1), w))))
           quiet == Le(o.rest, Tol5)
       IN IF ~NearWhole(a) THEN {"tone-probe-needs-whole-shift"}
          ELSE IF free THEN (IF quiet THEN {} ELSE {"leak"})
          ELSE IF inband
          THEN (IF o.haspeak /\ FromInt(o.peak) = Add(FromInt(o.b), w) THEN {} ELSE {"circular-move"})
               \cup (IF CClose(C(o.val.re, o.val.im), COne, Tol5) THEN {} ELSE {"amplitude"})
               \cup (IF quiet THEN {} ELSE {"leak"})
          ELSE (IF ~o.haspeak /\ quiet THEN {} ELSE {"left-band-not-zero"})

FFailed(e) ==
  LET P == PadF(e.shsh, Len(e.ssh))
      es == ElemSeq(e.ssh)
  IN UNION {FFailedE(e, e.el[j], ValOf(es[j], P, e.A)) : j \in 1..Len(es)}

(***************************************************************************)
(* snippet on long signals (C12): input = tone at bin k of a length-N      *)
(* signal (complex exp(2 pi i k m / N), real 2 + cos(2 pi k m / N)), so    *)
(* its band-limited value at any position x is exp(2 pi i k x / N).        *)
(* The event carries the requested instant t in samples as an exact        *)
(* rational (of the float count, of duration * rate, or of (Time - start)  *)
(* * rate), n, the form, whether the call was refused, and for a returned  *)
(* signal its length, off = (start_time' - start_time) * rate (exact), and *)
(* a few output samples y at indices j.  res = time resolution in samples  *)
(* (a few 2^-52 day of Time arithmetic plus 2^-47 relative).               *)
(* Demanded: ValueError iff t < 0 or t + n > N (within res of the boundary *)
(* the duration / Time forms may refuse or return); exactly n samples;     *)
(* off = t within res; y[j] = value of z at t + j within 1e-5.             *)
(***************************************************************************)
SFailed(e) ==
  LET t == Rr(e.t)
      N == e.N
      res == Rr(e.res)
      slack == RSub(RAdd(t, RI(e.n)), RI(N))
      mustRefuse == RSign(t) < 0 \/ RSign(slack) > 0
      nearEdge == e.form # "count" /\ (RLe(RAbs(slack), res) \/ RLe(RAbs(t), res))
      ak == IF e.k < 0 THEN -e.k ELSE e.k
      tolP == Add(Tol5, FFromRat(RMul(RQ(7 * ak, N), res)))
      Want(j) == RMul(RQ(e.k, N), RAdd(t, RI(j)))
      PBad(p) == IF e.real
                 THEN ~FClose(p.y.re, Add(FFromInt(2), CosSin(Want(p.j)).c), tolP)
                 ELSE ~CClose(C(p.y.re, p.y.im), CExp(Want(p.j)), tolP)
  IN IF nearEdge /\ e.refused THEN {}           \* across the bound of the derived float count: may refuse
     ELSE IF mustRefuse /\ ~nearEdge THEN (IF e.refused THEN {} ELSE {"no-refusal"})
     ELSE IF e.refused THEN {"refused-valid-request"}
     ELSE (IF e.len = e.n THEN {} ELSE {"length"})
          \cup (IF ~e.hasT \/ RLe(RAbs(RSub(Rr(e.off), t)), res) THEN {} ELSE {"start-time"})
          \cup (IF \E i \in 1..Len(e.probes) : PBad(e.probes[i]) THEN {"value"} ELSE {})

Failed(e) == IF e.ev = "tshift" THEN TFailed(e)
             ELSE IF e.ev = "fshift" THEN FFailed(e)
             ELSE IF e.ev = "snip" THEN SFailed(e)
             ELSE {"unknown-event"}

TraceInit == l = 1 /\ nbad = 0
TraceNext ==
  \/ /\ l <= NEvents
     /\ LET e == Trace[l]  f == Failed(e)
        IN /\ Report(l, e, f)
           /\ nbad' = nbad + (IF f = {} THEN 0 ELSE 1)
     /\ l' = l + 1
  \/ /\ l = NEvents + 1
     /\ Summary(NEvents, nbad)
     /\ l' = l + 1
     /\ UNCHANGED nbad
TraceSpec == TraceInit /\ [][TraceNext]_<<l, nbad>>
AllConsumed == TLCGet("stats").diameter >= NEvents + 1
=============================================================================
