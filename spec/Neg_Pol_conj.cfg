SPECIFICATION Spec
CONSTANTS
  Vals <- N_Vals
  Bases <- Both
  MaxConv = 2
  Variant = "conj"
INVARIANT PowerKept
INVARIANT RoundTrip
INVARIANT IdentityInOwnBasis
INVARIANT ConversionIsDefinition
INVARIANT StokesFormulas
INVARIANT BasisIndependent
INVARIANT Polarised
INVARIANT IntensitySum
INVARIANT ItemIsComponent
INVARIANT OnlyNamesAnswered

CHECK_DEADLOCK FALSE
