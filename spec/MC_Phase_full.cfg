SPECIFICATION Spec
CONSTANTS
  MaxK <- F_MaxK
  Lits <- F_Lits
  Factors <- F_Factors
  OKinds <- AllOKinds
  Variant = "spec"
INVARIANT TypeOK
INVARIANT ResultIsPhase
INVARIANT NormalisedInv
INVARIANT AddSubInverse
INVARIANT MulDivInverse
INVARIANT ImagRule
INVARIANT DivModLaw
CHECK_DEADLOCK FALSE
