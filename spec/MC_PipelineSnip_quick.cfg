SPECIFICATION Spec
CONSTANTS
  RootLens <- Q_RootLens
  Classes <- SnipClasses
  NChans <- S_NChans
  Aligns <- S_Aligns
  TBounds <- Q_TBounds
  TSteps <- Q_TSteps
  FBounds <- Q_FBounds
  XBounds <- Q_XBounds
  XSteps <- Q_XSteps
  Shifts <- Q_Shifts
  Delays <- Q_Delays
  IDelays <- Q_IDelays
  SnipT <- Q_SnipT
  SnipN <- Q_SnipN
  Ops <- SnipOps
  MaxDepth = 2
  Fixed = TRUE
  SampleK = 0
  SampleRoots = 0
VIEW View
INVARIANT Timestamps
INVARIANT PeriodOK
INVARIANT NoTimeFromNowhere
INVARIANT ContainsOK
INVARIANT ChkOK
CHECK_DEADLOCK FALSE
