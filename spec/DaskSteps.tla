------------------------------ MODULE DaskSteps ------------------------------
(***************************************************************************)
(* The per-step clauses of C09, as predicates on what can be observed of   *)
(* one public call: the class of the call (kind: "transform" builds a new  *)
(* signal, "container" = to_dask_array / rechunk, "run" = compute /        *)
(* persist / np.asarray), a summary of the signal before and after         *)
(* (cls, sh, back, ch, and per / t0 / clo standing for the metadata), and  *)
(* the execution counter of the input graph before and after.  Used by     *)
(* spec/Dask.tla (on sig, sig') and by spec/Trace_Dask.tla (on recorded    *)
(* events of the real code).                                               *)
(***************************************************************************)
EXTENDS Integers, Sequences
RECURSIVE Sum(_)
Sum(s) == IF s = <<>> THEN 0 ELSE Head(s) + Sum(Tail(s))

\* a chunk list is a composition of the axis length (or <<0>> for an empty axis)
IsComposition(c, n) ==
  /\ Len(c) >= 1
  /\ Sum(c) = n
  /\ (n > 0 => \A j \in 1..Len(c) : c[j] >= 1)
  /\ (n = 0 => c = <<0>>)
\* step predicates, shared with spec/Trace_Dask.tla (pre / post are Summary-like records,
\* kind is the class of the public call, n0 / n1 the execution counter before / after)
LazyStep(kind, n0, n1) == kind \in {"transform", "container"} => n1 = n0
StaysDaskStep(kind, pre, post) == (kind = "transform" /\ pre.back = "dask") => post.back = "dask"
NumpyStaysNumpyStep(kind, pre, post) == (kind = "transform" /\ pre.back = "np") => post.back = "np"
ContainerOnlyStep(kind, pre, post) ==
  kind \in {"container", "run"} =>
    /\ post.cls = pre.cls /\ post.sh = pre.sh /\ post.per = pre.per /\ post.t0 = pre.t0 /\ post.clo = pre.clo
\* the chunk grid of a Dask-backed result: per axis, chunk lengths that add up to the axis
\* length (real Dask also produces empty chunks, e.g. when empty pieces are concatenated)
IsChunking(c, n) == Len(c) >= 1 /\ Sum(c) = n /\ \A j \in 1..Len(c) : c[j] >= 0
GridStep(post) ==
  post.back = "dask" => /\ Len(post.ch) = Len(post.sh)
                        /\ \A a \in 1..Len(post.sh) : IsChunking(post.ch[a], post.sh[a])
\* a refusal is legitimate only for an FFT over an axis that is chunked
FftAxes(op, a) ==
  CASE op \in {"time_shift", "freq_shift", "coh_dd", "snippet", "stft"} -> {1}
    [] op = "istft" -> {2}
    [] op = "fft_axis" -> {a[j] : j \in 1..Len(a)}
    [] OTHER -> {}
RefusalStep(op, a, refused, pre) ==
  refused => pre.back = "dask" /\ \E ax \in FftAxes(op, a) : ax \in 1..Len(pre.ch) /\ Len(pre.ch[ax]) > 1

\* how a run ends: compute -> NumPy-backed; persist -> still Dask-backed with the same chunks;
\* np.asarray(signal) and "peek" (x.compute() while x lives on) leave the signal as it was;
\* nothing happens to a NumPy-backed signal
RunStep(op, pre, post) ==
  /\ pre.back = "np" => post.back = "np"
  /\ (pre.back = "dask" /\ op = "compute") => post.back = "np"
  /\ (pre.back = "dask" /\ op = "persist") => post.back = "dask" /\ post.ch = pre.ch
  /\ (pre.back = "dask" /\ op \in {"asarray", "peek"}) => post.back = "dask" /\ post.ch = pre.ch
\* a persisted signal holds its data: computing it again ("rerun") executes no task of the
\* graph that was persisted
RerunStep(kind, n0, n1) == kind = "rerun" => n1 = n0
\* to_dask_array / rechunk always return a Dask-backed signal
ContainerBackStep(kind, post) == kind = "container" => post.back = "dask"
=============================================================================
