---------------------------- MODULE Gen_FastLen ----------------------------
(* Behaviour generation for C18 (a): the final state of every behaviour of  *)
(* the transcribed loops, i.e. (function, N, result), one JSON line each.   *)
(* The same run checks the invariants, so every emitted result has been     *)
(* verified to be the nearest 7-smooth number.                              *)
EXTENDS MC_FastLen, Json, IOUtils, CSV
EmitDone == pc = "Done" =>
  CSVWrite("%1$s", <<ToJson([fn |-> fn, N |-> N, res |-> res, steps |-> steps])>>, IOEnv.GEN_OUT)
=============================================================================
