------------------------------ MODULE Pipeline ------------------------------
(***************************************************************************)
(* Cropping / selecting pipelines over pulsarbat signals.                  *)
(*                                                                         *)
(* State: a root signal and the current signal obtained from it by a       *)
(* chain of public operations.  Every operation is written the way the     *)
(* code computes it (slice.indices arithmetic, crop windows, the like()    *)
(* rebuild with chan_bw = sample_rate for baseband classes), while the     *)
(* ledger fields k0 / stride / dly / clo record where the retained         *)
(* samples and channels really come from (derived from the *selection*,    *)
(* not from the metadata arithmetic).  The properties C01, C02, C12, C16   *)
(* and the crop clauses of C03, C05, C06, C18 are invariants relating the  *)
(* two.                                                                    *)
(*                                                                         *)
(* Units.  Time is counted in ticks; one sample period of the root is 4    *)
(* ticks, so quarter-sample shifts are integers; the root starts at tick   *)
(* 0.  Frequency is counted in units of the root's channel bandwidth as    *)
(* exact rationals (module Q); the root's centre frequency is 0.  The      *)
(* replayer maps ticks and frequency units to real seconds / Hz.           *)
(***************************************************************************)
EXTENDS Signals, TLC, Randomization

CONSTANTS
  RootLens,     \* lengths of the root signal
  Classes,      \* signal classes of the root
  NChans,       \* channel counts for radio classes
  Aligns,       \* freq_align values of the root
  TBounds,      \* integer slice bounds on the time axis (None is added)
  TSteps,       \* slice steps on the time axis (None is added)
  FBounds,      \* integer slice bounds on the frequency axis (None is added)
  XBounds,      \* time bounds used in combined time+frequency slices
  XSteps,       \* time steps used in combined time+frequency slices
  Shifts,       \* time_shift amounts in quarter samples
  Delays,       \* dedispersion edge delays in quarter samples
  IDelays,      \* incoherent (rounded) delays in samples
  SnipT,        \* snippet start positions in quarter samples
  SnipN,        \* snippet lengths
  Ops,          \* enabled operations
  MaxDepth,     \* maximal pipeline length
  Fixed,        \* TRUE: crop windows clamped (repaired tree); FALSE: pinned tree
  SampleK,      \* 0: explore every argument; k > 0: k random arguments per parameter
  SampleRoots   \* 0: every root; k > 0: k random roots

VARIABLES root, cur, hist, st, chk
vars == <<root, cur, hist, st, chk>>

Roots == {MkRoot(c, n, ht, nc, al) :
            c \in Classes, n \in RootLens, ht \in BOOLEAN, nc \in NChans, al \in Aligns}

\* time_shift(z, q/4, crop=True) for a scalar shift of q quarter samples
ShiftWindow(s, q) ==
  LET start == IF q < 0 THEN 0 ELSE PMax(0, Ceil4(q))
      stop  == IF q < 0 THEN PMin(0, Floor4(q)) ELSE 0
      hi    == s.len + stop
  IN [start |-> start, stoparg |-> IF Fixed THEN PMax(start, hi) ELSE hi, hi |-> hi]
ShiftCropRec(s, q) ==
  IF q = 0 THEN s
  ELSE LET w == ShiftWindow(s, q)
           x == [s EXCEPT !.dly = s.dly + q * s.stride]
       IN TimeSliceRec(x, w.start, w.stoparg, None)
\* what crop=True must keep: exactly the samples whose source was in range
ShiftCropDecl(s, q) ==
  {k \in 0..(s.len - 1) : (q > 0 => k >= Ceil4(q)) /\ (q < 0 => k < s.len + Floor4(q))}

\* coherent_dedispersion crop for band-edge delays dt, db (quarter samples)
CohWindow(s, dt, db) ==
  LET lo == PMin(0, PMin(dt, db))
      hi == PMax(0, PMax(dt, db))
      start == Ceil4(-lo)
      stop  == s.len - Ceil4(hi)
  IN [start |-> start, stoparg |-> IF Fixed THEN PMax(start, stop) ELSE stop]
CohRec(s, dt, db) == LET w == CohWindow(s, dt, db)
                     IN TimeSliceRec(s, w.start, w.stoparg, None)
\* valid output times: every frequency between the band edges (delays are
\* monotone in frequency, and the reference has delay 0) finds its source
\* k + d inside the input
CohDecl(s, dt, db) ==
  {k \in 0..(s.len - 1) : \A d \in {0, dt, db} : 4 * k + d >= 0 /\ 4 * k + d <= 4 * (s.len - 1)}

\* incoherent_dedispersion for rounded delays d0 (first) and dl (last channel)
IncohN(s, d0, dl) == LET cb == -PMin(0, PMin(d0, dl))
                     IN s.len - PMax(d0 + cb, dl + cb)
IncohRec(s, d0, dl) ==
  LET cb == -PMin(0, PMin(d0, dl))
      n  == IncohN(s, d0, dl)
  IN [s EXCEPT !.len = PMax(n, 0),
               !.t0 = IF s.hasT THEN s.t0 + cb * s.per ELSE 0,
               !.k0 = s.k0 + cb * s.per]

\* snippet(z, tq/4, n)
SnippetOK(s, tq, n) == n >= 0 /\ tq >= 0 /\ tq + 4 * n <= 4 * s.len
SnippetRec(s, tq, n) ==
  LET i == tq \div 4
  IN IF 4 * i = tq THEN TimeSliceRec(s, i, i + n, None)
     ELSE LET sh == ShiftCropRec(s, 4 * i - tq)
              \* like(z, shifted, start_time = z.start_time - shift*dt)
              \* re-stamping the grid by the fraction cancels the content delay:
              \* sample j of z2 sits at time t0 + frac + j*per and holds z's
              \* band-limited value at exactly that time
              z2 == [sh EXCEPT !.t0 = IF s.hasT THEN s.t0 + (tq - 4 * i) * s.stride ELSE 0,
                               !.k0 = s.k0 + (tq - 4 * i) * s.stride,
                               !.dly = s.dly]
          IN TimeSliceRec(z2, i, i + n, None)

\* largest 7-smooth number <= n (0 -> 0)
RECURSIVE Strip(_, _)
Strip(n, p) == IF n % p = 0 THEN Strip(n \div p, p) ELSE n
Smooth7(n) == n = 0 \/ Strip(Strip(Strip(Strip(n, 2), 3), 5), 7) = 1
Prev7(n) == SetMax({m \in 0..n : Smooth7(m)})

(***************************************************************************)
(* Next-state relation                                                     *)
(***************************************************************************)
\* exhaustive exploration (SampleK = 0) or random sampling of arguments
\* (behaviour generation for deep pipelines; never used for the invariants)
Pick(S) == IF SampleK = 0 \/ Cardinality(S) <= SampleK THEN S ELSE RandomSubset(SampleK, S)
TB == Pick(TBounds \cup {None})
TS == Pick(TSteps \cup {None})
FB == Pick(FBounds \cup {None})
XB == Pick(XBounds \cup {None})
XS == Pick(XSteps \cup {None})

Do(op, args, new, ok) ==
  /\ cur' = new
  /\ hist' = Append(hist, [op |-> op, args |-> args, err |-> FALSE])
  /\ st' = "ok"
  /\ chk' = ok
  /\ UNCHANGED root
Refuse(op, args, kind) ==
  /\ hist' = Append(hist, [op |-> op, args |-> args, err |-> TRUE, kind |-> kind])
  /\ st' = "err"
  /\ UNCHANGED <<root, cur, chk>>

TimeSlice ==
  \E a \in TB, b \in TB, c \in TS :
    Do("time_slice", <<a, b, c>>, TimeSliceRec(cur, a, b, c), TRUE)

FreqSlice ==
  /\ IsRadio(cur.cls)
  /\ \E a \in FB, b \in FB :
       IF FreqSliceOK(cur, a, b)
       THEN Do("freq_slice", <<a, b>>, FreqSliceRec(cur, a, b), TRUE)
       ELSE Refuse("freq_slice", <<a, b>>, "AssertionError")

\* z[a:b:c, d:e] in one indexing operation
TFSlice ==
  /\ IsRadio(cur.cls)
  /\ \E a \in XB, b \in XB, c \in XS,
        d \in FB, e \in FB :
       IF FreqSliceOK(cur, d, e)
       THEN Do("tf_slice", <<a, b, c, d, e>>,
               TimeSliceRec(FreqSliceRec(cur, d, e), a, b, c), TRUE)
       ELSE Refuse("tf_slice", <<a, b, c, d, e>>, "AssertionError")

StokesItem ==
  /\ cur.cls = "FullStokesSignal"
  /\ \E k \in {"I", "Q", "U", "V"} :
       Do("stokes_item", <<k>>, [cur EXCEPT !.cls = "IntensitySignal"], TRUE)

ToIntensity ==
  /\ IsBaseband(cur.cls)
  /\ Do("to_intensity", <<>>, [cur EXCEPT !.cls = "IntensitySignal"], TRUE)

ToStokes ==
  /\ cur.cls = "DualPolarizationSignal"
  /\ Do("to_stokes", <<>>, [cur EXCEPT !.cls = "FullStokesSignal"], TRUE)

FastLen ==
  Do("fast_len", <<>>, TimeSliceRec(cur, None, Prev7(cur.len), None),
     TimeSliceRec(cur, None, Prev7(cur.len), None).len = Prev7(cur.len))

ShiftCrop ==
  \E q \in Pick(Shifts) :
    LET new == ShiftCropRec(cur, q)
        w == ShiftWindow(cur, q)
    IN Do("shift_crop", <<q>>, new,
          q = 0 \/ Select(w.start, w.stoparg, None, cur.len) = ShiftCropDecl(cur, q))

CohDD ==
  /\ IsBaseband(cur.cls)
  /\ \E dt \in Pick(Delays), db \in Pick(Delays) :
       LET w == CohWindow(cur, dt, db)
       IN Do("coh_dd", <<dt, db>>, CohRec(cur, dt, db),
             Select(w.start, w.stoparg, None, cur.len) = CohDecl(cur, dt, db))

IncohDD ==
  /\ IsRadio(cur.cls)
  /\ \E d0 \in Pick(IDelays), dl \in Pick(IDelays) :
       /\ (cur.nchan = 1 => d0 = dl)
       /\ IF IncohN(cur, d0, dl) >= 0
          THEN Do("incoh_dd", <<d0, dl>>, IncohRec(cur, d0, dl), TRUE)
          ELSE \/ Refuse("incoh_dd", <<d0, dl>>, "ValueError")
               \/ Do("incoh_dd", <<d0, dl>>, IncohRec(cur, d0, dl), TRUE)

Snippet ==
  \E tq \in Pick(SnipT), n \in Pick(SnipN) :
    IF SnippetOK(cur, tq, n)
    THEN LET new == SnippetRec(cur, tq, n)
         IN Do("snippet", <<tq, n>>, new,
               /\ new.len = n
               /\ (cur.hasT => new.t0 = cur.t0 + tq * cur.stride)
               /\ new.k0 - new.dly = (cur.k0 - cur.dly) + tq * cur.stride
               /\ new.per = cur.per)
    ELSE Refuse("snippet", <<tq, n>>, "ValueError")

Init == /\ root \in (IF SampleRoots = 0 THEN Roots ELSE RandomSubset(SampleRoots, Roots)) /\ cur = root /\ hist = <<>> /\ st = "ok" /\ chk = TRUE

Next ==
  /\ st = "ok"
  /\ Len(hist) < MaxDepth
  /\ \/ ("time_slice" \in Ops /\ TimeSlice)
     \/ ("freq_slice" \in Ops /\ FreqSlice)
     \/ ("tf_slice" \in Ops /\ TFSlice)
     \/ ("stokes_item" \in Ops /\ StokesItem)
     \/ ("to_intensity" \in Ops /\ ToIntensity)
     \/ ("to_stokes" \in Ops /\ ToStokes)
     \/ ("fast_len" \in Ops /\ FastLen)
     \/ ("shift_crop" \in Ops /\ ShiftCrop)
     \/ ("coh_dd" \in Ops /\ CohDD)
     \/ ("incoh_dd" \in Ops /\ IncohDD)
     \/ ("snippet" \in Ops /\ Snippet)

Spec == Init /\ [][Next]_vars

(***************************************************************************)
(* Properties                                                              *)
(***************************************************************************)
\* C01: the stamped start time is the time of the root sample that sample 0
\* was taken from; the period follows the accumulated step
Timestamps == (cur.hasT /\ cur.len > 0) => cur.t0 = cur.k0
PeriodOK == cur.per = 4 * cur.stride
NoTimeFromNowhere == cur.hasT = root.hasT /\ (~cur.hasT => cur.t0 = 0)
\* contains(t) as coded:  (~isclose(t,t1) | isclose(t,t0)) & (t0<=t) & (t<t1)
ContainsOp(s, t) == LET t1 == s.t0 + s.len * s.per
                    IN (t # t1 \/ t = s.t0) /\ s.t0 <= t /\ t < t1
ContainsOK ==
  cur.hasT =>
    \A t \in (cur.t0 - 8)..(cur.t0 + cur.len * cur.per + 8) :
      ContainsOp(cur, t) <=> (cur.t0 <= t /\ t < cur.t0 + cur.len * cur.per)
\* every action met its own declarative post-condition (crop windows, snippet)
ChkOK == chk

\* C02: labels follow the band model and survive channel selection.  The
\* one structural exception is named: a baseband signal that was stepped in
\* time has chan_bw = sample_rate/step, which rescales a multi-channel band.
BasebandStepConflict(s) == IsBaseband(root.cls) /\ s.stride > 1 /\ root.nchan > 1
LabelsKept ==
  (IsRadio(cur.cls) /\ ~BasebandStepConflict(cur)) =>
     \A i \in 0..(cur.nchan - 1) : Label(cur, i) = Label(root, cur.clo + i)
LabelsKeptStrict ==
  IsRadio(cur.cls) => \A i \in 0..(cur.nchan - 1) : Label(cur, i) = Label(root, cur.clo + i)
LabelsInBand ==
  IsRadio(cur.cls) =>
     /\ \A i \in 0..(cur.nchan - 1) :
          QLe(MinFreq(cur), Label(cur, i)) /\ QLe(Label(cur, i), MaxFreq(cur))
     /\ \A i \in 0..(cur.nchan - 2) : QSub(Label(cur, i + 1), Label(cur, i)) = cur.cbw
     /\ QSub(MaxFreq(cur), MinFreq(cur)) = QMul(cur.cbw, QI(cur.nchan))
     /\ cur.nchan >= 1
\* C16: baseband classes keep chan_bw == sample_rate through every operation
BasebandCbw == IsBaseband(cur.cls) => QMul(cur.cbw, QI(cur.stride)) = QI(1)
AlignNormal == IsRadio(cur.cls) => cur.align = NormAlign(cur.align, cur.nchan)
RadioShape == IsRadio(cur.cls) <=> cur.nchan >= 1

\* two readings of Python slicing agree on everything explored
SliceAgree == \A a \in TBounds \cup {None}, b \in TBounds \cup {None}, c \in TSteps \cup {None} :
                Agree(a, b, c, cur.len)

\* hist is observation only
View == <<root, cur, st, chk, Len(hist)>>
\* behaviour generation collapses slices by outcome (NumPy decides which bounds are equivalent) but keeps
\* every argument combination of the crop / dedispersion / snippet operations: two argument tuples with
\* the same specified outcome may still take different paths through the implementation's window arithmetic
GenView == <<root, cur, st, chk, Len(hist),
             IF hist # <<>> /\ hist[Len(hist)].op \in {"coh_dd", "shift_crop", "incoh_dd", "snippet"}
             THEN hist[Len(hist)].args ELSE <<>>>>
=============================================================================
