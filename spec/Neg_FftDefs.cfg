SPECIFICATION Spec
CONSTANTS
  Cols <- C3
INVARIANT NamesDistinctOn1D
CHECK_DEADLOCK FALSE
