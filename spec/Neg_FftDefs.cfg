SPECIFICATION Spec
CONSTANTS
  Shapes <- One_Shapes
  Full = FALSE
  Names <- One_Names
INVARIANT NamesDistinctOnReal1D
CHECK_DEADLOCK FALSE
