---------------------------- MODULE PhaseMachine ----------------------------
(***************************************************************************)
(* C07 MC-1: a small register machine over spec/Phase.tla.                 *)
(*                                                                         *)
(* Two registers hold abstract phases on the 1/8-cycle lattice             *)
(* (value k/8, |k| <= MaxK, real or imaginary) together with the kind of   *)
(* object the operation that produced them must return.  The actions are   *)
(* the public operations: construction from one or two numbers, + - with   *)
(* another register or a literal of any operand kind in both orders,       *)
(* negation / abs / +x, * and / by real and imaginary dimensionless        *)
(* factors, and the remainder of floor division.  Every lattice pair is    *)
(* an initial state (construction), so the invariants - which quantify     *)
(* over all literals and factors - are decided for every pair of lattice   *)
(* phases and every state reachable by the operations.                     *)
(*                                                                         *)
(* Variant = "spec" is the specification.  The other variants transcribe   *)
(* the flag logic of the pinned implementation and exist only to show that *)
(* the invariants are not vacuous (Neg_Phase_*.cfg must be rejected):      *)
(*   "pinned_ii"  from_angles without the sign flip for imaginary phase *  *)
(*                imaginary factor  ((a*1j)*1j = +a);                      *)
(*   "pinned_np2" multiplication / division by a plain float degrades to   *)
(*                Angle (copy=False under NumPy 2, repaired in /repo).     *)
(***************************************************************************)
EXTENDS Phase, TLC
CONSTANTS MaxK, Lits, Factors, OKinds, Variant
VARIABLES reg

Regs == {1, 2}
LatK == (0 - MaxK)..MaxK
Val(r) == PV(RQ(r.k, 8), r.im)
Lit(k, im) == PV(RQ(k, 8), im)
Fac(f, im) == PV(RQ(f[1], f[2]), im)
OnLattice(v) == LET w == RMul(v, RI(8))
                IN RIsInt(w) /\ RLe(RAbs(w), RI(MaxK))
ToK(v) == ToInt(RFloor(RMul(v, RI(8))))

MulOp(a, f) == IF Variant = "pinned_ii" THEN Ok(RMul(a.v, f.v), a.im # f.im) ELSE PMul(a, f)
DivOp(a, d) == PDiv(a, d)

(* kinds a literal of the given flag can have *)
KindsFor(op, im) ==
  {k \in OKinds : /\ (k \in PlainKinds \cup DimlessKinds => ~im)
                  /\ (k \in ComplexKinds => im)}
ResKindOne(op, other, ord) ==
  IF Variant = "pinned_np2" /\ op \in {"mul", "div"} /\ other \in {"pyfloat", "pyint", "pycomplex"}
  THEN "Angle"
  ELSE IF MustBePhase(op, other, ord) THEN "Phase" ELSE "Quantity"
(* the result kind over ALL operand kinds for which the property demands a *)
(* Phase: "Phase" only if none of them degrades                            *)
ResKind(op, im, ord) ==
  LET ks == {k \in KindsFor(op, im) : MustBePhase(op, k, ord)}
  IN IF \A k \in ks : ResKindOne(op, k, ord) = "Phase" THEN "Phase" ELSE "Degraded"

Store(i, res, kind) ==
  /\ res.ok /\ OnLattice(res.v)
  /\ reg' = [reg EXCEPT ![i] = [k |-> ToK(res.v), im |-> res.im, kind |-> kind]]

Init == reg \in [Regs -> [k : LatK, im : BOOLEAN, kind : {"Phase"}]]

ActNew1(i) == \E k \in Lits, im \in BOOLEAN :
  Store(i, PNew1(Lit(k, im)), ResKind("new1", im, "po"))
ActNew2(i) == \E k1 \in Lits, k2 \in {k \in Lits : k % 4 = 0}, im \in BOOLEAN :       \* incl. unnormalised pairs
  Store(i, PNew2(Lit(k1, im), Lit(k2, im)), ResKind("new2", im, "po"))
ActAddSubReg(i, j) == \E op \in {"add", "sub"} :
  Store(i, Apply2(op, Val(reg[i]), Val(reg[j])), ResKindOne(op, "phase", "po"))
ActAddSubLit(i) == \E op \in {"add", "sub"}, k \in Lits, ord \in {"po", "op"} :
  LET a == Val(reg[i])  b == Lit(k, reg[i].im)
  IN Store(i, IF ord = "po" THEN Apply2(op, a, b) ELSE Apply2(op, b, a),
           ResKind(op, reg[i].im, ord))
ActUnary(i) == \E op \in {"neg", "abs", "pos"} :
  Store(i, Apply1(op, Val(reg[i])), ResKindOne(op, "phase", "po"))
ActMul(i) == \E f \in Factors, im \in BOOLEAN, ord \in {"po", "op"} :
  Store(i, MulOp(Val(reg[i]), Fac(f, im)), ResKind("mul", im, ord))
ActDiv(i) == \E f \in Factors, im \in BOOLEAN :
  Store(i, DivOp(Val(reg[i]), Fac(f, im)), ResKind("div", im, "po"))
ActModReg(i, j) == Store(i, Apply2("mod", Val(reg[i]), Val(reg[j])), ResKindOne("mod", "phase", "po"))
ActModLit(i) == \E k \in Lits :
  Store(i, Apply2("mod", Val(reg[i]), Lit(k, FALSE)), ResKind("mod", FALSE, "po"))

Next == \E i \in Regs :
  \/ ActNew1(i) \/ ActNew2(i) \/ ActAddSubLit(i) \/ ActUnary(i) \/ ActMul(i) \/ ActDiv(i) \/ ActModLit(i)
  \/ \E j \in Regs : ActAddSubReg(i, j) \/ ActModReg(i, j)
Spec == Init /\ [][Next]_reg

(***************************************************************************)
(* Invariants = clauses of C07 on the abstract values                      *)
(***************************************************************************)
SameV(x, y) == x.ok /\ y.ok /\ REq(x.v, y.v) /\ x.im = y.im
Is(x, a) == x.ok /\ REq(x.v, a.v) /\ x.im = a.im
AsPV(x) == PV(x.v, x.im)

TypeOK == \A i \in Regs : reg[i].k \in LatK /\ reg[i].im \in BOOLEAN
                          /\ reg[i].kind \in {"Phase", "Quantity", "Angle", "Degraded"}

(* never degrades to a single double *)
ResultIsPhase == \A i \in Regs : reg[i].kind = "Phase"

(* every value has a normal form (int integral, |frac| <= 1/2, int + frac  *)
(* = value); exactly the ties k/8 = n + 1/2 have two                       *)
NormalisedInv ==
  \A i \in Regs :
    LET v == Val(reg[i]).v
        n == NormInt(v)
        f == NormFrac(v)
        tie == reg[i].k % 8 = 4
    IN /\ IsNormalFormOf(RInt(n), f, v)
       /\ ~NIsOdd(n.m) \/ ~tie                                   \* half to even
       /\ tie <=> (\E d \in {-1, 1} : IsNormalFormOf(RInt(Add(n, FromInt(d))), RSub(f, RI(d)), v))

AddSubInverse ==
  \A i \in Regs :
    LET a == Val(reg[i])
        Others == {Val(reg[j]) : j \in Regs} \cup {Lit(k, a.im) : k \in Lits}
    IN \A b \in {o \in Others : o.im = a.im} :
         /\ Is(PSub(AsPV(PAdd(a, b)), b), a)
         /\ Is(PAdd(AsPV(PSub(a, b)), b), a)
         /\ SameV(PAdd(a, AsPV(PNeg(b))), PSub(a, b))
         /\ SameV(PAdd(a, b), PAdd(b, a))
         /\ IsZeroPV(PSub(a, a))
    /\ \A o \in Others : o.im # a.im => ~PAdd(a, o).ok /\ ~PSub(a, o).ok

MulDivInverse ==
  \A i \in Regs, f \in Factors, im \in BOOLEAN :
    LET a == Val(reg[i])  F == Fac(f, im)
    IN IF IsZeroPV(F) THEN ~DivOp(a, F).ok /\ IsZeroPV(MulOp(a, F))
       ELSE /\ Is(DivOp(AsPV(MulOp(a, F)), F), a)
            /\ Is(MulOp(AsPV(DivOp(a, F)), F), a)

(* i*i = -1,  x/(i) = -i x,  and in general agreement with complex         *)
(* multiplication of the embeddings                                        *)
ImagRule ==
  \A i \in Regs :
    LET a == Val(reg[i])
        I == PV(ROne, TRUE)
    IN /\ Is(MulOp(AsPV(MulOp(a, I)), I), AsPV(PNeg(a)))
       /\ SameV(DivOp(a, I), PNeg(AsPV(MulOp(a, I))))
       /\ \A f \in Factors, im \in BOOLEAN :
            LET F == Fac(f, im)
            IN /\ CxEq(Cx(MulOp(a, F)), CxMul(Cx(a), Cx(F)))
               /\ MulOp(a, F).im = (a.im # F.im)
               /\ IsZeroPV(F) \/ CxEq(CxMul(Cx(DivOp(a, F)), Cx(F)), Cx(a))

(* a = q*d + r with r in [0, d) (d > 0) or (d, 0] (d < 0) *)
DivModLaw ==
  \A i \in Regs :
    LET a == Val(reg[i])
        Ds == {Val(reg[j]) : j \in Regs} \cup {Lit(k, FALSE) : k \in Lits}
    IN \A d \in Ds :
         IF ~DivDefined(a, d) THEN ~Apply2("mod", a, d).ok
         ELSE LET q == PQuot(a, d)  r == PRem(a, d).v
              IN /\ REq(RAdd(RMul(RInt(q), d.v), r), a.v)
                 /\ IF RSign(d.v) > 0 THEN RSign(r) >= 0 /\ RLt(r, d.v)
                    ELSE RSign(r) <= 0 /\ RLt(d.v, r)
=============================================================================
