---------------------------- MODULE Gen_Contract ----------------------------
EXTENDS Contract, Json, IOUtils, CSV
Emit == (phase = "called") =>
          CSVWrite("%1$s", <<ToJson([args |-> args, expect |-> Expect(args), built |-> obj,
                                     obj |-> ObjOf(args)])>>, IOEnv.GEN_OUT)
EmitCatalog == (phase = "args" /\ nmut = 0 /\ args.cls = "Signal") =>
  CSVWrite("%1$s", <<ToJson([catalog |-> [rate |-> RateKinds, cbw |-> RateKinds, cf |-> CfKinds, start |-> StartKinds,
                                          meta |-> MetaKinds, align |-> AlignKinds, pol |-> PolKinds]])>>, IOEnv.GEN_OUT)
\* assignments: every setter kind on a valid object of each class
SetCases == {<<c, f, k>> \in Classes \X SetterFields \X
               UNION {Kinds(f) : f \in SetterFields} :
               k \in Kinds(f) /\ (Relevant(c, f) \/ (f = "cbw" /\ IsRadio(c)))}
=============================================================================
