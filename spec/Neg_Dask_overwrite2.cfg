SPECIFICATION Spec
CONSTANTS
  Roots <- N_OverRoots
  Ops <- N_OverOps
  Scheds = {"any"}
  MaxDepth = 2
  MaxRuns = 2
  MaxTasks = 12
  FftNeedsOneChunk = TRUE
  ChirpKeyByChannel = TRUE
  EagerOps <- None_
  NumpyOps <- None_
  ReaderPerBlock = FALSE
  OverwriteTags <- N_OverTags
  StickyKwargs = FALSE
  LazySetitemLost = FALSE
  RollShortcut = FALSE
  SharedHandle = FALSE
VIEW View
INVARIANT SameAsNumpy
CHECK_DEADLOCK FALSE
