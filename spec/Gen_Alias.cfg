SPECIFICATION Spec
CONSTANTS MaxObjs = 4
  MaxSteps = 3
  IstftInPlace = FALSE
INVARIANT Emit
CHECK_DEADLOCK FALSE
