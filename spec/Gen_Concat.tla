----------------------------- MODULE Gen_Concat -----------------------------
EXTENDS MC_Concat, Json, IOUtils, CSV
Emit == (phase = "done") =>
  CSVWrite("%1$s", <<ToJson([root |-> root, axis |-> axis, cuts |-> cuts,
                             hasT |-> [i \in 1..Len(pieces) |-> pieces[i].sig.hasT],
                             pert |-> pert,
                             err |-> IF IsErr(res) THEN res.err ELSE "",
                             res |-> IF IsErr(res) THEN [none |-> TRUE]
                                     ELSE [hasT |-> res.sig.hasT, t0 |-> res.sig.t0, len |-> res.sig.len,
                                           per |-> res.sig.per, nchan |-> res.sig.nchan, cf |-> res.sig.cf,
                                           cbw |-> res.sig.cbw, align |-> res.sig.align, cls |-> res.sig.cls,
                                           src |-> res.src, chs |-> res.chs]])>>, IOEnv.GEN_OUT)
=============================================================================
