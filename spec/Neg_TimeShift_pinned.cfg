SPECIFICATION Spec
CONSTANTS
  Ns <- Q_Ns
  SShapes <- AllShapes
  Vals <- Q_Vals
  Fixed = FALSE
INVARIANT ZeroRegionExact
INVARIANT CountsAsStated
INVARIANT CropIsEdgeRemoval
INVARIANT IntegerShiftMovesSamples
INVARIANT MetaUnchanged
INVARIANT EarlyReturnOnlyForZero
CHECK_DEADLOCK FALSE
