------------------------------ MODULE BigInt ------------------------------
(***************************************************************************)
(* Arbitrary-precision integers for TLC.                                   *)
(*                                                                         *)
(* TLC's integers are 32-bit and overflow is an error, but the pulsarbat   *)
(* properties talk about cycle counts up to 2^52, lengths below 2^62 and   *)
(* exact values of IEEE doubles.  This module lets TLC itself be the       *)
(* arithmetic oracle.                                                      *)
(*                                                                         *)
(* A natural number is a little-endian sequence of limbs in 0..B-1 with    *)
(* no trailing zero limb (<<>> is zero).  A signed integer is a record     *)
(* [n |-> BOOLEAN, m |-> Nat-limbs]; zero always has n = FALSE.  The same  *)
(* shape is what the Python harness writes into JSON traces.               *)
(***************************************************************************)
EXTENDS Integers, Sequences

B == 32768          \* 2^15: limb*limb + carry < 2^31

Limb(a, i) == IF i <= Len(a) THEN a[i] ELSE 0
MaxI(x, y) == IF x >= y THEN x ELSE y
MinI(x, y) == IF x <= y THEN x ELSE y

RECURSIVE NTrim(_)
NTrim(a) == IF a = <<>> THEN a
            ELSE IF a[Len(a)] = 0 THEN NTrim(SubSeq(a, 1, Len(a) - 1)) ELSE a

IsNat(a) == /\ \A i \in 1..Len(a) : a[i] \in 0..(B-1)
            /\ (Len(a) > 0 => a[Len(a)] # 0)

\* small native integer (0 <= x < 2^31) -> limbs
RECURSIVE NFromInt(_)
NFromInt(x) == IF x = 0 THEN <<>> ELSE <<x % B>> \o NFromInt(x \div B)

\* limbs -> native integer; only for values known to be < 2^31
RECURSIVE NToIntR(_, _)
NToIntR(a, i) == IF i > Len(a) THEN 0 ELSE a[i] + B * NToIntR(a, i + 1)
NToInt(a) == NToIntR(a, 1)
NFitsInt(a) == Len(a) <= 2 \/ (Len(a) = 3 /\ a[3] <= 1)

\* comparison: -1, 0, 1
RECURSIVE NCmpR(_, _, _)
NCmpR(a, b, i) == IF i = 0 THEN 0
                  ELSE IF a[i] < b[i] THEN -1
                  ELSE IF a[i] > b[i] THEN 1
                  ELSE NCmpR(a, b, i - 1)
NCmp(a, b) == IF Len(a) < Len(b) THEN -1
              ELSE IF Len(a) > Len(b) THEN 1
              ELSE NCmpR(a, b, Len(a))

RECURSIVE NAddR(_, _, _, _, _)
NAddR(a, b, i, c, acc) ==
  IF i > Len(a) /\ i > Len(b) THEN (IF c = 0 THEN acc ELSE Append(acc, c))
  ELSE LET t == Limb(a, i) + Limb(b, i) + c
       IN NAddR(a, b, i + 1, t \div B, Append(acc, t % B))
NAdd(a, b) == IF b = <<>> THEN a ELSE IF a = <<>> THEN b ELSE NAddR(a, b, 1, 0, <<>>)

\* a - b, requires a >= b
RECURSIVE NSubR(_, _, _, _, _)
NSubR(a, b, i, c, acc) ==
  IF i > Len(a) THEN NTrim(acc)
  ELSE LET t == a[i] - Limb(b, i) - c
       IN IF t < 0 THEN NSubR(a, b, i + 1, 1, Append(acc, t + B))
          ELSE NSubR(a, b, i + 1, 0, Append(acc, t))
NSub(a, b) == IF b = <<>> THEN a ELSE NSubR(a, b, 1, 0, <<>>)

\* a * d for a single limb 0 <= d < B
RECURSIVE NMulSmallR(_, _, _, _, _)
NMulSmallR(a, d, i, c, acc) ==
  IF i > Len(a) THEN (IF c = 0 THEN acc ELSE Append(acc, c))
  ELSE LET t == a[i] * d + c
       IN NMulSmallR(a, d, i + 1, t \div B, Append(acc, t % B))
NMulSmall(a, d) ==
  IF d = 0 \/ a = <<>> THEN <<>> ELSE IF d = 1 THEN a ELSE NMulSmallR(a, d, 1, 0, <<>>)

\* a * B^k
NShiftL(a, k) == IF a = <<>> \/ k = 0 THEN a ELSE [i \in 1..k |-> 0] \o a
\* floor(a / B^k)
NShiftR(a, k) == IF k >= Len(a) THEN <<>> ELSE SubSeq(a, k + 1, Len(a))
\* a mod B^k
NLow(a, k) == IF k >= Len(a) THEN a ELSE NTrim(SubSeq(a, 1, k))

RECURSIVE NMulR(_, _, _)
NMulR(a, b, j) == IF j > Len(b) THEN <<>>
                  ELSE NAdd(NShiftL(NMulSmall(a, b[j]), j - 1), NMulR(a, b, j + 1))
NMul(a, b) == IF a = <<>> \/ b = <<>> THEN <<>>
              ELSE IF Len(a) >= Len(b) THEN NMulR(a, b, 1) ELSE NMulR(b, a, 1)

\* division by a single limb 1 <= d < B: <<quotient, remainder(native)>>
RECURSIVE NDivSmallR(_, _, _, _, _)
NDivSmallR(a, d, i, r, acc) ==
  IF i = 0 THEN <<NTrim(acc), r>>
  ELSE LET t == r * B + a[i]
       IN NDivSmallR(a, d, i - 1, t % d, <<t \div d>> \o acc)
NDivSmall(a, d) == IF d = 1 THEN <<a, 0>> ELSE NDivSmallR(a, d, Len(a), 0, <<>>)

\* largest digit d in lo..hi with d*b <= r (requires lo*b <= r)
RECURSIVE QDigit(_, _, _, _)
QDigit(r, b, lo, hi) ==
  IF lo = hi THEN lo
  ELSE LET mid == (lo + hi + 1) \div 2
       IN IF NCmp(NMulSmall(b, mid), r) <= 0 THEN QDigit(r, b, mid, hi)
          ELSE QDigit(r, b, lo, mid - 1)

\* general division, b # 0: <<quotient, remainder>> (both limb sequences)
RECURSIVE NDivModR(_, _, _, _, _)
NDivModR(a, b, i, q, r) ==
  IF i = 0 THEN <<NTrim(q), r>>
  ELSE LET r1 == NTrim(<<a[i]>> \o r)            \* r*B + a[i]
           d  == QDigit(r1, b, 0, B - 1)
       IN NDivModR(a, b, i - 1, <<d>> \o q, NSub(r1, NMulSmall(b, d)))
NDivMod(a, b) ==
  IF Len(b) = 1 THEN LET x == NDivSmall(a, b[1]) IN <<x[1], NFromInt(x[2])>>
  ELSE IF NCmp(a, b) < 0 THEN <<<<>>, a>>
  ELSE NDivModR(a, b, Len(a), <<>>, <<>>)

NIsZero(a) == a = <<>>
NIsOdd(a) == a # <<>> /\ a[1] % 2 = 1

\* 2^k as limbs
NPow2(k) == NShiftL(<<2^(k % 15)>>, k \div 15)
\* floor(a / 2^k), a * 2^k
NShr(a, k) == LET w == NShiftR(a, k \div 15)
              IN IF k % 15 = 0 THEN w ELSE NDivSmall(w, 2^(k % 15))[1]
NShl(a, k) == NShiftL(NMulSmall(a, 2^(k % 15)), k \div 15)

RECURSIVE NPow(_, _)
NPow(a, k) == IF k = 0 THEN <<1>> ELSE NMul(a, NPow(a, k - 1))

RECURSIVE NGcd(_, _)
NGcd(a, b) == IF b = <<>> THEN a ELSE NGcd(b, NDivMod(a, b)[2])

(***************************************************************************)
(* Signed integers                                                         *)
(***************************************************************************)
Mk(neg, m) == [n |-> (neg /\ m # <<>>), m |-> m]
Zero == [n |-> FALSE, m |-> <<>>]
One  == [n |-> FALSE, m |-> <<1>>]
IsBig(x) == x.n \in BOOLEAN /\ IsNat(x.m) /\ (x.m = <<>> => ~x.n)

FromInt(x) == IF x < 0 THEN Mk(TRUE, NFromInt(-x)) ELSE Mk(FALSE, NFromInt(x))
ToInt(x) == IF x.n THEN -NToInt(x.m) ELSE NToInt(x.m)
FitsInt(x) == NFitsInt(x.m)

Neg(x) == Mk(~x.n, x.m)
Abs(x) == Mk(FALSE, x.m)
Sign(x) == IF x.m = <<>> THEN 0 ELSE IF x.n THEN -1 ELSE 1
IsZero(x) == x.m = <<>>

Add(x, y) ==
  IF x.n = y.n THEN Mk(x.n, NAdd(x.m, y.m))
  ELSE LET c == NCmp(x.m, y.m)
       IN IF c = 0 THEN Zero
          ELSE IF c > 0 THEN Mk(x.n, NSub(x.m, y.m))
          ELSE Mk(y.n, NSub(y.m, x.m))
Sub(x, y) == Add(x, Neg(y))
Mul(x, y) == Mk(x.n # y.n, NMul(x.m, y.m))
MulInt(x, k) == Mul(x, FromInt(k))

Cmp(x, y) ==
  IF x.n # y.n THEN (IF x.n THEN -1 ELSE 1)
  ELSE IF x.n THEN NCmp(y.m, x.m) ELSE NCmp(x.m, y.m)
Lt(x, y) == Cmp(x, y) < 0
Le(x, y) == Cmp(x, y) <= 0
Eq(x, y) == Cmp(x, y) = 0

\* floor division and modulus with positive divisor d (BigInt): Python // and %
FloorDiv(x, d) ==
  LET qr == NDivMod(x.m, d.m)
  IN IF ~x.n THEN Mk(FALSE, qr[1])
     ELSE IF qr[2] = <<>> THEN Mk(TRUE, qr[1])
     ELSE Mk(TRUE, NAdd(qr[1], <<1>>))
Mod(x, d) == Sub(x, Mul(FloorDiv(x, d), d))

\* x * 2^k for any integer k (floor for negative k)
Shl(x, k) == IF k >= 0 THEN Mk(x.n, NShl(x.m, k))
             ELSE FloorDiv(x, Mk(FALSE, NPow2(-k)))
Pow2(k) == Mk(FALSE, NPow2(k))
Pow(x, k) == Mk(x.n /\ (k % 2 = 1), NPow(x.m, k))
Ten == FromInt(10)
Pow10(k) == Pow(Ten, k)
=============================================================================
