-------------------------------- MODULE Fix --------------------------------
(***************************************************************************)
(* 60-bit binary fixed point on BigInt, complex numbers, cos/sin of an     *)
(* exact rational number of cycles (exact argument reduction, Taylor       *)
(* series on [0, pi/4]), and the O(N^2) discrete Fourier transform.        *)
(*                                                                         *)
(* A Fix value is a BigInt v denoting v / 2^60.  Every operation truncates *)
(* by at most one unit (2^-60 = 8.7e-19); CosSin is accurate to a few      *)
(* tens of units (kernel self-test: < 1e-16 against libm and against the   *)
(* algebraic identities cos^2+sin^2 = 1, sin(1/12 cycle) = 1/2).           *)
(***************************************************************************)
EXTENDS Rat

FBITS == 60
FLIMBS == 4                                    \* 60 / 15
FOne == Pow2(FBITS)
FZero == Zero
\* floor(pi/4 * 2^60), floor(sqrt(1/2) * 2^60): constants (self-tested)
PI4 == Mk(FALSE, <<3107, 17453, 30376, 25735>>)
SQRTHALF == Mk(FALSE, <<26184, 32571, 15564, 23170>>)

FFromInt(k) == Shl(FromInt(k), FBITS)
FFromBig(x) == Shl(x, FBITS)
FFromRat(r) == FloorDiv(Mul(r.p, FOne), r.q)
FToRat(v) == R(v, FOne)
FAdd(a, b) == Add(a, b)
FSub(a, b) == Sub(a, b)
FNeg(a) == Neg(a)
FMul(a, b) == Mk(a.n # b.n, NShiftR(NMul(a.m, b.m), FLIMBS))
FDivSmall(a, d) == Mk(a.n, NDivSmall(a.m, d)[1])            \* 1 <= d < 2^15
FMulInt(a, k) == MulInt(a, k)
FAbs(a) == Abs(a)
\* |a - b| <= tol   (all Fix)
FClose(a, b, tol) == Le(Abs(Sub(a, b)), tol)
\* tolerance 10^-d as Fix
FTol10(d) == FFromRat(RPow10(-d))

\* Taylor series on 0 <= x <= pi/4 (Fix).  Terms until n = 19.
RECURSIVE TaylorR(_, _, _, _)
\* acc: running sum, t: last term (signed), x2: x*x, n: degree of t
TaylorR(acc, t, x2, n) ==
  IF n >= 19 \/ IsZero(t) THEN acc
  ELSE LET t1 == Neg(FDivSmall(FMul(t, x2), (n + 1) * (n + 2)))
       IN TaylorR(Add(acc, t1), t1, x2, n + 2)
FSin0(x) == TaylorR(x, x, FMul(x, x), 1)
FCos0(x) == TaylorR(FOne, FOne, FMul(x, x), 0)

\* cos and sin of r cycles, r an exact rational
CosSin(r) ==
  LET t   == RFrac(r)                               \* [0,1)
      p8  == MulInt(t.p, 8)
      o   == ToInt(FloorDiv(p8, t.q))               \* octant 0..7
      rem == Sub(p8, MulInt(t.q, o))                \* in [0, q)
      x   == FloorDiv(Mul(PI4, rem), t.q)           \* angle in the octant, Fix
      xx  == IF o % 2 = 0 THEN x ELSE Sub(PI4, x)
      c   == IF IsZero(xx) THEN FOne ELSE FCos0(xx)
      s   == IF IsZero(xx) THEN FZero ELSE FSin0(xx)
  IN CASE o = 0 -> [c |-> c,      s |-> s]
       [] o = 1 -> [c |-> s,      s |-> c]
       [] o = 2 -> [c |-> Neg(s), s |-> c]
       [] o = 3 -> [c |-> Neg(c), s |-> s]
       [] o = 4 -> [c |-> Neg(c), s |-> Neg(s)]
       [] o = 5 -> [c |-> Neg(s), s |-> Neg(c)]
       [] o = 6 -> [c |-> s,      s |-> Neg(c)]
       [] o = 7 -> [c |-> c,      s |-> Neg(s)]

(***************************************************************************)
(* Complex numbers [re, im] over Fix                                       *)
(***************************************************************************)
C(re, im) == [re |-> re, im |-> im]
CZero == C(FZero, FZero)
COne == C(FOne, FZero)
CFromInts(a, b) == C(FFromInt(a), FFromInt(b))
CAdd(a, b) == C(Add(a.re, b.re), Add(a.im, b.im))
CSub(a, b) == C(Sub(a.re, b.re), Sub(a.im, b.im))
CNeg(a) == C(Neg(a.re), Neg(a.im))
CConj(a) == C(a.re, Neg(a.im))
CMul(a, b) == C(Sub(FMul(a.re, b.re), FMul(a.im, b.im)),
                Add(FMul(a.re, b.im), FMul(a.im, b.re)))
CScaleInt(a, k) == C(MulInt(a.re, k), MulInt(a.im, k))
CDivSmall(a, d) == C(FDivSmall(a.re, d), FDivSmall(a.im, d))
CMulReal(a, f) == C(FMul(a.re, f), FMul(a.im, f))
CAbs2(a) == Add(FMul(a.re, a.re), FMul(a.im, a.im))
CClose(a, b, tol) == FClose(a.re, b.re, tol) /\ FClose(a.im, b.im, tol)
\* exp(2 pi i r), r rational cycles
CExp(r) == LET cs == CosSin(r) IN C(cs.c, cs.s)

RECURSIVE CSumR(_, _)
CSumR(f, i) == IF i = 0 THEN CZero ELSE CAdd(f[i], CSumR(f, i - 1))
CSum(f) == CSumR(f, Len(f))                         \* f: sequence of complex

(***************************************************************************)
(* DFT of a sequence x[1..N] of complex Fix (index n = i-1).               *)
(*   Dft(x, -1)[k+1] = sum_n x[n] exp(-2 pi i k n / N)     (forward)       *)
(*   Dft(x, +1) is the unnormalised inverse; IDft divides by N.            *)
(***************************************************************************)
Twiddles(N) == [j \in 0..(N-1) |-> CExp(RQ(j, N))]
DftW(x, sgn, W) ==
  LET N == Len(x)
  IN [k \in 1..N |->
        CSum([n \in 1..N |-> CMul(x[n], W[(sgn * (k-1) * (n-1)) % N])])]
Dft(x, sgn) == IF Len(x) = 0 THEN <<>> ELSE DftW(x, sgn, Twiddles(Len(x)))
FDft(x) == Dft(x, -1)
IDft(x) == LET y == Dft(x, 1) IN [k \in 1..Len(x) |-> CDivSmall(y[k], Len(x))]
\* numpy.fft.fftfreq(N, 1)[k] * N : signed bin number of index k (0-based)
FftBin(k, N) == IF k < (N + 1) \div 2 THEN k ELSE k - N
=============================================================================
