----------------------------- MODULE KernelTest -----------------------------
EXTENDS Fix, TLC, Json, IOUtils
\* Self-test of the numeric kernel against values computed by Python
\* (fractions / math); the vectors are read from IOEnv.KERNEL_VECTORS.
V == JsonDeserialize(IOEnv.KERNEL_VECTORS)

BigOK(t) ==
  LET a == t.a  b == t.b
  IN /\ IsBig(a) /\ IsBig(b)
     /\ Add(a, b) = t.add
     /\ Sub(a, b) = t.sub
     /\ Mul(a, b) = t.mul
     /\ Cmp(a, b) = t.cmp
     /\ (IsZero(b) \/ b.n \/ (FloorDiv(a, b) = t.fdiv /\ Mod(a, b) = t.mod))
     /\ Shl(a, t.k) = t.shl
     /\ Shl(a, -t.k) = t.shr

RatOK(t) ==
  LET a == R(t.ap, t.aq)  b == R(t.bp, t.bq)
  IN /\ REq(RAdd(a, b), R(t.sp, t.sq))
     /\ REq(RMul(a, b), R(t.mp, t.mq))
     /\ RFloor(a) = t.floor
     /\ RCeil(a) = t.ceil
     /\ RRound(a) = t.round
     /\ RCmp(a, b) = t.cmp

\* cos/sin within 64 units of 2^-60 of the reference (rounded from a
\* 200-bit evaluation)
TrigOK(t) ==
  LET cs == CosSin(R(t.p, t.q))
      tol == FromInt(64)
  IN FClose(cs.c, t.c, tol) /\ FClose(cs.s, t.s, tol)

Identities ==
  /\ CosSin(RQ(1, 12)).s \in {Shl(One, 59), Sub(Shl(One, 59), One), Add(Shl(One, 59), One)}
  /\ CosSin(RQ(1, 4)) = [c |-> FZero, s |-> FOne]
  /\ CosSin(RQ(-1, 2)) = [c |-> Neg(FOne), s |-> FZero]
  /\ FClose(MulInt(FMul(SQRTHALF, SQRTHALF), 2), FOne, FromInt(4))
  /\ FClose(CosSin(RQ(1, 8)).c, SQRTHALF, FromInt(64))
  /\ LET x == <<CFromInts(1, 0), CFromInts(2, -1), CFromInts(0, 3), CFromInts(-4, 1), CFromInts(5, 5)>>
         y == IDft(FDft(x))
     IN \A i \in 1..5 : CClose(y[i], x[i], FromInt(2000))

Bad == {<<"big", i>> : i \in {i \in 1..Len(V.big) : ~BigOK(V.big[i])}}
       \cup {<<"rat", i>> : i \in {i \in 1..Len(V.rat) : ~RatOK(V.rat[i])}}
       \cup {<<"trig", i>> : i \in {i \in 1..Len(V.trig) : ~TrigOK(V.trig[i])}}

ASSUME PrintT(<<"KERNEL", Len(V.big), Len(V.rat), Len(V.trig), Bad, Identities>>)
ASSUME Bad = {} /\ Identities
VARIABLE x
Init == x = 0
Next == UNCHANGED x
=============================================================================
