------------------------------ MODULE PySlice ------------------------------
(***************************************************************************)
(* Python / NumPy basic slicing with positive step, on native integers.    *)
(* A bound is an integer or None.  Indices() is CPython's slice.indices(); *)
(* Select() is the *set* of positions a basic slice picks, written from    *)
(* the language reference independently of Indices so that the two can be  *)
(* compared.                                                               *)
(***************************************************************************)
EXTENDS Integers, FiniteSets

None == 1000000      \* sentinel (TLC sets must be homogeneous); never a real bound
IsNone(x) == x = None
PMax(x, y) == IF x >= y THEN x ELSE y
PMin(x, y) == IF x <= y THEN x ELSE y

\* slice.indices(len) for step > 0
Clamp(x, len, dflt) == IF x = None THEN dflt
                       ELSE IF x < 0 THEN PMax(x + len, 0) ELSE PMin(x, len)
Indices(a, b, c, len) ==
  [start |-> Clamp(a, len, 0), stop |-> Clamp(b, len, len),
   step |-> IF c = None THEN 1 ELSE c]
\* number of elements range(start, stop, step) has
RangeLen(start, stop, step) ==
  IF stop > start THEN (stop - start + step - 1) \div step ELSE 0
SliceLen(a, b, c, len) == LET ix == Indices(a, b, c, len)
                          IN RangeLen(ix.start, ix.stop, ix.step)

\* Language-reference reading: position i of 0..len-1 is selected iff it is
\* start + j*step for some j >= 0 and lies before stop, where negative
\* bounds count from the end and out-of-range bounds are clipped.
Resolve(x, len) == IF x < 0 THEN x + len ELSE x
Select(a, b, c, len) ==
  LET st == IF c = None THEN 1 ELSE c
      lo == IF a = None THEN 0 ELSE Resolve(a, len)
      hi == IF b = None THEN len ELSE Resolve(b, len)
      lo0 == PMax(lo, 0)     \* a start before the beginning starts at 0
  IN {i \in 0..(len - 1) : i >= lo0 /\ i < hi /\ (i - lo0) % st = 0}
SetMin(S) == CHOOSE x \in S : \A y \in S : x <= y
SetMax(S) == CHOOSE x \in S : \A y \in S : x >= y

\* the two readings agree (checked by TLC in MC_PySlice)
Agree(a, b, c, len) ==
  LET ix == Indices(a, b, c, len)
      S == Select(a, b, c, len)
  IN /\ Cardinality(S) = RangeLen(ix.start, ix.stop, ix.step)
     /\ S = {ix.start + j * ix.step : j \in 0..(RangeLen(ix.start, ix.stop, ix.step) - 1)}

\* ceil / floor of n/4 for quarter-unit quantities
Floor4(q) == q \div 4
Ceil4(q) == -((-q) \div 4)
\* round half to even of n/4
Round4(q) == LET f == q \div 4  r == q % 4
             IN IF r < 2 THEN f ELSE IF r > 2 THEN f + 1
                ELSE IF f % 2 = 0 THEN f ELSE f + 1
=============================================================================
