-------------------------------- MODULE Rat --------------------------------
(***************************************************************************)
(* Exact rationals on BigInt: [p |-> BigInt, q |-> positive BigInt].       *)
(* Not kept in lowest terms (no gcd on the hot path); comparisons are by   *)
(* cross-multiplication, so no division is needed to *judge* a value.      *)
(***************************************************************************)
EXTENDS BigInt

R(p, q) == [p |-> p, q |-> q]                 \* q must be positive
RInt(x) == R(x, One)                          \* BigInt -> Rat
RI(k) == RInt(FromInt(k))                     \* native int -> Rat
RQ(a, b) == IF b < 0 THEN R(FromInt(-a), FromInt(-b)) ELSE R(FromInt(a), FromInt(b))
\* a dyadic number m * 2^e (how IEEE doubles arrive in traces)
RDy(m, e) == IF e >= 0 THEN R(Shl(m, e), One) ELSE R(m, Pow2(-e))

RZero == RI(0)
ROne == RI(1)
RHalf == RQ(1, 2)

RAdd(a, b) == IF Eq(a.q, b.q) THEN R(Add(a.p, b.p), a.q)
              ELSE R(Add(Mul(a.p, b.q), Mul(b.p, a.q)), Mul(a.q, b.q))
RNeg(a) == R(Neg(a.p), a.q)
RSub(a, b) == RAdd(a, RNeg(b))
RMul(a, b) == R(Mul(a.p, b.p), Mul(a.q, b.q))
RInv(a) == IF a.p.n THEN R(Neg(a.q), Neg(a.p)) ELSE R(a.q, a.p)   \* a # 0
RDiv(a, b) == RMul(a, RInv(b))
RAbs(a) == R(Abs(a.p), a.q)
RSign(a) == Sign(a.p)
RCmp(a, b) == Cmp(Mul(a.p, b.q), Mul(b.p, a.q))
RLt(a, b) == RCmp(a, b) < 0
RLe(a, b) == RCmp(a, b) <= 0
REq(a, b) == RCmp(a, b) = 0
RMax(a, b) == IF RLe(a, b) THEN b ELSE a
RMin(a, b) == IF RLe(a, b) THEN a ELSE b
RIsInt(a) == IsZero(Mod(a.p, a.q))
RFloor(a) == FloorDiv(a.p, a.q)                                   \* BigInt
RCeil(a) == Neg(FloorDiv(Neg(a.p), a.q))
\* round half to even (NumPy / Python round)
RRound(a) ==
  LET f == RFloor(a)
      d == RSub(a, RInt(f))                    \* in [0,1)
      c == RCmp(d, RHalf)
  IN IF c < 0 THEN f
     ELSE IF c > 0 THEN Add(f, One)
     ELSE IF NIsOdd(f.m) THEN Add(f, One) ELSE f
\* fractional part in [0,1)
RFrac(a) == R(Mod(a.p, a.q), a.q)
\* lowest terms
RNorm(a) == LET g == NGcd(a.p.m, a.q.m)
            IN IF g = <<1>> \/ g = <<>> THEN a
               ELSE R(Mk(a.p.n, NDivMod(a.p.m, g)[1]), Mk(FALSE, NDivMod(a.q.m, g)[1]))
RPowNat(a, k) == R(Pow(a.p, k), Pow(a.q, k))
\* |a - b| <= tol
RClose(a, b, tol) == RLe(RAbs(RSub(a, b)), tol)
\* 2^k as a rational, any integer k
RPow2(k) == IF k >= 0 THEN RInt(Pow2(k)) ELSE R(One, Pow2(-k))
RPow10(k) == IF k >= 0 THEN RInt(Pow10(k)) ELSE R(One, Pow10(-k))
=============================================================================
