--------------------------------- MODULE Q ---------------------------------
(* Small exact rationals <<n, d>> (d > 0, lowest terms) on native integers. *)
EXTENDS Integers
RECURSIVE QGcd(_, _)
QGcd(a, b) == IF b = 0 THEN a ELSE QGcd(b, a % b)
QAbs(x) == IF x < 0 THEN -x ELSE x
Qn(n, d) == LET g == QGcd(QAbs(n), QAbs(d))
                s == IF d < 0 THEN -1 ELSE 1
            IN IF n = 0 THEN <<0, 1>> ELSE <<(s * n) \div g, (s * d) \div g>>
QI(k) == <<k, 1>>
QAdd(a, b) == Qn(a[1] * b[2] + b[1] * a[2], a[2] * b[2])
QSub(a, b) == Qn(a[1] * b[2] - b[1] * a[2], a[2] * b[2])
QMul(a, b) == Qn(a[1] * b[1], a[2] * b[2])
QDiv(a, b) == Qn(a[1] * b[2], a[2] * b[1])
QLt(a, b) == a[1] * b[2] < b[1] * a[2]
QLe(a, b) == a[1] * b[2] <= b[1] * a[2]
QHalf(a) == Qn(a[1], 2 * a[2])
=============================================================================
