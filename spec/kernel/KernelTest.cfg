INIT Init
NEXT Next
