SPECIFICATION Spec
CONSTANTS MaxMut = 2
INVARIANT BuildMatchesContract
INVARIANT BuiltIsValid
CHECK_DEADLOCK FALSE
