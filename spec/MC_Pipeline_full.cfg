SPECIFICATION Spec
CONSTANTS
  RootLens <- F_RootLens
  Classes <- AllClasses
  NChans <- F_NChans
  Aligns <- AllAligns
  TBounds <- F_TBounds
  TSteps <- F_TSteps
  FBounds <- F_FBounds
  XBounds <- F_XBounds
  XSteps <- F_XSteps
  Shifts <- F_Shifts
  Delays <- F_Delays
  IDelays <- F_IDelays
  SnipT <- F_SnipT
  SnipN <- F_SnipN
  Ops <- AllOps
  MaxDepth = 2
  Fixed = TRUE
  SampleK = 0
  SampleRoots = 0
VIEW View
INVARIANT Timestamps
INVARIANT PeriodOK
INVARIANT NoTimeFromNowhere
INVARIANT ContainsOK
INVARIANT ChkOK
INVARIANT LabelsKept
INVARIANT LabelsInBand
INVARIANT BasebandCbw
INVARIANT AlignNormal
INVARIANT RadioShape
INVARIANT SliceAgree
CHECK_DEADLOCK FALSE
