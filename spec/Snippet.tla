------------------------------- MODULE Snippet -------------------------------
(***************************************************************************)
(* C12: pulsarbat.snippet(z, t, n) returns exactly n samples starting      *)
(* exactly at the requested time.                                          *)
(*                                                                         *)
(* Units: time in ticks, 4 ticks per sample of z, z starts at tick 0 (if   *)
(* it has a start time); t = tq/4 samples.  A returned sample is described *)
(* by its source position in ticks: src = 4 j means "sample j of z", any   *)
(* other value "the band-limited value of z at that position".             *)
(*                                                                         *)
(* OPERATIONAL (transforms.py):                                            *)
(*   n = operator.index(n); n < 0 -> ValueError                            *)
(*   t a Time: no start time -> ValueError; t = (t - start).to(s)          *)
(*   t a Quantity: t = (t * sample_rate).to_value(one)                     *)
(*   (t < 0) or (len(z) < t + n) -> ValueError                             *)
(*   if (i := int(t)) < t:        int() truncates                          *)
(*       shift = i - t            residual shift in (-1, 0)                *)
(*       new_start = start - shift*dt                                      *)
(*       z = like(z, time_shift(z, shift, crop=True).data, new_start)      *)
(*   return z[i : i + n]                                                   *)
(* time_shift is the operational model of ShiftOps (zero loop and crop     *)
(* window of a 0-d shift); its output sample j holds z at 4 j - shiftq.    *)
(*                                                                         *)
(* DECLARATIVE: n samples, start_time = start + t/sample_rate, sample k is *)
(* z at t + k: for whole t bitwise z[t : t+n], otherwise the DFT           *)
(* interpolation; the three forms of t denote one instant; t < 0,          *)
(* t + n > len, n < 0, or a Time for a signal without start time raise     *)
(* ValueError.                                                             *)
(***************************************************************************)
EXTENDS ShiftOps

CONSTANTS Lens, Forms,
          IntMode      \* "trunc": int(t) as coded; "round": a wrong-but-plausible variant (negative configuration)
VARIABLES phase, len, hasT, tq, n, form, res
vars == <<phase, len, hasT, tq, n, form, res>>

Trunc4(q) == IF q >= 0 THEN q \div 4 ELSE -((-q) \div 4)          \* int(q/4)
RECURSIVE SortedSeq(_)
SortedSeq(T) == IF T = {} THEN <<>> ELSE LET m == SetMin(T) IN <<m>> \o SortedSeq(T \ {m})
Err(k) == [err |-> TRUE, kind |-> k]

\* z[a:b] on a signal whose sample j has source src[j+1], stamped t0 (ticks)
SliceRec(src, t0, a, b) ==
  LET L == Len(src)
      ix == Indices(a, b, None, L)
      sel == SortedSeq(Select(a, b, None, L))
  IN [len |-> Len(sel), src |-> [k \in 1..Len(sel) |-> src[sel[k] + 1]],
      t0 |-> t0 + 4 * ix.start]

Op(L, ht, q, m, f) ==
  IF m < 0 THEN Err("ValueError")
  ELSE IF f = "time" /\ ~ht THEN Err("ValueError")
  ELSE IF q < 0 \/ 4 * L < q + 4 * m THEN Err("ValueError")
  ELSE LET i == IF IntMode = "trunc" THEN Trunc4(q) ELSE Round4(q)
       IN IF 4 * i < q
          THEN LET sh == 4 * i - q                                  \* residual shift, quarter samples
                   S1 == [e \in {<<>>} |-> sh]
                   W == SortedSeq(OpWindow(L, <<>>, S1))            \* crop = True
                   Z == {c[1] : c \in OpZero(L, <<>>, <<>>, S1, TRUE)}
                   src == [j \in 1..Len(W) |-> 4 * W[j] - sh]
                   r == SliceRec(src, 0 - sh, i, i + m)             \* like(..., start_time = start - shift*dt)
                   idx == SortedSeq(Select(i, i + m, None, Len(W)))
               IN [err |-> FALSE, len |-> r.len, src |-> r.src, t0 |-> IF ht THEN r.t0 ELSE -1,
                   hasT |-> ht, exact |-> FALSE,
                   zerofill |-> \E k \in 1..Len(idx) : W[idx[k] + 1] \in Z]
          ELSE LET r == SliceRec([j \in 1..L |-> 4 * (j - 1)], 0, i, i + m)
               IN [err |-> FALSE, len |-> r.len, src |-> r.src, t0 |-> IF ht THEN r.t0 ELSE -1,
                   hasT |-> ht, exact |-> TRUE, zerofill |-> FALSE]

Decl(L, ht, q, m, f) ==
  IF m < 0 \/ (f = "time" /\ ~ht) \/ q < 0 \/ q + 4 * m > 4 * L THEN Err("ValueError")
  ELSE [err |-> FALSE, len |-> m, src |-> [k \in 1..m |-> q + 4 * (k - 1)],
        t0 |-> IF ht THEN q ELSE -1, hasT |-> ht, exact |-> q % 4 = 0, zerofill |-> FALSE]

Init == /\ phase = "cfg" /\ len \in Lens /\ hasT \in BOOLEAN /\ form \in Forms
        /\ tq = 0 /\ n = 0 /\ res = <<>>
Next == /\ phase = "cfg" /\ phase' = "done"
        /\ tq' \in (-8)..(4 * (len + 2))
        /\ n' \in (-1)..(len + 1)
        /\ res' = Op(len, hasT, tq', n', form)
        /\ UNCHANGED <<len, hasT, form>>
Spec == Init /\ [][Next]_vars

Done == phase = "done"
D == Decl(len, hasT, tq, n, form)
OK == Done /\ ~D.err

Refusals == Done => (res.err <=> D.err) /\ (res.err => res.kind = "ValueError")
ExactlyN == OK => res.len = n
StartExact == OK => res.t0 = D.t0 /\ res.hasT = hasT
SamplesAtRequestedTimes == OK => res.src = D.src
WholeSampleIsSlice == (OK /\ tq % 4 = 0) => res.exact /\ res.src = [k \in 1..n |-> 4 * (tq \div 4 + k - 1)]
NoZeroFill == OK => ~res.zerofill
FormsAgree == Done => \A f \in Forms : (f # "time" \/ hasT) /\ (form # "time" \/ hasT)
                                         => Op(len, hasT, tq, n, f) = res
=============================================================================
