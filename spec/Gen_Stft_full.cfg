SPECIFICATION Spec
CONSTANTS
  NChans <- F_NChans
  PerSegs <- F_PerSegs
  Aligns <- AllAligns
  ExtraSegs <- F_Extra
  Variant = "code"
INVARIANT StftLabelsAreTrueFrequencies
INVARIANT StftMeta
INVARIANT IstftInvertsStft
INVARIANT Emit
CHECK_DEADLOCK FALSE
