SPECIFICATION TraceSpec
POSTCONDITION AllConsumed
CHECK_DEADLOCK FALSE
