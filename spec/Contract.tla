------------------------------ MODULE Contract ------------------------------
(***************************************************************************)
(* Class contract of pulsarbat signals (C16).                              *)
(*                                                                         *)
(* State: an argument record for a constructor call (each argument is a    *)
(* *kind* from a catalogue of valid and invalid values), the object that   *)
(* was built from it (or the refusal), and the objects derived from it by  *)
(* like() / pickling / the Dask helpers / attribute assignment.            *)
(* Build transcribes Signal.__init__ and the property setters in the order *)
(* the code runs them; Valid is the declarative contract.  The invariant   *)
(* says the constructor accepts exactly the valid calls and every object   *)
(* that exists satisfies the contract.                                     *)
(***************************************************************************)
EXTENDS Integers, Sequences, FiniteSets, TLC

CONSTANTS MaxMut           \* how many arguments may deviate from a valid call

Classes == {"Signal", "RadioSignal", "IntensitySignal", "FullStokesSignal",
            "BasebandSignal", "DualPolarizationSignal"}
IsRadio(c) == c # "Signal"
IsBaseband(c) == c \in {"BasebandSignal", "DualPolarizationSignal"}
HasChanBwArg(c) == c \in {"RadioSignal", "IntensitySignal", "FullStokesSignal"}
HasPol(c) == c = "DualPolarizationSignal"

\* required leading shape: 0 = any length
ReqShape(c) == CASE c = "Signal" -> <<0>>
                 [] c \in {"RadioSignal", "IntensitySignal", "BasebandSignal"} -> <<0, 0>>
                 [] c = "FullStokesSignal" -> <<0, 0, 4>>
                 [] c = "DualPolarizationSignal" -> <<0, 0, 2>>
ReqDtypes(c) == CASE c \in {"IntensitySignal", "FullStokesSignal"} -> <<"float64", "float32">>
                  [] IsBaseband(c) -> <<"complex128", "complex64">>
                  [] OTHER -> <<>>

Shapes == {<<>>, <<0>>, <<3>>, <<3, 0>>, <<0, 0>>, <<0, 2, 0>>, <<0, 2, 4, 0>>, <<3, 1>>, <<3, 2>>, <<0, 2>>, <<3, 2, 4>>, <<3, 2, 2>>,
           <<3, 2, 3>>, <<3, 2, 0>>, <<0, 2, 4>>, <<0, 1, 2>>, <<3, 2, 4, 1>>, <<3, 2, 2, 3>>,
           <<3, 2, 2, 0>>, <<3, 1, 4, 2, 2>>}
\* "bf4", "bf8", "bc8", "bc16": float32 / float64 / complex64 / complex128 in NON-NATIVE byte order (straight
\* from a file); they are not members of any allowed set and are converted to the native first entry
DTypes == {"bool", "int8", "int32", "int64", "uint8", "uint64", "float16", "float32", "float64",
           "longdouble", "complex64", "complex128", "clongdouble", "object", "str",
           "bf4", "bf8", "bc8", "bc16"}
RealSafe == {"bool", "int8", "int32", "int64", "uint8", "uint64", "float16", "float32", "float64", "bf4", "bf8"}
\* numpy.can_cast(dt, target, 'safe')
SafeCast(dt, target) ==
  CASE target = "float64" -> dt \in RealSafe
    [] target = "complex128" -> dt \in RealSafe \cup {"complex64", "complex128", "bc8", "bc16"}
    [] OTHER -> FALSE

\* catalogues: kind -> "ok" | "err" | "either" (accepted-or-refused is not fixed by the property)
RateKinds == [MHz1 |-> "ok", kHz250 |-> "ok", GHz2 |-> "ok", mHz1 |-> "ok",
              zero |-> "err", neg |-> "err", sec |-> "err", float |-> "err", array |-> "err",
              array1 |-> "err", array11 |-> "err",      \* one-element arrays are not scalars
              dimless |-> "err", none |-> "err", nan |-> "err", inf |-> "either"]
CfKinds == [GHz1 |-> "ok", zero |-> "ok", neg |-> "ok", kHz5 |-> "ok",
            sec |-> "err", float |-> "err", array |-> "err", array1 |-> "err", none |-> "err", nan |-> "either"]
StartKinds == [none |-> "ok", time |-> "ok", time_mjd |-> "ok", time_tai |-> "ok", time_subns |-> "ok",
               time_array1 |-> "err", isot_str |-> "either",
               time_array_isot9 |-> "err", time_array1_isot9 |-> "err",   \* non-scalar, already in the stored format
               time_tcb |-> "ok",
               float |-> "err", time_array |-> "err", garbage |-> "err", list |-> "err"]
MetaKinds == [none |-> "ok", dict |-> "ok", empty |-> "ok", mappingproxy |-> "ok", ordered |-> "ok",
              pairs |-> "either",
              int |-> "err", string |-> "err", list_ints |-> "err"]
AlignKinds == [bottom |-> "ok", center |-> "ok", top |-> "ok",
               middle |-> "err", none |-> "err", one |-> "err", upper |-> "err",
               arr0d |-> "err", list1 |-> "err", anyeq |-> "err"]   \* array / list holding an allowed word; an object equal to everything
PolKinds == [linear |-> "ok", circular |-> "ok", elliptical |-> "err", none |-> "err", xy |-> "err",
             arr0d |-> "err", list1 |-> "err", anyeq |-> "err"]

VARIABLES args, nmut, obj, phase
vars == <<args, nmut, obj, phase>>

Base(c) ==
  [cls |-> c,
   shape |-> CASE c = "Signal" -> <<3>> [] c = "FullStokesSignal" -> <<3, 2, 4>>
               [] c = "DualPolarizationSignal" -> <<3, 2, 2>> [] OTHER -> <<3, 2>>,
   dtype |-> CASE IsBaseband(c) -> "complex128" [] OTHER -> "float64",
   rate |-> "MHz1", start |-> "time", meta |-> "dict", cf |-> "GHz1", cbw |-> "kHz250",
   align |-> "center", pol |-> "linear"]

(***************************************************************************)
(* declarative contract                                                    *)
(***************************************************************************)
RECURSIVE ProdFrom(_, _)
ProdFrom(s, i) == IF i > Len(s) THEN 1 ELSE s[i] * ProdFrom(s, i + 1)
ShapeValid(c, s) ==
  LET r == ReqShape(c)
  IN /\ Len(s) >= Len(r)
     /\ \A i \in 1..Len(r) : r[i] = 0 \/ s[i] = r[i]
     /\ ProdFrom(s, 2) # 0
DtypeValid(c, dt) ==
  LET r == ReqDtypes(c)
  IN r = <<>> \/ dt \in {r[1], r[2]} \/ SafeCast(dt, r[1])
DtypeOf(c, dt) ==
  LET r == ReqDtypes(c)
  IN IF r = <<>> \/ dt \in {r[1], r[2]} THEN dt ELSE r[1]

\* NumPy does not apply the casting rule to arrays without elements, so an
\* unsafe dtype on empty data is not fixed by the property (the result, if any,
\* still has an allowed dtype)
DtypeVerdict(a) == IF DtypeValid(a.cls, a.dtype) THEN "ok"
                   ELSE IF ProdFrom(a.shape, 1) = 0 THEN "either" ELSE "err"
Verdicts(a) ==
  {RateKinds[a.rate], StartKinds[a.start], MetaKinds[a.meta]}
  \cup (IF IsRadio(a.cls) THEN {CfKinds[a.cf], AlignKinds[a.align]} ELSE {})
  \cup (IF HasChanBwArg(a.cls) THEN {RateKinds[a.cbw]} ELSE {})
  \cup (IF HasPol(a.cls) THEN {PolKinds[a.pol]} ELSE {})
  \cup {IF ShapeValid(a.cls, a.shape) THEN "ok" ELSE "err"}
  \cup {DtypeVerdict(a)}
\* what the property fixes about the outcome of the call
Expect(a) == IF "err" \in Verdicts(a) THEN "err"
             ELSE IF "either" \in Verdicts(a) THEN "either" ELSE "ok"

(***************************************************************************)
(* operational: Signal.__init__ then the setters, in code order            *)
(***************************************************************************)
\* verdict of each step in the order __init__ performs them; an "either"
\* step (the property does not fix it) may pass or refuse
Steps(a) ==
  LET c == a.cls  r == ReqShape(c)
      b(x) == IF x THEN "ok" ELSE "err"
  IN <<b(Len(a.shape) >= Len(r)),                                          \* ndim check
       b(Len(a.shape) < Len(r) \/ \A i \in 1..Len(r) : r[i] = 0 \/ a.shape[i] = r[i]),
       b(ProdFrom(a.shape, 2) # 0),                                        \* empty sample shape
       DtypeVerdict(a),                                                    \* astype(casting='safe')
       RateKinds[a.rate],                                                  \* sample_rate setter
       StartKinds[a.start],                                                \* start_time setter
       MetaKinds[a.meta],                                                  \* meta setter
       IF IsRadio(c) THEN CfKinds[a.cf] ELSE "ok",
       IF HasChanBwArg(c) THEN RateKinds[a.cbw] ELSE "ok",
       IF IsRadio(c) THEN AlignKinds[a.align] ELSE "ok",
       IF HasPol(c) THEN PolKinds[a.pol] ELSE "ok">>
RECURSIVE RunSteps(_, _)
RunSteps(st, i) ==
  IF i > Len(st) THEN "ok"
  ELSE IF st[i] = "err" THEN "err"
  ELSE IF st[i] = "either" THEN (IF RunSteps(st, i + 1) = "err" THEN "err" ELSE "either")
  ELSE RunSteps(st, i + 1)
Build(a) == RunSteps(Steps(a), 1)

ObjOf(a) ==
  [cls |-> a.cls, shape |-> a.shape, dtype |-> DtypeOf(a.cls, a.dtype), rate |-> a.rate,
   start |-> a.start, meta |-> a.meta, cf |-> a.cf,
   cbw |-> IF IsBaseband(a.cls) THEN a.rate ELSE a.cbw,      \* chan_bw = sample_rate
   align |-> IF IsRadio(a.cls) /\ Len(a.shape) >= 2 /\ a.shape[2] % 2 = 1 THEN "center" ELSE a.align,
   pol |-> a.pol]

Fields == {"shape", "dtype", "rate", "start", "meta", "cf", "cbw", "align", "pol"}
Kinds(f) == CASE f = "shape" -> Shapes [] f = "dtype" -> DTypes
              [] f = "rate" -> DOMAIN RateKinds [] f = "cbw" -> DOMAIN RateKinds
              [] f = "start" -> DOMAIN StartKinds [] f = "meta" -> DOMAIN MetaKinds
              [] f = "cf" -> DOMAIN CfKinds [] f = "align" -> DOMAIN AlignKinds
              [] f = "pol" -> DOMAIN PolKinds
Relevant(c, f) == CASE f \in {"cf", "align"} -> IsRadio(c)
                    [] f = "cbw" -> HasChanBwArg(c)
                    [] f = "pol" -> HasPol(c)
                    [] OTHER -> TRUE

Init == /\ args \in {Base(c) : c \in Classes} /\ nmut = 0 /\ obj = "none" /\ phase = "args"

Mutate ==
  /\ phase = "args" /\ nmut < MaxMut
  /\ \E f \in Fields : Relevant(args.cls, f) /\
       \E k \in Kinds(f) : k # args[f] /\ args' = [args EXCEPT ![f] = k]
  /\ nmut' = nmut + 1
  /\ UNCHANGED <<obj, phase>>

Construct ==
  /\ phase = "args"
  /\ phase' = "called"
  /\ obj' = Build(args)
  /\ UNCHANGED <<args, nmut>>

\* assignment to an attribute of an existing object: sig.<f> = kind
SetterFields == {"rate", "start", "meta", "cf", "cbw", "align", "pol"}
SetVerdict(f, k) == CASE f \in {"rate", "cbw"} -> RateKinds[k] [] f = "start" -> StartKinds[k]
                      [] f = "meta" -> MetaKinds[k] [] f = "cf" -> CfKinds[k]
                      [] f = "align" -> AlignKinds[k] [] f = "pol" -> PolKinds[k]
Assign ==
  /\ phase = "called" /\ obj = "ok"
  /\ \E f \in SetterFields : (Relevant(args.cls, f) \/ (f = "cbw" /\ IsRadio(args.cls))) /\
       \E k \in Kinds(f) :
         /\ phase' = "assigned"
         /\ obj' = SetVerdict(f, k)
         /\ args' = [args EXCEPT !.set = <<f, k>>]
  /\ UNCHANGED nmut

Next == Mutate \/ Construct
Spec == Init /\ [][Next]_vars

\* the constructor accepts exactly what the contract allows
BuildMatchesContract == phase = "called" => obj = Expect(args)
\* and what it builds satisfies the contract
BuiltIsValid ==
  (phase = "called" /\ obj = "ok") =>
     LET o == ObjOf(args)
     IN /\ ShapeValid(o.cls, o.shape)
        /\ (ReqDtypes(o.cls) # <<>> => o.dtype \in {ReqDtypes(o.cls)[1], ReqDtypes(o.cls)[2]})
        /\ (IsBaseband(o.cls) => o.cbw = o.rate)
        /\ (IsRadio(o.cls) /\ o.shape[2] % 2 = 1 => o.align = "center")
=============================================================================
