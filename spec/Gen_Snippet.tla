----------------------------- MODULE Gen_Snippet -----------------------------
(* every snippet request within the bounds with what the DECLARATIVE side    *)
(* demands (refusal, or length / start tick / source positions)              *)
EXTENDS MC_Snippet, Json, IOUtils, CSV
G_Lens == {1, 2, 3, 5, 6}
GF_Lens == 1..8
Emit == Done => CSVWrite("%1$s", <<ToJson([len |-> len, hasT |-> hasT, tq |-> tq, n |-> n, form |-> form,
                                            decl |-> D])>>, IOEnv.GEN_OUT)
=============================================================================
