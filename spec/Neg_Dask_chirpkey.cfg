SPECIFICATION Spec
CONSTANTS
  Roots <- N_Roots
  Ops <- N_CohOps
  Scheds = {"any"}
  MaxDepth = 1
  MaxRuns = 1
  MaxTasks = 12
  FftNeedsOneChunk = TRUE
  ChirpKeyByChannel = FALSE
  EagerOps <- None_
  NumpyOps <- None_
  ReaderPerBlock = FALSE
  OverwriteTags <- None_
  StickyKwargs = FALSE
  LazySetitemLost = FALSE
  RollShortcut = FALSE
  SharedHandle = FALSE
VIEW View
INVARIANT OrderIndependent
CHECK_DEADLOCK FALSE
