------------------------------ MODULE MC_Ufunc ------------------------------
(* Constant sets for model checking / case generation of Ufunc.            *)
EXTENDS Ufunc
Others == {"arr", "scal", "qty", "dask"}
AllDescr == SigClasses \cup Others
SeqsUpTo(S, n) == UNION {[1..k -> S] : k \in 1..n}

U_neg    == [name |-> "neg",    nin |-> 1, nout |-> 1]
U_add    == [name |-> "add",    nin |-> 2, nout |-> 1]
U_modf   == [name |-> "modf",   nin |-> 1, nout |-> 2]
U_divmod == [name |-> "divmod", nin |-> 2, nout |-> 2]
U_matmul == [name |-> "matmul", nin |-> 2, nout |-> 1]
AllUfuncs == {U_neg, U_add, U_modf, U_divmod, U_matmul}
AllMethods == {"call", "reduce", "accumulate", "reduceat", "outer", "at"}
AllDKinds == {"b1", "uint", "int", "f2", "f4", "f8", "f16", "c8", "c16", "c32", "obj", "other"}
Q_DKinds == {"b1", "f4", "f8", "c16", "f16"}
AllAsDtypes == {"none", "f4", "f8", "c8", "c16"}
\* dtypes computed for slots with an out object
MC_OutRK == {"int", "-", "!"}
G_OutRK == {"-", "!"}
C_OutRK == {"-"}
Q_AsDtypes == {"none", "f4", "c16"}

\* arrangement instances: every canonical heap (all objects used, first-use order)
Q_ArrHeaps == SeqsUpTo(AllDescr, 3)
F_ArrHeaps == SeqsUpTo(AllDescr, 4)
\* chain instances: a few heaps, any operands, in-place chains after the free step
Q_ChainHeaps == { <<"Signal", "IntensitySignal", "arr">>,
                  <<"BasebandSignal", "IntensitySignal", "qty">> }
F_ChainHeaps == { <<"Signal", "IntensitySignal", "arr">>,
                  <<"BasebandSignal", "IntensitySignal", "qty">>,
                  <<"IntensitySignal", "FullStokesSignal", "scal">>,
                  <<"DualPolarizationSignal", "BasebandSignal", "dask">>,
                  <<"RadioSignal", "FullStokesSignal", "Signal", "arr">>,
                  <<"Signal", "Signal", "qty", "arr">> }
F_ChainUfuncs == {U_neg, U_add, U_modf, U_matmul}
\* in-place chains for replay (no free step)
G_ChainHeaps == { <<"Signal", "IntensitySignal", "arr", "scal">>,
                  <<"IntensitySignal", "FullStokesSignal", "qty", "arr">>,
                  <<"BasebandSignal", "DualPolarizationSignal", "scal", "arr">>,
                  <<"RadioSignal", "BasebandSignal", "arr", "dask">>,
                  <<"Signal", "Signal", "scal", "qty">>,
                  <<"FullStokesSignal", "RadioSignal", "arr", "scal">> }
ChainUfuncs == {U_neg, U_add}
Q_ChainUfuncs == {U_neg, U_add, U_modf}
=============================================================================
