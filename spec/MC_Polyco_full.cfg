SPECIFICATION Spec
CONSTANTS
  L = 8
  TolU = 2
  TmidMax = 26
  MaxN = 5
  UseTol = TRUE
  Side = "left"
  InvCheck = "merged"
INVARIANT MergeLoopIsDeclared
INVARIANT LoopOperatorAgrees
INVARIANT SelectIsContaining
INVARIANT OutsideRaises
INVARIANT GapNoCrash
INVARIANT InverseRange
CHECK_DEADLOCK FALSE
