SPECIFICATION Spec
CONSTANTS
  Configs <- NB_Configs
  Procs <- One
  Args <- NB_Args
  MaxReads = 1
  Shared = FALSE
VIEW View
INVARIANT ReadIsFunctionOfArgs
CHECK_DEADLOCK FALSE
