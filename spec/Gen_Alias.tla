----------------------------- MODULE Gen_Alias -----------------------------
EXTENDS Alias, Json, IOUtils, CSV
Emit == (Len(hist) = MaxSteps) =>
  CSVWrite("%1$s", <<ToJson([root |-> objs[1], hist |-> hist])>>, IOEnv.GEN_OUT)
=============================================================================
