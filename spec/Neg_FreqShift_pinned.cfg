SPECIFICATION Spec
CONSTANTS
  Ns <- Q_Ns
  SShapes <- AllShapes
  Vals <- Q_Vals
  Fixed = FALSE
INVARIANT ZeroBinsExact
INVARIANT BoundaryOnly
INVARIANT WholeBinIsCircularMove
INVARIANT BeyondBandIsZero
INVARIANT MetaUnchanged
CHECK_DEADLOCK FALSE
