SPECIFICATION Spec
CONSTANTS
  Mode = "freq"
  Lens <- F_Lens
  NCols = 6
INVARIANT Emit
CHECK_DEADLOCK FALSE
