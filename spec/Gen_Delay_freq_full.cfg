SPECIFICATION Spec
CONSTANTS
  Mode = "freq"
  Lens <- F_Lens
  NCols = 6
  NReal = 3
INVARIANT Emit
CHECK_DEADLOCK FALSE
