SPECIFICATION Spec
INVARIANT AxisInRange
INVARIANT LabelsWithinMinDim
INVARIANT LikeUpwardsAlwaysWorks
INVARIANT ComplexNeverBecomesIntensity
INVARIANT Emit
CHECK_DEADLOCK FALSE
