SPECIFICATION Spec
CONSTANTS
  Heaps <- F_ArrHeaps
  Ufuncs <- AllUfuncs
  Methods <- AllMethods
  DKinds <- AllDKinds
  AsDtypes <- AllAsDtypes
  MaxDepth = 1
  FreeDepth = 1
  Canonical = TRUE
  Variant = "real"
  ArrayProto = "fixed"
VIEW View
INVARIANT WrapsAsResolvedSignal
INVARIANT FirstSignalUnlessSubclass
INVARIANT OutIsReturned
INVARIANT OutKeepsOwnMeta
INVARIANT Refusals
INVARIANT InputsUnchanged
INVARIANT DtypeContract
INVARIANT AsArrayIsData
INVARIANT ResolutionAgrees
CHECK_DEADLOCK FALSE
