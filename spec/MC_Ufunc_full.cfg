SPECIFICATION Spec
CONSTANTS
  Heaps <- F_ArrHeaps
  Ufuncs <- AllUfuncs
  Methods <- AllMethods
  DKinds <- AllDKinds
  OutRK <- MC_OutRK
  AsDtypes <- AllAsDtypes
  MaxDepth = 1
  FreeDepth = 1
  Canonical = TRUE
  Variant = "real"
  ArrayProto = "fixed"
VIEW View
INVARIANT WrapsAsResolvedSignal
INVARIANT FirstSignalUnlessSubclass
INVARIANT OutIsReturned
INVARIANT OutKeepsOwnMeta
INVARIANT Refusals
INVARIANT InputsUnchanged
INVARIANT DtypeContract
INVARIANT AsArrayIsData
INVARIANT ErrorsAsOnArrays
INVARIANT ResolutionAgrees
CHECK_DEADLOCK FALSE
