---------------------------- MODULE MC_TimeShift ----------------------------
EXTENDS TimeShift
AllShapes == {<<>>, <<2>>, <<3>>, <<1, 2>>, <<2, 2>>, <<2, 3>>, <<3, 2>>}
\* shift values in quarter samples: 0, +-1/4, +-1, +-3/2, +-(N-1), +-N, +-(N+1) ...
V13(n) == {0, 1, -1, 4, -4, 6, -6, 4 * (n - 1), -4 * (n - 1), 4 * n, -4 * n, 4 * (n + 1), -4 * (n + 1)}
VExtra(n) == {2, -2, 3, -3, 8, -8, 10, -10, 4 * n + 10, -(4 * n + 10), 4 * n - 1, 1 - 4 * n}
V7(n) == {0, 1, -1, -6, 4 * (n - 1), -4 * n, 4 * (n + 1)}
V5(n) == {0, -1, 6, -4 * n, 4 * (n + 1)}
V4(n) == {0, 1, -6, 4 * n}
V3(n) == {1, -6, 4 * (n - 1)}
\* quick: ~12k configurations per N
Q_Ns == 1..6
Q_Vals(n, card) == CASE card = 1 -> V13(n) \cup VExtra(n)
                     [] card = 2 -> V13(n)
                     [] card = 3 -> V7(n)
                     [] card = 4 -> V5(n)
                     [] OTHER -> V4(n)
\* full
F_Ns == 1..9
F_Vals(n, card) == CASE card = 1 -> V13(n) \cup VExtra(n)
                     [] card = 2 -> V13(n) \cup VExtra(n)
                     [] card = 3 -> V13(n)
                     [] card = 4 -> V13(n)
                     [] OTHER -> V5(n)
\* behaviour generation (replayed on the real code)
G_Ns == 1..6
GF_Ns == 1..8
GExtra(n) == {2, -2, 3, -3, 4 * n + 10, -(4 * n + 10)}
G_Vals(n, card) == CASE card = 1 -> V13(n) \cup GExtra(n)
                     [] card = 2 -> V7(n) \cup {4, -4 * (n + 1)}
                     [] card = 3 -> V5(n)
                     [] card = 4 -> V4(n)
                     [] OTHER -> V3(n)
=============================================================================
