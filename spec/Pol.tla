-------------------------------- MODULE Pol --------------------------------
(***************************************************************************)
(* C13: polarisation bases and Stokes parameters of one dual-polarisation  *)
(* sample, exactly, on Gaussian integers.                                  *)
(*                                                                         *)
(* A sample value is [a, b, k]: the pair of complex numbers (a, b)/sqrt2^k *)
(* with a, b Gaussian integers [re, im]; `basis` says whether (a, b) is    *)
(* [X, Y] or [L, R].  The conversions are the property's definition        *)
(*     sqrt2 (L, R) = (X - iY, X + iY)      sqrt2 (X, Y) = (L + R, i(L - R)) *)
(* and Stokes parameters are quadratic, hence rational with denominator    *)
(* 2^k:  I = |X|^2+|Y|^2, Q = |X|^2-|Y|^2, U = 2Re(X* Y), V = 2Im(X* Y);   *)
(* from the circular pair as the code does: Q = 2Re(L* R), U = 2Im(L* R),  *)
(* V = |L|^2-|R|^2.                                                        *)
(*                                                                         *)
(* State machine: the public operations to_linear / to_circular /          *)
(* to_stokes / to_intensity / ["I".."V"] applied to the current value.     *)
(* Variant # "code" are wrong variants that TLC must reject (Neg_Pol cfg).  *)
(***************************************************************************)
EXTENDS Integers, Sequences, FiniteSets, TLC

CONSTANTS Vals,      \* integers used for the real and imaginary parts
          Bases,     \* starting bases
          MaxConv,   \* how many conversions a behaviour may chain
          Variant    \* "code" | "swapLR" | "conj" | "signV"

VARIABLES orig, cur, hist
vars == <<orig, cur, hist>>

(***************************************************************************)
(* Gaussian integers                                                       *)
(***************************************************************************)
G(re, im) == [re |-> re, im |-> im]
GAdd(x, y) == G(x.re + y.re, x.im + y.im)
GSub(x, y) == G(x.re - y.re, x.im - y.im)
GMulI(x) == G(-x.im, x.re)                       \* i x
GNeg(x) == G(-x.re, -x.im)
GAbs2(x) == x.re * x.re + x.im * x.im
GConjMulRe(x, y) == x.re * y.re + x.im * y.im    \* Re(x* y)
GConjMulIm(x, y) == x.re * y.im - x.im * y.re    \* Im(x* y)
GEven(x) == x.re % 2 = 0 /\ x.im % 2 = 0
GHalf(x) == G(x.re \div 2, x.im \div 2)
GZero == G(0, 0)

\* canonical form of (a, b)/sqrt2^k
RECURSIVE NormP(_)
NormP(v) == IF v.a = GZero /\ v.b = GZero THEN [v EXCEPT !.k = 0]
            ELSE IF v.k >= 2 /\ GEven(v.a) /\ GEven(v.b)
                 THEN NormP([v EXCEPT !.a = GHalf(v.a), !.b = GHalf(v.b), !.k = v.k - 2])
                 ELSE v
\* canonical form of <<s1..s4>>/2^k
AllEven(s) == \A i \in 1..Len(s) : s[i] % 2 = 0
RECURSIVE NormS(_, _)
NormS(s, k) == IF \A i \in 1..Len(s) : s[i] = 0 THEN [s |-> s, k |-> 0]
               ELSE IF k >= 1 /\ AllEven(s) THEN NormS([i \in 1..Len(s) |-> s[i] \div 2], k - 1)
               ELSE [s |-> s, k |-> k]

(***************************************************************************)
(* The operations                                                          *)
(***************************************************************************)
\* (X, Y) -> (L, R):  sqrt2 L = X - iY,  sqrt2 R = X + iY
ToCirc(v) ==
  LET iy == GMulI(v.b)
      l == GSub(v.a, iy)
      r == GAdd(v.a, iy)
  IN NormP([a |-> IF Variant = "swapLR" THEN r ELSE l,
            b |-> IF Variant = "swapLR" THEN l ELSE r, k |-> v.k + 1, basis |-> "circular"])
\* (L, R) -> (X, Y):  sqrt2 X = L + R,  sqrt2 Y = i(L - R)
ToLin(v) ==
  LET y == GMulI(GSub(v.a, v.b))
  IN NormP([a |-> GAdd(v.a, v.b), b |-> IF Variant = "conj" THEN GNeg(y) ELSE y,
            k |-> v.k + 1, basis |-> "linear"])
Linear(v) == IF v.basis = "circular" THEN ToLin(v) ELSE v
Circular(v) == IF v.basis = "linear" THEN ToCirc(v) ELSE v

\* the documented formulas, on a linear pair
StokesDoc(v) == NormS(<<GAbs2(v.a) + GAbs2(v.b), GAbs2(v.a) - GAbs2(v.b),
                        2 * GConjMulRe(v.a, v.b), 2 * GConjMulIm(v.a, v.b)>>, v.k)
\* to_stokes as coded: one branch per basis
StokesOf(v) ==
  IF v.basis = "linear" THEN StokesDoc(v)
  ELSE NormS(<<GAbs2(v.a) + GAbs2(v.b), 2 * GConjMulRe(v.a, v.b), 2 * GConjMulIm(v.a, v.b),
               IF Variant = "signV" THEN GAbs2(v.b) - GAbs2(v.a) ELSE GAbs2(v.a) - GAbs2(v.b)>>, v.k)
IntensityOf(v) == NormS(<<GAbs2(v.a), GAbs2(v.b)>>, v.k)
Power(v) == NormS(<<GAbs2(v.a) + GAbs2(v.b)>>, v.k)

(***************************************************************************)
(* State machine                                                           *)
(***************************************************************************)
GVals == {G(r, i) : r \in Vals, i \in Vals}
Init == /\ \E a \in GVals, b \in GVals, bs \in Bases :
             orig = [kind |-> "pol", a |-> a, b |-> b, k |-> 0, basis |-> bs]
        /\ cur = orig /\ hist = <<>>
NConv == Cardinality({i \in 1..Len(hist) : hist[i] \in {"to_linear", "to_circular"}})
Do(op, new) == cur' = new /\ hist' = Append(hist, op) /\ UNCHANGED orig
PolRec(v) == [kind |-> "pol", a |-> v.a, b |-> v.b, k |-> v.k, basis |-> v.basis]

ToLinear == cur.kind = "pol" /\ NConv < MaxConv /\ Do("to_linear", PolRec(Linear(cur)))
ToCircular == cur.kind = "pol" /\ NConv < MaxConv /\ Do("to_circular", PolRec(Circular(cur)))
ToStokes == cur.kind = "pol" /\ LET s == StokesOf(cur) IN Do("to_stokes", [kind |-> "stokes", s |-> s.s, k |-> s.k])
ToIntensity == cur.kind = "pol" /\ LET s == IntensityOf(cur) IN Do("to_intensity", [kind |-> "inten", s |-> s.s, k |-> s.k])
StokesItem == cur.kind = "stokes" /\ \E j \in 1..4 :
                LET s == NormS(<<cur.s[j]>>, cur.k)
                IN Do(<<"I", "Q", "U", "V">>[j], [kind |-> "item", s |-> s.s, k |-> s.k, j |-> j, of |-> cur])
\* component access by a name that is NOT one of "I", "Q", "U", "V" is refused (KeyError); which sample the signal
\* holds is irrelevant, so these behaviours are generated for the all-zero starting sample only
BadKeys == {"", "IQ", "QU", "UV", "IQU", "QUV", "IQUV", "IV", "II", "i", "q", "u", "v", "X", "L", "R", "stokesI", "I ", " I", "0"}
BadItem == /\ cur.kind = "stokes" /\ orig.a = GZero /\ orig.b = GZero
           /\ \E key \in BadKeys : Do(key, [kind |-> "refused", key |-> key])
Next == ToLinear \/ ToCircular \/ ToStokes \/ ToIntensity \/ StokesItem \/ BadItem
Spec == Init /\ [][Next]_vars

(***************************************************************************)
(* Properties (clauses of C13)                                             *)
(***************************************************************************)
IsPol == cur.kind = "pol"
\* total power per sample is preserved by the conversions
PowerKept == IsPol => Power(cur) = Power(orig)
\* the opposite conversion undoes a conversion; converting to the basis a value is
\* already in is the identity: whatever chain of conversions was applied, a value that
\* is back in the starting basis is the starting value (k = 0: not even rescaled)
RoundTrip == (IsPol /\ cur.basis = orig.basis) => cur = orig
IdentityInOwnBasis ==
  IsPol => /\ (cur.basis = "linear" => PolRec(Linear(cur)) = cur)
           /\ (cur.basis = "circular" => PolRec(Circular(cur)) = cur)
\* a value in the other basis is the definition applied to the starting value
ConversionIsDefinition ==
  (IsPol /\ cur.basis # orig.basis) =>
      cur = PolRec(IF orig.basis = "linear" THEN ToCirc(orig) ELSE ToLin(orig))
\* Stokes parameters are the documented formulas of the linear pair ...
StokesRec(s) == [kind |-> "stokes", s |-> s.s, k |-> s.k]
StokesFormulas == cur.kind = "stokes" => cur = StokesRec(StokesDoc(Linear(orig)))
\* ... and identical whichever basis they are computed from
BasisIndependent ==
  IsPol => /\ StokesOf(cur) = StokesOf(orig)
           /\ StokesOf(Linear(cur)) = StokesOf(Circular(cur))
Polarised == cur.kind = "stokes" =>
               /\ cur.s[1] * cur.s[1] = cur.s[2] * cur.s[2] + cur.s[3] * cur.s[3] + cur.s[4] * cur.s[4]
               /\ cur.s[1] >= 0
\* I = to_intensity summed over the two polarisations
IntensitySum == IsPol => LET i == IntensityOf(cur)
                         IN NormS(<<i.s[1] + i.s[2]>>, i.k) = NormS(<<StokesOf(cur).s[1]>>, StokesOf(cur).k)
\* only the four component names are answered
OnlyNamesAnswered == /\ cur.kind = "item" => hist[Len(hist)] \in {"I", "Q", "U", "V"}
                     /\ cur.kind = "refused" => cur.key \notin {"I", "Q", "U", "V"}
ItemIsComponent == cur.kind = "item" => NormS(<<cur.of.s[cur.j]>>, cur.of.k) = [s |-> cur.s, k |-> cur.k]
=============================================================================
