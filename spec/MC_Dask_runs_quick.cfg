SPECIFICATION Spec
CONSTANTS
  Roots <- GR_Roots
  Ops <- GR_Ops
  Scheds = {"sync"}
  MaxDepth = 2
  MaxRuns = 2
  MaxTasks = 12
  FftNeedsOneChunk = TRUE
  ChirpKeyByChannel = TRUE
  EagerOps <- None_
  NumpyOps <- None_
  ReaderPerBlock = FALSE
  OverwriteTags <- None_
  StickyKwargs = FALSE
  LazySetitemLost = FALSE
  RollShortcut = FALSE
  SharedHandle = FALSE
VIEW View
INVARIANT TypeOK
INVARIANT SameAsNumpy
INVARIANT OrderIndependent
INVARIANT KeysSound
INVARIANT RefusalsLegit
PROPERTY Lazy
PROPERTY LazyDone
PROPERTY StaysDask
PROPERTY ContainerOnly
PROPERTY PersistHolds
PROPERTY InputsStable
CHECK_DEADLOCK FALSE
