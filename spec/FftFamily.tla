----------------------------- MODULE FftFamily -----------------------------
(***************************************************************************)
(* C20: the fourteen transforms of pulsarbat.fft, each defined from the    *)
(* discrete Fourier transform of the kernel (module Fix):                  *)
(*                                                                         *)
(*   fft, ifft          Dft with sign -1 / +1, input resized to n          *)
(*   rfft               first n div 2 + 1 bins of fft                      *)
(*   irfft              Hermitian completion of n div 2 + 1 bins to n      *)
(*                      points, inverse Dft, real part (default n = 2(m-1))*)
(*   hfft, ihfft        irfft / rfft of the conjugate, opposite direction  *)
(*   fft2 .. irfftn     the 1-D transforms iterated over `axes` (the real  *)
(*                      transform on the last of them), lengths `s`        *)
(*   norm               backward / forward / ortho scaling                 *)
(*                                                                         *)
(* An array is [sh |-> shape, v |-> values in C order], values complex     *)
(* 60-bit fixed point.  A case is [name, x, n, axis, s, axes, norm]; None  *)
(* is NoneI for integers and <<>> for tuples, norm "none" = not passed.    *)
(***************************************************************************)
EXTENDS Fix, FiniteSets, TLC

NoneI == 1000000
MaxN == 12
Names1 == {"fft", "ifft", "rfft", "irfft", "hfft", "ihfft"}
Names2 == {"fft2", "ifft2", "rfft2", "irfft2"}
NamesN == {"fftn", "ifftn", "rfftn", "irfftn"}
AllNames == Names1 \cup Names2 \cup NamesN

(***************************************************************************)
(* DFT with tabulated twiddles; multiplications by 1, -1, i, -i, of 0 and  *)
(* of small integers are exact shortcuts                                   *)
(***************************************************************************)
\* TLC does not cache constant definitions that rest on recursive operators, so the
\* tables (twiddles, 1/sqrt n) are computed once in the initial predicate and carried in
\* the state variable `tab` (never changed)
VARIABLE tab
FMinusOne == Neg(FOne)
\* a Fix value that is a small integer k (|k| < 2^15): limbs <<0, 0, 0, 0, k>>
SmallInt(v) == v.m = <<>> \/ (Len(v.m) = 5 /\ v.m[1] = 0 /\ v.m[2] = 0 /\ v.m[3] = 0 /\ v.m[4] = 0)
IntOf(v) == IF v.m = <<>> THEN 0 ELSE IF v.n THEN -v.m[5] ELSE v.m[5]
\* <<x w, x conj(w)>>: the two products share their four real products
MulPair(x, w) ==
  IF x.re = FZero /\ x.im = FZero THEN <<CZero, CZero>>
  ELSE IF w.im = FZero /\ w.re = FOne THEN <<x, x>>
  ELSE IF w.im = FZero /\ w.re = FMinusOne THEN <<CNeg(x), CNeg(x)>>
  ELSE IF w.re = FZero /\ w.im = FOne THEN <<C(Neg(x.im), x.re), C(x.im, Neg(x.re))>>
  ELSE IF w.re = FZero /\ w.im = FMinusOne THEN <<C(x.im, Neg(x.re)), C(Neg(x.im), x.re)>>
  ELSE LET int == SmallInt(x.re) /\ SmallInt(x.im)
           ac == IF int THEN MulInt(w.re, IntOf(x.re)) ELSE IF x.re = FZero THEN FZero ELSE FMul(x.re, w.re)
           bd == IF int THEN MulInt(w.im, IntOf(x.im)) ELSE IF x.im = FZero THEN FZero ELSE FMul(x.im, w.im)
           ad == IF int THEN MulInt(w.im, IntOf(x.re)) ELSE IF x.re = FZero THEN FZero ELSE FMul(x.re, w.im)
           bc == IF int THEN MulInt(w.re, IntOf(x.im)) ELSE IF x.im = FZero THEN FZero ELSE FMul(x.im, w.re)
       IN <<C(Sub(ac, bd), Add(ad, bc)), C(Add(ac, bd), Sub(bc, ad))>>
\* X[k] = sum_n x[n] W^(sgn k n),  W = exp(2 pi i / N);  W^(N-j) = conj(W^j)
DftT(x, sgn) ==
  LET N == Len(x)  W == tab.tw[N]  H == N \div 2
      P == [n \in 1..N |-> [j \in 0..H |-> MulPair(x[n], W[j])]]
      Prod(n, j) == IF j <= H THEN P[n][j][1] ELSE P[n][N - j][2]
  IN [k \in 1..N |-> CSum([n \in 1..N |-> Prod(n, (sgn * (k-1) * (n-1)) % N)])]

IDft1(x) == LET y == DftT(x, 1) IN [k \in 1..Len(x) |-> CDivSmall(y[k], Len(x))]

\* 1/sqrt(n) as Fix: integer square root of 2^120 div n by bisection on BigInt
RECURSIVE ISqrtR(_, _, _)
ISqrtR(v, lo, hi) ==          \* greatest r in lo..hi with r*r <= v   (lo*lo <= v < (hi+1)^2)
  IF Eq(lo, hi) THEN lo
  ELSE LET mid == Shl(Add(Add(lo, hi), One), -1)
       IN IF Le(Mul(mid, mid), v) THEN ISqrtR(v, mid, hi) ELSE ISqrtR(v, lo, Sub(mid, One))
InvSqrt(n) == ISqrtR(FloorDiv(Pow2(2 * FBITS), FromInt(n)), Zero, Pow2(FBITS))
Tables == [tw |-> [N \in 1..MaxN |-> Twiddles(N)], isq |-> [n \in 1..MaxN |-> InvSqrt(n)]]
TabInit == tab = Tables

(***************************************************************************)
(* 1-D transforms of a line x (sequence of complex), transform length n    *)
(***************************************************************************)
Resize(x, n) == [k \in 1..n |-> IF k <= Len(x) THEN x[k] ELSE CZero]
ConjSeq(x) == [k \in 1..Len(x) |-> CConj(x[k])]
RealSeq(x) == [k \in 1..Len(x) |-> C(x[k].re, FZero)]
\* dirn "fwd" / "inv"; norm "none" = "backward"
Scale(y, norm, dirn, n) ==
  IF norm = "ortho" THEN [k \in 1..Len(y) |-> CMulReal(y[k], tab.isq[n])]
  ELSE IF (norm = "forward") = (dirn = "fwd") THEN [k \in 1..Len(y) |-> CDivSmall(y[k], n)]
  ELSE y
Fft1(x, n, norm) == Scale(DftT(Resize(x, n), -1), norm, "fwd", n)
Ifft1(x, n, norm) == Scale(DftT(Resize(x, n), 1), norm, "inv", n)
Rfft1(x, n, norm) == SubSeq(Fft1(x, n, norm), 1, n \div 2 + 1)
\* n-point Hermitian sequence whose first n div 2 + 1 entries are those of x
Complete(x, n) ==
  LET m == n \div 2 + 1
      xr == Resize(x, m)
  IN [k \in 1..n |-> IF k <= m THEN xr[k] ELSE CConj(xr[n - k + 2])]
Irfft1(x, n, norm) == RealSeq(Scale(DftT(Complete(x, n), 1), norm, "inv", n))
Hfft1(x, n, norm) == RealSeq(Scale(DftT(Complete(ConjSeq(x), n), 1), norm, "fwd", n))
Ihfft1(x, n, norm) == ConjSeq(SubSeq(Scale(DftT(Resize(x, n), -1), norm, "inv", n), 1, n \div 2 + 1))

\* default transform length and output length for a line of length L
DefaultN(name, L) == IF name \in {"irfft", "hfft"} THEN 2 * (L - 1) ELSE L
OutLen(name, n) == IF name \in {"rfft", "ihfft"} THEN n \div 2 + 1 ELSE n
Apply1(name, x, n, norm) ==
  CASE name = "fft" -> Fft1(x, n, norm)
    [] name = "ifft" -> Ifft1(x, n, norm)
    [] name = "rfft" -> Rfft1(x, n, norm)
    [] name = "irfft" -> Irfft1(x, n, norm)
    [] name = "hfft" -> Hfft1(x, n, norm)
    [] name = "ihfft" -> Ihfft1(x, n, norm)

(***************************************************************************)
(* Arrays                                                                  *)
(***************************************************************************)
RECURSIVE ProdR(_, _, _)
ProdR(sh, i, j) == IF i > j THEN 1 ELSE sh[i] * ProdR(sh, i + 1, j)
Size(sh) == ProdR(sh, 1, Len(sh))
\* python axis (possibly negative) -> 1-based position
Ax(a, r) == IF a < 0 THEN a + r + 1 ELSE a + 1
\* apply the 1-D transform `name` with length n (NoneI: default) along python axis a
Along(arr, name, a, n, norm) ==
  LET r == Len(arr.sh)
      ax == Ax(a, r)
      L == arr.sh[ax]
      nn == IF n = NoneI THEN DefaultN(name, L) ELSE n
      m == OutLen(name, nn)
      inner == ProdR(arr.sh, ax + 1, r)
      outer == ProdR(arr.sh, 1, ax - 1)
      lines == [o \in 0..(outer - 1) |-> [j \in 0..(inner - 1) |->
                  Apply1(name, [k \in 1..L |-> arr.v[(o * L + (k - 1)) * inner + j + 1]], nn, norm)]]
  IN [sh |-> [i \in 1..r |-> IF i = ax THEN m ELSE arr.sh[i]],
      v |-> [i \in 1..(outer * m * inner) |->
               lines[(i - 1) \div (m * inner)][(i - 1) % inner][(((i - 1) \div inner) % m) + 1]]]

\* iterate a complex 1-D transform over axes[from..to] with lengths s (<<>>: defaults)
RECURSIVE Iter(_, _, _, _, _, _, _)
Iter(arr, name, axes, s, norm, i, to) ==
  IF i > to THEN arr
  ELSE Iter(Along(arr, name, axes[i], IF s = <<>> THEN NoneI ELSE s[i], norm), name, axes, s, norm, i + 1, to)

\* default axes: fft2 family the last two; fftn family all, or the last Len(s) if s is given
DefaultAxes(name, r, s) ==
  IF name \in Names2 THEN <<-2, -1>>
  ELSE IF s = <<>> THEN [i \in 1..r |-> i - 1]
  ELSE [i \in 1..Len(s) |-> r - Len(s) + i - 1]

ApplyN(name, arr, s, axes0, norm) ==
  LET r == Len(arr.sh)
      axes == IF axes0 = <<>> THEN DefaultAxes(name, r, s) ELSE axes0
      k == Len(axes)
      last == IF s = <<>> THEN NoneI ELSE s[k]
  IN CASE name \in {"fft2", "fftn"} -> Iter(arr, "fft", axes, s, norm, 1, k)
       [] name \in {"ifft2", "ifftn"} -> Iter(arr, "ifft", axes, s, norm, 1, k)
       [] name \in {"rfft2", "rfftn"} ->
            Iter(Along(arr, "rfft", axes[k], last, norm), "fft", axes, s, norm, 1, k - 1)
       [] name \in {"irfft2", "irfftn"} ->
            Along(Iter(arr, "ifft", axes, s, norm, 1, k - 1), "irfft", axes[k], last, norm)

\* the empty tuple () as s or axes (<<>> already stands for None): no axis is transformed
EmptyT == <<NoneI>>
\* a case: [name, x (array), n, axis, s, axes, norm]
Eval(c) ==
  IF c.name \notin Names1 /\ (c.s = EmptyT \/ c.axes = EmptyT)
  THEN c.x          \* complex-to-complex transform over no axes: the input itself
  ELSE IF c.name \in Names1
  THEN Along(c.x, c.name, IF c.axis = NoneI THEN -1 ELSE c.axis, c.n, c.norm)
  ELSE ApplyN(c.name, c.x, c.s, c.axes, c.norm)

(***************************************************************************)
(* Inputs: small integers, generic (no symmetry)                           *)
(***************************************************************************)
InRe(i) == ((i * i + 3 * i + 1) % 7) - 3
InIm(i) == ((2 * i * i + i + 2) % 5) - 2
Input(sh, kind) ==
  [sh |-> sh, v |-> [i \in 1..Size(sh) |-> CFromInts(InRe(i), IF kind = "real" THEN 0 ELSE InIm(i))]]
InputInts(sh, kind) == [i \in 1..Size(sh) |-> <<InRe(i), IF kind = "real" THEN 0 ELSE InIm(i)>>]

(***************************************************************************)
(* Properties of the definitions themselves                                *)
(***************************************************************************)
ArrClose(a, b, tol) == a.sh = b.sh /\ \A i \in 1..Len(a.v) : CClose(a.v[i], b.v[i], tol)
TolDef == FTol10(12)
\* two names are distinguishable on a probe: different shape or a value differing by > 1e-6
Differ(a, b) == a.sh # b.sh \/ \E i \in 1..Len(a.v) : ~CClose(a.v[i], b.v[i], FTol10(6))
DefaultCase(name, x) == [name |-> name, x |-> x, n |-> NoneI, axis |-> NoneI, s |-> <<>>, axes |-> <<>>, norm |-> "none"]
Probes == {Input(<<2, 3, 4>>, "real"), Input(<<3, 2, 4>>, "complex")}
\* inverse pairs
InversePairs ==
  \A p \in Probes : \A nm \in {"none", "ortho", "forward"} :
    LET c(name, x) == [DefaultCase(name, x) EXCEPT !.norm = nm]
    IN /\ ArrClose(Eval(c("ifft", Eval(c("fft", p)))), p, TolDef)
       /\ ArrClose(Eval(c("ifftn", Eval(c("fftn", p)))), p, TolDef)
       /\ ArrClose(Eval(c("ifft2", Eval(c("fft2", p)))), p, TolDef)
RealInverse ==
  LET p == Input(<<2, 3, 4>>, "real")
      q == Input(<<2, 5>>, "real")
      d(name, x) == DefaultCase(name, x)
  IN /\ ArrClose(Eval(d("irfft", Eval(d("rfft", p)))), p, TolDef)
     /\ ArrClose(Eval(d("irfftn", Eval(d("rfftn", p)))), p, TolDef)
     /\ ArrClose(Eval(d("irfft2", Eval(d("rfft2", p)))), p, TolDef)
     /\ ArrClose(Eval([d("irfft", Eval(d("rfft", q))) EXCEPT !.n = 5]), q, TolDef)
     /\ ArrClose(Eval([d("hfft", Eval(d("ihfft", q))) EXCEPT !.n = 5]), q, TolDef)
=============================================================================
