SPECIFICATION Spec
CONSTANTS
  Heaps <- Q_ChainHeaps
  Ufuncs <- Q_ChainUfuncs
  Methods <- AllMethods
  DKinds <- Q_DKinds
  OutRK <- C_OutRK
  AsDtypes <- Q_AsDtypes
  MaxDepth = 3
  FreeDepth = 1
  Canonical = FALSE
  Variant = "real"
  ArrayProto = "fixed"
VIEW View
INVARIANT WrapsAsResolvedSignal
INVARIANT FirstSignalUnlessSubclass
INVARIANT OutIsReturned
INVARIANT OutKeepsOwnMeta
INVARIANT Refusals
INVARIANT InputsUnchanged
INVARIANT DtypeContract
INVARIANT AsArrayIsData
INVARIANT ErrorsAsOnArrays
INVARIANT ResolutionAgrees
CHECK_DEADLOCK FALSE
