SPECIFICATION Spec
CONSTANTS
  Configs <- AllConfigs
  Procs <- Q_Procs
  Args <- Q_Args
  MaxReads = 2
  Shared = FALSE
VIEW View
INVARIANT TypeOK
INVARIANT ReadIsFunctionOfArgs
INVARIANT BoundsRefused
INVARIANT AdjacentReadsConcatenate
INVARIANT AdjacentStatic
INVARIANT OffsetTimeRoundTrip
CHECK_DEADLOCK FALSE
