SPECIFICATION Spec
CONSTANTS MaxObjs = 4
  MaxSteps = 3
  IstftInPlace = TRUE
VIEW View
PROPERTY Frame
CHECK_DEADLOCK FALSE
