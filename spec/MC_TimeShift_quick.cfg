SPECIFICATION Spec
CONSTANTS
  Ns <- Q_Ns
  SShapes <- AllShapes
  Vals <- Q_Vals
  Fixed = TRUE
INVARIANT ZeroRegionExact
INVARIANT CountsAsStated
INVARIANT CropIsEdgeRemoval
INVARIANT IntegerShiftMovesSamples
INVARIANT MetaUnchanged
INVARIANT EarlyReturnOnlyForZero
CHECK_DEADLOCK FALSE
