SPECIFICATION Spec
CONSTANTS
  Ns <- T2_Ns
  Fns <- Both
  Guess2 = TRUE
  OddBreak = FALSE
  PrevLe = TRUE
INVARIANT Terminates
CHECK_DEADLOCK TRUE
