SPECIFICATION Spec
CONSTANTS
  Shapes <- Q_Shapes
  Level = 1
  Names <- AllNames
INVARIANT ShapeOK
INVARIANT RealOut
INVARIANT Emit
CHECK_DEADLOCK FALSE
