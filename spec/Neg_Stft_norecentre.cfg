SPECIFICATION Spec
CONSTANTS
  NChans <- Q_NChans
  PerSegs <- Q_PerSegs
  Aligns <- AllAligns
  ExtraSegs <- Q_Extra
  Variant = "norecentre"
INVARIANT StftLabelsAreTrueFrequencies
INVARIANT StftMeta
CHECK_DEADLOCK FALSE
