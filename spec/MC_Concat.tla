----------------------------- MODULE MC_Concat -----------------------------
EXTENDS Concat
AllClasses == {"Signal", "RadioSignal", "IntensitySignal", "BasebandSignal",
               "DualPolarizationSignal", "FullStokesSignal"}
AllAligns == {"bottom", "center", "top"}
AllPerturbs == {"shift+1", "shift-1", "swap", "rate2", "ratefine", "cls", "cbw", "labels+1", "labels-1", "t0mismatch", "rateunit", "align"}
Q_RootLens == {0, 1, 3}
Q_NChans == {1, 2, 3, 4}
F_RootLens == {0, 1, 2, 4}
F_NChans == {1, 2, 3, 4, 5}
=============================================================================
