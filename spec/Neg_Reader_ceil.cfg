SPECIFICATION Spec
CONSTANTS
  Configs <- NC_Configs
  Procs <- One
  Args <- NC_Args
  MaxReads = 1
  Shared = FALSE
VIEW View
INVARIANT ReadIsFunctionOfArgs
CHECK_DEADLOCK FALSE
