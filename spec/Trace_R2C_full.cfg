SPECIFICATION TraceSpec
CONSTANT MaxTW = 32
POSTCONDITION AllConsumed
CHECK_DEADLOCK FALSE
