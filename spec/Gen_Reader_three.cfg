SPECIFICATION Spec
CONSTANTS
  Configs <- G3_Configs
  Procs <- T_Procs
  Args <- G3_Args
  MaxReads = 1
  Shared = FALSE
CONSTRAINT G3_Fixed
INVARIANT ReadIsFunctionOfArgs
INVARIANT EmitTerminal
CHECK_DEADLOCK FALSE
