SPECIFICATION Spec
CONSTANTS
  Bits = 62
INVARIANT InRange
INVARIANT ValueIsProduct
INVARIANT Emit
CHECK_DEADLOCK FALSE
