------------------------------- MODULE Alias -------------------------------
(***************************************************************************)
(* Buffers, views and writes (C14: no operation modifies what it is given).*)
(*                                                                         *)
(* Every array lives in a buffer with a write-version.  Each public        *)
(* operation is described the way the code performs it: whether its result *)
(* is a view of the input's buffer or lives in a fresh buffer, and which   *)
(* buffer the operation's internal assignments (shifted[ix] = 0,           *)
(* x[ix] = 0, x /= nperseg, x *= nperseg, delays += crop ...) land in.     *)
(* Only an explicit out= / in-place operator may change a pre-existing     *)
(* buffer, and only the buffer of its target.  Frame is the action         *)
(* property; behaviours of this machine are replayed on the real code with *)
(* byte-wise hashes of every live buffer (Trace_Alias).                    *)
(***************************************************************************)
EXTENDS Integers, Sequences, FiniteSets, TLC

CONSTANTS MaxObjs, MaxSteps,
          IstftInPlace      \* TRUE: istft as on the pinned tree (x = reshape(...); x *= nperseg)

VARIABLES objs,      \* sequence of [buf, kind, contig]: live signals
          ver,       \* buffer id -> number of writes so far
          sanc,      \* buffers the last step was allowed to write (target of out= / in-place)
          hist       \* observation: operations performed
vars == <<objs, ver, sanc, hist>>

Kinds == {"dp", "bb", "st", "in", "rd", "sg"}   \* DualPolarization, Baseband, FullStokes, Intensity, Radio, plain Signal

\* name, accepted kinds, result kind ("same" or a kind), result placement, internal write target
\* res:   "view"  = result shares the input's buffer (basic slicing, like(), views)
\*        "fresh" = result lives in a new buffer
\*        "self"  = the very same object is returned (in-place / out= forms; no-op shifts)
\* wr:    "none" | "result" (into the result's buffer) | "reshape" (into reshape(input): the input's
\*        buffer when the input is contiguous, a private copy otherwise) | "target" (sanctioned)
Op(n, from, to, res, wr) == [name |-> n, from |-> from, to |-> to, res |-> res, wr |-> wr]
OpTable == {
  Op("time_slice", Kinds, "same", "view", "none"),
  Op("time_slice_step", Kinds, "same", "view", "none"),
  Op("freq_slice", Kinds, "same", "view", "none"),
  Op("like", Kinds, "same", "view", "none"),
  Op("fast_len", Kinds, "same", "view", "none"),
  Op("snippet_int", Kinds, "same", "view", "none"),
  Op("snippet_frac", {"dp", "bb"}, "same", "fresh", "result"),
  Op("time_shift", Kinds, "same", "fresh", "result"),
  Op("time_shift_crop", Kinds, "same", "fresh", "result"),
  Op("time_shift_zero", Kinds, "same", "self", "none"),
  Op("freq_shift", {"dp", "bb"}, "same", "fresh", "result"),
  Op("coherent_dd", {"dp", "bb"}, "same", "fresh", "none"),
  Op("incoherent_dd", Kinds, "same", "fresh", "none"),
  Op("to_intensity", {"dp", "bb"}, "in", "fresh", "none"),
  Op("to_stokes", {"dp"}, "st", "fresh", "none"),
  Op("to_circular", {"dp"}, "same", "fresh", "none"),
  Op("to_linear", {"dp"}, "same", "view", "none"),
  Op("stokes_item", {"st"}, "in", "fresh", "none"),
  Op("stft", {"dp", "bb"}, "same", "fresh", "result"),
  Op("istft", {"dp", "bb"}, "same", "fresh", IF IstftInPlace THEN "reshape" ELSE "result"),
  Op("concat_self", Kinds, "same", "fresh", "none"),
  Op("ufunc_add", Kinds, "same", "fresh", "none"),
  Op("ufunc_out_self", Kinds, "same", "self", "target"),
  Op("inplace_mul", Kinds, "same", "self", "target"),
  Op("to_dask", Kinds, "same", "view", "none"),
  Op("compute", Kinds, "same", "view", "none"),
  Op("asarray", Kinds, "same", "view", "none"),
  Op("chirp", {"dp", "bb"}, "same", "self", "none"),
  Op("contains", Kinds, "same", "self", "none"),
  Op("bad_snippet", Kinds, "same", "self", "none"),
  Op("bad_shift_dims", Kinds, "same", "self", "none"),
  Op("bad_freq_shift_unit", {"dp", "bb"}, "same", "self", "none"),
  Op("bad_concat_gap", Kinds, "same", "self", "none"),
  \* rows used when validating traces of arbitrary public calls (repository test-suite under the
  \* external tracer): an ordinary call may write nothing it was given; a ufunc call with out= /
  \* an in-place operator may write its target (logged as buffer 0)
  Op("api_call", Kinds, "same", "self", "none"),
  Op("api_ufunc_out", Kinds, "same", "self", "target")
}

NewBuf == Cardinality(DOMAIN ver) + 1

Init == /\ \E k \in Kinds, c \in BOOLEAN :
            objs = <<[buf |-> 1, kind |-> k, contig |-> c]>>
        /\ ver = (1 :> 0) /\ sanc = {} /\ hist = <<>>

Apply(i, op) ==
  LET o == objs[i]
      rk == IF op.to = "same" THEN o.kind ELSE op.to
      fresh == op.res = "fresh"
      nb == NewBuf
      robj == IF fresh THEN [buf |-> nb, kind |-> rk, contig |-> TRUE]
              ELSE [buf |-> o.buf, kind |-> rk, contig |-> (o.contig /\ op.name # "time_slice_step")]
      \* buffer hit by the operation's internal assignment
      written == CASE op.wr = "none" -> {}
                   [] op.wr = "result" -> {robj.buf}
                   [] op.wr = "target" -> {o.buf}
                   [] op.wr = "reshape" -> IF o.contig THEN {o.buf} ELSE {}
      ver1 == IF fresh THEN ver @@ (nb :> 0) ELSE ver
  IN /\ o.kind \in op.from
     /\ objs' = IF op.res = "self" \/ Len(objs) >= MaxObjs THEN objs ELSE Append(objs, robj)
     /\ ver' = [b \in DOMAIN ver1 |-> IF b \in written THEN ver1[b] + 1 ELSE ver1[b]]
     /\ sanc' = IF op.wr = "target" THEN {o.buf} ELSE {}
     /\ hist' = Append(hist, [op |-> op.name, arg |-> i])

Next == /\ Len(hist) < MaxSteps
        /\ \E i \in 1..Len(objs), op \in OpTable : Apply(i, op)
Spec == Init /\ [][Next]_vars

\* C14: a step changes the version of a pre-existing buffer only if that buffer
\* is the sanctioned target of an explicit out= / in-place operation
Frame == [][\A b \in DOMAIN ver : ver'[b] = ver[b] \/ b \in sanc']_vars
View == <<objs, ver, sanc, Len(hist)>>
=============================================================================
