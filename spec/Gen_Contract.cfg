SPECIFICATION Spec
CONSTANTS MaxMut = 2
INVARIANT Emit
INVARIANT EmitCatalog
CHECK_DEADLOCK FALSE
