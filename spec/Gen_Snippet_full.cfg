SPECIFICATION Spec
CONSTANTS
  Lens <- GF_Lens
  Forms <- AllForms
  IntMode = "trunc"
INVARIANT Emit
CHECK_DEADLOCK FALSE
