SPECIFICATION TraceSpec
CONSTANT MaxTW = 16
POSTCONDITION AllConsumed
CHECK_DEADLOCK FALSE
