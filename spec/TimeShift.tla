------------------------------ MODULE TimeShift ------------------------------
(***************************************************************************)
(* C03: pulsarbat.time_shift(z, shift, crop) -- band-limited delay with    *)
(* exact zero-fill and no wrap-around.                                     *)
(*                                                                         *)
(* OPERATIONAL (what transforms.py does, line by line):                    *)
(*   shift = np.array(shift);  refuse shift.ndim >= z.ndim                 *)
(*   if np.allclose(shift, 0): return z              (early return)        *)
(*   shift = shift[(slice(None),)*ndim + (None,)*rest]   (leading axes)    *)
(*   shifted = ifft(fft(z) * exp(-2j pi shift fftfreq))  (NumPy broadcast) *)
(*   zero loop over np.nditer(shift) with multi_index    (ShiftOps!OpZero) *)
(*   crop: x[start : max(start, len + stop)]                               *)
(* Fixed = FALSE is the loop of the current tree, Fixed = TRUE the repair  *)
(* (length-1 / missing axes indexed with slice(None)).                     *)
(*                                                                         *)
(* DECLARATIVE (the property, per element e of the sample shape with its   *)
(* broadcast shift s_e): out[k, e] is zero exactly where the source        *)
(* k - s_e lies outside the input, else the delay of in[., e] by s_e;      *)
(* crop = True removes exactly the union of the edge regions; whole-sample *)
(* shifts move samples exactly; metadata unchanged.                        *)
(*                                                                         *)
(* Named deviation TinyShiftIsNoOp: np.allclose(shift, 0) also holds for   *)
(* 0 < |s| <= 1e-8, for which the code returns z unchanged although the    *)
(* property text asks for one zeroed edge sample.  Shifts of this model    *)
(* live on the quarter-sample lattice, where allclose(shift,0) <=> all 0.  *)
(***************************************************************************)
EXTENDS ShiftOps

CONSTANTS
  Ns,           \* signal lengths
  SShapes,      \* sample shapes
  Vals(_, _),   \* Vals(N, n): shift values (quarter samples) for an n-entry shift array
  Fixed         \* TRUE: repaired zero loop; FALSE: loop of the current tree

VARIABLES phase, N, ssh, shsh, S, out,
          prev      \* layout (shift shape) of the previous call of the session, NoPrev for a first call
vars == <<phase, N, ssh, shsh, S, out, prev>>

Meta0 == [t0 |-> 0, per |-> 4, cls |-> "Signal", dtype |-> "in"]

\* the operational model: everything the call returns, abstractly
Op(n, sh, P, s) ==
  IF \A m \in Elems(P) : s[m] = 0                   \* np.allclose(shift, 0): return z
  THEN [early |-> TRUE, zero |-> {}, window |-> 0..(n - 1), start |-> 0,
        sym |-> [c \in (0..(n - 1)) \X Elems(sh) |-> c[1]],
        meta |-> Meta0, metacrop |-> Meta0]
  ELSE LET Z == OpZero(n, sh, P, s, Fixed)
           st == OpStart(P, s)
       IN [early |-> FALSE, zero |-> Z, window |-> OpWindow(n, P, s), start |-> st,
           \* whole-sample entries only: rotation by the ramp, then the zero loop
           sym |-> [c \in (0..(n - 1)) \X Elems(sh) |->
                      OpSym(n, ShiftOf(c[2], P, s), c[1], c \in Z)],
           meta |-> Meta0,                                       \* type(z).like(z, shifted)
           \* x[start:...] : Signal._time_slice adds slice.indices(len).start * dt
           metacrop |-> [Meta0 EXCEPT !.t0 = Meta0.t0 + PMin(st, n) * Meta0.per]]

Init == /\ phase = "cfg"
        /\ N \in Ns /\ ssh \in SShapes /\ shsh \in ShiftShapes(ssh)
        /\ S = <<>> /\ out = <<>> /\ prev = NoPrev
Call == /\ phase = "cfg"
        /\ phase' = "done"
        /\ LET P == PadT(shsh, Len(ssh))
           IN /\ S' \in [Elems(P) -> Vals(N, Cardinality(Elems(P)))]
              /\ out' = Op(N, ssh, P, S')
        /\ UNCHANGED <<N, ssh, shsh, prev>>
\* a second call on a like signal: the same values on another broadcast layout
Relayout ==
  /\ phase = "done" /\ prev = NoPrev
  /\ \E t \in ShiftShapes(ssh) :
       LET P == PadT(shsh, Len(ssh))
           P2 == PadT(t, Len(ssh))
       IN /\ P2 # P /\ Cardinality(Elems(P2)) = Cardinality(Elems(P))
          /\ shsh' = t /\ prev' = shsh
          /\ S' = Relaid(S, P, P2)
          /\ out' = Op(N, ssh, P2, S')
  /\ UNCHANGED <<phase, N, ssh>>
Next == Call \/ Relayout
Spec == Init /\ [][Next]_vars

P0 == PadT(shsh, Len(ssh))
Done == phase = "done"
Whole(e) == ShiftOf(e, P0, S) % 4 = 0

(***************************************************************************)
(* Invariants = clauses of the property                                    *)
(***************************************************************************)
\* zero exactly where the source k - s_e lies outside [0, N), for every element
ZeroRegionExact == Done => out.zero = DeclZero(N, ssh, P0, S)
\* ... which is "the first ceil(s) samples for s > 0, the last ceil(|s|) for s < 0"
CountsAsStated == Done => \A e \in Elems(ssh) :
                     DeclZeroE(N, ShiftOf(e, P0, S)) = StatedZeroE(N, ShiftOf(e, P0, S))
\* crop = True removes exactly the union of the edge regions
CropIsEdgeRemoval == Done => out.window = DeclKeep(N, ssh, P0, S)
\* whole-sample shifts move samples exactly, nothing wraps around
IntegerShiftMovesSamples ==
  Done => \A e \in Elems(ssh) : Whole(e) =>
             \A k \in 0..(N - 1) : out.sym[<<k, e>>] = DeclSym(N, ShiftOf(e, P0, S), k)
\* metadata unchanged; cropped result stamped at its first retained sample
MetaUnchanged ==
  Done => /\ out.meta = Meta0
          /\ out.metacrop.per = Meta0.per /\ out.metacrop.cls = Meta0.cls
          /\ (out.window # {} => out.metacrop.t0 = Meta0.t0 + SetMin(out.window) * Meta0.per)
\* the early return is taken only for an all-zero shift (lattice), where it is right
EarlyReturnOnlyForZero == Done => (out.early <=> \A m \in Elems(P0) : S[m] = 0)
=============================================================================
