-------------------------------- MODULE R2C --------------------------------
(***************************************************************************)
(* C19 - pulsarbat.utils.real_to_complex.                                  *)
(*                                                                         *)
(* Operational definition (what the code computes, utils.py:38-65), on a   *)
(* sequence x of N real numbers (60-bit fixed point, kernel Fix):          *)
(*   h      Hilbert weights by parity of N                                 *)
(*   a      = IDFT(DFT(x) * h)              analytic signal                *)
(*   mixed  = a[n] * exp(-i pi n / 2)       exact fourth roots of unity    *)
(*   R2C(x) = mixed[::2]                    ceil(N/2) samples              *)
(* plus the dtype rule, the refusal of complex input, N = 0, and the       *)
(* application along one axis of an array.                                 *)
(* The declarative clauses (the property) are relations between input and  *)
(* output; MC_R2C checks that the operational definition satisfies them.   *)
(***************************************************************************)
EXTENDS Fix, Sequences, TLC

CONSTANT MaxTW              \* largest transform length (twiddle table)

\* TLC evaluates [i \in S |-> e] lazily (e is re-evaluated at every application);
\* TLCEval makes the tables below strict, which keeps the transform O(N^2).
Strict(f) == TLCEval(f)
\* twiddle factors exp(2 pi i j / N).  TLC does not cache definitions that
\* depend on RECURSIVE operators (CosSin), so the table is kept in a variable:
\* a module that EXTENDS this one sets  tw = TwTable  initially and leaves it
\* unchanged; the table is then computed once per TLC run.
VARIABLE tw
TwTable == Strict([N \in 1..MaxTW |-> Strict(Twiddles(N))])
TW == tw
\* Fix!DftW with strict intermediate tables: sum_n x[n] W[sgn k n mod N].
\* Terms with x[n] = 0 add nothing; a real x[n] needs two products, not four.
Term(z, w) == IF IsZero(z.im) THEN (IF IsZero(z.re) THEN CZero ELSE CMulReal(w, z.re)) ELSE CMul(z, w)
SDft(x, sgn, W) ==
  LET N == Len(x)
  IN Strict([k \in 1..N |-> CSum(Strict([n \in 1..N |-> Term(x[n], W[(sgn * (k - 1) * (n - 1)) % N])]))])

(* ---- operational ---- *)
\* h[0] = 1; h[1 : N//2] = 2; if N > 1: h[N//2] = 2 if N odd else 1; else 0
HWeight(N, k) ==
  IF k = 0 THEN 1
  ELSE IF k < N \div 2 THEN 2
  ELSE IF k = N \div 2 THEN (IF N % 2 = 1 THEN 2 ELSE 1)
  ELSE 0
Cx(x) == Strict([i \in 1..Len(x) |-> C(x[i], FZero)])
Spectrum(x) == IF Len(x) = 0 THEN <<>> ELSE SDft(Cx(x), -1, TW[Len(x)])           \* fft(z)
AnalyticOf(X) ==                                                                     \* ifft(fft(z) * h)
  LET N == Len(X)
      Y == Strict([k \in 1..N |-> CScaleInt(X[k], HWeight(N, k - 1))])
      y == SDft(Y, 1, TW[N])
  IN IF N = 0 THEN <<>> ELSE Strict([n \in 1..N |-> CDivSmall(y[n], N)])
Analytic(x) == AnalyticOf(Spectrum(x))
\* z * exp(-i pi n / 2) = z * (-i)^n, exactly
MulMinusIPow(z, n) ==
  CASE n % 4 = 0 -> z
    [] n % 4 = 1 -> C(z.im, Neg(z.re))
    [] n % 4 = 2 -> CNeg(z)
    [] n % 4 = 3 -> C(Neg(z.im), z.re)
MixedOf(a) == Strict([n \in 1..Len(a) |-> MulMinusIPow(a[n], n - 1)])
OutLen(N) == (N + 1) \div 2
Decimate(m) == Strict([j \in 1..OutLen(Len(m)) |-> m[2 * j - 1]])                  \* [::2]
R2COf(a) == Decimate(MixedOf(a))
R2C(x) == IF Len(x) = 0 THEN <<>> ELSE R2COf(Analytic(x))

RealDtypes == {"bool", "int8", "int16", "int32", "int64", "uint8", "uint16", "uint32", "uint64",
               "float16", "float32", "float64", "longdouble"}
ComplexDtypes == {"complex64", "complex128", "clongdouble"}
OutDtype(d) == IF d = "float32" THEN "complex64" ELSE "complex128"
Outcome(d) == IF d \in ComplexDtypes THEN "ValueError" ELSE OutDtype(d)

(* ---- along one axis of an array: shape (sequence of dimensions), flat   *)
(* ---- row-major data; ax is 1-based                                       *)
RECURSIVE Prod(_)
Prod(s) == IF Len(s) = 0 THEN 1 ELSE Head(s) * Prod(Tail(s))
Stride(shape, i) == Prod(SubSeq(shape, i + 1, Len(shape)))
Unravel(shape, p) == [i \in 1..Len(shape) |-> (p \div Stride(shape, i)) % shape[i]]      \* p 0-based
RECURSIVE RavelR(_, _, _)
RavelR(shape, idx, i) == IF i = 0 THEN 0 ELSE idx[i] * Stride(shape, i) + RavelR(shape, idx, i - 1)
Ravel(shape, idx) == RavelR(shape, idx, Len(shape))
R2CAxis(shape, flat, ax) ==
  LET N == shape[ax]
      oshape == [shape EXCEPT ![ax] = OutLen(N)]
      rshape == [shape EXCEPT ![ax] = 1]
      LaneOf(idx) == Strict([n \in 1..N |-> flat[1 + Ravel(shape, [idx EXCEPT ![ax] = n - 1])]])
      lanes == Strict([q \in 0..(Prod(rshape) - 1) |-> R2C(LaneOf(Unravel(rshape, q)))])
  IN [shape |-> oshape,
      flat |-> Strict([p \in 1..Prod(oshape) |->
                  LET idx == Unravel(oshape, p - 1)
                  IN lanes[Ravel(rshape, [idx EXCEPT ![ax] = 0])][idx[ax] + 1]])]

(* ---- declarative clauses: relations between input x and output y ---- *)
Tol == Pow2(10)                       \* 2^-50 in units of 2^-60
Sgn(m) == IF m % 2 = 0 THEN 1 ELSE -1
\* the output has ceil(N/2) samples
LenRel(x, y) == Len(y) = (Len(x) + 1) \div 2
\* (-1)^m Re(out[m]) = x[2m]
RealPartRel(x, y) == \A m \in 0..(Len(y) - 1) : FClose(MulInt(y[m + 1].re, Sgn(m)), x[2 * m + 1], Tol)
\* a is the analytic signal of x: real part equal to the input; its spectrum S has no
\* negative frequencies, keeps DC and Nyquist and doubles the positive frequencies of X = DFT(x)
AnalyticRel(x, a, S, X) ==
  LET N == Len(x)
  IN /\ Len(a) = N
     /\ \A n \in 1..N : FClose(a[n].re, x[n], Tol)
     /\ \A k \in 0..(N - 1) :
          LET tol == MulInt(Tol, N)
          IN IF 2 * k > N THEN CClose(S[k + 1], CZero, tol)
             ELSE IF k = 0 \/ 2 * k = N THEN CClose(S[k + 1], X[k + 1], tol)
             ELSE CClose(S[k + 1], CScaleInt(X[k + 1], 2), tol)
\* the output is the analytic signal mixed down by a quarter of the sampling rate, every second sample
MixRel(a, y) == \A m \in 0..(Len(y) - 1) : y[m + 1] = CScaleInt(a[2 * m + 1], Sgn(m))
\* linear: R2C(sum_j c_j e_j) = sum_j c_j R2C(e_j)   (c: integers, bas[j] = R2C(Unit(N, j)))
Unit(N, j) == Strict([i \in 1..N |-> IF i = j THEN FOne ELSE FZero])
RECURSIVE LinCombR(_, _, _, _)
LinCombR(c, bas, m, j) == IF j = 0 THEN CZero ELSE CAdd(CScaleInt(bas[j][m], c[j]), LinCombR(c, bas, m, j - 1))
LinearRel(c, y, bas) == \A m \in 1..Len(y) : CClose(y[m], LinCombR(c, bas, m, Len(c)), MulInt(Tol, Len(c) + 1))
\* y = R2C(x1 + k x2), y1 = R2C(x1), y2 = R2C(x2)
AddRel(y, y1, y2, k) ==
  \A m \in 1..Len(y) : CClose(y[m], CAdd(y1[m], CScaleInt(y2[m], k)), MulInt(Tol, 1 + (IF k < 0 THEN -k ELSE k)))
\* a real tone at w cycles per N samples, phase ph (cycles), becomes the complex tone at w - N/4:
\*   cos(2 pi (w n / N + ph))  ->  exp(2 pi i ((w - N/4) * 2m / N + ph)),   0 < w < N/2;
\* at w = 0 and w = N/2 (its own mirror image) the amplitude is the real number cos(2 pi ph).
ToneIn(N, w, ph) == Strict([n \in 1..N |-> CosSin(RAdd(RQ(w * (n - 1), N), ph)).c])
ToneOut(N, w, ph, m) ==
  LET rot == RQ((4 * w - N) * 2 * m, 4 * N)
  IN IF 0 < w /\ 2 * w < N THEN CExp(RAdd(rot, ph)) ELSE CMulReal(CExp(rot), CosSin(ph).c)
ToneRel(N, w, ph, y) == \A m \in 0..(Len(y) - 1) : CClose(y[m + 1], ToneOut(N, w, ph, m), MulInt(Tol, 4 * N))
\* dtype by input width, complex refused
DtypeClause ==
  /\ \A d \in RealDtypes : Outcome(d) = (IF d = "float32" THEN "complex64" ELSE "complex128")
  /\ \A d \in ComplexDtypes : Outcome(d) = "ValueError"
\* which axis is converted does not matter: converting axis 2 of a matrix is
\* converting axis 1 of its transpose
Transpose2(shape, flat) ==
  [shape |-> <<shape[2], shape[1]>>,
   flat |-> Strict([p \in 1..(shape[1] * shape[2]) |->
                      flat[1 + ((p - 1) % shape[1]) * shape[2] + (p - 1) \div shape[1]]])]
AxisRel(shape, flat, r2) ==       \* r2 = R2CAxis(shape, flat, 2)
  LET t == Transpose2(shape, flat)
      r1 == R2CAxis(t.shape, t.flat, 1)
      b == Transpose2(r1.shape, r1.flat)
  IN r2.shape = b.shape /\ r2.flat = b.flat
=============================================================================
