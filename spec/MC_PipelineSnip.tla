-------------------------- MODULE MC_PipelineSnip --------------------------
(* C12 instance of the Pipeline specification: snippet composed with the    *)
(* other time-axis operations (slices, crops, fast_len) before and after it *)
EXTENDS MC_Pipeline
SnipOps == {"time_slice", "shift_crop", "snippet", "fast_len", "coh_dd"}
SnipClasses == {"Signal", "BasebandSignal", "IntensitySignal"}
S_NChans == {1, 2}
S_Aligns == {"center", "top"}
=============================================================================
