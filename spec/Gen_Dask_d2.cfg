SPECIFICATION Spec
CONSTANTS
  Roots <- G2_Roots
  Ops <- G_Ops
  Scheds = {"sync"}
  MaxDepth = 2
  MaxRuns = 1
  MaxTasks = 12
  FftNeedsOneChunk = TRUE
  ChirpKeyByChannel = TRUE
  EagerOps <- None_
  NumpyOps <- None_
  ReaderPerBlock = FALSE
  OverwriteTags <- None_
  StickyKwargs = FALSE
  LazySetitemLost = FALSE
  RollShortcut = FALSE
  SharedHandle = FALSE
INVARIANT EmitLeaf
CHECK_DEADLOCK FALSE
