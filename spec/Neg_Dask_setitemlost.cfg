SPECIFICATION Spec
CONSTANTS
  Roots <- N_Roots
  Ops <- N_VecOps
  Scheds = {"sync"}
  MaxDepth = 1
  MaxRuns = 1
  MaxTasks = 12
  FftNeedsOneChunk = TRUE
  ChirpKeyByChannel = TRUE
  EagerOps <- None_
  NumpyOps <- None_
  ReaderPerBlock = FALSE
  OverwriteTags <- None_
  StickyKwargs = FALSE
  LazySetitemLost = TRUE
  RollShortcut = FALSE
  SharedHandle = FALSE
VIEW View
INVARIANT SameAsNumpy
CHECK_DEADLOCK FALSE
