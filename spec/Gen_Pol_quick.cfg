SPECIFICATION Spec
CONSTANTS
  Vals <- Q_Vals
  Bases <- Both
  MaxConv = 2
  Variant = "code"
INVARIANT PowerKept
INVARIANT RoundTrip
INVARIANT IdentityInOwnBasis
INVARIANT ConversionIsDefinition
INVARIANT StokesFormulas
INVARIANT BasisIndependent
INVARIANT Polarised
INVARIANT IntensitySum
INVARIANT ItemIsComponent
INVARIANT OnlyNamesAnswered
INVARIANT Emit
CHECK_DEADLOCK FALSE
