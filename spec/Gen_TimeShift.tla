---------------------------- MODULE Gen_TimeShift ----------------------------
(* Behaviour generation for C03: every explored configuration is written    *)
(* as one JSON line with what the DECLARATIVE side demands of the result:   *)
(* per element (row-major) its broadcast shift, and the set of positions    *)
(* crop = True keeps.  Expected sample values come from Gen_Delay.          *)
EXTENDS MC_TimeShift, Json, IOUtils, CSV
RECURSIVE SortedSeq(_)
SortedSeq(T) == IF T = {} THEN <<>> ELSE LET m == SetMin(T) IN <<m>> \o SortedSeq(T \ {m})
Rec ==
  LET P == P0
      es == ElemSeq(ssh)
      ms == ElemSeq(P)
  IN [N |-> N, ssh |-> ssh, shsh |-> shsh, prev |-> prev,
      S |-> [j \in 1..Len(ms) |-> S[ms[j]]],
      qe |-> [j \in 1..Len(es) |-> ShiftOf(es[j], P, S)],
      keep |-> SortedSeq(DeclKeep(N, ssh, P, S)),
      early |-> \A m \in Elems(P) : S[m] = 0]
Emit == Done => CSVWrite("%1$s", <<ToJson(Rec)>>, IOEnv.GEN_OUT)
=============================================================================
