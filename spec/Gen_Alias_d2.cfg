SPECIFICATION Spec
CONSTANTS MaxObjs = 4
  MaxSteps = 2
  IstftInPlace = FALSE
INVARIANT Emit
CHECK_DEADLOCK FALSE
