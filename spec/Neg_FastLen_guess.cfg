SPECIFICATION Spec
CONSTANTS
  Ns <- T_Ns
  Fns <- OnlyNext
  Guess2 = FALSE
  OddBreak = TRUE
  PrevLe = TRUE
INVARIANT Terminates
INVARIANT ResultIsNext
INVARIANT ResultIsPrev
INVARIANT ZeroIsZero
CHECK_DEADLOCK TRUE
