SPECIFICATION Spec
CONSTANTS
  RootLens <- F_RootLens
  Classes <- SnipClasses
  NChans <- S_NChans
  Aligns <- S_Aligns
  TBounds <- F_TBounds
  TSteps <- F_TSteps
  FBounds <- Q_FBounds
  XBounds <- Q_XBounds
  XSteps <- Q_XSteps
  Shifts <- F_Shifts
  Delays <- Q_Delays
  IDelays <- Q_IDelays
  SnipT <- F_SnipT
  SnipN <- F_SnipN
  Ops <- SnipOps
  MaxDepth = 2
  Fixed = TRUE
  SampleK = 0
  SampleRoots = 0
VIEW View
INVARIANT Timestamps
INVARIANT PeriodOK
INVARIANT NoTimeFromNowhere
INVARIANT ContainsOK
INVARIANT ChkOK
CHECK_DEADLOCK FALSE
