#!/bin/sh
# tools/regress_seeded.sh [pattern] : run every seeded change against the check of the property it breaks
# (meta.json: breaks_property, optional decided_by) and write seeded/RESULTS.md.  REGRESS_PAR (default 3) at a time.
cd /verif
pat="${1:-*}"
out=$(mktemp -d /tmp/regress-XXXXXX)
export out
for d in seeded/$pat; do [ -f "$d/patch.diff" ] && echo "$d"; done | xargs -P "${REGRESS_PAR:-3}" -I{} sh -c '
  d="{}"; id=$(basename "$d")
  pid=$(/venv/bin/python -c "import json;m=json.load(open(\"$d/meta.json\"));print(m.get(\"decided_by\") or m[\"breaks_property\"])")
  r=$(tools/try_seeded.sh "$d" "$pid" 2>&1 | tail -1 | cut -d" " -f1)
  echo "$id $pid $r" >> "$out/results.txt"'
sort "$out/results.txt" > "$out/sorted.txt"
{ echo "# Seeded changes: final regression"; echo; echo "Run by tools/regress_seeded.sh on $(date -u +%FT%TZ) against /repo $(git -C /repo rev-parse --short HEAD), quick tier."; echo;
  echo "| seeded change | decided by | verdict |"; echo "|---|---|---|"; awk '{print "| " $1 " | " $2 " | " $3 " |"}' "$out/sorted.txt"; echo;
  echo "Totals: $(grep -c DETECTED "$out/sorted.txt") detected, $(grep -c MISSED "$out/sorted.txt") missed, $(grep -c -v -E 'DETECTED|MISSED' "$out/sorted.txt") other."; } > seeded/RESULTS.md
cat seeded/RESULTS.md | tail -5
