#!/bin/sh
# tools/seed_sweep.sh "<seeds>" : every registered quick check under several seeds (flakiness hunt);
# evidence and cases go to a scratch directory, /verif/evidence is not touched
cd /verif
out=$(mktemp -d /tmp/sweep-XXXXXX)
for sd in $1; do
  for p in $(/venv/bin/python -c "import json;print(' '.join(c['property_id'] for c in json.load(open('MANIFEST.json'))['checks']))"); do
    s=$(date +%s); VERIF_SEED=$sd VERIF_EVIDENCE_DIR=$out VERIF_CASES_DIR=$out/cases_$sd ./check $p --tier quick > $out/$p.$sd.log 2>&1; rc=$?; e=$(date +%s)
    echo "seed=$sd $p rc=$rc $((e-s))s $(grep -m1 -E '^VIOLATION|MACHINERY' $out/$p.$sd.log | cut -c1-220)"
  done
done
echo "logs in $out"
