#!/bin/sh
# tools/confirm_seeded.sh <src dir with patch.diff demo.py note.txt> <new id> <property id>
# Confirms a seeded change in a scratch worktree of /repo HEAD (never /repo itself): the demonstration exits 0 on
# the clean tree and non-zero with the change, the repository's test-suite still passes with the change; then keeps
# it under /verif/seeded/<id>/ and prints CONFIRMED / REJECTED.
src="$(realpath "$1")"; sid="$2"; pid="$3"
wt=$(mktemp -d /tmp/seedconf-XXXXXX); rmdir "$wt"
git -C /repo worktree add -q "$wt" HEAD || exit 2
fin() { git -C /repo worktree remove --force "$wt"; }
(cd /tmp && PB_PATH="$wt" /venv/bin/python -W ignore "$src/demo.py" >/dev/null 2>&1); c=$?
if [ $c -ne 0 ]; then echo "REJECTED $sid: demo exits $c on the clean tree"; fin; exit 1; fi
if ! git -C "$wt" apply "$src/patch.diff" 2>/dev/null; then echo "REJECTED $sid: patch does not apply"; fin; exit 1; fi
(cd /tmp && PB_PATH="$wt" /venv/bin/python -W ignore "$src/demo.py" >/dev/null 2>&1); m=$?
if [ $m -eq 0 ]; then echo "REJECTED $sid: demo exits 0 with the change"; fin; exit 1; fi
t=$(cd "$wt" && PYTHONPATH="$wt" /venv/bin/python -m pytest -q -p no:cacheprovider --timeout=900 tests/ -W ignore \
    --deselect tests/test_phase_predictor.py::TestPredictor::test_basic 2>&1 | tail -1)
case "$t" in
  *failed*|*error*) echo "REJECTED $sid: test-suite: $t"; fin; exit 1;;
  *"223 passed"*) ;;
  *) echo "REJECTED $sid: test-suite: $t"; fin; exit 1;;
esac
fin
/venv/bin/python /verif/tools/keep_seeded.py "$src" "$sid" "$pid" "round 4 (see seeded/RESULTS.md for the final verdict)" >/dev/null
echo "CONFIRMED $sid (demo clean=0 changed=$m; $t)"
