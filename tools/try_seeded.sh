#!/bin/sh
# tools/try_seeded.sh <dir with patch.diff [demo.py]> <property id> [tier]
# Applies the change to a scratch worktree of /repo (never to /repo itself), runs the demonstration
# (if any) and the property's check against that worktree; prints DETECTED / MISSED.
d="$(realpath "$1")"; pid="$2"; tier="${3:-quick}"
wt=$(mktemp -d /tmp/seedtest-XXXXXX); rmdir "$wt"
git -C /repo worktree add -q "$wt" HEAD || exit 2
if ! git -C "$wt" apply "$d/patch.diff" 2>/dev/null && ! git -C "$wt" apply --3way "$d/patch.diff" 2>/dev/null; then echo "PATCH-DOES-NOT-APPLY $d"; git -C /repo worktree remove --force "$wt"; exit 2; fi
if [ -f "$d/demo.py" ]; then
  PB_PATH="$wt" /venv/bin/python -W ignore "$d/demo.py" >/dev/null 2>&1; echo "demo exit with change: $?"
fi
out=$(mktemp -d /tmp/seedout-XXXXXX)
VERIF_REPO="$wt" VERIF_EVIDENCE_DIR="$out" VERIF_CASES_DIR="$out" /verif/check "$pid" --tier "$tier" > "$out/log" 2>&1
rc=$?
grep -m3 -E "^VIOLATION|MACHINERY" "$out/log" | cut -c1-400
if [ $rc -eq 1 ]; then echo "DETECTED $d by $pid ($tier)"; elif [ $rc -eq 0 ]; then echo "MISSED $d by $pid ($tier)"; else echo "MACHINERY-FAILURE rc=$rc $d"; tail -5 "$out/log"; fi
git -C /repo worktree remove --force "$wt"; rm -rf "$out"
exit $rc
