#!/usr/bin/env python3
"""tools/keep_seeded.py <src dir> <id> <property> <detected-by> : copy a confirmed seeded change into /verif/seeded/<id>/"""
import json, os, shutil, sys
src, sid, prop = sys.argv[1], sys.argv[2], sys.argv[3]
detected = sys.argv[4] if len(sys.argv) > 4 else ""
dst = os.path.join("/verif/seeded", sid)
os.makedirs(dst, exist_ok=True)
shutil.copy(os.path.join(src, "patch.diff"), dst)
if os.path.exists(os.path.join(src, "demo.py")):
    shutil.copy(os.path.join(src, "demo.py"), dst)
note = open(os.path.join(src, "note.txt")).read() if os.path.exists(os.path.join(src, "note.txt")) else ""
meta = {"id": sid, "breaks_property": prop, "author": "independent sub-agent given only the property text",
        "what_it_needs_to_manifest": note.strip(),
        "confirmed": "applied to a scratch worktree of /repo HEAD; demo.py exits 0 on the clean tree and non-zero with the change; "
                     "repository test-suite still 223 passed / 1 known failure with the change",
        "ran": "tools/try_seeded.sh seeded/%s %s" % (sid, prop),
        "result": detected}
json.dump(meta, open(os.path.join(dst, "meta.json"), "w"), indent=1)
print("kept", dst)
