#!/bin/sh
# runs every registered check's quick tier on /repo and prints one line per check
cd /verif
for p in $(/venv/bin/python -c "import json;print(' '.join(c['property_id'] for c in json.load(open('MANIFEST.json'))['checks']))"); do
  s=$(date +%s); ./check $p --tier quick > .scratch/all_$p.log 2>&1; rc=$?; e=$(date +%s)
  echo "$p rc=$rc $((e-s))s $(grep -c '^VIOLATION' .scratch/all_$p.log) violation(s) $(grep -c '^KNOWN-FINDING' .scratch/all_$p.log) known"
done
