"""C11 - readers are position-faithful, stateless and agree with the underlying file.

spec/ReaderFile.tla (file model), spec/Reader.tla (concurrent reads as processes),
MC_Reader / Neg_Reader_shared (model checking), Gen_Reader (schedules -> forced on
the real reader), Trace_Reader (recorded reads / offset_at / metadata -> TLC).
"""
import concurrent.futures as cf
import contextlib
import json
import os
import random
import shutil
import tempfile
import threading
from fractions import Fraction

import tlc
import framework

PID = "C11"
SCR = os.path.join(framework.ROOT, ".scratch")


# ---------------------------------------------------------------------------- TLC side
def _gen(name, cfg, workers, env=None, timeout=900):
    os.makedirs(SCR, exist_ok=True)
    out = os.path.join(SCR, "C11_%s_%d.ndjson" % (name, os.getpid()))
    if os.path.exists(out):
        os.remove(out)
    e = {"GEN_OUT": out}
    e.update(env or {})
    import reader_lib as rl
    r = rl.tlc_run("Gen_Reader", cfg, env=e, timeout=timeout, workers=workers)
    recs = []
    if os.path.exists(out):
        with open(out) as f:
            for line in f:
                line = line.strip()
                if line:
                    v = json.loads(line)
                    recs.append(json.loads(v) if isinstance(v, str) else v)
        os.remove(out)
    return r, recs


def start_tlc(chk, pool):
    import reader_lib as rl
    th = chk.tier == "thorough"
    jobs = {}
    jobs["mc"] = pool.submit(rl.tlc_run, "MC_Reader", "MC_Reader_full.cfg" if th else "MC_Reader_quick.cfg",
                             workers=6, timeout=2400)
    jobs["mc3"] = pool.submit(rl.tlc_run, "MC_Reader", "MC_Reader_three_full.cfg" if th else "MC_Reader_three.cfg",
                              workers=4, timeout=2400)
    jobs["neg"] = pool.submit(rl.tlc_run, "MC_Reader", "Neg_Reader_shared.cfg", workers=1, timeout=300)
    jobs["g2"] = pool.submit(_gen, "two", "Gen_Reader_two.cfg", 2)
    jobs["g3"] = pool.submit(_gen, "three", "Gen_Reader_three.cfg" if th else "Gen_Reader_three_sample.cfg", 3,
                             {"GEN_SEED": chk.seed % 6})
    return jobs


# ---------------------------------------------------------------------------- requests
def requests(fsx, rnd, nrand, limit, maxn, ntypes=2):
    """(o, n) histories for one file set: frame / file boundaries, n = 0, refusals,
    repeated, overlapping and adjacent requests, seeded random ones."""
    L = fsx.outlen
    fb = fsx.spf // (2 if fsx.real else 1)          # frame length in output samples
    bounds = sorted(b for b in {0, fb, 2 * fb, fb * fsx.fpf, fb * fsx.fpf * (fsx.nfiles - 1), L - fb, L} if 0 <= b <= L)
    sysreq = []
    for b in bounds:
        for k in (0, 1, 2, 3):
            for n in (0, 1, 2, 3, 5):
                if n <= maxn:
                    sysreq.append((b - k, n))
    refus = [(-1, 1), (0, -1), (-1, -1), (L, 1), (L + 1, 0), (L - 1, 2), (0, L + 1), (L, 0), (0, 0), (-2, 0),
             (L + 2, 0), (L + 1000, 0), (10 * L + 7, 0), (L, 0), (2 * L, 1)]
    o = rnd.randrange(0, max(1, L - 8))
    m = min(maxn, 4)
    hist = [(o, m), (o + 1, m), (o, m), (o + m, max(m - 1, 1)), (o, m), (o, 2 * m - 1 if 2 * m - 1 <= maxn else m), (o, m)]
    rand = []
    for _ in range(nrand):
        n = rnd.randrange(0, maxn + 1)
        rand.append((rnd.randrange(0, L - n + 1), n))
    if len(sysreq) > limit:
        sysreq = rnd.sample(sysreq, limit)
    return refus + hist + sysreq + rand + narrow_requests(fsx, maxn, rnd, ntypes)


INT_TYPES = ("int", "int64", "int32", "int16", "int8", "uint8", "uint16", "uint32", "uint64", "array0d_int64", "array0d_uint8",
             "array0d_int16")


def typed(v, name):
    """the integer v as Python int, NumPy fixed-width scalar or 0-d array"""
    import numpy as np
    if name == "int":
        return int(v)
    if name.startswith("array0d_"):
        return np.array(v, dtype=name[8:])
    return getattr(np, name)(v)


def fits(v, name):
    import numpy as np
    if name == "int":
        return True
    ii = np.iinfo(name[8:] if name.startswith("array0d_") else name)
    return ii.min <= v <= ii.max


def pick_type(o, n, j):
    c = [t for t in INT_TYPES if fits(o, t) and fits(n, t)]
    return c[j % len(c)]


def narrow_requests(fsx, maxn, rnd, ntypes=2):
    """(o, n, type): offsets and counts that fit the fixed-width type while o + n, 2*o or 2*n do not -
    an integer is an integer, the expectation is that of the Python ints"""
    L = fsx.outlen
    per = fsx.A * fsx.B * (3 if fsx.mode == "direct" else 1)
    out = []
    kinds = [("int8", 127), ("uint8", 255), ("int16", 32767), ("uint16", 65535), ("array0d_uint8", 255)]
    for t, M in rnd.sample(kinds, ntypes):          # every file set gets some of the types, all sets together all of them
        for o, n in ((M - 1, 2), (M, M), (M // 2 + 1, 2), (M // 2 + 1, M // 2 + 1), (M - maxn, maxn), (M // 4 + 1, M // 4 + 1)):
            inb = o + n <= L
            if inb and n * per > 12000:
                continue           # a legitimate read too long to ship as an event
            out.append((o, n, t))
    return out


def _key(fsx):
    return "%s/%s/%s" % (fsx.kind, "real" if fsx.real else ("intensity" if fsx.kind == "stokes" else "complex"),
                         "lsb" if fsx.lsb else ("mask" if any(any(r) for r in fsx.mask) else "usb"))


# ---------------------------------------------------------------------------- drivers
class Ctx:
    pass


class _Computed:
    """a Dask-backed result after compute(): what read_event needs of a Signal"""

    def __init__(self, data, start_time, sample_rate):
        self.data, self.start_time, self.sample_rate = data, start_time, sample_rate

    def __len__(self):
        return self.data.shape[0]


def arrays_equal(rl, fsx, got, want):
    import numpy as np
    if got.shape != want.shape or got.dtype != want.dtype:
        return False
    if fsx.real:      # FFT of the same numbers; allow the last bits (float32 transform)
        return bool(np.allclose(got, want, rtol=0, atol=1e-5 * max(1.0, float(np.abs(want).max()) if want.size else 1.0)))
    return bool(np.array_equal(got, want))


def history_events(chk, cx, fsx, reqs, eid0, dask_every=5):
    """Sequential history on one (shared) reader object -> events."""
    import numpy as np
    import dask.array as da
    rl = cx.rl
    r = fsx.reader
    evs = []
    done = {}
    for j, rq in enumerate(reqs):
        o, n = rq[0], rq[1]
        # the same request as Python ints, NumPy fixed-width scalars or 0-d arrays (whatever can hold o and n)
        at = rq[2] if len(rq) > 2 else (pick_type(o, n, j // 2) if j % 2 == 0 else "int")
        out = rl.do_read(r, typed(o, at), typed(n, at))
        flags = {}
        inb = o >= 0 and n >= 0 and o + n <= fsx.outlen        # otherwise the specification expects a refusal
        direct = None
        if out[0] == "ok":
            d = np.asarray(out[1].data)
            pos, cnt = (2 * o, 2 * n) if fsx.real else (o, n)
            direct = fsx.direct(pos, cnt) if inb and (fsx.mode == "direct" or j % 5 == 0) else None
            if fsx.raw is not None and inb:
                flags["eq_written"] = arrays_equal(rl, fsx, d, rl.expected_post(fsx, fsx.raw[pos:pos + cnt]))
            if direct is not None:
                flags["eq_direct"] = arrays_equal(rl, fsx, d, rl.expected_post(fsx, direct))
            if (o, n) in done:       # repeated request: bitwise the same as the first time
                flags["repeat_same"] = bool(np.array_equal(done[(o, n)], d))
            done.setdefault((o, n), d.copy())
            if not fsx.real:
                for (o1, n1), d1 in list(done.items()):
                    if o1 + n1 == o and n1 and n and o1 + n1 + n <= fsx.outlen and n1 + n <= cx.maxn.get(fsx.key, 8):
                        span = rl.do_read(r, o1, n1 + n)
                        flags["adjacent_concat"] = bool(span[0] == "ok" and np.array_equal(
                            np.concatenate([d1, d]), np.asarray(span[1].data)))
                        cx.counts["adjacent"] += 1
                        break
            ev = rl.read_event(fsx, o, n, out, eid=eid0 + len(evs), flags=flags, with_direct=direct if fsx.mode == "direct" else None,
                               max_elems=40000)
        else:
            ev = rl.read_event(fsx, o, n, out, eid=eid0 + len(evs))
        ev["argtype"] = at
        cx.argtypes[at] = cx.argtypes.get(at, 0) + 1
        evs.append(ev)
        cx.counts["reads"] += 1
        eager = np.array(out[1].data, copy=True) if out[0] == "ok" else None      # before anything modifies the result
        if out[0] == "ok" and not inb:
            continue
        if out[0] == "ok" and n > 0 and j % 5 == 0:
            evs += mutation_steps(cx, fsx, r, o, n, out, j, eid0 + len(evs))
        if out[0] != "ok" and (j % dask_every == 1 % dask_every or (n == 0 and o >= fsx.outlen)):
            # a request the eager read refuses: the Dask read is the same request and must be refused when it
            # is made (a lazy signal stamped time_at(offset) for samples that do not exist is not a refusal)
            try:
                zd = r.dask_read(typed(o, at), typed(n, at)) if j % 2 else r.read(typed(o, at), typed(n, at), use_dask=True)
                try:
                    arr = zd.data.compute()
                except Exception:  # noqa
                    arr = np.zeros((0,) + tuple(zd.data.shape[1:]), dtype=zd.data.dtype)
                ev = rl.read_event(fsx, o, n, ("ok", _Computed(arr, zd.start_time, zd.sample_rate)), eid=eid0 + len(evs), how="dask",
                                   flags={"dask_refuses_like_eager": False}, max_elems=40000)
            except Exception as e:  # noqa
                ev = rl.read_event(fsx, o, n, ("exc", rl.status_of(e) + ": " + str(e)[:100]), eid=eid0 + len(evs), how="dask")
            ev["chunks"] = "None"
            ev["argtype"] = at
            evs.append(ev)
            cx.counts["dask_refusals"] = cx.counts.get("dask_refusals", 0) + 1
        if out[0] == "ok" and (j % dask_every == 1 % dask_every or (n == 0 and o >= fsx.outlen)):
            # Dask read: lazy (no file opened while the graph is built), equal to the eager read bitwise
            c0 = rl.opens()
            ck = rq[3] if len(rq) > 3 else chunk_layout(cx.counts["dask"], n, d.shape[1], d.shape[2])
            kw = {} if ck is None else {"chunks": ck}
            try:
                zd = r.dask_read(o, n, **kw) if j % 2 else r.read(o, n, use_dask=True, **kw)
                c1 = rl.opens()
                lazy = c1 == c0 and isinstance(zd.data, da.Array)
                arr = zd.data.compute(scheduler="threads" if j % 3 else "synchronous")
                c2 = rl.opens()
                z2 = _Computed(arr, zd.start_time, zd.sample_rate)
                cx.counts["dask_opened_on_compute"] = cx.counts.get("dask_opened_on_compute", 0) + (c2 > c1)
                fl = {"dask_lazy": bool(lazy),
                      "dask_eq_eager": bool(np.array_equal(arr, eager) and arr.dtype == eager.dtype),
                      "dask_type": type(zd) is type(out[1])}
                ev = rl.read_event(fsx, o, n, ("ok", z2), eid=eid0 + len(evs), how="dask", flags=fl,
                                   with_direct=direct if fsx.mode == "direct" else None, max_elems=40000)
            except Exception as e:  # noqa
                ev = rl.read_event(fsx, o, n, ("exc", rl.status_of(e) + ": " + str(e)[:100]), eid=eid0 + len(evs), how="dask")
            ev["chunks"] = repr(ck)
            cx.chunk_kinds[chunk_kind(ck)] = cx.chunk_kinds.get(chunk_kind(ck), 0) + 1
            evs.append(ev)
            cx.counts["dask"] += 1
    return evs


def chunk_layout(i, n, X, Y):
    """chunks= argument of the i-th Dask read: default, time axis split evenly / unevenly / into single
    samples, trailing axes split"""
    if n == 0:
        return (None, (-1, -1, -1))[i % 2]
    small = X * Y <= 64
    opts = [None,
            (max(1, n // 2), -1, -1),
            (1, 1, 1) if small else (1, -1, -1),
            (-1, 1, -1) if X <= 64 else (-1, -1, 1),
            (max(1, n // 3), -1, 1) if Y <= 8 else (max(1, n // 3), -1, -1),
            ((n - n // 3, n // 3), -1, -1) if n >= 3 else (1, -1, -1),
            (2, max(1, X // 2), -1)]
    return opts[i % len(opts)]


def chunk_kind(ck):
    if ck is None:
        return "default"
    t = "time-split" if ck[0] != -1 else "time-whole"
    return t + ("+trailing-split" if any(c != -1 for c in ck[1:]) else "")


def mutation_steps(cx, fsx, r, o, n, out, j, eid0):
    """A reader must not serve later reads from memory it handed out earlier: the returned signal is
    modified in place, then a read inside [o, o+n) follows immediately - it must still be the file content
    (decided by Trace_Reader like every read) and must not share memory with the first result; the same
    (o, n) read twice in a row gives two independent, equal arrays."""
    import numpy as np
    rl = cx.rl
    evs = []
    z1 = out[1]
    d1 = z1.data
    if j % 2:
        try:
            np.multiply(z1, 2, out=z1)
        except Exception:  # noqa
            np.multiply(d1, 2, out=d1)
    else:
        d1[...] = 0
    k = j % n
    o2, n2 = o + k, (n - k if (j // 3) % 2 else max(1, (n - k) // 2))
    out2 = rl.do_read(r, o2, n2)
    fl = {}
    if out2[0] == "ok":
        d2 = np.asarray(out2[1].data)
        fl["after_mutation_no_shared_memory"] = not np.shares_memory(d1, d2)
        if fsx.raw is not None:
            pos, cnt = (2 * o2, 2 * n2) if fsx.real else (o2, n2)
            fl["eq_written"] = arrays_equal(rl, fsx, d2, rl.expected_post(fsx, fsx.raw[pos:pos + cnt]))
    evs.append(rl.read_event(fsx, o2, n2, out2, eid=eid0 + len(evs), how="after-mutation", flags=fl, max_elems=40000))
    a, b = rl.do_read(r, o, n), rl.do_read(r, o, n)
    fl = {}
    if a[0] == "ok" and b[0] == "ok":
        fl["repeat_no_shared_memory"] = not np.shares_memory(a[1].data, b[1].data)
        fl["repeat_same"] = bool(np.array_equal(np.asarray(a[1].data), np.asarray(b[1].data)))
    evs.append(rl.read_event(fsx, o, n, b, eid=eid0 + len(evs), how="repeat", flags=fl, max_elems=40000))
    cx.counts["mutation_steps"] = cx.counts.get("mutation_steps", 0) + 1
    return evs


def offset_events(chk, cx, fsx, ks, eid0, pert_every=3, scale_every=3):
    """offset_at(time_at(k)) through absolute and relative times, perturbed times, out of range."""
    import astropy.units as u
    rl = cx.rl
    r = fsx.reader
    L = len(r)
    rate = rl.hz(r.sample_rate)
    evs = []
    units = [u.s, u.ms, u.us, u.min]

    def one(k, via, pert, t, d):
        try:
            got = {"st": "ok", "k": int(r.offset_at(t))}
        except Exception as e:  # noqa
            got = {"st": rl.status_of(e), "k": 0}
        inside = "n/a"
        if via.startswith("abs"):
            try:
                inside = "yes" if bool(r.contains(t)) else "no"
            except Exception as e:  # noqa
                inside = rl.status_of(e)
        evs.append({"id": eid0 + len(evs), "ev": "offset", "key": fsx.key, "len": L, "rate": rl.exact.rat(rate), "k": int(k),
                    "via": via, "pert": pert, "d": rl.exact.rat(d), "got": got, "inside": inside})

    scales = ["tai", "tt", "utc", "tdb"]
    for j, k in enumerate(ks):
        t = r.time_at(k)
        one(k, "abs", 0, t, rl.seconds_between(t, r.start_time))
        if j % scale_every == 0 or k in (-1, 0, L - 1, L, L + 1):
            # the same instant expressed on another time scale; elapsed time from astropy's own t - start
            sc = scales[(j // max(1, scale_every) + k) % len(scales)]
            ts = getattr(t, sc)
            one(k, "abs:" + sc, 0, ts, rl.seconds_between(ts, r.start_time))
            if j % (3 * scale_every) == 0:
                t3 = getattr(t + 0.3 / r.sample_rate, sc)
                one(k, "abs:" + sc, 3, t3, rl.seconds_between(t3, r.start_time))
        un = units[j % len(units)]
        q = r.time_at(k, unit=un)
        one(k, "rel:" + un.to_string(), 0, q, Fraction(float(q.value)) * Fraction(un.to(u.ns)) / 10 ** 9)
        if j % pert_every == 0:
            for pert in (-7, -3, 3, 7):          # tenths of a sample: nearest sample, never a tie
                t2 = t + (pert / 10) / r.sample_rate
                one(k, "abs", pert, t2, rl.seconds_between(t2, r.start_time))
                q2 = (k + pert / 10) / r.sample_rate
                one(k, "rel:" + q2.unit.to_string(), pert, q2, Fraction(float(q2.to_value(u.s))))
    return evs


def meta_event(cx, fsx, eid):
    import numpy as np
    import astropy.units as u
    rl = cx.rl
    from astropy.time import Time
    r = fsx.reader
    z = r.read(0, 1)
    fac, shift = fsx.assigned or (1, 0)         # metadata assigned after construction: judged against the NEW values
    if fsx.memory:
        start = rl.T0 + shift * u.s if shift else rl.T0
        hdr = {"rate": rl.exact.rat(2000 * fac), "len": fsx.rawlen, "start": rl.exact.rat(rl.days(start)), "freq": rl.exact.rat(0),
               "bw": rl.exact.rat(1), "bwsign": 1, "nchan": 1, "poln": ""}
    with (fsx.open() if not fsx.memory else contextlib.nullcontext()) as fh:
        if fsx.memory:
            return _meta(cx, fsx, eid, r, z, hdr)
        h0 = fh.header0
        start = Time(fh.start_time, format="isot", precision=9)
        start = start + shift * u.s if shift else start
        hdr = {"rate": rl.exact.rat(Fraction(float(fh.sample_rate.to_value(u.Hz))) * fac), "len": int(fh.shape[0]),
               "start": rl.exact.rat(rl.days(start)), "freq": rl.exact.rat(0), "bw": rl.exact.rat(1), "bwsign": 1,
               "nchan": 1, "poln": ""}
        if fsx.kind == "guppi":
            hdr.update(freq=rl.exact.rat(Fraction(float(h0["OBSFREQ"])) * 10 ** 6), bw=rl.exact.rat(Fraction(float(h0["OBSBW"])) * 10 ** 6),
                       bwsign=1 if h0["OBSBW"] > 0 else -1, nchan=int(h0["OBSNCHAN"]), poln=str(h0["FD_POLN"]))
        if fsx.kind == "stokes":
            hdr.update(freq=rl.exact.rat(Fraction(float(h0["FREQ"])) * 10 ** 6), bw=rl.exact.rat(Fraction(float(h0["BW"])) * 10 ** 6),
                       bwsign=1 if h0["BW"] > 0 else -1, nchan=int(h0["NCHAN"]), poln="")
    return _meta(cx, fsx, eid, r, z, hdr)


def _meta(cx, fsx, eid, r, z, hdr):
    import numpy as np
    rl = cx.rl
    got = {"rate": rl.exact.rat(rl.hz(z.sample_rate)), "len": len(r), "shape": [int(x) for x in r.shape],
           "start": rl.exact.rat(rl.days(r.start_time)), "dtype": str(np.asarray(z.data).dtype), "sigtype": type(z).__name__,
           "cf": rl.exact.rat(0), "cbw": rl.exact.rat(1), "align": "", "pol": ""}
    if fsx.kind in ("guppi", "stokes"):
        got.update(cf=rl.exact.rat(rl.hz(z.center_freq)), cbw=rl.exact.rat(rl.hz(z.chan_bw)), align=str(z.freq_align),
                   pol=str(getattr(z, "pol_type", "")))
    return {"id": eid, "ev": "meta", "key": fsx.key, "f": fsx.F(), "hdr": hdr, "got": got}


def derived_event(cx, fsx, eid):
    """dt, time_length, stop_time, time_at(1) against the sample rate / start time the reader reports now"""
    import astropy.units as u
    rl = cx.rl
    r = fsx.reader
    return {"id": eid, "ev": "derived", "key": fsx.key, "len": len(r), "rate": rl.exact.rat(rl.hz(r.sample_rate)),
            "dt": rl.exact.rat(Fraction(float(r.dt.to_value(u.s)))), "tl": rl.exact.rat(Fraction(float(r.time_length.to_value(u.s)))),
            "stop": rl.exact.rat(rl.seconds_between(r.stop_time, r.start_time)),
            "t1": rl.exact.rat(rl.seconds_between(r.time_at(1), r.start_time)),
            "t1rel": rl.exact.rat(Fraction(float(r.time_at(1, unit=u.s).value))),
            "read1": rl.exact.rat(rl.seconds_between(r.read(1, 0).start_time, r.start_time)),
            "rate_read": rl.exact.rat(rl.hz(r.read(0, 1).sample_rate)),
            # discrete facts recorded when the reader was built (argument objects the caller went on using)
            "flags": dict(getattr(r, "_verif_flags", {}), recorded=True)}


def free_running(chk, cx, sets, nthreads, nreads, eid0):
    """Thread pool on shared reader objects; every completed read becomes an event."""
    import warnings
    rl = cx.rl
    out = [[] for _ in range(nthreads)]
    races = [0] * nthreads
    start = threading.Barrier(nthreads)
    for fsx in sets:
        fsx.reader      # build before the threads start

    def work(tid):
        rnd = random.Random(chk.seed * 1000 + tid)
        start.wait()
        for seq in range(nreads):
            fsx = sets[rnd.randrange(len(sets))]
            mx = cx.maxn.get(fsx.key, 6)
            n = rnd.randrange(0, mx + 1)
            o = rnd.randrange(0, fsx.outlen - n + 1)
            if rnd.random() < 0.03:
                o, n = rnd.choice([(-1, 1), (fsx.outlen, 1), (0, -1)])
            res = rl.do_read(fsx.reader, o, n)
            tries = 0
            while res[0] == "exc" and res[1].startswith("Warning!") and tries < 3:
                tries += 1
                warnings.resetwarnings()
                warnings.simplefilter("ignore")
                # Not the reader: baseband's format detection switches the process-wide warnings filter to
                # 'error' for a moment (warnings.catch_warnings is not thread-safe) and a deprecation warning
                # of the installed astropy/baseband pair, issued in another thread, is raised.  Counted, retried.
                races[tid] += 1
                res = rl.do_read(fsx.reader, o, n)
            out[tid].append((fsx, o, n, res, seq))

    th = [threading.Thread(target=work, args=(i,), daemon=True) for i in range(nthreads)]
    for t in th:
        t.start()
    for t in th:
        t.join(600)
    warnings.resetwarnings()
    warnings.simplefilter("ignore")
    cx.counts["dependency_warning_races"] = sum(races)
    evs = []
    for tid in range(nthreads):
        for fsx, o, n, res, seq in out[tid]:
            ev = rl.read_event(fsx, o, n, res, eid=eid0 + len(evs), how="pool", max_elems=40000)
            ev["thread"], ev["seq"] = tid, seq
            evs.append(ev)
    return evs


# ---------------------------------------------------------------------------- forced schedules
def find_set(cx, F):
    """written file set whose structure is F scaled by an integer"""
    for fsx in cx.written.values():
        if fsx.memory or fsx.assigned:
            continue
        if (fsx.kind, fsx.real, fsx.lsb, fsx.fpf, fsx.nfiles, fsx.A, fsx.B) == \
                (F["kind"], F["real"], F["lsb"], F["fpf"], F["nfiles"], F["A"], F["B"]) \
                and fsx.mask == F["mask"] and fsx.spf % F["spf"] == 0:
            return fsx, fsx.spf // F["spf"]
    return None, 0


def expand_expected(fsx, s, res):
    """TLC's expected result (model samples) -> expected codes of the s-times finer real file."""
    codes = []
    for m, samp in enumerate(res["data"]):
        for j in range(s):
            for row in samp:
                for (i, a, b, cj) in row:
                    raw = s * i + (2 * j if fsx.real else j)
                    k = ((raw * fsx.A + a) * fsx.B + b) % fsx.md
                    codes.append(2 * k + (0 if fsx.real else cj))
    return codes


def forced_schedules(chk, cx, recs, budget, tag):
    """Force every generated schedule on the real reader of the matching file set and compare every
    result with the record TLC printed."""
    import numpy as np
    rl = cx.rl
    n_ok = 0
    for rec in recs[:budget] if budget else recs:
        F = rec["F"]
        fsx, s = find_set(cx, F)
        if fsx is None:
            chk.machinery_errors.append("no written file set for generated configuration %r" % (F,))
            return n_ok
        args = [(a[0] * s, a[1] * s) for a in rec["args"]]
        if cx.step_failures.get(fsx.key, 0) >= 2:       # the reader does not perform the modelled steps: reported, do not wait again
            cx.counts["schedules_skipped_after_step_failures"] = cx.counts.get("schedules_skipped_after_step_failures", 0) + 1
            continue
        res, err = rl.run_schedule(fsx.reader, args, rec["sched"])
        case = {"kind": "sched", "fileset": fsx.key, "scale": s, "args": args, "sched": rec["sched"], "expected": rec["res"],
                "model": F}
        if err is not None:
            cx.step_failures[fsx.key] = cx.step_failures.get(fsx.key, 0) + 1
            chk.violation("schedule:%s:steps" % _key(fsx), "the schedule could not be forced: " + err, case)
            continue
        bad = check_forced(rl, fsx, s, args, rec, res)
        if bad:
            chk.violation("schedule:%s:%s" % (_key(fsx), bad[0]), "forced interleaving %r of reads %r on %s: %s"
                          % (rec["sched"], args, fsx.key, bad[1]), case)
        n_ok += 1
        cx.counts[tag] += 1
        cx.sets_sched.add(fsx.key)
        if cx.counts[tag] in (1, 40):
            chk.sample({"forced_schedule": rec["sched"], "reads": args, "fileset": fsx.key,
                        "result": "equal to TLC's content[o..o+n)" if not bad else bad[1]})
    chk.validated += n_ok
    return n_ok


def check_forced(rl, fsx, s, args, rec, res):
    import numpy as np
    r = fsx.reader
    for p, (o, n) in enumerate(args):
        exp = rec["res"][p]
        got = res[p]
        st = "ok" if got[0] == "ok" else got[1].split(":")[0]
        if st != exp["st"]:
            return ("status", "read %d: status %s, expected %s" % (p + 1, got, exp["st"]))
        if st != "ok":
            continue
        z = got[1]
        d = np.asarray(z.data)
        if len(z) != exp["len"] * s:
            return ("length", "read %d: %d samples, expected %d" % (p + 1, len(z), exp["len"] * s))
        codes = fsx.ramp_codes(d)
        want = expand_expected(fsx, s, exp)
        if codes != want:
            k = next(i for i, (a, b) in enumerate(zip(codes + [None], want + [None])) if a != b)
            return ("content", "read %d (o=%d, n=%d): element %d has code %r, TLC expects %r" % (p + 1, o, n, k, codes[k:k + 1], want[k:k + 1]))
        # start time: model ticks -> real samples
        k_out = Fraction(exp["t"] - rec["F"]["t0"], rec["F"]["per"] * (2 if fsx.real else 1)) * s
        dt = rl.seconds_between(z.start_time, r.start_time)
        if abs(dt * rl.hz(r.sample_rate) - k_out) > Fraction(3 * 86400, 2 ** 51) * rl.hz(r.sample_rate):
            return ("start", "read %d: start %s s after the file start, expected sample %s" % (p + 1, float(dt), k_out))
        pos, cnt = (2 * o, 2 * n) if fsx.real else (o, n)
        if not arrays_equal(rl, fsx, d, rl.expected_post(fsx, fsx.raw[pos:pos + cnt])):
            return ("content", "read %d (o=%d, n=%d) differs from the written content" % (p + 1, o, n))
    return None


def forced_on_samples(chk, cx, scheds, sets, rnd):
    """The same schedules on the sample files: results must equal the sequential results."""
    import numpy as np
    rl = cx.rl
    for fsx in sets:
        r = fsx.reader
        L = fsx.outlen
        fb = fsx.spf // (2 if fsx.real else 1)
        mx = cx.maxn.get(fsx.key, 16)
        b = fb * fsx.fpf if fsx.nfiles > 1 else (fb if fb < L else L // 2)
        pairs = [[(b - mx // 2, mx), (b, mx)], [(b - 1, mx), (b - 1, mx)], [(0, mx), (L - mx, mx)]]
        for i, procs in enumerate(scheds if (chk.tier == "thorough" or fsx.key == "s_dada") else
                                  rnd.sample(scheds, min(len(scheds), 10))):
            nread = max(procs)
            args = pairs[i % len(pairs)][:nread] if nread <= 2 else [(b - 2, min(mx, 3)), (b - 1, min(mx, 3)), (b, min(mx, 3))]
            if cx.step_failures.get(fsx.key, 0) >= 2:
                cx.counts["schedules_skipped_after_step_failures"] = cx.counts.get("schedules_skipped_after_step_failures", 0) + 1
                continue
            seq = [rl.do_read(r, o, n) for o, n in args]
            res, err = rl.run_schedule(r, args, procs)
            case = {"kind": "sched-sample", "fileset": fsx.key, "args": args, "sched": procs}
            if err is not None:
                cx.step_failures[fsx.key] = cx.step_failures.get(fsx.key, 0) + 1
                chk.violation("schedule:%s:steps" % _key(fsx), "the schedule could not be forced: " + err, case)
                continue
            for p in range(len(args)):
                same = res[p][0] == seq[p][0] == "ok" and np.array_equal(np.asarray(res[p][1].data), np.asarray(seq[p][1].data)) \
                    and res[p][1].start_time.jd1 == seq[p][1].start_time.jd1 and res[p][1].start_time.jd2 == seq[p][1].start_time.jd2
                if not same:
                    chk.violation("schedule:%s:content" % _key(fsx), "forced interleaving %r of reads %r on %s: read %d differs "
                                  "from the sequential result" % (procs, args, fsx.key, p + 1), case)
                    break
            cx.counts["forced_sample"] += 1
            chk.validated += 1


# ---------------------------------------------------------------------------- main
def run(chk):
    os.makedirs(SCR, exist_ok=True)
    tmp = tempfile.mkdtemp(prefix="c11-", dir=SCR)
    import reader_lib as rl
    try:
        with cf.ThreadPoolExecutor(max_workers=12) as pool:
            _run(chk, rl, tmp, pool)
    finally:
        rl.uninstall()
        shutil.rmtree(tmp, ignore_errors=True)


def _run(chk, rl, tmp, pool):
    rnd = random.Random(chk.seed)
    th = chk.tier == "thorough"
    jobs = start_tlc(chk, pool)
    cx = Ctx()
    cx.rl = rl
    cx.counts = {k: 0 for k in ("reads", "dask", "adjacent", "forced2", "forced3", "forced_sample", "pool", "offset", "meta",
                                 "large")}
    cx.sets_sched = set()
    cx.step_failures = {}
    cx.argtypes = {}
    cx.chunk_kinds = {}
    cx.written = rl.write_all(tmp)
    cx.samples = rl.sample_files()
    cx.maxn = {"s_stokes": 2, "s_vdif": 6, "s_vdif_lsb": 6, "s_guppi": 8, "s_dada": 16, "s_dada_lsb": 16}
    rl.install()
    # (the lower-sideband readers of the two odd-length real streams are exercised by C19's reader path)
    allsets = [f for f in list(cx.written.values()) + list(cx.samples.values()) if f.key not in ("realodd_lsb", "reallong_lsb")]
    events = []
    import time
    tm = {}
    t_last = [time.time()]

    def lap(name):
        tm[name] = round(time.time() - t_last[0], 1)
        t_last[0] = time.time()
    chk.notes["phase_seconds"] = tm

    # (1) metadata vs header
    for fsx in allsets:
        events.append(meta_event(cx, fsx, len(events)))
        events.append(derived_event(cx, fsx, len(events)))
        cx.counts["meta"] += 2
    lap("meta")
    # (2) sequential histories (+ Dask reads, adjacency, repeats)
    for fsx in allsets:
        small = fsx.key in cx.samples
        lim = (400 if th else 32) if not small else (150 if th else 14)
        if fsx.key == "s_stokes":
            lim = 30 if th else 5
        if fsx.assigned or fsx.light:
            lim = lim // 3
        reqs = requests(fsx, rnd, nrand=((60 if th else 12) if fsx.key != "s_stokes" else 2) // (3 if (fsx.assigned or fsx.light) else 1), limit=lim,
                        maxn=cx.maxn.get(fsx.key, 8), ntypes=5 if th else (1 if (fsx.assigned or fsx.light) else 2))
        events += history_events(chk, cx, fsx, reqs, len(events))
    lap("histories")
    # (3) large reads (whole frames / files): bitwise against the direct baseband read and the written content
    large_reads(chk, cx, allsets)
    lap("large")
    # (4) offset_at / time_at
    for fsx in allsets:
        L = fsx.outlen
        if L <= 130 or th and L <= 4000:
            ks = list(range(-1, L + 2))
        else:
            fb = fsx.spf // (2 if fsx.real else 1)
            ks = sorted(set([-1, 0, 1, 2, fb - 1, fb, fb + 1, fb * fsx.fpf, L // 2, L - 2, L - 1, L, L + 1]
                            + [rnd.randrange(0, L + 1) for _ in range(2500 if th else 24)]))
        if (fsx.assigned or fsx.light) and not th:
            ks = [k for i, k in enumerate(ks) if i % 3 == 0 or k in (-1, 0, L, L + 1)]
        ev = offset_events(chk, cx, fsx, ks, len(events), pert_every=3 if th else 9,
                           scale_every=1 if (th or fsx.key.startswith("dadaleap")) else 6)
        cx.counts["offset"] += len(ev)
        events += ev
    lap("offsets")
    vjobs = []

    def submit(evs, name):
        big = [e for e in evs if e["ev"] == "read" and len(e["codes"]) + len(e["raw"]) > 6000]
        small = [e for e in evs if not (e["ev"] == "read" and len(e["codes"]) + len(e["raw"]) > 6000)]
        random.Random(chk.seed).shuffle(small)          # spread the costly events over the batches
        if small:
            vjobs.append(pool.submit(rl.validate, "Trace_Reader", small, chk, batch=max(150, len(small) // 8 + 1), jobs=8,
                                     name=name))
        if big:
            vjobs.append(pool.submit(rl.validate, "Trace_Reader", big, chk, batch=12, jobs=2, name=name + "-big"))
    submit(events, "seq")
    # (5) free-running concurrency on shared reader objects
    pool_sets = [cx.written[k] for k in ("vdifc", "vdifc_lsb", "vdifr", "vdifr_lsb", "dada", "guppi", "guppil", "stokesl",
                                         "stokeslong", "vdift")] + [cx.samples["s_dada"], cx.samples["s_guppi"]]
    ev = free_running(chk, cx, pool_sets, 32, 200 if th else 24, len(events))
    cx.counts["pool"] = len(ev)
    events += ev
    submit(ev, "pool")

    lap("pool")
    # (6) TLC: model checking results, generated schedules
    r = jobs["mc"].result()
    chk.mc_must_hold("MC_Reader_" + ("full" if th else "quick"), r)
    chk.exhaustive = r.ok
    chk.mc_must_hold("MC_Reader_three" + ("_full" if th else ""), jobs["mc3"].result())
    neg = jobs["neg"].result()
    chk.add_tlc("Neg_Reader_shared (must be rejected)", neg)
    chk.notes["negative_model_rejected"] = neg.violation
    if neg.violation != "ReadIsFunctionOfArgs":
        chk.machinery_errors.append("Neg_Reader_shared (one shared handle) was not rejected: ReadIsFunctionOfArgs would be vacuous")
    r2, recs2 = jobs["g2"].result()
    r3, recs3 = jobs["g3"].result()
    chk.add_tlc("gen:two readers, all interleavings", r2)
    chk.add_tlc("gen:three readers" + ("" if th else " (seeded sample)"), r3)
    if not (r2.ok and r3.ok and recs2 and recs3):
        chk.machinery_errors.append("schedule generation failed: %s %s" % (r2.stdout[-1500:], r3.stdout[-1500:]))
        return
    chk.notes["schedules_generated"] = {"two_readers": len(recs2), "three_readers": len(recs3)}
    distinct2 = sorted({tuple(r["sched"]) for r in recs2})
    chk.notes["distinct_two_reader_interleavings"] = len(distinct2)
    if not th:
        # quick: per file set two argument pairs with all 70 interleavings each
        by = {}
        for rec in recs2:
            by.setdefault((json.dumps(rec["F"], sort_keys=True), json.dumps(rec["args"])), []).append(rec)
        sel = []
        byF = {}
        for (fk, ak), v in sorted(by.items()):
            byF.setdefault(fk, []).append(v)
        for fk, groups in sorted(byF.items()):
            g1, g2 = rnd.sample(groups, 2)       # all interleavings of one argument pair, 16 of another
            sel += g1 + rnd.sample(g2, 3)
        recs2 = sel
        recs3 = rnd.sample(recs3, min(len(recs3), 40))
    else:
        recs3 = rnd.sample(recs3, min(len(recs3), 4000))
    lap("wait_tlc")
    forced_schedules(chk, cx, recs2, 0, "forced2")
    forced_schedules(chk, cx, recs3, 0, "forced3")
    s3 = sorted({tuple(r["sched"]) for r in recs3})
    forced_on_samples(chk, cx, [list(s) for s in distinct2] + [list(s) for s in rnd.sample(s3, min(len(s3), 10))],
                      [cx.samples[k] for k in (("s_dada", "s_guppi", "s_vdif", "s_stokes", "s_dada_lsb", "s_vdif_lsb") if th
                                               else ("s_dada", "s_guppi", "s_vdif_lsb", "s_stokes"))], rnd)

    lap("forced")
    # (7) trace validation by TLC
    rejected = []
    nval = 0
    for j in vjobs:
        rej, n = j.result()
        rejected += rej
        nval += n
    chk.validated += nval
    lap("trace_validation")
    amb = 0
    for e, failed in rejected:
        if failed == ["ambiguous"]:
            amb += 1
            continue
        failed = sorted(x for x in failed if x != "ambiguous")
        fsx = cx.written.get(e["key"]) or cx.samples.get(e["key"])
        cls = _key(fsx)
        if e["ev"] == "read":
            inp = "n=0" if e["n"] == 0 else "n>0"
            key = "%s:%s:%s:%s:%s" % (e["ev"], e["how"], cls, inp, "+".join(failed))
            if e["how"] == "dask" and e["n"] == 0 and e["st"] == "ZeroDivisionError":
                key = "read:dask:n=0:ZeroDivisionError"
            if fsx.assigned:
                key += ":assigned"
            if e.get("argtype", "int") != "int":
                key += ":args=" + e["argtype"]
            if e["how"] == "dask":
                key += ":chunks=" + chunk_kind(eval(e.get("chunks", "None")))
            chk.violation(key,
                          "%s read(%d, %d) on %s: clauses %s fail (status %s, len %s)" % (e["how"], e["o"], e["n"], e["key"], failed, e["st"], e["len"]),
                          {"kind": "read", "fileset": e["key"], "o": e["o"], "n": e["n"], "how": e["how"], "failed": failed,
                           "argtype": e.get("argtype", "int"), "chunks": e.get("chunks", "None")})
        elif e["ev"] == "derived":
            chk.violation("derived:%s:%s" % ("assigned" if fsx.assigned else "constructed", "+".join(failed)),
                          "dt / time_length / stop_time / time_at(1) of %s disagree with its sample_rate and start_time: %s" % (e["key"], failed),
                          {"kind": "derived", "fileset": e["key"]})
        elif e["ev"] == "offset":
            chk.violation("offset:%s%s:%s" % (e["via"].split(":")[0] if e["via"].startswith("rel") else e["via"], "@assigned" if fsx.assigned else "",
                                              "+".join(failed)),
                          "offset_at(time_at(%d) %+d/10 sample, %s) on %s returned %r" % (e["k"], e["pert"], e["via"], e["key"], e["got"]),
                          {"kind": "offset", "fileset": e["key"], "k": e["k"], "via": e["via"], "pert": e["pert"]})
        else:
            chk.violation("meta:%s:%s" % (cls, "+".join(failed)), "metadata of %s: clauses %s fail: %r vs header %r"
                          % (e["key"], failed, e["got"], e["hdr"]), {"kind": "meta", "fileset": e["key"]})
    chk.notes["ambiguous"] = amb
    chk.notes["dependency_warning_races_retried"] = cx.counts.get("dependency_warning_races", 0)
    chk.notes["events"] = {"read_sequential": cx.counts["reads"], "read_dask": cx.counts["dask"], "read_pool": cx.counts["pool"],
                           "offset_at": cx.counts["offset"], "meta": cx.counts["meta"], "adjacent_pairs": cx.counts["adjacent"],
                           "mutate_then_contained_read_and_back_to_back_repeat": cx.counts.get("mutation_steps", 0)}
    chk.notes["forced_schedules"] = {"two_readers_written_files": cx.counts["forced2"], "three_readers_written_files": cx.counts["forced3"],
                                     "sample_files": cx.counts["forced_sample"], "file_sets": sorted(cx.sets_sched)}
    chk.notes["schedules_skipped_after_step_failures"] = cx.counts.get("schedules_skipped_after_step_failures", 0)
    chk.notes["dask_reads_that_opened_the_file_only_on_compute"] = cx.counts.get("dask_opened_on_compute", 0)
    chk.notes["large_reads_compared_bitwise"] = cx.counts["large"]
    chk.notes["large_dask_reads_with_split_chunks"] = cx.counts.get("large_dask", 0)
    chk.notes["argument_types_of_sequential_reads"] = cx.argtypes
    chk.notes["dask_chunk_layouts"] = cx.chunk_kinds
    chk.notes["file_sets"] = {k: "%s, %d samples, frames of %d, %d file(s)" % (_key(v), v.outlen, v.spf, v.nfiles) for k, v in
                              list(cx.written.items()) + list(cx.samples.items())}
    for e in [e for e in events if e["ev"] == "read" and e["st"] == "ok" and e["n"] > 0][:2] + [e for e in events if e["ev"] == "offset"][:1]:
        chk.sample({k: (v if k not in ("codes", "raw") else v[:8]) for k, v in e.items() if k not in ("f", "dt", "rate", "d")})
    chk.assumptions += [
        "baseband (the underlying stream reader / writer) is correct: the written ramp content and the direct "
        "baseband.open(...).read are the reference for 'what the file encodes'",
        "abstraction function harness/reader_lib.py (value -> element code, exact time differences jd1+jd2)",
        "TLC explores Reader exhaustively only within the stated constants (2 readers x 2 reads, 3 readers x 1 read, files of 4 samples)",
        "forced schedules control the four file steps open/seek/read/close of BasebandReader._read_baseband; finer "
        "interleavings inside baseband/the OS are exercised only by the free-running thread pool",
    ]


def large_reads(chk, cx, sets):
    """Reads spanning frames / files / the whole stream, compared bitwise in Python with the direct
    baseband read (too large to ship to TLC as events)."""
    import numpy as np
    rl = cx.rl
    for fsx in sets:
        L = fsx.outlen
        fb = fsx.spf // (2 if fsx.real else 1)
        fileb = fb * fsx.fpf
        if fsx.key == "s_stokes":
            reqs = [(0, 16), (3, 9)]
        elif fsx.key.startswith("s_"):
            reqs = [(fileb - 1500, 3000) if fileb < L else (L - 3000, 3000), (fb - 700, 1400) if fb < L else (100, 1400),
                    (L - 2048, 2048)]
            if chk.tier == "thorough":
                reqs.append((0, L))
        else:
            reqs = [(0, L), (1, L - 1), (fb - 1, min(L - fb + 1, 3 * fb)), (fileb - 3, min(L - fileb + 3, fileb + 5))]
        for o, n in reqs:
            if o < 0 or n < 0 or o + n > L:
                continue
            out = rl.do_read(fsx.reader, o, n)
            pos, cnt = (2 * o, 2 * n) if fsx.real else (o, n)
            ok = out[0] == "ok" and len(out[1]) == n and arrays_equal(rl, fsx, np.asarray(out[1].data), rl.expected_post(fsx, fsx.direct(pos, cnt)))
            if ok and fsx.raw is not None:
                ok = arrays_equal(rl, fsx, np.asarray(out[1].data), rl.expected_post(fsx, fsx.raw[pos:pos + cnt]))
            if ok:
                t = out[1].start_time
                ta = fsx.reader.time_at(o)
                ok = t.jd1 == ta.jd1 and t.jd2 == ta.jd2
            if ok and n > 0:
                # the same span as a Dask read whose chunks split the time axis (and a trailing axis): bitwise the eager data
                eager = np.asarray(out[1].data)
                for ck in ((max(1, n // 3), -1, -1), (max(1, n // 7 + 1), -1, 1 if eager.shape[2] <= 8 else -1), (-1, 1 if eager.shape[1] <= 64 else -1, -1)):
                    if fsx.key == "s_stokes" and ck[0] != -1 and n > 4:
                        continue
                    try:
                        zd = fsx.reader.read(o, n, use_dask=True, chunks=ck)
                        same = bool(np.array_equal(zd.data.compute(), eager))
                    except Exception as e:  # noqa
                        same = False
                    cx.counts["large_dask"] = cx.counts.get("large_dask", 0) + 1
                    chk.validated += 1
                    if not same:
                        chk.violation("read:dask-large:%s:%s" % (_key(fsx), chunk_kind(ck)),
                                      "Dask read(%d, %d, chunks=%r) on %s differs from the eager read" % (o, n, ck, fsx.key),
                                      {"kind": "large-dask", "fileset": fsx.key, "o": o, "n": n, "chunks": list(ck)})
            cx.counts["large"] += 1
            chk.validated += 1
            if not ok:
                chk.violation("read:large:%s" % _key(fsx), "read(%d, %d) on %s differs from the direct baseband read" % (o, n, fsx.key),
                              {"kind": "large", "fileset": fsx.key, "o": o, "n": n})


# ---------------------------------------------------------------------------- replay
def replay(doc):
    import numpy as np
    import reader_lib as rl
    c = doc["case"]
    os.makedirs(SCR, exist_ok=True)
    tmp = tempfile.mkdtemp(prefix="c11-", dir=SCR)
    chk = framework.Check(PID, "quick", 0)
    try:
        cx = Ctx()
        cx.rl = rl
        cx.counts = {k: 0 for k in ("reads", "dask", "adjacent", "forced2", "forced3", "forced_sample", "pool", "offset", "meta", "large")}
        cx.sets_sched = set()
        cx.step_failures = {}
        cx.argtypes = {}
        cx.chunk_kinds = {}
        cx.written = rl.write_all(tmp)
        cx.samples = rl.sample_files()
        cx.maxn = {}
        rl.install()
        fsx = cx.written.get(c["fileset"]) or cx.samples.get(c["fileset"])
        bad = []
        if c["kind"] == "sched":
            res, err = rl.run_schedule(fsx.reader, [tuple(a) for a in c["args"]], c["sched"])
            b = None if err else check_forced(rl, fsx, c["scale"], [tuple(a) for a in c["args"]], {"res": c["expected"], "F": c["model"]}, res)
            if err or b:
                bad.append(err or b[1])
        elif c["kind"] == "sched-sample":
            args = [tuple(a) for a in c["args"]]
            seq = [rl.do_read(fsx.reader, o, n) for o, n in args]
            res, err = rl.run_schedule(fsx.reader, args, c["sched"])
            if err:
                bad.append(err)
            else:
                for p in range(len(args)):
                    if not (res[p][0] == seq[p][0] == "ok" and np.array_equal(np.asarray(res[p][1].data), np.asarray(seq[p][1].data))):
                        bad.append("read %d differs from the sequential result" % (p + 1))
        elif c["kind"] in ("large", "large-dask"):
            large_reads(chk, cx, [fsx])
            bad += [v[1] for v in chk.violations if v[2]["o"] == c["o"] and v[2]["n"] == c["n"] and v[2]["kind"] == c["kind"]]
        else:
            if c["kind"] == "read":
                ck = eval(c.get("chunks", "None"))
                rq = (c["o"], c["n"], c.get("argtype", "int"), ck)
                if c["how"] == "dask":
                    evs = history_events(chk, cx, fsx, [rq], 0, dask_every=1)
                    evs = [e for e in evs if e["how"] == "dask"]
                else:
                    evs = history_events(chk, cx, fsx, [rq], 0, dask_every=10 ** 9)
            elif c["kind"] == "offset":
                evs = [e for e in offset_events(chk, cx, fsx, [c["k"]] * 4, 0, pert_every=1, scale_every=1)
                       if e["pert"] == c["pert"] and e["via"].split(":")[0] == c["via"].split(":")[0]]
            elif c["kind"] == "derived":
                evs = [derived_event(cx, fsx, 0)]
            else:
                evs = [meta_event(cx, fsx, 0)]
            rej, _ = rl.validate("Trace_Reader", evs, chk, name="replay")
            bad += ["%s %s" % (e.get("how", e["ev"]), f) for e, f in rej if f != ["ambiguous"]]
        for b in bad:
            print("VIOLATION property=%s replay=(this case)  # %s: %s" % (PID, doc["key"], b))
        if not bad:
            print("case passes")
        return 1 if bad else 0
    finally:
        rl.uninstall()
        shutil.rmtree(tmp, ignore_errors=True)
