"""Abstraction function, concretisations, contract checker (C16) and
input snapshots (C14) shared by every replayer and driver."""
import copy
import hashlib
import warnings
from fractions import Fraction

import numpy as np

warnings.filterwarnings("ignore")
import astropy.units as u  # noqa: E402
from astropy.time import Time  # noqa: E402
import dask.array as da  # noqa: E402
import pulsarbat as pb  # noqa: E402

import exact  # noqa: E402

CLASSES = {
    "Signal": pb.Signal, "RadioSignal": pb.RadioSignal, "IntensitySignal": pb.IntensitySignal,
    "FullStokesSignal": pb.FullStokesSignal, "BasebandSignal": pb.BasebandSignal,
    "DualPolarizationSignal": pb.DualPolarizationSignal,
}
NONE = 1000000     # PySlice!None sentinel
DAY = 86400


def py(x):
    """abstract bound -> Python bound"""
    return None if x == NONE else x


def hz(q):
    """Quantity (frequency) -> exact Fraction of Hz of the float it holds."""
    unit_scale = Fraction(q.unit.to(u.Hz))  # exact for Hz/kHz/MHz/GHz powers of ten
    v = q.value
    if isinstance(v, np.ndarray):
        return [exact.frac(float(x)) * unit_scale for x in v.ravel()]
    return exact.frac(float(v)) * unit_scale


def time_days(t):
    return Fraction(float(t.jd1)) + Fraction(float(t.jd2))


# ---------------------------------------------------------------- concretisations
class Conc:
    """Maps the spec's ticks / frequency units to real values."""

    def __init__(self, rate, runit, epoch, cf, funit, cbw=None, cplx="complex128", real="float64",
                 dask=False, chunks=None, extra=(), name="", cf_factor=None):
        self.cf_factor = cf_factor      # centre frequency as a multiple of the total bandwidth (overrides cf)
        self.rate, self.runit, self.epoch = rate, runit, epoch
        self.cf, self.funit, self.cbw = cf, funit, cbw
        self.cplx, self.real, self.dask, self.chunks, self.extra = cplx, real, dask, chunks, tuple(extra)
        self.assign = False
        self.qdtype = None
        self.leap = False
        self.npint = None
        self.name = name or "r=%g%s,ep=%s,cf=%g%s,%s" % (rate, runit, epoch and epoch.isot, cf, funit,
                                                          "dask" if dask else "np")

    def with_factor(self, f):
        c = copy.copy(self)
        c.cf_factor = f
        c.name = self.name + ",cf=%gxBW" % f
        return c

    @property
    def rate_hz(self):
        return exact.frac(float(self.rate)) * Fraction(self.runit.to(u.Hz))


EPOCHS = [Time("2020-01-01T00:00:00", format="isot", precision=9),
          Time(58849.123456789, format="mjd"),
          Time(50000, format="mjd"),      # not before 1972: pre-1972 UTC has rubber seconds
          Time("2031-07-14T23:59:59.999999", format="isot", precision=9),
          # legal scales outside the UTC / TAI family (appended: generated cases index the first four)
          Time("2015-03-03T03:03:03.25", format="isot", scale="tcb", precision=9),
          Time(57023.75, format="mjd", scale="tdb"),
          Time("2024-02-29T12:00:00", format="isot", scale="tai", precision=9),
          Time(55555.5, format="mjd", scale="tcg")]
CONC_EPOCHS = [0, 4, 1, 5, 2, 6, 3, 7]     # order in which concretisations take them (other scales early)


def concs(n, rnd, dask_ok=True):
    """n seeded concretisations spanning mHz..GHz, several epochs and units.  Rates, centre frequencies
    and channel widths are taken round-robin (coprime list lengths), so that even three concretisations
    include a zero / tiny centre frequency and a GHz-unit centre with sub-kHz channels."""
    rates = [(1, u.mHz), (1, u.Hz), (1, u.kHz), (1, u.MHz), (800 / 3, u.MHz), (2, u.GHz), (32, u.MHz), (0.5, u.Hz)]
    cfs = [(0, u.Hz), (1.4, u.GHz), (0.3, u.kHz), (327, u.MHz), (7, u.GHz), (150.5, u.MHz), (-2, u.MHz)]
    cbws = [(100, u.Hz), (0.1, u.MHz), (125, u.kHz), (1, u.Hz), (0.2, u.GHz)]    # 0.1 / 0.2: not representable in binary
    off = rnd.randrange(1000)
    out = []
    for i in range(n):
        r = rates[i % len(rates)] if i < len(rates) else rnd.choice(rates)
        c = cfs[(i + off) % len(cfs)]
        b = cbws[(i + off // 7) % len(cbws)]
        out.append(Conc(r[0], r[1], EPOCHS[CONC_EPOCHS[i % len(CONC_EPOCHS)]], c[0], c[1], cbw=b,
                        cplx=rnd.choice(["complex128", "complex64"]), real=rnd.choice(["float64", "float32"]),
                        dask=dask_ok and (i % 3 == 2), extra=rnd.choice([(), (), (2,), (1, 3)])))
        out[-1].assign = (i % 2 == 1)        # every other concretisation builds its root by assignment
        # argument forms: frequency Quantities held as int64 / float32 (where the value is representable),
        # integer slice bounds given as NumPy integers
        out[-1].qdtype = [None, "int", None, "f4", None][(i + off) % 5]
        out[-1].npint = [None, np.int64, None, np.int32, np.intp, None, np.uint8][(i + off // 3) % 7]
        if out[-1].assign:
            out[-1].name += ",by-assignment"
    return out


def unit_twins(cs, k=2):
    """For up to k concretisations whose frequency units are all kHz / MHz / GHz: a twin with the SAME numbers in
    the next smaller units (1.4 GHz / 1 MHz -> 1.4 MHz / 1 kHz).  Within one process the twins visit the same
    geometries, so anything remembered under the bare numbers (units dropped) is exposed."""
    down = {u.GHz: u.MHz, u.MHz: u.kHz, u.kHz: u.Hz}
    out = []
    for c in cs:
        if len(out) >= k:
            break
        if c.runit in down and c.funit in down and c.cbw[1] in down and c.cf != 0:
            t = copy.copy(c)
            t.runit, t.funit, t.cbw = down[c.runit], down[c.funit], (c.cbw[0], down[c.cbw[1]])
            t.name = c.name + ",unit-twin(%s,%s,%s)" % (t.runit, t.funit, t.cbw[1])
            out.append(t)
    return out


def leap_concs(cs):
    """One concretisation stamped ten seconds before the leap second of 2016-12-31 (UTC, the default scale): the
    UTC day is 86401 s long there, so any arithmetic on fractional days instead of elapsed seconds is off by
    offset/86400.  Expected times for it are computed with astropy's own Time + TimeDelta (flag `leap`), never
    with the day-fraction ledger."""
    base = next((c for c in cs if c.runit in (u.Hz, u.kHz) and not c.dask), cs[0])
    t = copy.copy(base)
    t.epoch = Time("2016-12-31T23:59:50", format="isot", scale="utc", precision=9)
    t.rate, t.runit = 1, u.Hz
    t.leap = True
    t.name = "r=1Hz,ep=2016-12-31T23:59:50(leap-second day),cf=%g%s,np" % (t.cf, t.funit)
    return [t]


def ident(n, nchan, extra):
    """Identifier array: value at (i, c, e...) = i*10000 + c*100 + e_flat (exact in float32 for i < 1600)."""
    shape = (n,) + ((nchan,) if nchan else ()) + tuple(extra)
    a = np.arange(n, dtype=np.float64).reshape((n,) + (1,) * (len(shape) - 1)) * 10000.0
    a = np.broadcast_to(a, shape).copy()
    if nchan:
        a += (np.arange(nchan) * 100.0).reshape((1, nchan) + (1,) * (len(shape) - 2))
    if len(shape) > (2 if nchan else 1):
        ex = shape[(2 if nchan else 1):]
        a += np.arange(int(np.prod(ex)), dtype=np.float64).reshape((1,) * (2 if nchan else 1) + ex)
    return a


def by_assignment(make, kw):
    """Builds the object with DECOY metadata, reads every derived attribute (so that any memo an
    implementation keeps gets filled), then assigns the true values through the public setters.  With
    correct setters the result is indistinguishable from make(**kw); state cached across assignments
    (a stale dt, channel_freqs, ...) is what this concretisation is there to expose."""
    decoy = dict(kw)
    decoy["sample_rate"] = kw["sample_rate"] * 3
    if kw.get("start_time") is not None:
        decoy["start_time"] = kw["start_time"] + 7 * u.s
    if "center_freq" in kw:
        decoy["center_freq"] = kw["center_freq"] + 5 * kw["sample_rate"].to(u.Hz if kw["center_freq"].unit == u.Hz else kw["center_freq"].unit)
    if "chan_bw" in kw:
        decoy["chan_bw"] = kw["chan_bw"] * 2
    if "freq_align" in kw:
        decoy["freq_align"] = "top" if kw["freq_align"] != "top" else "bottom"
    if "pol_type" in kw:
        decoy["pol_type"] = "circular" if kw["pol_type"] == "linear" else "linear"
    decoy["meta"] = {"decoy": True}
    z = make(**decoy)
    for at in ("dt", "time_length", "stop_time", "channel_freqs", "min_freq", "max_freq", "bandwidth", "nchan"):
        try:
            getattr(z, at)
        except AttributeError:
            pass
    if z.start_time is not None:
        z.contains(z.start_time)
    # each attribute is assigned once; the order rotates so that no setter can hide behind another one's
    # invalidation (e.g. a label memo reset by the chan_bw setter but not by the center_freq setter)
    global _ASSIGN_COUNT
    _ASSIGN_COUNT += 1
    steps = [("sample_rate", kw["sample_rate"]), ("start_time", kw.get("start_time")), ("meta", kw.get("meta"))]
    if "center_freq" in kw:
        # baseband classes tie chan_bw to the sample rate at construction; keep the two equal
        steps += [("chan_bw", kw["chan_bw"] if "chan_bw" in kw else kw["sample_rate"]),
                  ("center_freq", kw["center_freq"])]
    for name in ("freq_align", "pol_type"):
        if name in kw:
            steps.append((name, kw[name]))
    k = _ASSIGN_COUNT % len(steps)
    for name, val in steps[k:] + steps[:k]:
        setattr(z, name, val)
        for at in ("dt", "channel_freqs", "stop_time"):
            getattr(z, at, None)
    return z


_ASSIGN_COUNT = 0


def _unused_assign():
    pass


def build_root(root, conc):
    """abstract root record -> real pulsarbat signal with identifier data."""
    cls = root["cls"]
    n, nchan = root["len"], root["nchan"]
    extra = conc.extra
    if cls == "FullStokesSignal":
        extra = (4,) + extra
    elif cls == "DualPolarizationSignal":
        extra = (2,) + extra
    a = ident(n, nchan, extra)
    if cls in ("BasebandSignal", "DualPolarizationSignal"):
        z = (a + 1j * (a + 0.5)).astype(conc.cplx)
    elif cls in ("IntensitySignal", "FullStokesSignal"):
        z = a.astype(conc.real)
    else:
        z = a.astype(conc.real)
    if conc.dask:
        z = da.from_array(z, chunks=conc.chunks or ((max(n, 1),) + (1,) * (z.ndim - 1)))
    kw = dict(sample_rate=conc.rate * conc.runit,
              start_time=conc.epoch if root["hasT"] else None,
              meta={"verif": [1, 2, {"k": "v"}], "name": conc.name})
    if cls != "Signal":
        kw["center_freq"] = conc.cf * conc.funit
        # labels must be representable: keep center_freq / chan_bw <= 1e8 (float64 leaves
        # > 7 digits below one channel); absurd pairings like a 1 mHz band at 327 MHz are replaced
        bw0 = kw["sample_rate"] if cls in ("BasebandSignal", "DualPolarizationSignal") else conc.cbw[0] * conc.cbw[1]
        if abs(kw["center_freq"].to_value(u.Hz)) > 1e8 * bw0.to_value(u.Hz):
            kw["center_freq"] = (bw0 * 1e7 * 1.4).to(kw["center_freq"].unit)     # keep the unit the user chose
        if conc.cf_factor is not None:
            bw1 = kw["sample_rate"] if cls in ("BasebandSignal", "DualPolarizationSignal") else conc.cbw[0] * conc.cbw[1]
            kw["center_freq"] = (bw1 * nchan * conc.cf_factor).to(conc.funit if conc.cf else u.MHz)
        kw["freq_align"] = root.get("areq", root["align"])
        if cls in ("RadioSignal", "IntensitySignal", "FullStokesSignal"):
            kw["chan_bw"] = conc.cbw[0] * conc.cbw[1]
    if cls == "DualPolarizationSignal":
        kw["pol_type"] = "linear"
    if getattr(conc, "qdtype", None):
        for k in ("center_freq", "chan_bw"):
            if k in kw:
                q = kw[k]
                if conc.qdtype == "int" and float(q.value) == int(q.value) and abs(q.value) < 2 ** 31:
                    kw[k] = u.Quantity(int(q.value), q.unit, dtype=np.int64)
                elif conc.qdtype == "f4" and k == "center_freq" and float(np.float32(q.value)) == float(q.value):
                    # (centre frequency only: a float32 chan_bw makes the library's own band arithmetic float32)
                    kw[k] = u.Quantity(q.value, q.unit, dtype=np.float32)
    if getattr(conc, "assign", False):
        return by_assignment(lambda **k: CLASSES[cls](z, **k), kw)
    return CLASSES[cls](z, **kw)


# ---------------------------------------------------------------- contract (C16)
ALLOWED_DTYPES = {
    "IntensitySignal": (np.float64, np.float32), "FullStokesSignal": (np.float64, np.float32),
    "BasebandSignal": (np.complex128, np.complex64), "DualPolarizationSignal": (np.complex128, np.complex64),
}


def contract(s):
    """Returns a list of violated clauses of the class contract (C16) for a
    signal object; empty list = contract holds."""
    bad = []
    name = type(s).__name__
    if name not in CLASSES or type(s) is not CLASSES[name]:
        return ["unknown class %r" % type(s)]
    d = s.data
    if not isinstance(d, (np.ndarray, da.Array)):
        bad.append("data container %r" % type(d))
        return bad
    req = {"Signal": 1, "RadioSignal": 2, "IntensitySignal": 2, "BasebandSignal": 2,
           "FullStokesSignal": 3, "DualPolarizationSignal": 3}[name]
    if d.ndim < req:
        bad.append("ndim %d < %d" % (d.ndim, req))
        return bad
    if name == "FullStokesSignal" and d.shape[2] != 4:
        bad.append("stokes axis length %d" % d.shape[2])
    if name == "DualPolarizationSignal" and d.shape[2] != 2:
        bad.append("pol axis length %d" % d.shape[2])
    if int(np.prod(d.shape[1:])) == 0:
        bad.append("empty sample shape %r" % (d.shape,))
    if name in ALLOWED_DTYPES and d.dtype.type not in ALLOWED_DTYPES[name]:
        bad.append("dtype %s not allowed for %s" % (d.dtype, name))

    def freq_scalar(q, positive, what):
        try:
            v = q.to(u.Hz)
            if not v.isscalar:
                bad.append(what + " not scalar")
            elif positive and not (v.value > 0):
                bad.append(what + " not positive")
        except Exception as e:  # noqa
            bad.append(what + " not a frequency Quantity: %r" % (q,))
    freq_scalar(s.sample_rate, True, "sample_rate")
    st = s.start_time
    if st is not None and not (isinstance(st, Time) and st.isscalar):
        bad.append("start_time %r" % (st,))
    if s.meta is not None and not isinstance(s.meta, dict):
        bad.append("meta %r" % type(s.meta))
    if name != "Signal":
        freq_scalar(s.chan_bw, True, "chan_bw")
        freq_scalar(s.center_freq, False, "center_freq")
        if s.freq_align not in ("bottom", "center", "top"):
            bad.append("freq_align %r" % (s.freq_align,))
        if d.shape[1] % 2 == 1 and s.freq_align != "center":
            bad.append("odd nchan with freq_align %r" % (s.freq_align,))
        if d.shape[1] < 1:
            bad.append("nchan 0")
    if name in ("BasebandSignal", "DualPolarizationSignal"):
        try:
            if float(s.chan_bw.to_value(u.Hz)) != float(s.sample_rate.to_value(u.Hz)):
                bad.append("baseband chan_bw %r != sample_rate %r" % (s.chan_bw, s.sample_rate))
        except Exception as e:  # noqa
            bad.append("baseband chan_bw compare failed: %r" % (e,))
    if name == "DualPolarizationSignal" and s.pol_type not in ("linear", "circular"):
        bad.append("pol_type %r" % (s.pol_type,))
    return bad


# ---------------------------------------------------------------- snapshots (C14)
def _arr_bytes(a):
    if isinstance(a, da.Array):
        return ("dask", a.name, a.shape, str(a.dtype), tuple(a.chunks))
    a = np.asarray(a)
    base = a
    while getattr(base, "base", None) is not None and isinstance(base.base, np.ndarray):
        base = base.base
    return ("np", a.shape, str(a.dtype), a.strides, hashlib.blake2b(a.tobytes(), digest_size=12).hexdigest(),
            hashlib.blake2b(np.ascontiguousarray(base).tobytes(), digest_size=12).hexdigest())


def snapshot(x):
    """Byte-wise snapshot of a signal / array / Quantity / Time / plain value."""
    if isinstance(x, pb.Signal):
        d = {"type": type(x).__name__, "data": _arr_bytes(x.data), "id_data": id(x.data)}
        for attr in ("sample_rate", "start_time", "center_freq", "chan_bw", "freq_align", "pol_type"):
            if hasattr(x, attr):
                d[attr] = snapshot(getattr(x, attr))
        d["meta"] = copy.deepcopy(x.meta)
        return d
    if isinstance(x, Time):
        return ("Time", _arr_bytes(np.asarray(x.jd1)), _arr_bytes(np.asarray(x.jd2)), x.scale, x.format)
    if isinstance(x, u.Quantity):
        return ("Quantity", str(x.unit), _arr_bytes(x.value), type(x).__name__)
    if isinstance(x, (np.ndarray, da.Array)):
        return _arr_bytes(x)
    if isinstance(x, (list, tuple)):
        return tuple(snapshot(i) for i in x)
    if isinstance(x, dict):
        return {k: snapshot(v) for k, v in x.items()}
    return ("val", repr(x))


def snap_diff(a, b, path=""):
    """list of paths where two snapshots differ"""
    if type(a) is not type(b):
        return [path or "."]
    if isinstance(a, dict):
        out = []
        for k in set(a) | set(b):
            if k == "id_data":
                continue
            if k not in a or k not in b:
                out.append(path + "/" + str(k))
            else:
                out += snap_diff(a[k], b[k], path + "/" + str(k))
        return out
    if isinstance(a, tuple) and len(a) == len(b) and any(isinstance(i, (tuple, dict)) for i in a):
        out = []
        for i, (x, y) in enumerate(zip(a, b)):
            out += snap_diff(x, y, path + "/" + str(i))
        return out
    try:
        same = a == b
        if isinstance(same, np.ndarray):
            same = bool(same.all())
    except Exception:
        same = repr(a) == repr(b)
    return [] if same else [path or "."]


# ---------------------------------------------------------------- alpha
def alpha_meta(s, conc, root_epoch_days=None):
    """Real signal -> exact metadata record in real units (Fractions)."""
    r = {"cls": type(s).__name__, "len": len(s), "shape": tuple(s.shape), "dtype": str(s.dtype),
         "back": "dask" if isinstance(s.data, da.Array) else "np",
         "rate": hz(s.sample_rate), "hasT": s.start_time is not None}
    if s.start_time is not None:
        r["t_days"] = time_days(s.start_time)
    if isinstance(s, pb.RadioSignal):
        r["nchan"] = s.nchan
        r["cf"] = hz(s.center_freq)
        r["cbw"] = hz(s.chan_bw)
        r["align"] = s.freq_align
        r["labels"] = hz(s.channel_freqs)
        r["min"], r["max"], r["bw"] = hz(s.min_freq), hz(s.max_freq), hz(s.bandwidth)
    return r


class LazyResultFailed(Exception):
    """Computing a Dask-backed result that the library returned raised: the graph the code under test
    built is broken (no pulsarbat frame is on the stack at that point, so it is marked here)."""


def materialise(s):
    d = s.data
    if isinstance(d, da.Array):
        try:
            d = d.compute(scheduler="synchronous")
        except Exception as e:  # noqa
            raise LazyResultFailed("computing the lazy result %r raised %r" % (s, e)) from e
    return np.asarray(d)
