"""Shared helpers of the C03 / C04 / C12 checks (time_shift, freq_shift, snippet):
TLC jobs in parallel, loading TLC-generated cases and the numeric table
(spec/Gen_Delay.tla), building real signals from the table's test columns,
observation functions for the tone / impulse probes, trace validation."""
import concurrent.futures as cf
import itertools
import json
import os
import threading
from fractions import Fraction

import numpy as np

import exact
import framework
import tlc
import common
from common import pb, u, Time, da

SCR = os.path.join(framework.ROOT, ".scratch")
_uniq = itertools.count()
_lock = threading.Lock()


def uniq():
    with _lock:
        return next(_uniq)


# ------------------------------------------------------------------ TLC jobs
def load_ndjson(path):
    out = []
    with open(path) as f:
        for line in f:
            line = line.strip()
            if not line:
                continue
            c = json.loads(line)
            if isinstance(c, str):
                c = json.loads(c)
            out.append(c)
    return out


def gen(module, cfg, workers=4, timeout=1500, heap="2g"):
    """Run a Gen_* configuration; returns (TLCResult, records)."""
    os.makedirs(SCR, exist_ok=True)
    out = os.path.join(SCR, "%s_%d_%d.ndjson" % (cfg.replace(".cfg", ""), os.getpid(), uniq()))
    if os.path.exists(out):
        os.remove(out)
    r = tlc.run(module, cfg, env={"GEN_OUT": out}, timeout=timeout, workers=workers, heap=heap)
    recs = load_ndjson(out) if os.path.exists(out) else []
    if os.path.exists(out):
        os.remove(out)
    return r, recs


def parallel(jobs):
    """jobs: {name: callable}; runs them in threads, returns {name: result};
    an exception in a job is re-raised (machinery failure)."""
    with cf.ThreadPoolExecutor(max_workers=len(jobs)) as ex:
        futs = {k: ex.submit(f) for k, f in jobs.items()}
        return {k: f.result() for k, f in futs.items()}


def validate(module, events, chk=None, name=None, batch=400, par=4, timeout=1500, heap="2g"):
    """trace_util.validate with unique file names and `par` TLC processes side
    by side (one batch each).  Returns (rejected [(event, failed)], n)."""
    os.makedirs(SCR, exist_ok=True)
    parts = [events[i:i + batch] for i in range(0, len(events), batch)]

    def one(part):
        tag = "%s_%d_%d" % (module, os.getpid(), uniq())
        tf = os.path.join(SCR, tag + ".trace.json")
        vf = os.path.join(SCR, tag + ".verdict.ndjson")
        with open(tf, "w") as f:
            json.dump(part, f)
        if os.path.exists(vf):
            os.remove(vf)
        try:
            r = tlc.run(module, module + ".cfg", workers=1, env={"TRACE_FILE": tf, "VERDICT_FILE": vf},
                        timeout=timeout, deadlock=True, heap=heap)
            rej, summary = [], None
            if os.path.exists(vf):
                for v in load_ndjson(vf):
                    if v.get("summary"):
                        summary = v
                    else:
                        rej.append((part[v["line"] - 1], v["failed"]))
            if not r.ok or summary is None or summary["events"] != len(part):
                raise tlc.TLCError("trace validation did not consume the whole trace (%s):\n%s"
                                   % (module, r.stdout[-3000:]))
            return r, rej
        finally:
            for p in (tf, vf):
                if os.path.exists(p):
                    os.remove(p)

    rejected, done = [], 0
    with cf.ThreadPoolExecutor(max_workers=max(1, min(par, 8))) as ex:
        for i, (r, rej) in enumerate(ex.map(one, parts)):
            if chk is not None:
                chk.add_tlc("trace:%s[batch %d, %d events]" % (name or module, i, len(parts[i])), r)
            rejected += rej
            done += len(parts[i])
    return rejected, done


# ------------------------------------------------------------------ numeric table (Gen_Delay)
def _f(d):
    return float(exact.unfix(d))


def _c(d):
    return complex(_f(d["re"]), _f(d["im"]))


class Table:
    """(N, c, q) -> expected column, as printed by TLC (Gen_Delay)."""

    def __init__(self, recs):
        self.t = {}
        self.x = {}
        for r in recs:
            key = (r["N"], r["c"], r["q"])
            e = {"zero": list(r["zero"])}
            if r["mode"] == "time":
                e["yc"] = np.array([_c(v) for v in r["yc"]], dtype=np.complex128)
                e["yr"] = np.array([_f(v) for v in r["yr"]], dtype=np.float64) if len(r["yr"]) else None
            else:
                e["spec"] = np.array([_c(v) for v in r["spec"]], dtype=np.complex128)
                e["y"] = np.array([_c(v) for v in r["y"]], dtype=np.complex128)
                e["free"] = list(r["free"])
            self.t[key] = e
            self.x[(r["N"], r["c"])] = np.array([complex(a, b) for a, b in r["x"]], dtype=np.complex128)
        self.ncols = 1 + max([k[1] for k in self.x] or [0])
        self.nreal = 1 + max([k[1] for k, e in self.t.items() if e.get("yr") is not None] or [-1])

    def has(self, N, q):
        return (N, 0, q) in self.t

    def col(self, N, c):
        return self.x[(N, c)]

    def get(self, N, c, q):
        return self.t[(N, c, q)]


def build_data(tab, N, ssh, real, dtype):
    """data of shape (N,)+ssh: element j (row-major) carries test column j mod ncols."""
    nel = int(np.prod(ssh)) if len(ssh) else 1
    ncol = tab.nreal if real else tab.ncols
    cols = [j % ncol for j in range(nel)]
    a = np.stack([tab.col(N, c).real if real else tab.col(N, c) for c in cols], axis=1)
    a = a.reshape((N,) + tuple(ssh)).astype(dtype)
    return a, cols


# ------------------------------------------------------------------ data kinds and same-object histories
# native float / complex widths, integer sampler data, non-native byte order and extended precision:
# plain Signal has no dtype contract, every one of these is legal input
DTYPES = {"f8": np.dtype("float64"), "f4": np.dtype("float32"), "c16": np.dtype("complex128"), "c8": np.dtype("complex64"),
          "i2": np.dtype("int16"), "i1": np.dtype("int8"),
          ">c16": np.dtype("complex128").newbyteorder(), ">c8": np.dtype("complex64").newbyteorder(),
          ">f8": np.dtype("float64").newbyteorder(), ">i2": np.dtype("int16").newbyteorder(),
          "c32": np.dtype(np.clongdouble), "f16": np.dtype(np.longdouble)}
KIND_CYCLE = ["c16", "f8", "c8", "f4", "i2", ">c16", "f16", "i1", "c32", ">f8", ">c8", ">i2"]
NATIVE = ("f8", "f4", "c16", "c8")        # only for these does "dtype unchanged" follow from the class contracts


def is_real(kind):
    return DTYPES[kind].kind != "c"


def inplace_update(z, style, kind):
    """a sanctioned in-place change of the data of signal z (same object, same array);
    returns the gain applied, or None if this form is not available"""
    d = DTYPES[kind]
    g = (0.5 - 1.5j) if d.kind == "c" else (2 if d.kind == "i" else -1.5)
    try:
        if style % 3 == 0:
            np.multiply(z, g, out=z)
        elif style % 3 == 1:
            z *= g
        else:
            z.data[...] = np.asarray(z.data) * g
    except Exception:  # noqa
        return None
    return g


def fresh_copy(z):
    """a new signal object with a copy of the data z holds now and the same metadata"""
    return type(z).like(z, np.array(np.asarray(z.data), copy=True))


# ------------------------------------------------------------------ sessions (histories of calls) and special floats
def sessions(cases):
    """TLC-generated two-call histories: (first call, second call) where the second call carries the same
    list of values on another broadcast layout (spec action Relayout; `prev` = layout of the first call).
    Both orders of every pair of layouts are generated."""
    first = {(c["N"], tuple(c["ssh"]), tuple(c["shsh"]), tuple(c["S"])): c for c in cases if c["prev"] == [0]}
    out = []
    for c in cases:
        if c["prev"] != [0]:
            f = first.get((c["N"], tuple(c["ssh"]), tuple(c["prev"]), tuple(c["S"])))
            if f is not None:
                out.append((f, c))
    return out


def first_calls(cases):
    return [c for c in cases if c["prev"] == [0]]


def lattice(S, negzero):
    """quarter-unit integers -> float64 values; negzero: produced by negating the negated values, so that
    every zero arrives as -0.0 (what `-shift` gives for a shift array containing 0.0)"""
    if negzero:
        return -(np.array([-int(s) for s in S], dtype=np.float64) / 4)
    return np.array([int(s) for s in S], dtype=np.float64) / 4


def merge_tables(a, b):
    out = {"x": dict(a["x"]), "e": dict(a["e"])}
    out["x"].update(b["x"])
    out["e"].update(b["e"])
    return out


# ------------------------------------------------------------------ memory layout / dtype of an argument, Dask chunkings
LAYOUTS = ("C", "F", "T", "S")


def relayout(a, mode):
    """the same array (ndarray or Quantity) values in another memory layout: C-contiguous, Fortran order,
    a transposed view, or a non-contiguous [::2] slice of a larger array"""
    if getattr(a, "ndim", 0) == 0 or mode == "C":
        return a
    if mode in ("F", "T"):
        b = a.T.copy().T                      # Fortran-ordered data, same shape and values
        return b if mode == "F" else b.T.T    # T: reached through views
    b = a
    for ax in range(a.ndim):
        b = np.repeat(b, 2, axis=ax)
    return b[tuple(slice(None, None, 2) for _ in range(a.ndim))]


SHIFT_DTYPES = ["float64", "float32", "float16", "int8", "int16", "int32", "int64", "uint8", "uint16", "uint32", "uint64"]


def dtypes_for(values):
    """NumPy dtypes that hold every value of the list exactly"""
    out = []
    for name in SHIFT_DTYPES:
        d = np.dtype(name)
        try:
            with np.errstate(all="ignore"):
                c = np.array(values, dtype=np.float64).astype(d)
            if d.kind in "iu" and (min(values) < np.iinfo(d).min or max(values) > np.iinfo(d).max):
                continue
            if all(float(x) == float(v) for x, v in zip(c.ravel(), np.ravel(values))):
                out.append(name)
        except (OverflowError, ValueError):
            pass
    return out


def int_scalar(v, pick):
    """integer v as a Python int or a NumPy integer scalar of a width that holds it (pick selects)"""
    names = ["int"] + [n for n in ("int8", "uint8", "int16", "uint16", "int32", "uint32", "int64", "uint64")
                       if np.iinfo(n).min <= v <= np.iinfo(n).max]
    name = names[pick % len(names)]
    return (int(v) if name == "int" else np.dtype(name).type(v)), name


def sample_chunks(shape, style):
    """Dask chunks for data of the given shape: the time axis is one chunk (an FFT runs along it); sample axes
    in single elements (style 0), whole (1) or UNEQUAL pieces (2: big piece first, 3: small piece first, 4: 2,2,1-like)"""
    out = [(max(shape[0], 1),)]
    for L in shape[1:]:
        if style == 1 or L < 2:
            out.append((L,))
        elif style == 0 or L == 2:
            out.append((1,) * L)
        elif style == 2:
            out.append((L - 1, 1))
        elif style == 3:
            out.append((1, L - 1))
        else:
            k = (L + 1) // 2
            out.append(tuple(x for x in (k // 2 + k % 2, L - k, k // 2) if x) if L >= 4 else (2, 1))
    return tuple(out)


RATES = [(1, u.Hz), (1, u.kHz), (7, u.Hz), (800 / 3, u.MHz), (32, u.MHz), (2, u.GHz), (0.5, u.Hz), (1, u.mHz), (10, u.Hz), (3, u.kHz), (100, u.Hz)]


def make_signal(data, cls, rate, start, dask, chunks=None):
    if dask:
        data = da.from_array(data, chunks=(sample_chunks(data.shape, chunks) if isinstance(chunks, int) else chunks) or ((max(len(data), 1),) + (1,) * (data.ndim - 1)))
    kw = dict(sample_rate=rate[0] * rate[1], start_time=start, meta={"verif": [1, {"k": "v"}]})
    # every third signal gets its metadata by attribute assignment after construction with decoy values
    # (state cached across the public setters would then be stale)
    global _MAKE_COUNT
    _MAKE_COUNT += 1
    assign = _MAKE_COUNT % 3 == 0
    if cls == "BasebandSignal":
        kw["center_freq"] = 1.4 * u.GHz
        mk = lambda **k: pb.BasebandSignal(data, **k)    # noqa
    elif cls == "DualPolarizationSignal":
        kw["center_freq"] = 327 * u.MHz
        mk = lambda **k: pb.DualPolarizationSignal(data, pol_type="circular", **k)    # noqa
    else:
        mk = lambda **k: pb.Signal(data, **k)    # noqa
    return common.by_assignment(mk, kw) if assign else mk(**kw)


_MAKE_COUNT = 0


def _unused():
    pass


def meta_of(s):
    """everything but the data, exactly (for `metadata unchanged`)."""
    m = {"type": type(s).__name__, "dtype": str(s.dtype), "rate": common.snapshot(s.sample_rate),
         "start": None if s.start_time is None else common.snapshot(s.start_time),
         "meta": json.dumps(s.meta, sort_keys=True, default=str),
         "back": "dask" if isinstance(s.data, da.Array) else "np"}
    if isinstance(s, pb.RadioSignal):
        m["cf"] = common.snapshot(s.center_freq)
        m["cbw"] = common.snapshot(s.chan_bw)
        m["align"] = s.freq_align
        m["labels"] = common.snapshot(s.channel_freqs)
    if hasattr(s, "pol_type"):
        m["pol_type"] = s.pol_type
    return m


def meta_diff(a, b, skip=()):
    return [k for k in a if k not in skip and a[k] != b.get(k)]


# ------------------------------------------------------------------ probes (large N)
def lead_trail(iszero):
    """iszero: bool vector -> (lead, trail, inner)."""
    n = len(iszero)
    if iszero.all():
        return n, n, 0
    nz = np.flatnonzero(~iszero)
    lead, trail = int(nz[0]), int(n - 1 - nz[-1])
    inner = int(iszero[nz[0]:nz[-1] + 1].sum())
    return lead, trail, inner


REAL_DC = 2.0     # real probes are REAL_DC + cos(...): never zero, DC is not moved by a delay


def fit_ratio(out, k, N, real):
    """least-squares complex r with out[n] = r * exp(2 pi i k n / N) (complex) or
    out[n] = REAL_DC + Re(r * exp(2 pi i k n / N)) (real) on the samples that are not exactly zero;
    returns (r, max residual, number of samples used)."""
    n = np.arange(N)
    use = out != 0
    m = int(use.sum())
    if m == 0:
        return 0j, 0.0, 0
    th = 2 * np.pi * ((k * n) % N) / N
    if real:
        if m < 2:
            return 0j, 0.0, 0
        A = np.stack([np.cos(th[use]), -np.sin(th[use])], axis=1)
        o = out[use].astype(np.float64) - REAL_DC
        sol, *_ = np.linalg.lstsq(A, o, rcond=None)
        r = complex(sol[0], sol[1])
        res = np.abs(A @ sol - o)
    else:
        ref = np.exp(1j * th[use])
        o = out[use].astype(np.complex128)
        r = complex((o * ref.conj()).sum() / m)
        res = np.abs(o - r * ref)
    return r, float(res.max()), m


def padded(shsh, rank, scalar_to_one=False):
    shsh = tuple(shsh)
    if not shsh:
        if not scalar_to_one:
            return ()
        shsh = (1,)
    return shsh + (1,) * (rank - len(shsh))


def shift_shapes(ssh):
    """every shift-array shape the code accepts for a sample shape"""
    out = []
    for r in range(len(ssh) + 1):
        for choice in itertools.product(*[sorted({1, ssh[d]}) for d in range(r)]):
            out.append(tuple(choice))
    return out
