"""C06 - dispersion delays obey the f^-2 law; incoherent dedispersion realigns by them.

spec/Dedisp.tla (laws, IncohOp / IncohValid), MC_Dedisp (invariants), Gen_Dedisp
(spec -> code), Trace_Dedisp (code -> spec)."""
import os
import random

import framework
import tlc

PID = "C06"
SCR = os.path.join(framework.ROOT, ".scratch")


def model_check(chk, negs):
    thorough = chk.tier == "thorough"
    cfg = "MC_Dedisp_full.cfg" if thorough else "MC_Dedisp_quick.cfg"
    r = tlc.run("MC_Dedisp", cfg, timeout=3000)
    chk.mc_must_hold(cfg[:-4], r)
    chk.exhaustive = r.ok
    # models of wrong algorithms must be rejected by the same invariants
    for cfg, inv in negs:
        r = tlc.run("MC_Dedisp", cfg, timeout=600)
        chk.add_tlc(cfg[:-4] + " (must be rejected)", r)
        if r.violation != inv:
            chk.machinery_errors.append("negative model %s: expected violation of %s, got %r" % (cfg, inv, r.violation))
    chk.notes["negative_models_rejected"] = [c for c, _ in negs]


def gen_replay(chk, rnd):
    import dedisp_util as D
    os.makedirs(SCR, exist_ok=True)
    out = os.path.join(SCR, "C06_gen_%d.ndjson" % os.getpid())
    if os.path.exists(out):
        os.remove(out)
    r = tlc.run("Gen_Dedisp", "Gen_Dedisp.cfg", env={"GEN_OUT": out}, timeout=1200)
    chk.add_tlc("gen:Gen_Dedisp", r)
    if not r.ok:
        chk.machinery_errors.append("generation failed: %s" % r.stdout[-2000:])
        return
    gens = D.load_gen(out)
    os.remove(out)
    limit = 16000 if chk.tier == "thorough" else 900
    by = {}
    for g in gens:
        by.setdefault((len(g["d"]), g["ok"], g["outlen"] > 0), []).append(g)
    per = max(1, limit // len(by))
    pick = []
    for k in sorted(by):
        pick += by[k] if len(by[k]) <= per else rnd.sample(by[k], per)
    done = skipped = 0
    outcome = {"realigned": 0, "empty-or-refused": 0}
    for i, g in enumerate(pick):
        case = D.realise(g, rnd, i)
        if case is None:
            skipped += 1
            continue
        for key, desc in D.replay_gen(g, case):
            chk.violation(key, desc, {"gen": g, "case": case})
        done += 1
        outcome["realigned" if g["ok"] and g["outlen"] > 0 else "empty-or-refused"] += 1
        if g["ok"] and g["outlen"] > 1 and len(g["d"]) > 1 and len(chk.samples) < 2:
            chk.sample({"spec": g, "realised_with": {k: case[k] for k in ("cls", "nchan", "cf", "rate", "dm", "ref") if k in case}})
    chk.validated += done
    chk.notes["gen_cases_emitted"] = len(gens)
    chk.notes["gen_replayed"] = done
    chk.notes["gen_skipped_unrealisable"] = skipped
    chk.notes["gen_outcomes"] = outcome


def run(chk):
    import dedisp_util as D
    rnd = random.Random(chk.seed)
    thorough = chk.tier == "thorough"
    model_check(chk, [("Neg_Dedisp_cropsign.cfg", "RealignDecl"), ("Neg_Dedisp_nostart.cfg", "StartAdvance")])
    gen_replay(chk, rnd)
    n_law, n_inc, n_lseq, n_iseq = (14000, 6500, 1200, 800) if thorough else (800, 480, 90, 70)
    cases = [D.gen_law_case(rnd) for _ in range(n_law)]
    for i in range(n_inc):
        c = D.gen_incoh_case(rnd, i)
        c["xcheck"] = i % 200 == 0
        cases.append(c)
    # sessions: one DM object stepped in place between calls; one signal object dedispersed several times
    cases += [D.gen_lawseq_case(rnd) for _ in range(n_lseq)]
    # the same frequency-array objects handed to several calls, judged against their values before the first call
    cases += [D.gen_lawarr_case(rnd) for _ in range(n_lseq)]
    # Dask: signals of one geometry but different data (and one signal, two DMs) evaluated in ONE graph
    n_joint = 400 if thorough else 50
    cases += [D.gen_incohjoint_case(rnd, i) for i in range(n_joint)]
    cases += [D.gen_incohseq_case(rnd, i) for i in range(n_iseq)]
    events = D.collect(cases, chk)
    D.judge(chk, events, cases, "C06", jobs=8, timeout=6000 if chk.tier == "thorough" else 1500)
    for e in [e for e in events if e["ev"] == "incoh"][:2] + [e for e in events if e["ev"] in ("sdelay", "chain")][:2]:
        chk.sample(e["_desc"])
    inc = [e for e in events if e["ev"] == "incoh"]
    chk.notes["sessions"] = {"law_one_dm_object": n_lseq, "law_same_frequency_arrays": n_lseq, "dask_results_in_one_graph": n_joint, "incoh_one_signal_object": n_iseq,
                             "dm_ops": {}}
    for c in cases:
        for op, _ in (c.get("steps", []) if c["kind"] != "lawarr" else []):
            chk.notes["sessions"]["dm_ops"][op] = chk.notes["sessions"]["dm_ops"].get(op, 0) + 1
    dk = [cases[e["_case"]].get("base", cases[e["_case"]]) for e in inc]
    chk.notes["incoh_dask_freq_chunks"] = {
        "numpy": sum(1 for c in dk if not c.get("dask")), "dask_whole": sum(1 for c in dk if c.get("dask") and not c.get("fchunks")),
        "dask_ones": sum(1 for c in dk if c.get("fchunks") and max(c["fchunks"]) == 1),
        "dask_chunks_gt1_several": sum(1 for c in dk if c.get("fchunks") and max(c["fchunks"]) > 1 and len(c["fchunks"]) > 1)}
    chk.notes["incoh_by_class"] = {c: sum(1 for e in inc if e["cls"] == c) for c in D.RADIO}
    chk.notes["incoh_outcomes"] = {"samples": sum(1 for e in inc if e["outlen"] > 0),
                                   "empty": sum(1 for e in inc if not e["err"] and e["outlen"] == 0),
                                   "refused": sum(1 for e in inc if e["err"])}
    chk.assumptions += [
        "TLC explores MC_Dedisp exhaustively only within the stated constants (len <= 8, nchan <= 4, delays -10..10)",
        "the delay tolerance 1e-14 * K|DM| * max(f^-2, fref^-2) (90 units of 2^-53 of the larger term) bounds the float64 evaluation",
        "channel delays within 1e-6 sample of a half-integer are not judged (ambiguous)",
        "channel labels (z.channel_freqs) are taken as given (their correctness is C02)",
        "the bounded-precision delay of Dedisp 1b (error < 2^-44 sample) is cross-checked against the exact rational on sampled events",
        "astropy Time arithmetic is accurate to 2^-50 day per operation",
        "abstraction: identifier samples i*10000 + c*100 + e (harness/dedisp_util.py)"]


def replay(doc):
    import dedisp_util as D
    c = doc["case"]
    if "gen" in c:
        bad = D.replay_gen(c["gen"], c["case"])
        for key, desc in bad:
            print("VIOLATION property=%s replay=(this case)  # %s: %s" % (doc["property"], key, desc))
        if not bad:
            print("case passes")
        return 1 if bad else 0
    return D.replay_cases(doc, D.run_case)
