"""Driver / recorder for pulsarbat.Phase (properties C07 and C15).

A *recipe* is a small JSON-serialisable description of one call on the real
class (operands as float.hex strings, operand kinds, operation).  `execute`
performs the call and returns the events (one per array element / lane) that
spec/Trace_Phase.tla judges: operands and results as exact rationals
(exact.rat of the float64 values, integer and fractional part separately),
operand kinds, result type name, imaginary flags, text as byte values.
Nothing is decided here: expected values are computed by TLC.
"""
import operator

import numpy as np

import exact

PLAIN = ("pyint", "pyfloat", "npint", "npfloat", "npfloat32", "arr0", "arrn", "arrint")
COMPLEX = ("pycomplex", "npcomplex", "arrcomplex")
DIMLESS = ("dimless", "dimlessarr", "dimscaled", "dimscaledarr")
CYCLE = ("cycleq", "cycleqarr", "angle", "phase", "phasearr")
ARRAY_KINDS = ("arrn", "arrint", "arrcomplex", "dimlessarr", "dimscaledarr", "cycleqarr", "phasearr")


class RealCodeRaised(Exception):
    """The library (pulsarbat / astropy / NumPy dispatching into them) raised on
    input the harness handed to a *public call*.  That is behaviour of the code
    under test: it is recorded in an event and judged by TLC, never a machinery
    error.  Everything raised outside `real()` is a bug of the harness itself."""

    def __init__(self, exc):
        super().__init__(repr(exc))
        self.name = type(exc).__name__


class ConstructFailed(Exception):
    """A public call needed to *prepare* an operand raised; carries the event."""

    def __init__(self, event):
        super().__init__(event.get("exc") or event["res"]["exc"])
        self.event = event


def real(fn, *args, **kw):
    """Every call into the library goes through here."""
    try:
        return fn(*args, **kw)
    except Exception as e:  # noqa: recorded, judged by the specification
        raise RealCodeRaised(e) from e


def lib():
    import astropy.units as u
    from astropy.coordinates import Angle
    from pulsarbat.pulsar.phase import Phase
    return u, Angle, Phase


def hx(x):
    return float(x).hex()


def fh(s):
    return float.fromhex(s) if isinstance(s, str) else float(s)


RAT0 = exact.rat(0)


# ------------------------------------------------------------------ operands
class Operand:
    """python object + its exact parts (arrays of float64) + imaginary flag."""

    def __init__(self, obj, parts, im, kind, scale=None):
        self.obj, self.parts, self.im, self.kind = obj, parts, im, kind
        self.scale = scale          # exact Fraction: the operand denotes parts * scale (scaled units)

    @property
    def shape(self):
        return np.broadcast_shapes(*[np.shape(p) for p in self.parts])

    def buffer(self):
        """bytes of the caller-owned memory of the operand (None for immutable scalars)"""
        o = self.obj
        if isinstance(o, np.ndarray):                     # ndarray, Quantity, Angle, Phase
            return (o.view(np.ndarray).tobytes(), bool(getattr(o, "imaginary", False)))
        return None

    def log(self):
        """(re)log the operand: what it holds now is what later events are judged against"""
        self.logged = self.buffer()
        return self

    def modified(self):
        return getattr(self, "logged", None) is not None and self.buffer() != self.logged

    def x(self, shape, idx):
        """The X record of element idx after broadcasting to shape."""
        vals = [exact.frac(float(np.broadcast_to(p, shape)[idx])) for p in self.parts]
        if self.scale is not None:
            vals = [v * self.scale for v in vals]
        return {"k": self.kind, "im": bool(self.im), "v": [exact.rat(v) for v in vals]}


def phase_operand(p, kind="phase"):
    v = p.view(np.ndarray)
    return Operand(p, [np.array(v["int"]), np.array(v["frac"])], bool(p.imaginary), kind).log()


def make_phase(ph):
    """ph = {"i": [hex], "f": [hex], "im": bool, "shape": None | [dims]}.
    Built by the public constructor Phase(count, frac) (times 1j for an
    imaginary phase); if that raises, the refusal becomes a new2 event."""
    u, Angle, Phase = lib()
    i = np.array([fh(x) for x in ph["i"]], dtype=float)
    f = np.array([fh(x) for x in ph["f"]], dtype=float)
    if ph.get("shape") is None:
        i, f = float(i[0]), float(f[0])
    else:
        i, f = i.reshape(ph["shape"]), f.reshape(ph["shape"])
    im = bool(ph.get("im"))
    try:
        return real(Phase, i * 1j, f * 1j) if im else real(Phase, i, f)
    except RealCodeRaised as e:
        arr = ph.get("shape") is not None
        kind = ("arrcomplex" if arr else "pycomplex") if im else ("arrn" if arr else "pyfloat")
        first = (lambda a: float(np.asarray(a).reshape(-1)[0]))
        raise ConstructFailed({"ev": "arith", "op": "new2", "ord": "po", "other": kind, "construct": True,
                               "l": {"k": kind, "im": im, "v": [exact.rat(first(i))]},
                               "r": {"k": kind, "im": im, "v": [exact.rat(first(f))]},
                               "res": {"exc": e.name}}) from e


SCALED_UNITS = {"percent": lambda u: (u.percent, exact.Fraction(1, 100)),
                "km/m": lambda u: (u.km / u.m, exact.Fraction(1000)),
                "m/mm": lambda u: (u.m / u.mm, exact.Fraction(1000))}


def make_other(ot):
    """ot = {"kind": k, "vals": [hex or int], "im": bool, "shape": [dims]} or a
    phase description with kind phase / phasearr."""
    u, Angle, Phase = lib()
    k = ot["kind"]
    if k in ("phase", "phasearr"):
        return phase_operand(make_phase(ot), k)
    im = bool(ot.get("im"))
    vals = ot["vals"]
    if k in ("pyint", "npint", "arrint"):
        ints = [int(v) for v in vals]
        part = np.array([float(v) for v in ints])
        if k == "pyint":
            obj, part = ints[0], part[0]
        elif k == "npint":
            obj, part = np.int64(ints[0]), part[0]
        else:
            obj = np.array(ints, dtype=np.int64).reshape(ot.get("shape") or [len(ints)])
            part = part.reshape(obj.shape)
        return Operand(obj, [np.array(part)], False, k).log()
    fl = np.array([fh(v) for v in vals], dtype=float)
    shape = ot.get("shape") or [len(fl)]
    if k == "pyfloat":
        obj, part = float(fl[0]), fl[0]
    elif k == "npfloat":
        obj, part = np.float64(fl[0]), fl[0]
    elif k == "npfloat32":
        obj = np.float32(fl[0])
        part = np.float64(obj)
    elif k == "arr0":
        obj, part = np.array(fl[0]), fl[0]
    elif k == "arrn":
        obj = fl.reshape(shape).copy()
        part = obj
    elif k == "pycomplex":
        obj, part = complex(0.0, fl[0]), fl[0]
    elif k == "npcomplex":
        obj, part = np.complex128(complex(0.0, fl[0])), fl[0]
    elif k == "arrcomplex":
        part = fl.reshape(shape)
        obj = part * 1j
    elif k == "dimless":
        obj, part = (fl[0] * (1j if im else 1)) * u.dimensionless_unscaled, fl[0]
    elif k == "dimlessarr":
        part = fl.reshape(shape)
        obj = (part * (1j if im else 1)) * u.dimensionless_unscaled
    elif k in ("dimscaled", "dimscaledarr"):
        # a dimensionless Quantity whose unit carries a scale: the number value * scale
        unit, scale = SCALED_UNITS[ot["unit"]](u)
        part = fl[0] if k == "dimscaled" else fl.reshape(shape)
        obj = u.Quantity(part * (1j if im else 1), unit)
        return Operand(obj, [np.array(part)], im, k, scale=scale).log()
    elif k == "cycleq":
        obj, part = (fl[0] * (1j if im else 1)) * u.cycle, fl[0]
    elif k == "cycleqarr":
        part = fl.reshape(shape)
        obj = (part * (1j if im else 1)) * u.cycle
    elif k == "angle":
        obj, part = Angle(fl[0], u.cycle), fl[0]
    else:
        raise ValueError("unknown operand kind " + k)
    return Operand(obj, [np.array(part)], im or k in COMPLEX, k).log()      # parts: private copies


def res_elems(r, shape):
    """list over the flattened broadcast shape of result records."""
    u, Angle, Phase = lib()
    n = int(np.prod(shape, dtype=int)) if shape else 1
    if isinstance(r, Phase):
        v = r.view(np.ndarray)
        ii = np.broadcast_to(v["int"], shape).reshape(-1)
        ff = np.broadcast_to(v["frac"], shape).reshape(-1)
        t = type(r).__name__
        return [{"t": t, "im": bool(r.imaginary), "i": exact.rat(float(ii[j])), "f": exact.rat(float(ff[j]))}
                for j in range(n)]
    return [{"t": type(r).__name__, "im": False, "i": RAT0, "f": RAT0}] * n


def exc_name(e):
    return type(e).__name__


# ---------------------------------------------------------------- executors
BINOPS = {"add": operator.add, "sub": operator.sub, "mul": operator.mul, "div": operator.truediv,
          "mod": operator.mod, "floordiv": operator.floordiv, "divmod": divmod}
CMPOPS = {"lt": operator.lt, "le": operator.le, "eq": operator.eq, "ne": operator.ne,
          "ge": operator.ge, "gt": operator.gt}


def _idx(shape):
    return list(np.ndindex(*shape)) if shape else [()]


UFUNCS = {"add": np.add, "sub": np.subtract, "mul": np.multiply, "div": np.divide,
          "neg": np.negative, "abs": np.absolute, "pos": np.positive}
IOPS = {"add": operator.iadd, "sub": operator.isub, "mul": operator.imul, "div": operator.itruediv,
        "mod": operator.imod}
DIVUFUNCS = {"mod": np.remainder, "divmod": np.divmod, "floordiv": np.floor_divide}


def run_arith(rc, pre=None):
    """pre = (phase operand, other operand) built earlier and reused (run_seq).
    form "op": out of place; "iop": in-place operator on the phase (p += x,
    p %= d); "out": the ufunc with out= a separate Phase target (real or
    imaginary, stale content); for remainder / divmod also "outself" (out= the
    dividend itself) and "outdiv" (out= the Phase divisor); divmod and
    floor_divide get a plain array or a dimensionless Quantity for the quotient.
    For every in-place / out= form the *target object after the call* is the
    result that is judged."""
    u, Angle, Phase = lib()
    op = rc["op"]
    ord_ = rc.get("ord", "po")
    form = rc.get("form", "op")
    if op in ("new1", "new2"):
        x = make_other(rc["x"])
        if op == "new1":
            ops, call, other = [x], (lambda: Phase(x.obj)), x.kind
        else:
            y = make_other(rc["y"])
            ops, call = [x, y], (lambda: Phase(x.obj, y.obj))
            # "other" = the weaker of the two kinds (a Phase part is always allowed)
            other = y.kind if x.kind in ("phase", "phasearr") else x.kind
        form = "op"
    elif op in ("neg", "abs", "pos"):
        p = pre[0] if pre else phase_operand(make_phase(rc["ph"]))
        absfn = {None: abs, False: abs, True: np.abs, "abs": abs, "np.abs": np.abs, "np.absolute": np.absolute,
                 "np.fabs": np.fabs}[rc.get("np")]
        fn = {"neg": operator.neg, "pos": operator.pos, "abs": absfn}[op]
        ops, other, args = [p], "phase", [p.obj]
        call = (lambda: fn(p.obj))
        if form == "iop":
            form = "out"
    else:
        p, o = pre if pre else (phase_operand(make_phase(rc["ph"])), make_other(rc["ot"]))
        fn = BINOPS[op]
        ops = [p, o] if ord_ == "po" else [o, p]
        args = [x.obj for x in ops]
        call = (lambda: fn(*args))
        other = o.kind
        if op in DIVUFUNCS:
            if op == "floordiv" and form != "op":
                form = "out"              # the quotient is a number: only a separate array can receive it
            elif op == "divmod" and form == "iop":
                form = "outself"
        elif op not in UFUNCS:
            form = "op"
    shape = np.broadcast_shapes(*[o.shape for o in ops])
    # "outself": out= the phase operand itself, "outdiv": out= the OTHER operand when that is a
    # Phase too - in whichever position they stand (first or second input of the ufunc)
    if form == "iop" and (ord_ != "po" or tuple(shape) != tuple(p.shape)):
        form = "outself"
    if form == "outself" and tuple(shape) != tuple(p.shape):
        form = "out"                      # an in-place operation cannot grow its operand
    if form == "outdiv" and (len(ops) < 2 or o.kind not in ("phase", "phasearr") or tuple(shape) != tuple(o.shape)):
        form = "out"
    if form == "iop":
        call = (lambda: IOPS[op](p.obj, o.obj))            # returns the (same) left operand
    elif form != "op":
        if form == "outself":
            target = p.obj
        elif form == "outdiv":
            target = o.obj
        elif op != "floordiv":
            z = np.zeros(shape) + 0.25                     # stale content, of either kind
            target = make_phase({"i": [hx(v) for v in z.reshape(-1)], "f": [hx(0.125)] * max(1, z.size),
                                 "im": bool(rc.get("tim")), "shape": list(shape) if shape else None})
        if op in ("divmod", "floordiv"):
            qt = np.full(shape, -77.0)
            if rc.get("qq"):
                qt = qt * u.dimensionless_unscaled
            if op == "divmod" and rc.get("qnone"):
                qt = None                                  # out=(None, target): the quotient is allocated

        def call():
            if op == "floordiv":
                np.floor_divide(*args, out=qt)
                return qt
            if op == "divmod":
                got = np.divmod(*args, out=(qt, target))
                return (got[0] if qt is None else qt), target
            uf = np.fabs if (op == "abs" and rc.get("np") == "np.fabs") else (DIVUFUNCS.get(op) or UFUNCS[op])
            uf(*args, out=target)
            return target
    exc = None
    try:
        r = real(call)
    except RealCodeRaised as e:  # the event records the refusal; TLC decides whether it is allowed
        exc = e.name
    # operands the call must leave alone (everything but the target of an in-place form)
    tobj = p.obj if form in ("iop", "outself") else o.obj if form == "outdiv" else None
    modified = ["lr"[k] for k, x in enumerate(ops) if x.obj is not tobj and x.modified()]
    evs = []
    divlike = op in ("floordiv", "mod", "divmod")
    if exc is None:
        if op == "divmod":
            q, rem = r
            qel = np.broadcast_to(np.asarray(getattr(q, "value", q), dtype=float), shape).reshape(-1)
            rel = res_elems(rem, shape)
        elif op == "floordiv":
            qel = np.broadcast_to(np.asarray(getattr(r, "value", r), dtype=float), shape).reshape(-1)
            rel = None
        else:
            qel, rel = None, res_elems(r, shape)
    for j, idx in enumerate(_idx(shape)):
        ev = {"ev": "divmod" if divlike else "arith", "op": op, "ord": ord_, "other": other, "form": form,
              "l": ops[0].x(shape, idx)}
        if len(ops) > 1:
            ev["r"] = ops[1].x(shape, idx)
        if exc is not None:
            if divlike:
                ev["exc"] = exc
            else:
                ev["res"] = {"exc": exc}
        else:
            if qel is not None:
                ev["q"] = exact.rat(float(qel[j]))
            if rel is not None:
                ev["res"] = rel[j]
        if modified:
            ev["modified"] = modified
        evs.append(ev)
    return evs


def run_seq(rc):
    """Several operations on the SAME operand objects: rc = {"ph", "ot", "steps":
    [{"op", "ord", "form", ...}]}.  Every step is judged against the operand
    values logged before the first use; only the target of an in-place step is
    logged anew (it legitimately holds the result now)."""
    p = phase_operand(make_phase(rc["ph"]))
    o = make_other(rc["ot"])
    evs = []
    for n, st in enumerate(rc["steps"]):
        step = run_arith(dict(st, ev="arith"), pre=(p, o))
        for ev in step:
            ev["step"] = n
        evs += step
        form = step[0].get("form") if step else "op"
        if form in ("iop", "outself"):
            p = phase_operand(p.obj)
        elif form == "outdiv":
            o = phase_operand(o.obj, o.kind)
        if o.obj is p.obj:
            o = p
    return evs


def run_trig(rc):
    """rc = {"fn": sin|cos|exp, "f": hex, "ns": [hex], "array": bool, "left": bool}"""
    u, Angle, Phase = lib()
    fn = rc["fn"]
    f = fh(rc["f"])
    ns = [fh(n) for n in rc["ns"]]
    func = {"sin": np.sin, "cos": np.cos, "exp": np.exp}[fn]

    def value(p):
        """func(p) resp. exp(i p) as complex array; both steps are public calls"""
        a = p
        if fn == "exp":
            a = real(operator.mul, 1j, p) if rc.get("left") else real(operator.mul, p, 1j)
        r = real(func, a)
        return np.asarray(getattr(r, "value", r), dtype=complex)

    def stored_frac(p):
        return np.asarray(p.view(np.ndarray)["frac"], dtype=float)

    items = []
    try:
        if rc.get("array"):
            p = make_phase({"i": [hx(n) for n in ns], "f": [hx(f)] * len(ns), "im": False, "shape": [len(ns)]})
            out, fr = value(p), stored_frac(p)
            for j in range(len(ns)):
                items.append({"f": exact.rat(float(fr[j])), "re": exact.rat(float(out[j].real)),
                              "imv": exact.rat(float(out[j].imag))})
        else:
            for n in ns:
                p = make_phase({"i": [hx(n)], "f": [hx(f)], "im": False, "shape": None})
                z = complex(value(p))
                items.append({"f": exact.rat(float(stored_frac(p))), "re": exact.rat(z.real), "imv": exact.rat(z.imag)})
    except RealCodeRaised as e:
        return [{"ev": "trig", "fn": fn, "items": [], "exc": e.name}]
    return [{"ev": "trig", "fn": fn, "items": items}]


UFCMP = {"lt": np.less, "le": np.less_equal, "eq": np.equal, "ne": np.not_equal,
         "ge": np.greater_equal, "gt": np.greater}


def cmp_events(p, o, op, ord_, form):
    # the operator form reflects `other < phase` into phase.__gt__(other); the ufunc form
    # np.less(other, phase) reaches Phase.__array_ufunc__ with the phase as SECOND operand
    # "ufunc-out": the ufunc writes into a caller-supplied bool array; "ufunc-where": additionally
    # only where a mask is set (the other elements are not computed and not judged)
    fn = UFCMP[op] if form in ("ufunc", "ufunc-out", "ufunc-where") else CMPOPS[op]
    ops = [p, o] if ord_ == "po" else [o, p]
    shape = np.broadcast_shapes(p.shape, o.shape)
    exc, mask = None, None
    try:
        if form in ("ufunc-out", "ufunc-where"):
            target = np.zeros(shape, dtype=bool)
            target[...] = (op in ("lt", "gt", "ne"))          # stale content: the value wrong for a tie
            kw = {}
            if form == "ufunc-where":
                mask = (np.arange(max(1, target.size)).reshape(shape) % 3 != 1)
                kw["where"] = mask
            real(fn, ops[0].obj, ops[1].obj, out=target, **kw)
            r = target
        else:
            r = real(fn, ops[0].obj, ops[1].obj)
        if r is NotImplemented or isinstance(r, bool) and shape:
            r = np.broadcast_to(r, shape)
        rr = np.broadcast_to(np.asarray(r, dtype=bool), shape).reshape(-1)
    except RealCodeRaised as e:
        exc = e.name
    evs = []
    for j, idx in enumerate(_idx(shape)):
        if mask is not None and not mask[idx]:
            continue
        ev = {"ev": "cmp", "op": op, "ord": ord_, "other": o.kind, "form": form or "operator",
              "l": ops[0].x(shape, idx), "r": ops[1].x(shape, idx)}
        if exc is not None:
            ev["exc"] = exc
        else:
            ev["res"] = bool(rr[j])
        evs.append(ev)
    return evs


def run_cmp(rc):
    return cmp_events(phase_operand(make_phase(rc["ph"])), make_other(rc["ot"]), rc["op"], rc.get("ord", "po"),
                      rc.get("form"))


def _lanes(a, axis):
    """2-D view (lanes, n) of array a along axis (None: one flattened lane)."""
    a = np.asarray(a)
    if axis is None:
        return a.reshape(1, -1)
    return np.moveaxis(a, axis, -1).reshape(-1, a.shape[axis])


def _expected_shape(fn, shape, axis):
    """NumPy's convention for the result of a reduction / sort along axis"""
    shape = tuple(shape)
    if fn in ("sort", "argsort"):
        return (int(np.prod(shape, dtype=int)),) if axis is None else shape
    if axis is None:
        return ()
    ax = axis % len(shape)
    return shape[:ax] + shape[ax + 1:]


def red_events(p, fn, form, axis, axpos=False):
    """One event per lane of the reduction fn of the phase array p *as it is
    now*.  form: method | numpy; axpos: the axis is passed positionally."""
    u, Angle, Phase = lib()
    v = p.view(np.ndarray)
    li, lf = _lanes(np.array(v["int"]), axis), _lanes(np.array(v["frac"]), axis)
    exc, r = None, None
    try:
        f = getattr(p, fn) if form == "method" else getattr(np, fn)
        args = () if form == "method" else (p,)
        r = real(f, *args, axis) if axpos else real(f, *args, axis=axis)
    except RealCodeRaised as e:
        exc = e.name
    badshape = exc is None and tuple(np.shape(r)) != _expected_shape(fn, p.shape, axis)
    evs = []
    nl, n = li.shape
    for k in range(nl):
        ev = {"ev": "red", "fn": fn, "form": form + ("-axis-positional" if axpos else ""), "im": bool(p.imaginary),
              "arr": [{"i": exact.rat(float(li[k, j])), "f": exact.rat(float(lf[k, j]))} for j in range(n)]}
        if exc is not None:
            ev["exc"] = exc
        elif badshape:
            # not along the requested axis at all: TLC files "wrong-shape"
            ev["badshape"] = [int(x) for x in np.shape(r)]
        elif fn in ("argmin", "argmax"):
            ev["idx"] = int(np.asarray(r).reshape(-1)[k])
        elif fn == "argsort":
            ev["idx"] = [int(x) for x in _lanes(np.asarray(r), axis if axis is not None else None)[k]]
        elif fn in ("min", "max", "ptp"):
            if isinstance(r, Phase):
                ev["res"] = res_elems(r, np.shape(r))[k]
            else:
                ev["res"] = {"t": type(r).__name__, "im": False, "i": RAT0, "f": RAT0}
        else:  # sort
            ev["t"] = type(r).__name__
            if isinstance(r, Phase):
                rv = r.view(np.ndarray)
                ri, rf = _lanes(rv["int"], axis), _lanes(rv["frac"], axis)
                ev["out"] = [{"i": exact.rat(float(ri[k, j])), "f": exact.rat(float(rf[k, j]))}
                             for j in range(ri.shape[1])]
            else:
                ev["out"] = []
        evs.append(ev)
    return evs


def relayout(p, layout):
    """the same kind of object in another memory layout, obtained by public views only:
    C (as built), T (transposed view), swap (first and last axis swapped), strided
    (every other element of the last axis), rev (first axis reversed), F (Fortran-ordered copy)"""
    if not layout or layout == "C" or p.ndim == 0:
        return p
    if layout == "T":
        return real(lambda: p.T)
    if layout == "swap":
        return real(lambda: p.swapaxes(0, -1))
    if layout == "strided":
        return real(lambda: p[..., ::2])
    if layout == "rev":
        return real(lambda: p[::-1])
    if layout == "F":
        return real(lambda: p.copy(order="F"))
    raise ValueError("unknown layout " + layout)


def run_red(rc):
    """rc = {"fn", "form": method|numpy, "ph": array phase, "axis": None|int, "axpos": bool, "layout"}"""
    p = relayout(make_phase(rc["ph"]), rc.get("layout"))
    axis = rc.get("axis")
    if axis is not None and not (-p.ndim <= axis < p.ndim):
        axis = -1
    evs = red_events(p, rc["fn"], rc["form"], axis, bool(rc.get("axpos")))
    for ev in evs:
        ev["layout"] = rc.get("layout") or "C"
    return evs


def _view_of(p, vw):
    """a view sharing p's memory (public indexing / reshaping only)"""
    k = vw["kind"]
    if k == "head":
        return real(lambda: p[:vw["n"]])
    if k == "tail":
        return real(lambda: p[vw["n"]:])
    if k == "step":
        return real(lambda: p[::2])
    if k == "flat":
        return real(lambda: p.reshape(-1)[vw["a"]:vw["b"]])
    if k == "ravel":
        return real(lambda: p.ravel())
    if k == "T":
        return real(lambda: p.T)
    if k == "row":
        return real(lambda: p[vw["n"] % p.shape[0]])
    if k == "col":
        return real(lambda: p[..., vw["n"] % p.shape[-1]])
    raise ValueError("unknown view " + k)


def run_hist(rc):
    """Same-object history: rc = {"ph": array phase, "steps": [...]}, steps
      {"do": "read", "what": value|cycle|int|frac}           public read-only access
      {"do": "red", "fn", "form", "axis", "axpos"}           reduction, judged on the values held now
      {"do": "cmp", "op", "form", "ot"}                      comparison with another operand, judged likewise
      {"do": "upd", "view": {...}, "op": add|sub, "ot": operand}   in-place update through a view of p
    The events of all red / cmp steps are returned in order."""
    p = relayout(make_phase(rc["ph"]), rc.get("layout"))
    evs = []
    for st in rc["steps"]:
        do = st["do"]
        if do == "read":
            real(lambda: getattr(p, st["what"]))
        elif do == "red":
            evs += red_events(p, st["fn"], st["form"], st.get("axis"), bool(st.get("axpos")))
        elif do == "cmp":
            evs += cmp_events(phase_operand(p), make_other(st["ot"]), st["op"], "po", st.get("form"))
        elif do == "upd":
            view = _view_of(p, st["view"])
            if np.size(view) and not np.shares_memory(view.view(np.ndarray), p.view(np.ndarray)):
                # reshape / ravel of a non-contiguous layout is a copy: update through a basic slice instead
                view = real(lambda: p[..., :1])
                if not np.shares_memory(view.view(np.ndarray), p.view(np.ndarray)):
                    raise AssertionError("harness: %r is not a view" % (st["view"],))
            o = make_other(st["ot"])
            real(IOPS[st["op"]], view, o.obj)
        else:
            raise ValueError("unknown step " + do)
    for ev in evs:
        ev["hist"] = True
        if ev["ev"] == "red":
            ev["layout"] = rc.get("layout") or "C"
    return evs


def _bytes(s):
    return list(str(s).encode("utf-8"))


def _ph_rec(p):
    v = p.view(np.ndarray)
    return {"i": exact.rat(float(v["int"])), "f": exact.rat(float(v["frac"])), "im": bool(p.imaginary)}


def run_from_string(rc):
    """rc = {"s": str} or {"ss": [str, ...]} (one array call).  If an array call
    raises although it is not clear which element is to blame, every element is
    recorded from its own scalar call instead (so that a failing spelling is
    never blamed on its neighbours); if all elements parse on their own, the
    array call's exception is recorded for all of them."""
    u, Angle, Phase = lib()

    def one(arg, n):
        try:
            r = real(Phase.from_string, arg)
        except RealCodeRaised as e:
            return [{"exc": e.name}] * n
        return res_elems(r, np.shape(r))

    if "ss" not in rc:
        return [{"ev": "from_string", "s": _bytes(rc["s"]), "res": one(rc["s"], 1)[0]}]
    strings = rc["ss"]
    rel = one(np.array(strings), len(strings))
    if "exc" in rel[0]:
        single = [one(s, 1)[0] for s in strings]
        if any("exc" in r for r in single):
            rel = single
    return [{"ev": "from_string", "s": _bytes(s), "arr": True, "res": rel[j]} for j, s in enumerate(strings)]


def _render(p, prec, fmt):
    if fmt:
        return format(p, ".%df" % prec)
    return str(p.to_string() if prec < 0 else p.to_string(precision=prec))


def run_to_string(rc):
    """rc = {"ph": scalar phase, "prec": int (-1 = None), "fmt": bool}"""
    p = make_phase(rc["ph"])
    ev = {"ev": "to_string", "p": _ph_rec(p), "prec": rc["prec"], "fmt": bool(rc.get("fmt"))}
    try:
        ev["s"] = _bytes(real(_render, p, rc["prec"], rc.get("fmt")))
    except RealCodeRaised as e:
        ev["exc"] = e.name
    return [ev]


def run_roundtrip(rc):
    u, Angle, Phase = lib()
    p = make_phase(rc["ph"])
    ev = {"ev": "roundtrip", "p": _ph_rec(p), "prec": rc["prec"]}
    try:
        s = real(_render, p, rc["prec"], False)
        ev["s"] = _bytes(s)
    except RealCodeRaised as e:
        ev["exc"] = e.name
        return [ev]
    try:
        ev["res"] = res_elems(real(Phase.from_string, s), ())[0]
    except RealCodeRaised as e:
        ev["res"] = {"exc": e.name}
    return [ev]


RUNNERS = {"arith": run_arith, "seq": run_seq, "trig": run_trig, "cmp": run_cmp, "red": run_red, "hist": run_hist,
           "from_string": run_from_string, "to_string": run_to_string, "roundtrip": run_roundtrip}


def execute(rc):
    """Events of one recipe.  A library exception while an operand is being
    prepared by public calls is itself an event (judged by TLC); any other
    exception is a bug of the harness and propagates (machinery error)."""
    try:
        return RUNNERS[rc["ev"]](rc)
    except ConstructFailed as c:
        return [dict(c.event, stage=rc["ev"] + ":" + str(rc.get("op") or rc.get("fn") or ""))]
    except RealCodeRaised as e:
        return [{"ev": "construct", "stage": rc["ev"] + ":" + str(rc.get("op") or rc.get("fn") or ""), "exc": e.name}]


# ------------------------------------------------------- recipes -> verdicts
def record(recipes):
    """Execute all recipes; returns the events, each with id "<recipe>.<element>"."""
    events = []
    for ri, rc in enumerate(recipes):
        for ei, ev in enumerate(execute(rc)):
            ev["id"] = "%d.%d" % (ri, ei)
            events.append(ev)
    return events


def split_failed(failed):
    """-> (violated clauses, soft clauses ("~...": out of scope / ambiguous))"""
    hard = sorted(f for f in failed if not f.startswith("~"))
    soft = sorted(f for f in failed if f.startswith("~"))
    return hard, soft


def _flag(x):
    return "i" if x.get("im") else "r"


def string_class(s):
    """spelling class of a decimal string (for violation keys)."""
    t = s.strip().lower().replace("d", "e")
    feats = []
    if t.endswith("j"):
        t = t[:-1]
        feats.append("j")
    t = t.lstrip("+-")
    mant, e, ex = t.partition("e")
    ip, dot, fp = mant.partition(".")
    if not dot:
        feats.append("no-dot")
    if dot and ip == "":
        feats.append("empty-int")
    elif ip.strip("0") == "":
        feats.append("zero-int")
    if dot and fp.strip("0") == "":
        feats.append("zero-frac")
    if e:
        feats.append("exp-" if ex.startswith("-") else "exp+")
    return "+".join(sorted(feats)) or "plain"


def violation_key(ev, clauses):
    """stable identifier of the failing input class."""
    c = "+".join(clauses)
    k = ev["ev"]
    exc = ev.get("exc")
    if not exc and isinstance(ev.get("res"), dict):
        exc = ev["res"].get("exc")
    if exc:
        c += ":" + exc
    if k in ("arith", "divmod"):
        flags = _flag(ev["l"]) + (_flag(ev["r"]) if "r" in ev else "")
        if ev.get("construct"):
            return "construct[%s]:%s:%s" % (flags, ev["other"], c)
        form = ev.get("form", "op")
        return "%s[%s]:%s:%s:%s" % (ev["op"], flags, ev["other"], ev["ord"] + ("" if form == "op" else "/" + form), c)
    if k == "construct":
        return "construct:%s:%s" % (ev.get("stage", ""), c)
    if k == "trig":
        return "%s:%s" % (ev["fn"], c)
    if k == "cmp":
        form = ev.get("form", "operator")
        return "cmp:%s[%s%s]:%s:%s:%s" % (ev["op"], _flag(ev["l"]), _flag(ev["r"]), ev["other"],
                                          ev["ord"] + ("" if form == "operator" else "/" + form), c)
    if k == "red":
        lay = ev.get("layout", "C")
        return "%s:%s%s%s:%s" % (ev["fn"], ev["form"], "" if lay == "C" else "/layout=" + lay,
                                 "/after-in-place-update-through-a-view" if ev.get("hist") else "", c)
    if k == "from_string":
        # coarse class (imaginary?, decimal point present?); the exact spelling class is in the description
        cl = string_class(bytes(ev["s"]).decode()).split("+")
        return "from_string:%s:%s:%s" % ("imaginary" if "j" in cl else "real",
                                         "no-dot" if "no-dot" in cl else "dot", c)
    if k in ("to_string", "roundtrip"):
        p = ev["prec"]
        pc = "default" if p < 0 else ("precision=%d" % p if p < 2 else "precision>=2")
        name = "format" if ev.get("fmt") else k
        return "%s:%s:%s" % (name, pc, c)
    return k + ":" + c


def describe(ev, clauses):
    def val(x):
        if "v" in x:
            return "+".join(repr(float(exact.unrat(p))) for p in x["v"]) + ("j" if x["im"] else "")
        return "(%r, %r)%s" % (float(exact.unrat(x["i"])), float(exact.unrat(x["f"])), "j" if x.get("im") else "")
    k = ev["ev"]
    res = ev.get("res")
    if isinstance(res, dict):
        rs = res.get("exc") or "%s%s" % (res["t"], val(res) if res["t"] == "Phase" else "")
    else:
        rs = ev.get("exc", res)
    if k in ("arith", "divmod", "cmp"):
        s = "%s %s %s [%s operand: %s%s] -> %s" % (val(ev["l"]), ev["op"], val(ev["r"]) if "r" in ev else "",
                                                    ev["ord"], ev["other"],
                                                    {"iop": ", in-place operator", "out": ", out= separate target",
                                                     "outself": ", out= the phase operand itself",
                                                     "outdiv": ", out= the other (Phase) operand"}.get(ev.get("form"), ""), rs)
        if ev.get("construct"):
            s = "while preparing operands for %s: Phase(%s, %s) -> %s" % (ev.get("stage"), val(ev["l"]), val(ev["r"]), rs)
        if "q" in ev:
            s += " q=%r" % float(exact.unrat(ev["q"]))
    elif k == "red":
        s = "%s.%s of %d phases -> %s" % (ev["form"], ev["fn"], len(ev["arr"]), ev.get("idx", rs))
    elif k == "from_string":
        t = bytes(ev["s"]).decode()
        s = "from_string(%r)%s [spelling: %s] -> %s" % (t, " in an array call" if ev.get("arr") else "", string_class(t), rs)
    elif k in ("to_string", "roundtrip"):
        s = "%s(%s, precision=%s) -> %r" % (("format" if ev.get("fmt") else k), val(ev["p"]),
                                            ev["prec"] if ev["prec"] >= 0 else None,
                                            bytes(ev["s"]).decode() if "s" in ev else ev.get("exc"))
        if k == "roundtrip":
            s += " -> " + str(rs)
    elif k == "construct":
        s = "public call while preparing %s raised %s" % (ev.get("stage"), ev.get("exc"))
    else:
        s = "%s %s%s" % (k, ev.get("fn", ""), (" raised " + ev["exc"]) if ev.get("exc") else "")
    return s + "; violated: " + ", ".join(clauses)


def pvalidate(events, chk=None, name="trace", batch=400, procs=None, timeout=1500):
    """trace_util.validate, but the batches are judged by several TLC processes
    at once (one worker each; an event costs 20-60 ms of BigInt arithmetic).
    Returns (rejected, nvalidated) like trace_util.validate."""
    import concurrent.futures as cf
    import json
    import os
    import tlc
    import trace_util
    procs = procs or max(1, min(14, (os.cpu_count() or 4) - 2))
    os.makedirs(trace_util.SCR, exist_ok=True)
    # round-robin: expensive kinds of events (divisions, denormals, trig) spread evenly
    nch = max(1, -(-len(events) // batch))
    chunks = [(k, events[k::nch]) for k in range(nch)]

    def one(job):
        b0, part = job
        tf = os.path.join(trace_util.SCR, "Trace_Phase_%s_%d_%d.trace.json" % (name, os.getpid(), b0))
        vf = tf.replace(".trace.json", ".verdict.ndjson")
        with open(tf, "w") as f:
            json.dump(part, f)
        if os.path.exists(vf):
            os.remove(vf)
        try:
            r = tlc.run("Trace_Phase", "Trace_Phase.cfg", workers=1, timeout=timeout, heap="2g",
                        env={"TRACE_FILE": tf, "VERDICT_FILE": vf})
            rej, summary = [], None
            if os.path.exists(vf):
                for line in open(vf):
                    line = line.strip()
                    if not line:
                        continue
                    v = json.loads(line)
                    if isinstance(v, str):
                        v = json.loads(v)
                    if v.get("summary"):
                        summary = v
                    else:
                        rej.append((part[v["line"] - 1], v["failed"]))
            if not r.ok or summary is None or summary["events"] != len(part):
                raise tlc.TLCError("trace validation did not consume the whole trace (Trace_Phase %s[%d..)):\n%s"
                                   % (name, b0, r.stdout[-3000:]))
            return b0, len(part), r, rej
        finally:
            for fn in (tf, vf):
                if os.path.exists(fn):
                    os.remove(fn)

    rejected, done = [], 0
    with cf.ThreadPoolExecutor(max_workers=procs) as ex:
        for b0, n, r, rej in sorted(ex.map(one, chunks), key=lambda t: t[0]):
            if chk is not None:
                chk.add_tlc("trace:%s[part %d: %d events]" % (name, b0, n), r)
            rejected += rej
            done += n
    return rejected, done


def validate(chk, recipes, name, batch=400, procs=None):
    """Record events from the real code, let TLC judge them, file violations.
    Returns (events, rejected)."""
    events = record(recipes)
    rejected, n = pvalidate(events, chk=chk, name=name, batch=batch, procs=procs)
    chk.validated += n
    cnt = chk.notes.setdefault("events_by_kind", {})
    for ev in events:
        k = ev["ev"] + ":" + str(ev.get("op") or ev.get("fn") or "")
        cnt[k] = cnt.get(k, 0) + 1
    soft_cnt = chk.notes.setdefault("not_judged", {})
    for ev, failed in rejected:
        hard, soft = split_failed(failed)
        for s in soft:
            soft_cnt[s] = soft_cnt.get(s, 0) + 1
        if hard:
            ri = int(ev["id"].split(".")[0])
            chk.violation(violation_key(ev, hard), describe(ev, hard),
                          {"kind": "phase-recipe", "recipe": recipes[ri], "element": ev["id"].split(".")[1]})
    return events, rejected


def replay_case(doc):
    """Re-execute the recipe of a violation on the real code and let TLC judge it again."""
    rc = doc["case"]["recipe"]
    events = record([rc])
    rejected, n = pvalidate(events, name="replay", procs=1, batch=100000)
    bad = 0
    for ev, failed in rejected:
        hard, soft = split_failed(failed)
        if hard:
            bad += 1
            print("VIOLATION property=%s replay=(this case)  # %s: %s"
                  % (doc["property"], violation_key(ev, hard), describe(ev, hard)))
    if not bad:
        print("case passes (%d event(s) accepted by Trace_Phase)" % n)
    return 1 if bad else 0
