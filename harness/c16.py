"""C16 - every signal object satisfies its class contract; copies reproduce it
(spec/Contract.tla: constructor catalogue; spec/Pipeline.tla: every operation's result)."""
import copy
import os
import pickle
import random

import numpy as np

import tlc
import framework
import c01

SCR = os.path.join(framework.ROOT, ".scratch")


def values():
    import common
    from common import u, Time
    return {
        "rate": {"MHz1": 1 * u.MHz, "kHz250": 250 * u.kHz, "GHz2": 2 * u.GHz, "mHz1": 1 * u.mHz, "zero": 0 * u.Hz,
                 "neg": -1 * u.MHz, "sec": 1 * u.s, "float": 1e6, "array": [1, 2] * u.MHz, "dimless": 5 * u.one,
                 "array1": np.array([5.0]) * u.MHz, "array11": np.array([[5.0]]) * u.MHz,
                 "none": None, "nan": float("nan") * u.Hz, "inf": float("inf") * u.Hz},
        "cf": {"GHz1": 1 * u.GHz, "zero": 0 * u.Hz, "neg": -1 * u.GHz, "kHz5": 5 * u.kHz, "sec": 1 * u.s,
               "float": 1e9, "array": [1, 2] * u.GHz, "array1": np.array([1.0]) * u.GHz, "none": None,
               "nan": float("nan") * u.Hz},
        "start": {"none": None, "time": Time("2021-03-04T05:06:07.123456789", format="isot", precision=9),
                  "time_mjd": Time(59000.5, format="mjd"), "isot_str": "2020-01-01T00:00:00",
                  "time_tai": Time("2021-03-04T05:06:07.5", format="isot", scale="tai"),
                  "time_subns": Time("2021-03-04T05:06:07", format="isot", precision=9) + (1 / 3) * u.ns,
                  "time_array1": Time([59000.5], format="mjd"),
                  "time_array_isot9": Time(["2021-03-04T05:06:07", "2021-03-04T05:06:08"], format="isot", precision=9),
                  "time_array1_isot9": Time(["2021-03-04T05:06:07"], format="isot", precision=9),
                  "time_tcb": Time("2019-05-06T07:08:09.25", format="isot", scale="tcb", precision=9),
                  "float": 59867.2442234, "time_array": Time([59000.5, 59001.5], format="mjd"),
                  "garbage": "hello", "list": [1, 2]},
        "meta": {"none": None, "dict": {"a": 1, "b": {"c": [1, 2]}}, "empty": {}, "pairs": [("a", 1)], "int": 5,
                 "mappingproxy": __import__("types").MappingProxyType({"a": 1, "b": [1, 2]}),
                 "ordered": __import__("collections").OrderedDict([("z", 1), ("a", 2)]),
                 "string": "ab", "list_ints": [1, 2, 3]},
        "align": {"bottom": "bottom", "center": "center", "top": "top", "middle": "middle", "none": None, "one": 1,
                  "upper": "TOP", "arr0d": np.array("center"), "list1": ["center"], "anyeq": __import__("unittest.mock").mock.ANY},
        "pol": {"linear": "linear", "circular": "circular", "elliptical": "elliptical", "none": None, "xy": "XY",
                "arr0d": np.array("circular"), "list1": ["linear"], "anyeq": __import__("unittest.mock").mock.ANY},
    }


def make_data(shape, dtype, dask):
    import dask.array as da
    n = int(np.prod(shape)) if len(shape) else 1
    if dtype == "str":
        a = np.array(["a"] * n).reshape(shape)
    elif dtype == "object":
        a = np.empty(shape, dtype=object)
        a[...] = 1
    else:
        npdt = {"bf4": ">f4", "bf8": ">f8", "bc8": ">c8", "bc16": ">c16"}.get(dtype, dtype)
        a = (np.arange(n) % 5 + 1).reshape(shape).astype(npdt)
    if dask and dtype not in ("str", "object") and len(shape) > 0:
        return da.from_array(a, chunks=tuple(max(1, s) for s in shape))
    return a


def _fresh_meta(m):
    import types
    if isinstance(m, types.MappingProxyType):
        return types.MappingProxyType(copy.deepcopy(dict(m)))
    return copy.deepcopy(m)


def kwargs_for(a, V):
    import common
    kw = {"sample_rate": V["rate"][a["rate"]], "start_time": V["start"][a["start"]],
          "meta": _fresh_meta(V["meta"][a["meta"]])}
    c = a["cls"]
    if c != "Signal":
        kw["center_freq"] = V["cf"][a["cf"]]
        kw["freq_align"] = V["align"][a["align"]]
    if c in ("RadioSignal", "IntensitySignal", "FullStokesSignal"):
        kw["chan_bw"] = V["rate"][a["cbw"]]
    if c == "DualPolarizationSignal":
        kw["pol_type"] = V["pol"][a["pol"]]
    return kw


def same_q(a, b):
    """two Quantities / Times / plain values identical in value and unit"""
    import common
    from common import u, Time
    if a is None or b is None:
        return a is None and b is None
    if isinstance(a, Time) or isinstance(b, Time):
        return isinstance(a, Time) and isinstance(b, Time) and a.scale == b.scale and \
            common.time_days(a) == common.time_days(b)
    if isinstance(a, u.Quantity):
        return isinstance(b, u.Quantity) and a.unit == b.unit and np.array_equal(a.value, b.value)
    return a == b


ATTRS = ("sample_rate", "start_time", "center_freq", "chan_bw", "freq_align", "pol_type")


def attrs_equal(x, y, what):
    import common
    bad = []
    if type(x) is not type(y):
        bad.append("%s: type %s != %s" % (what, type(y).__name__, type(x).__name__))
    for at in ATTRS:
        if hasattr(x, at) or hasattr(y, at):
            if not same_q(getattr(x, at, "missing"), getattr(y, at, "missing")):
                bad.append("%s: %s %r != %r" % (what, at, getattr(y, at, "missing"), getattr(x, at, "missing")))
    if x.meta != y.meta:
        bad.append("%s: meta %r != %r" % (what, y.meta, x.meta))
    # byte order is a property of the container, not of the values (NumPy itself normalises it when it
    # pickles some arrays): dtypes are compared modulo byte order
    if x.shape != y.shape or x.dtype.newbyteorder("=") != y.dtype.newbyteorder("="):
        bad.append("%s: shape/dtype %r %r != %r %r" % (what, y.shape, y.dtype, x.shape, x.dtype))
    elif not np.array_equal(common.materialise(x), common.materialise(y)):
        bad.append("%s: data differ" % what)
    return bad


def check_case(case, V, dask, chk, catalog, setters=True):
    """Replay one constructor case; returns list of (key, desc)."""
    import common
    import cloudpickle
    import dask.array as da
    a, expect, ob = case["args"], case["expect"], case["obj"]
    out = []
    cls = common.CLASSES[a["cls"]]
    try:
        z = make_data(tuple(a["shape"]), a["dtype"], dask)
    except Exception:
        return out, False
    kw = kwargs_for(a, V)
    desc = "%s(shape=%s, dtype=%s, %s)" % (a["cls"], tuple(a["shape"]), a["dtype"],
                                           ", ".join("%s=%s" % (k, a[k]) for k in ("rate", "start", "meta", "cf", "cbw", "align", "pol")))
    try:
        s = cls(z, **kw)
        err = None
    except Exception as e:  # noqa
        s, err = None, e
    if err is not None:
        if expect == "ok":
            out.append(("construct:refused-valid", "%s refused a valid call: %r" % (desc, err)))
        elif not isinstance(err, ValueError):
            out.append(("construct:wrong-exception:%s" % type(err).__name__,
                        "%s raised %r instead of ValueError" % (desc, err)))
        return out, True
    if expect == "err":
        out.append(("construct:accepted-invalid", "%s was accepted: %r (contract: %s)" % (desc, s, common.contract(s))))
        return out, True
    bad = common.contract(s)
    if bad:
        out.append(("construct:contract", "%s built an object violating the contract: %s" % (desc, bad)))
        return out, True
    if expect != "ok":
        return out, True
    # attributes are what was given
    spec_dt = {"bf4": ">f4", "bf8": ">f8", "bc8": ">c8", "bc16": ">c16"}.get(ob["dtype"], ob["dtype"])
    if a["dtype"] not in ("str", "object") and s.dtype != np.dtype(spec_dt):
        out.append(("construct:dtype", "%s: dtype %s, spec says %s" % (desc, s.dtype, ob["dtype"])))
    if tuple(s.shape) != tuple(a["shape"]):
        out.append(("construct:shape", "%s: shape %s" % (desc, s.shape)))
    if a["dtype"] not in ("str", "object") and not np.array_equal(common.materialise(s), np.asarray(make_data(tuple(a["shape"]), a["dtype"], False)).astype(s.dtype)):
        out.append(("construct:data", "%s: data changed by construction" % desc))
    if not same_q(s.sample_rate, kw["sample_rate"]):
        out.append(("construct:sample_rate", "%s: sample_rate %r" % (desc, s.sample_rate)))
    if not same_q(s.start_time, kw["start_time"]):
        out.append(("construct:start_time", "%s: start_time %r" % (desc, s.start_time)))
    if s.meta != (None if kw["meta"] is None else dict(kw["meta"])):
        out.append(("construct:meta", "%s: meta %r" % (desc, s.meta)))
    if a["cls"] != "Signal":
        if not same_q(s.center_freq, kw["center_freq"]):
            out.append(("construct:center_freq", "%s: center_freq %r" % (desc, s.center_freq)))
        exp_cbw = kw["sample_rate"] if a["cls"] in ("BasebandSignal", "DualPolarizationSignal") else kw["chan_bw"]
        if not same_q(s.chan_bw, exp_cbw):
            out.append(("construct:chan_bw", "%s: chan_bw %r, expected %r" % (desc, s.chan_bw, exp_cbw)))
        if s.freq_align != ob["align"]:
            out.append(("construct:freq_align", "%s: freq_align %r, spec says %r" % (desc, s.freq_align, ob["align"])))
    if a["cls"] == "DualPolarizationSignal" and s.pol_type != kw["pol_type"]:
        out.append(("construct:pol_type", "%s: pol_type %r" % (desc, s.pol_type)))
    if out:
        return out, True
    # copies reproduce everything
    copies = [("like", lambda: type(s).like(s)), ("like(data)", lambda: type(s).like(s, s.data)),
              ("pickle", lambda: pickle.loads(pickle.dumps(s))),
              ("cloudpickle", lambda: cloudpickle.loads(cloudpickle.dumps(s))),
              ("to_dask_array", lambda: s.to_dask_array()), ("compute", lambda: s.compute()),
              ("persist", lambda: s.persist()), ("rechunk", lambda: s.rechunk()),
              ("to_dask.compute", lambda: s.to_dask_array().compute(scheduler="synchronous"))]
    if a["dtype"] in ("str", "object"):
        copies = copies[:4]
    for name, f in copies:
        try:
            c2 = f()
        except Exception as e:  # noqa
            out.append(("copy:%s:raised" % name, "%s of %s raised %r" % (name, desc, e)))
            continue
        out += [("copy:%s" % name, m) for m in attrs_equal(s, c2, name + " of " + desc)]
        cb = common.contract(c2)
        if cb:
            out.append(("copy:%s:contract" % name, "%s of %s violates contract %s" % (name, desc, cb)))
        if name in ("to_dask_array", "rechunk", "persist") and not (isinstance(c2.data, da.Array) or (name == "persist" and not dask)):
            out.append(("copy:%s:container" % name, "%s did not return a Dask-backed signal" % name))
        if name in ("compute", "to_dask.compute") and not isinstance(c2.data, np.ndarray):
            out.append(("copy:%s:container" % name, "%s did not return a NumPy-backed signal" % name))
    # a zoo of library operations on the object: whatever they return must satisfy the contract
    if setters:
        out += zoo(s, desc)
    # assignment: every kind of every settable attribute
    for f, attr in () if not setters else (("rate", "sample_rate"), ("start", "start_time"), ("meta", "meta"), ("cf", "center_freq"),
                    ("cbw", "chan_bw"), ("align", "freq_align"), ("pol", "pol_type")):
        if not hasattr(s, attr):
            continue
        for k, verdict in catalog[f].items():
            if a["cls"] in ("BasebandSignal", "DualPolarizationSignal") and f in ("rate", "cbw"):
                continue        # assigning one of the two would break chan_bw == sample_rate by design
            t = type(s).like(s)
            before = common.snapshot(t)
            try:
                setattr(t, attr, _fresh_meta(V["rate" if f == "cbw" else f][k]))
                e2 = None
            except Exception as e:  # noqa
                e2 = e
            if e2 is None and verdict == "err":
                out.append(("assign:%s:accepted-invalid" % attr, "%s.%s = <%s> was accepted" % (a["cls"], attr, k)))
            elif e2 is not None and verdict == "ok":
                out.append(("assign:%s:refused-valid" % attr, "%s.%s = <%s> raised %r" % (a["cls"], attr, k, e2)))
            elif e2 is not None and not isinstance(e2, ValueError):
                out.append(("assign:%s:wrong-exception" % attr, "%s.%s = <%s> raised %r" % (a["cls"], attr, k, e2)))
            if e2 is not None and common.snap_diff(before, common.snapshot(t)):
                out.append(("assign:%s:partial" % attr, "refused assignment %s.%s = <%s> still changed the object" % (a["cls"], attr, k)))
            if e2 is None:
                cb = common.contract(t)
                if cb and verdict != "err":
                    out.append(("assign:%s:contract" % attr, "after %s.%s = <%s>: %s" % (a["cls"], attr, k, cb)))
    return out, True


def zoo(s, desc):
    """Elementwise / conversion / transform operations on a valid object: every Signal they return must
    satisfy its class contract (exceptions are refusals and fine)."""
    import common
    from common import pb, u
    out = []
    ops = [("np.abs", lambda z: np.abs(z)), ("np.isfinite", lambda z: np.isfinite(z)), ("z > 0", lambda z: z > 0),
           ("z == z", lambda z: z == z), ("np.real", lambda z: np.real(z.data) if False else np.negative(z)),
           ("np.angle-like arctan2", lambda z: np.arctan2(z, z)), ("z * 2", lambda z: z * 2), ("z * 2j", lambda z: z * 2j),
           ("z / 3", lambda z: z / 3), ("z // 2", lambda z: z // 2), ("np.sqrt", lambda z: np.sqrt(z)),
           ("np.conj", lambda z: np.conj(z)), ("np.floor", lambda z: np.floor(z)), ("np.modf", lambda z: np.modf(z)),
           ("z.astype-like positive", lambda z: np.positive(z)), ("np.signbit", lambda z: np.signbit(z)),
           ("z[1:2]", lambda z: z[1:2]), ("z[::2]", lambda z: z[::2]), ("z[::3, :1]", lambda z: z[::3, :1]),
           ("time_shift", lambda z: pb.time_shift(z, 0.5)), ("time_shift crop", lambda z: pb.time_shift(z, -1.5, crop=True)),
           ("snippet", lambda z: pb.snippet(z, 0.5, 1)), ("fast_len", lambda z: pb.fast_len(z)),
           ("concatenate", lambda z: pb.concatenate([z, type(z).like(z, start_time=None)])),
           ("freq_shift", lambda z: pb.freq_shift(z, 1 * u.kHz)),
           ("coherent_dd", lambda z: pb.coherent_dedispersion(z, pb.DM(1e-6))),
           ("incoherent_dd", lambda z: pb.incoherent_dedispersion(z, pb.DM(1e-6))),
           ("to_intensity", lambda z: z.to_intensity()), ("to_stokes", lambda z: z.to_stokes()),
           ("to_circular", lambda z: z.to_circular()), ("to_linear", lambda z: z.to_circular().to_linear()),
           ("stokes Q", lambda z: z["Q"]), ("stft", lambda z: pb.contrib.stft(z, nperseg=1)),
           ("stft3", lambda z: pb.contrib.stft(z, nperseg=3)),
           ("istft", lambda z: pb.contrib.istft(pb.contrib.stft(z, nperseg=3), nperseg=3)),
           ("like rate", lambda z: type(z).like(z, sample_rate=z.sample_rate / 4))]
    for name, f in ops:
        try:
            r = f(s)
        except Exception:
            continue
        for x in (r if isinstance(r, tuple) else (r,)):
            if isinstance(x, pb.Signal):
                bad = common.contract(x)
                if bad:
                    out.append(("operation:%s:contract" % name, "%s applied to %s returned %r violating the contract: %s"
                                % (name, desc, x, bad)))
    return out


def unknown_shape_cases(cases, V):
    """Dask arrays whose axis lengths are unknown (NaN) until computed (a lazy boolean mask along one axis).
    The verdict is the specification's verdict on the TRUE shape (looked up among the generated cases whose only
    deviation is the shape): a true shape the class refuses must never yield an object; for a valid true shape
    refusing the unknown length is as good as accepting it, but an accepted object must satisfy the contract
    once computed."""
    import common
    import dask.array as da
    verdict = {}
    base = {}
    for c in cases:
        a = c["args"]
        verdict.setdefault((a["cls"], tuple(a["shape"])), []).append(c)
    out, n = [], 0
    for (cls, shape), cs in sorted(verdict.items()):
        # the case with the fewest deviations carries the verdict of the shape alone
        c = min(cs, key=lambda c: sum(1 for k, v in c["args"].items() if k in ("rate", "start", "meta", "cf", "cbw", "align", "pol")
                                      and v not in ("MHz1", "time", "dict", "GHz1", "kHz250", "center", "linear")))
        a = c["args"]
        if any(a[k] != v for k, v in (("rate", "MHz1"), ("start", "time"), ("meta", "dict"))) or len(shape) < 1:
            continue
        if a["dtype"] not in ("float64", "complex128"):
            continue
        req = {"Signal": 1, "RadioSignal": 2, "IntensitySignal": 2, "BasebandSignal": 2, "FullStokesSignal": 3,
               "DualPolarizationSignal": 3}[cls]
        # (only the class's required axes: the length of a further sample axis cannot be known without computing,
        # so what the constructor does with it is not fixed by the property)
        for ax in range(min(req, len(shape))):
            big = list(shape)
            big[ax] = shape[ax] + 2
            raw = da.from_array(make_data(tuple(big), a["dtype"], False), chunks=tuple(max(1, x) for x in big))
            keep = np.zeros(big[ax], bool)
            keep[:shape[ax]] = True
            ix = [slice(None)] * len(shape)
            ix[ax] = da.from_array(keep, chunks=(big[ax],))
            x = raw[tuple(ix)]                           # shape[ax] is NaN until computed
            kw = kwargs_for(a, V)
            desc = "%s(dask data of true shape %s, axis %d of unknown length)" % (cls, shape, ax)
            n += 1
            try:
                obj = common.CLASSES[cls](x, **kw)
            except Exception as e:  # noqa
                continue
            if c["expect"] == "err":
                out.append(("construct:accepted-invalid:unknown-length", desc + " was accepted: %r" % (obj,),
                            {"kind": "unknown-shape", "cls": cls, "shape": list(shape), "ax": ax}))
                continue
            try:
                y = common.CLASSES[cls](np.asarray(obj.data.compute()), **kwargs_for(a, V))
                bad = common.contract(y)
            except Exception as e:  # noqa
                bad = ["computed data refused by the class: %r" % (e,)]
            if bad and c["expect"] != "either":
                out.append(("construct:unknown-length:contract", desc + ": %s" % bad,
                            {"kind": "unknown-shape", "cls": cls, "shape": list(shape), "ax": ax}))
    return out, n


def first_likes(chk):
    import common
    from common import pb, u, Time
    n = 0
    t0 = Time("2021-03-04T05:06:07", format="isot", precision=9)
    plain = pb.Signal(np.ones((4, 2, 2)), sample_rate=1 * u.MHz, start_time=t0, meta={"a": 1})
    plainc = pb.Signal(np.ones((4, 2, 2), complex), sample_rate=1 * u.MHz, start_time=t0, meta={"a": 1})
    plain4 = pb.Signal(np.ones((4, 2, 4)), sample_rate=1 * u.MHz)
    radio = pb.RadioSignal(np.ones((4, 2, 2)), sample_rate=1 * u.MHz, center_freq=1 * u.GHz, chan_bw=1 * u.MHz, freq_align="top")
    tries = [(pb.RadioSignal, plain, dict(center_freq=1 * u.GHz, chan_bw=1 * u.MHz)),
             (pb.IntensitySignal, plain, dict(center_freq=1 * u.GHz, chan_bw=1 * u.MHz)),
             (pb.FullStokesSignal, plain4, dict(center_freq=1 * u.GHz, chan_bw=1 * u.MHz)),
             (pb.BasebandSignal, plainc, dict(center_freq=1 * u.GHz)),
             (pb.DualPolarizationSignal, plainc, dict(center_freq=1 * u.GHz, pol_type="linear")),
             (pb.IntensitySignal, radio, {}), (pb.Signal, radio, {})]
    for cls, ref, kw in tries:
        try:
            r = cls.like(ref, **kw)
        except Exception:  # noqa  (a refusal is fine here; the point is the order of calls)
            continue
        n += 1
        bad = common.contract(r)
        if bad:
            chk.violation("like:cross-class:contract", "%s.like(%s) violates the contract: %s" % (cls.__name__, type(ref).__name__, bad),
                          {"kind": "first-likes", "cls": cls.__name__})
    # and straight afterwards: copies of even-channel signals with every alignment keep it
    for cls, dt in ((pb.RadioSignal, float), (pb.IntensitySignal, float), (pb.BasebandSignal, complex)):
        for al in ("bottom", "top", "center"):
            kw = dict(sample_rate=1 * u.MHz, center_freq=1 * u.GHz, freq_align=al, start_time=t0)
            if cls is not pb.BasebandSignal:
                kw["chan_bw"] = 1 * u.MHz
            z = cls(np.ones((4, 2), dt), **kw)
            for nm, y in (("like", cls.like(z)), ("slice", z[1:]), ("ufunc", z * 2), ("pickle", pickle.loads(pickle.dumps(z)))):
                n += 1
                if y.freq_align != al or common.hz(y.channel_freqs) != common.hz(z.channel_freqs):
                    chk.violation("copy:freq_align:after-cross-class-like", "%s of a %s with freq_align=%r has freq_align=%r"
                                  % (nm, cls.__name__, al, y.freq_align), {"kind": "first-likes", "cls": cls.__name__, "align": al})
    chk.validated += n


def load_cases(path):
    import json
    cases, catalog = [], None
    for line in open(path):
        line = line.strip()
        if not line:
            continue
        d = json.loads(line)
        if isinstance(d, str):
            d = json.loads(d)
        if "catalog" in d:
            catalog = d["catalog"]
        else:
            cases.append(d)
    return cases, catalog


def run(chk):
    rnd = random.Random(chk.seed)
    thorough = chk.tier == "thorough"
    # call order: the first copies this process makes are cross-class like() calls from LESS specific references
    # (a plain Signal / RadioSignal as the reference of a more specific class); every later copy of the catalogue
    # must still reproduce every attribute (anything remembered per class from the first reference is exposed)
    first_likes(chk)
    r = tlc.run("Contract", "MC_Contract_full.cfg" if thorough else "MC_Contract.cfg", timeout=1800)
    chk.mc_must_hold("MC_Contract", r)
    chk.exhaustive = r.ok
    os.makedirs(SCR, exist_ok=True)
    out = os.path.join(SCR, "C16_gen_%d.ndjson" % os.getpid())
    if os.path.exists(out):
        os.remove(out)
    r = tlc.run("Gen_Contract", "Gen_Contract.cfg", env={"GEN_OUT": out}, timeout=1800)
    chk.add_tlc("Gen_Contract", r)
    cases, catalog = load_cases(out)
    os.remove(out)
    if catalog is None:
        chk.machinery_errors.append("catalog not emitted")
        return
    V = values()
    # every single-deviation case and every all-valid case; pairs sampled in quick
    def nmut(c):
        import json
        return sum(1 for _ in [0])
    full = [c for c in cases if c["expect"] == "ok"]
    rest = [c for c in cases if c["expect"] != "ok"]
    if not thorough and len(rest) > 2500:
        rest = rnd.sample(rest, 2500)
    if not thorough and len(full) > 300:
        full = rnd.sample(full, 300)
    n = 0
    seen_cls = set()
    for i, case in enumerate(full + rest):
        for dask in ((False, True) if (thorough or i % 4 == 0) else (False,)):
            first = (case["args"]["cls"], dask) not in seen_cls and case["expect"] == "ok"
            if first:
                seen_cls.add((case["args"]["cls"], dask))
            res, ran = check_case(case, V, dask, chk, catalog, setters=first or (thorough and i % 10 == 0))
            n += ran
            for key, desc in res:
                chk.violation(key, desc, {"kind": "contract", "case": case, "dask": dask})
        if i < 3:
            chk.sample({"args": case["args"], "expect": case["expect"]})
    res, m = unknown_shape_cases(cases, V)
    for key, desc, case in res:
        chk.violation(key, desc, case)
    chk.notes["unknown_length_axes"] = m
    chk.validated += n + m
    chk.notes["constructor_cases"] = n
    chk.notes["catalogue_sizes"] = {k: len(v) for k, v in catalog.items()}
    if thorough:
        import suite
        ev = suite.trace_suite(chk)
        if ev:
            chk.notes["suite_results_contract_checked"] = suite.validate_contract(chk, ev)
    # every signal produced by library operations satisfies the contract
    c01.run_pipeline(chk, want=("C16",), mc=None, quick_cases=700, full_cases=30000, nconc=(2, 6))
    chk.assumptions.append("constructor arguments are drawn from the catalogue of kinds in spec/Contract.tla; "
                           "kinds marked 'either' (inf rate, nan centre frequency, ISO string start, list-of-pairs meta) "
                           "are not fixed by the property")


def replay(doc):
    c = doc["case"]
    if c.get("kind") == "pipeline":
        return c01.replay(doc)
    if c.get("kind") == "first-likes":
        class Col:
            validated = 0
            found = []

            def violation(self, key, desc, case):
                self.found.append((key, desc))
        col = Col()
        first_likes(col)
        for key, desc in col.found:
            print("VIOLATION property=C16 replay=(this case)  # %s: %s" % (key, desc))
        if not col.found:
            print("case passes")
        return 1 if col.found else 0
    import json
    V = values()
    out = os.path.join(SCR, "C16_replay_%d.ndjson" % os.getpid())
    r = tlc.run("Gen_Contract", "Gen_Contract.cfg", env={"GEN_OUT": out}, timeout=600)
    allcases, catalog = load_cases(out)
    os.remove(out)
    if c.get("kind") == "unknown-shape":
        res, _ = unknown_shape_cases(allcases, V)
        res = [r for r in res if r[2] == c]
        for key, desc, _ in res:
            print("VIOLATION property=C16 replay=(this case)  # %s: %s" % (key, desc))
        if not res:
            print("case passes")
        return 1 if res else 0

    class Dummy:
        pass
    res, _ = check_case(c["case"], V, c["dask"], Dummy(), catalog)
    for key, desc in res:
        print("VIOLATION property=C16 replay=(this case)  # %s: %s" % (key, desc))
    if not res:
        print("case passes")
    return 1 if res else 0
