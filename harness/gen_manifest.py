"""Writes MANIFEST.json from the table below (run by hand after adding a check)."""
import json
import os

ROOT = os.path.dirname(os.path.dirname(os.path.abspath(__file__)))

# pid -> (technique, level text, level note, design ref)
CHECKS = {}
NA = {}


def load():
    import importlib.util
    spec = importlib.util.spec_from_file_location("manifest_table", os.path.join(ROOT, "harness", "manifest_table.py"))
    m = importlib.util.module_from_spec(spec)
    spec.loader.exec_module(m)
    return m.CHECKS, m.NA


def main():
    checks, na = load()
    props = [json.loads(l)["id"] for l in open(os.path.join(ROOT, "properties.jsonl"))]
    out = {
        "version": 1,
        "setup_cmd": "./check --setup",
        "hooks": {
            "guard": "PULSARBAT_VERIF_TRACE",
            "enable": "instrumentation is external: harness/tracer.py wraps pulsarbat's public API from outside when PULSARBAT_VERIF_TRACE=1 (set by ./check); no guarded source change exists in /repo",
            "baseline_off_cmd": "cd /repo && /venv/bin/python -m pytest -ra -q -p no:cacheprovider --timeout=900 --continue-on-collection-errors",
            "source_commits": [],
            "add_only": True,
        },
        "engines": [
            {"name": "tlc", "path": "spec/", "serves_properties": sorted(checks),
             "kind_free_text": "TLA+ specifications (spec/*.tla, numeric kernel spec/kernel/*.tla) checked by TLC; MC_* exhaustive model checking, Gen_* behaviour generation replayed on the real code, Trace_* validation of recorded executions"},
        ],
        "checks": [],
        "not_applicable": [{"property_id": p, "reason": na.get(p, "check under construction in this round; not claimed yet")}
                           for p in props if p not in checks],
        "notes": "All checks: ./check <id> --tier quick|thorough; exit 0 held, 1 VIOLATION, 2 machinery failure. See DESIGN.md.",
    }
    for p in props:
        if p not in checks:
            continue
        tech, text, note, ref = checks[p]
        out["checks"].append({
            "property_id": p,
            "quick_cmd": "./check %s --tier quick" % p,
            "thorough_cmd": "./check %s --tier thorough" % p,
            "evidence_file": "evidence/%s.json" % p,
            "replay_cmd_template": "./check %s --replay {path}" % p,
            "engine": "tlc",
            "level_claimed": {"category": "model_checking", "text": text, "design_ref": ref},
            "level_note": note,
            "technique": tech,
        })
    if not out["not_applicable"]:
        out["not_applicable"] = []
    with open(os.path.join(ROOT, "MANIFEST.json"), "w") as f:
        json.dump(out, f, indent=1)
    print("MANIFEST.json: %d checks, %d not_applicable" % (len(out["checks"]), len(out["not_applicable"])))


if __name__ == "__main__":
    main()
