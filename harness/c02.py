"""C02 - channel labels follow the band model and survive frequency slicing
(spec/Pipeline.tla: FreqSlice / TFSlice / StokesItem, invariants LabelsKept, LabelsInBand)."""
import tlc
import c01

replay = c01.replay


def run(chk):
    # the named structural conflict must be what TLC finds when the exclusion is dropped
    r = tlc.run("MC_Pipeline", "Neg_Pipeline_labels_strict.cfg", timeout=600)
    chk.add_tlc("Neg_Pipeline_labels_strict (must be rejected)", r)
    if r.violation != "LabelsKeptStrict":
        chk.machinery_errors.append("negative config was not rejected by TLC: %r" % r.violation)
    c01.run_pipeline(chk, want=("C02",),
                     mc=("MC_Pipeline_freq_quick.cfg", ("MC_Pipeline_freq_full.cfg", "MC_Pipeline_freq_d3.cfg")),
                     gen_d1="Gen_Pipeline_freq_d1.cfg", gen_sim="Gen_Pipeline_freq_sim.cfg",
                     quick_cases=2500, full_cases=80000, nconc=(5, 10))
    chk.assumptions.append("label comparisons: 8 ulp of the largest |label| per operation")
