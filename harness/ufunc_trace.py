"""code -> spec for C17: an external tracer around pulsarbat.Signal.__array_ufunc__
(and Signal.like, to learn the dtype of each inner result) records one event per
call; spec/Trace_Ufunc.tla decides every event with the operators of spec/Ufunc.tla.

Sources of events: (a) the repository's own tests/test_signal.py, run in a
subprocess under the tracer (pytest plugin ufunc_trace_plugin); (b) everything the
seeded replay sweeps of c17.py do in this process (the tracer is installed for the
whole run and keeps a seeded sample)."""
import json
import os
import random
import subprocess
import sys

import numpy as np

SIGCLS = ("Signal", "RadioSignal", "IntensitySignal", "FullStokesSignal", "BasebandSignal", "DualPolarizationSignal")
META_ATTRS = ("sample_rate", "start_time", "center_freq", "chan_bw", "freq_align", "pol_type", "meta")


class Tracer:
    def __init__(self, rate=1.0, seed=0, cap=10 ** 9):
        self.events, self.rate, self.rnd, self.cap = [], rate, random.Random(seed), cap
        self.calls = self.inner_raised = self.foreign = 0
        self.active = None
        self._outs = []
        self.installed = False

    # -------------------------------------------------------------- helpers
    def _dk(self, dt):
        dt = np.dtype(dt)
        if dt.kind == "b":
            return "b1"
        if dt.kind in "iu":
            return "int" if dt.kind == "i" else "uint"
        if dt.kind == "f":
            return {2: "f2", 4: "f4", 8: "f8"}.get(dt.itemsize, "f16")
        if dt.kind == "c":
            return {8: "c8", 16: "c16"}.get(dt.itemsize, "c32")
        return "obj" if dt.kind == "O" else "other"

    def _loop_kinds(self, ufunc, method, inputs, outs, kwargs):
        none = ["-"] * len(outs)
        if method != "__call__" or ufunc.signature is not None or not any(o is not None for o in outs):
            return none
        if any(k in kwargs for k in ("casting", "dtype", "signature", "sig")):
            return none
        dts = []
        for x in inputs:
            if isinstance(x, self.pb.Signal):
                x = x.data
            if type(x) in (bool, int, float, complex):
                dts.append(type(x))
            elif type(x) is np.ndarray or isinstance(x, np.generic):
                dts.append(x.dtype)
            elif type(x).__module__.startswith("dask") and hasattr(x, "dtype") and not any(
                    isinstance(getattr(o, "data", o), np.ndarray) for o in outs if o is not None):
                dts.append(x.dtype)
            else:
                return none           # Quantity, list, dask into NumPy ...: no statement
        try:
            res = ufunc.resolve_dtypes(tuple(dts) + (None,) * ufunc.nout)
        except Exception:
            return none
        ks = [self._dk(d) for d in res[ufunc.nin:]]
        return [k if k not in ("obj", "other") else "-" for k in ks]

    def _is_cast_error(self, e):
        try:
            from numpy._core._exceptions import _UFuncOutputCastingError
            return isinstance(e, _UFuncOutputCastingError)
        except ImportError:
            return isinstance(e, TypeError) and "Cannot cast ufunc" in str(e) and "output" in str(e)

    def _meta(self, s):
        import common
        return {a: common.snapshot(getattr(s, a)) for a in META_ATTRS if hasattr(s, a)}

    def _same_meta(self, a, b):
        import common
        return set(a) == set(b) and not any(common.snap_diff(a[k], b[k]) for k in a)

    def install(self):
        import pulsarbat as pb
        import astropy.units as u
        import dask.array as da
        if self.installed:
            return
        self.pb = pb
        tr = self
        orig = pb.Signal.__array_ufunc__
        orig_like = pb.Signal.__dict__["like"].__func__
        self._orig, self._orig_like = orig, pb.Signal.__dict__["like"]

        def like(cls, obj, z=None, /, **kwargs):
            a = tr.active
            if a is not None and z is not None and not kwargs:
                a["rk"].append(tr._dk(z.dtype))
                try:
                    return orig_like(cls, obj, z, **kwargs)
                except Exception as e:
                    a["like_err"] = type(e).__name__ if not isinstance(e, ValueError) else "ValueError"
                    raise
            return orig_like(cls, obj, z, **kwargs)

        def describe(x):
            if isinstance(x, pb.Signal):
                # dk: dtype of the buffer a result would be stored into; "-" for dask data (no casting rule)
                dk = tr._dk(x.dtype)
                if any(o is x for o in tr._outs) and (not isinstance(x.data, np.ndarray) or dk in ("obj", "other")):
                    dk = "-"
                return {"kind": "sig", "cls": type(x).__name__, "dk": dk}
            if isinstance(x, u.Quantity):
                return {"kind": "qty", "cls": "-", "dk": "-"}
            if isinstance(x, da.Array):
                return {"kind": "dask", "cls": "-", "dk": "-"}
            if type(x) is np.ndarray:
                return {"kind": "arr", "cls": "-", "dk": tr._dk(x.dtype) if tr._dk(x.dtype) not in ("obj", "other") else "-"}
            return {"kind": "scal", "cls": "-", "dk": "-"}

        def wrapper(self, ufunc, method, *inputs, out=None, **kwargs):
            tr.calls += 1
            if tr.active is not None or len(tr.events) >= tr.cap or tr.rnd.random() >= tr.rate:
                return orig(self, ufunc, method, *inputs, out=out, **kwargs)
            outs = list(out) if out is not None else []
            nslots = ufunc.nout if method == "__call__" else (0 if method == "at" else 1)
            outs = (outs + [None] * nslots)[:max(nslots, len(outs))]
            objs, idx = [], {}

            def ref(x):
                if x is None:
                    return 0
                if id(x) not in idx:
                    objs.append(x)
                    idx[id(x)] = len(objs)
                return idx[id(x)]
            ins_i = [ref(x) for x in inputs]
            outs_i = [ref(x) for x in outs]
            tr._outs = [x for x in outs if x is not None]
            if any(isinstance(x, pb.Signal) and type(x).__name__ not in SIGCLS for x in objs):
                tr.foreign += 1
                return orig(self, ufunc, method, *inputs, out=out, **kwargs)
            pre_meta = {i + 1: tr._meta(x) for i, x in enumerate(objs) if isinstance(x, pb.Signal)}
            ev = {"ev": "array_ufunc", "u": ufunc.__name__, "nin": ufunc.nin, "nout": ufunc.nout,
                  "matmul": ufunc is np.matmul, "m": "call" if method == "__call__" else method,
                  "objs": [describe(x) for x in objs], "ins": ins_i, "outs": outs_i, "self": idx[id(self)],
                  "rk": [], "res": []}
            # dtype the loop computes for every slot that has an out object (NumPy's own type resolution);
            # "-" = no statement (foreign operand kinds, explicit casting= / dtype= / signature=)
            ev["ork"] = tr._loop_kinds(ufunc, method, inputs, outs, kwargs)
            tr.active = {"rk": [], "like_err": None}
            try:
                res = orig(self, ufunc, method, *inputs, out=out, **kwargs)
            except Exception as e:
                a = tr.active
                if a["like_err"] == "ValueError":
                    ev["result"] = "ValueError"
                elif tr._is_cast_error(e) and not a["rk"]:
                    ev["result"] = "UFuncTypeError"       # the inner call refused to store into an out array
                else:
                    ev["result"] = "inner:" + type(e).__name__
                self_rk = a["rk"]
                tr.active = None
                tr._finish(ev, self_rk, outs_i)
                raise
            a = tr.active
            tr.active = None
            if res is NotImplemented:
                ev["result"] = "NotImplemented"
            else:
                ev["result"] = "ok"
                rs = res if isinstance(res, tuple) else (res,)
                for r in rs:
                    ident = idx.get(id(r), 0)
                    if isinstance(r, pb.Signal):
                        m = tr._meta(r)
                        ev["res"].append({"ident": ident, "cls": type(r).__name__, "dk": tr._dk(r.dtype),
                                          "metaeq": [i for i, pm in pre_meta.items() if tr._same_meta(pm, m)]})
                    else:
                        ev["res"].append({"ident": ident, "cls": "-", "dk": "-", "metaeq": []})
            tr._finish(ev, a["rk"], outs_i)
            return res

        pb.Signal.like = classmethod(like)
        pb.Signal.__array_ufunc__ = wrapper
        self.installed = True

    def _finish(self, ev, likes, outs_i):
        if ev["result"].startswith("inner:"):
            self.inner_raised += 1
            return
        # dtype of the inner result per output: "-" where an out object was given, else in order of like() calls
        rk, it = [], iter(likes)
        for k, o in enumerate(outs_i):
            rk.append((ev["ork"][k] if k < len(ev["ork"]) else "-") if o else next(it, "f8"))
        ev["rk"] = rk
        ev["id"] = len(self.events) + 1
        self.events.append(ev)

    def uninstall(self):
        if self.installed:
            self.pb.Signal.__array_ufunc__ = self._orig
            self.pb.Signal.like = self._orig_like
            self.installed = False


TRACER = None


def start(seed, rate, cap):
    """called by c17.run before the replay sweeps"""
    global TRACER
    TRACER = Tracer(rate=rate, seed=seed, cap=cap)
    TRACER.install()
    return TRACER


def repo_test_events(chk):
    """run the repository's tests/test_signal.py under the tracer (subprocess)"""
    import framework
    repo = os.environ.get("VERIF_REPO", "/repo")
    out = os.path.join(framework.ROOT, ".scratch", "C17_repo_trace_%d.json" % os.getpid())
    env = dict(os.environ)
    env["PYTHONPATH"] = os.pathsep.join([os.path.dirname(os.path.abspath(__file__)), repo, env.get("PYTHONPATH", "")])
    env["C17_TRACE_OUT"] = out
    p = subprocess.run([sys.executable, "-m", "pytest", "-q", "-p", "no:cacheprovider", "-p", "ufunc_trace_plugin",
                        "-x", "tests/test_signal.py", "-k", "Ufunc or dask_persist or DaskFuncs"],
                       cwd=repo, env=env, stdout=subprocess.PIPE, stderr=subprocess.STDOUT, text=True, timeout=600)
    if not os.path.exists(out):
        chk.machinery_errors.append("repository tests under the tracer produced no trace:\n" + p.stdout[-1500:])
        return [], p.stdout
    with open(out) as f:
        evs = json.load(f)
    os.remove(out)
    return evs, p.stdout


def run(chk, rnd, stats, thorough, repo_job=None):
    import trace_util
    tr = TRACER
    events = []
    if tr is not None:
        tr.uninstall()
        events += tr.events
        stats["trace_array_ufunc_calls_seen"] = tr.calls
        stats["trace_inner_call_raised(not judged)"] = tr.inner_raised
    revs, log = repo_job.result() if repo_job is not None else repo_test_events(chk)
    stats["trace_events_from_repo_tests"] = len(revs)
    stats["trace_repo_tests_summary"] = (log.strip().splitlines() or [""])[-1][:200]
    events += revs
    for i, e in enumerate(events):
        e["id"] = i + 1
    if not events:
        return
    rejected, n = trace_util.validate("Trace_Ufunc", events, batch=4000, timeout=900, chk=chk, name="ufunc", heap="2g")
    chk.validated += n
    stats["trace_events_validated"] = n
    by = {}
    for e in events:
        k = "%s%s" % (e["m"], "/matmul" if e["matmul"] else "")
        by[k] = by.get(k, 0) + 1
    stats["trace_events_by_method"] = by
    if events:
        chk.sample({"trace_event": {k: events[0][k] for k in ("u", "m", "objs", "ins", "outs", "self", "rk", "result", "res")}})
    for e, failed in rejected:
        chk.violation("trace:" + "+".join(sorted(failed)),
                      "Signal.__array_ufunc__ event rejected by Trace_Ufunc (%s): %s.%s objs=%s ins=%s outs=%s self=%s -> %s %s"
                      % (sorted(failed), e["u"], e["m"], [(o["cls"] if o["kind"] == "sig" else o["kind"]) for o in e["objs"]],
                         e["ins"], e["outs"], e["self"], e["result"], e["res"]),
                      {"kind": "trace", "event": e})


def replay(doc):
    """rebuild operands of the recorded kinds, repeat the call on the real code under the
    tracer and let TLC judge the events it produces"""
    import trace_util
    import ufunc_replay as ur
    e = doc["case"]["event"]
    heap0 = [(o["cls"] if o["kind"] == "sig" else o["kind"]) for o in e["objs"]]
    outs = [o for o in e["outs"]]
    w = ur.build_world(heap0, random.Random(doc["case"].get("seed", 0)), "np", out_idx=[o - 1 for o in outs if o],
                       force_full=True, square=e["matmul"])
    tr = Tracer(rate=1.0)
    tr.install()
    try:
        uf = getattr(np, e["u"])
        m = e["m"]
        a_ins = [w.objs[i - 1] for i in e["ins"]]
        a_outs = [w.objs[o - 1] if o else None for o in outs]
        try:
            with np.errstate(all="ignore"):
                if m == "call":
                    uf(*a_ins, **({"out": tuple(a_outs)} if any(o is not None for o in a_outs) else {}))
                elif m == "at":
                    uf.at(*a_ins)
                else:
                    getattr(uf, m)(*a_ins, **({"out": a_outs[0]} if a_outs and a_outs[0] is not None else {}))
        except Exception as ex:  # noqa
            print("call raised %r" % (ex,))
    finally:
        tr.uninstall()
    evs = tr.events
    for i, x in enumerate(evs):
        x["id"] = i + 1
    print("re-executed %s.%s on %s: %d event(s)" % (e["u"], e["m"], w.info, len(evs)))
    if not evs:
        print("case passes (no event produced)")
        return 0
    rejected, n = trace_util.validate("Trace_Ufunc", evs, timeout=300, heap="2g")
    for ev, failed in rejected:
        print("VIOLATION property=C17 replay=(this case)  # trace:%s" % "+".join(sorted(failed)))
    if not rejected:
        print("case passes")
    return 1 if rejected else 0
