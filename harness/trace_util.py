"""code -> spec: write recorded events, let TLC validate them, read verdicts."""
import json
import os

import tlc
import framework

SCR = os.path.join(framework.ROOT, ".scratch")


def validate(module, events, cfg=None, batch=2000, timeout=3600, heap="8g", env=None, chk=None, name=None):
    """events: list of dicts, each with at least 'id' and 'ev'.  They are
    validated by spec/<module>.tla in batches (one TLC start per batch).
    Returns (rejected, nvalidated): rejected is a list of (event, failed clause names)."""
    os.makedirs(SCR, exist_ok=True)
    rejected, done = [], 0
    for b0 in range(0, len(events), batch):
        part = events[b0:b0 + batch]
        tf = os.path.join(SCR, "%s_%d_%d.trace.json" % (module, os.getpid(), b0))
        vf = tf.replace(".trace.json", ".verdict.ndjson")
        with open(tf, "w") as f:
            json.dump(part, f)
        if os.path.exists(vf):
            os.remove(vf)
        e = {"TRACE_FILE": tf, "VERDICT_FILE": vf}
        e.update(env or {})
        r = tlc.run(module, cfg or module + ".cfg", workers=1, env=e, timeout=timeout, heap=heap, deadlock=True)
        if chk is not None:
            chk.add_tlc("trace:%s[%d..%d)" % (name or module, b0, b0 + len(part)), r)
        summary = None
        if os.path.exists(vf):
            for line in open(vf):
                line = line.strip()
                if not line:
                    continue
                v = json.loads(line)
                if isinstance(v, str):
                    v = json.loads(v)
                if v.get("summary"):
                    summary = v
                else:
                    rejected.append((part[v["line"] - 1], v["failed"]))
        if not r.ok or summary is None or summary["events"] != len(part):
            raise tlc.TLCError("trace validation did not consume the whole trace (%s):\n%s"
                               % (module, r.stdout[-3000:]))
        done += len(part)
        os.remove(tf)
        if os.path.exists(vf):
            os.remove(vf)
    return rejected, done
