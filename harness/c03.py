"""C03 - time_shift is a band-limited delay with exact zero-fill and no wrap-around.

spec/TimeShift.tla (operational zero loop / crop window vs the per-element
declarative statement; MC + a negative configuration of the un-repaired loop),
spec/Gen_TimeShift.tla + spec/Gen_Delay.tla (cases and expected samples computed
by TLC, replayed on pb.time_shift), spec/Trace_Shift.tla (tone probes at large N
validated by TLC)."""
import json
import random
from fractions import Fraction

import numpy as np

import exact
import tlc
import shiftlib as sl
from common import pb, u, Time, da, materialise

PID = "C03"
KINDS = sl.DTYPES         # native widths, integer data, non-native byte order, extended precision (plain Signal: no dtype contract)
REAL = tuple(k for k in KINDS if sl.is_real(k))
INTS = tuple(k for k in KINDS if k not in sl.NATIVE)     # result dtype not stated for these: values are judged
EPOCH = Time("2020-01-01T00:00:00", format="isot", precision=9)
DAYTOL = Fraction(1, 2 ** 50)



class MalformedResult(Exception):
    """the real call returned something the property excludes outright (e.g. another shape)"""

def is_broadcast(ssh, shsh):
    """shift array with fewer or length-1 axes than the sample shape (not 0-d)"""
    if len(shsh) == 0:
        return False
    P = sl.padded(shsh, len(ssh))
    return any(P[d] == 1 and ssh[d] > 1 for d in range(len(ssh)))


# ------------------------------------------------------------------ Gen -> code
def variants(case, idx, rnd, n):
    """n seeded concretisations of one abstract case"""
    out = []
    whole = all(s % 4 == 0 for s in case["S"])
    for j in range(n):
        kind = sl.KIND_CYCLE[(idx + j) % len(sl.KIND_CYCLE)]
        cls = "Signal"
        if kind in ("c16", "c8") and len(case["ssh"]) >= 1 and rnd.random() < 0.4:
            cls = "BasebandSignal"
        forms = ["float", "list", "quantity", "np", "np"]
        out.append({"kind": kind, "cls": cls, "form": rnd.choice(forms), "dask": rnd.random() < 0.2,
                    "rate": rnd.randrange(len(sl.RATES)), "start": rnd.random() < 0.6, "hist": rnd.randrange(3),
                    "negzero": rnd.random() < 0.35,
                    # memory layout and dtype of the shift argument, Dask chunking of the sample axes
                    "layout": rnd.choice(sl.LAYOUTS), "sdtype": rnd.randrange(1 << 16), "chunks": rnd.randrange(5)})
    return out


def shift_arg(case, var, z):
    """the `shift` argument in the requested form; None if the form cannot carry
    the lattice value exactly enough (then the caller falls back to floats)."""
    S = sl.lattice(case["S"], var.get("negzero", False))      # zeros as -0.0 in some concretisations
    shsh = tuple(case["shsh"])
    arr = S.reshape(shsh) if shsh else float(S[0])
    form = var["form"]
    lay = var.get("layout", "C")
    if form == "float":
        return sl.relayout(arr, lay) if shsh else arr
    if form in ("np", "int"):
        # every NumPy dtype that holds the values exactly: float16/32/64, signed and (for non-negative values) unsigned ints
        names = sl.dtypes_for(S.tolist()) if form == "np" else ["int64"]
        d = np.dtype(names[var.get("sdtype", 0) % len(names)])
        return sl.relayout(arr.astype(d), lay) if shsh else d.type(arr)
    if form == "list":
        return arr.tolist() if shsh else float(arr)
    if form == "quantity":
        q = (arr / z.sample_rate).to(u.s)
        if shsh:
            q = sl.relayout(q, lay)
        back = np.asarray((q * z.sample_rate).to_value(u.one), dtype=np.float64).ravel()
        want = S.ravel()
        for b, w in zip(back, want):
            if float(w).is_integer():
                if b != w:
                    return None           # a whole shift must arrive as that whole number
            elif abs(b - w) > 1e-9:
                return None
        return q
    raise KeyError(form)


def replay_case(tab, case, var):
    """-> (list of (key, desc), info)"""
    out = []
    N, ssh, shsh = case["N"], tuple(case["ssh"]), tuple(case["shsh"])
    real = var["kind"] in REAL
    skip = ("dtype",) if var["kind"] in INTS else ()
    data, cols = sl.build_data(tab, N, ssh, real, KINDS[var["kind"]])
    z = sl.make_signal(data, var["cls"], sl.RATES[var["rate"]], EPOCH if var["start"] else None, var["dask"], chunks=var.get("chunks"))
    arg = shift_arg(case, var, z)
    info = {"form": var["form"]}
    if arg is None:
        info["form"] = "float(fallback)"
        arg = shift_arg(case, dict(var, form="float"), z)
    m0 = sl.meta_of(z)
    tag = "broadcast-axis" if is_broadcast(ssh, shsh) else ("scalar" if not shsh else "full-shape")
    what = "time_shift(N=%d, sample shape %r, shift %s shape %r, %s %s%s)" % (
        N, ssh, [s / 4 for s in case["S"]], shsh, var["kind"], var["cls"], ", dask" if var["dask"] else "")
    try:
        y = pb.time_shift(z, arg)
        yc = pb.time_shift(z, arg, crop=True)
    except Exception as e:  # noqa
        return [("time_shift:raised", "%s raised %r" % (what, e))], info
    # ---- metadata unchanged
    d = sl.meta_diff(m0, sl.meta_of(y), skip=skip)
    if d or y.shape != z.shape:
        out.append(("time_shift:metadata", "%s changed %s (shape %r -> %r)" % (what, d, z.shape, y.shape)))
    try:
        a = materialise(y).reshape(N, -1)
    except Exception as e:  # noqa   (a lazy result that cannot be computed)
        return out + [("time_shift:raised", "%s: computing the result raised %r" % (what, e))], info
    xin = materialise(z).reshape(N, -1)
    scale = float(np.abs(xin).max()) if xin.size else 1.0
    tol = 1e-5 * scale
    if a.shape != xin.shape:
        return out, info
    # ---- per element: exact zeros on the declared region, values elsewhere
    for j, (c, q) in enumerate(zip(cols, case["qe"])):
        e = tab.get(N, c, q)
        exp = e["yr"] if real else e["yc"]
        zero = e["zero"]
        col = a[:, j]
        notzero = [k for k in zero if col[k] != 0]
        if notzero:
            out.append(("time_shift:zero-fill:" + tag,
                        "%s: element %d (shift %g) must be exactly 0 at samples %s, got %s at %s"
                        % (what, j, q / 4, zero, [complex(col[k]) if not real else float(col[k]) for k in notzero], notzero)))
        keep = [k for k in range(N) if k not in zero]
        if keep:
            err = np.abs(col[keep].astype(np.complex128) - exp[keep])
            if err.max() > tol:
                k = keep[int(err.argmax())]
                out.append(("time_shift:value:" + ("whole" if q % 4 == 0 else "fractional"),
                            "%s: element %d (shift %g) sample %d = %r, TLC expects %r (tol %.2g)"
                            % (what, j, q / 4, k, complex(col[k]), complex(exp[k]), tol)))
    if case["early"] and not np.array_equal(a, xin):
        out.append(("time_shift:zero-shift", "%s: all-zero shift changed the data" % what))
    # ---- crop = True is the crop = False result with exactly the edge samples removed
    keep = case["keep"]
    ac = materialise(yc).reshape(len(yc), a.shape[1])
    d = sl.meta_diff(m0, sl.meta_of(yc), skip=("start",) + skip)
    if d or yc.shape[1:] != z.shape[1:]:
        out.append(("time_shift:crop:metadata", "%s crop=True changed %s" % (what, d)))
    if len(yc) != len(keep):
        out.append(("time_shift:crop:length", "%s crop=True returned %d samples, declared %d (%s)"
                    % (what, len(yc), len(keep), keep)))
    elif keep:
        if not np.array_equal(ac, a[keep[0]:keep[-1] + 1]):
            out.append(("time_shift:crop:data", "%s crop=True differs from the crop=False result on samples %d..%d"
                        % (what, keep[0], keep[-1])))
        if var["start"]:
            got = exact.time_frac_days(yc.start_time)
            dt_days = 1 / (exact.frac(float(z.sample_rate.to_value(u.Hz))) * 86400)
            want = exact.time_frac_days(EPOCH) + keep[0] * dt_days
            if abs(got - want) > 3 * DAYTOL + abs(keep[0] * dt_days) * Fraction(1, 2 ** 49):
                out.append(("time_shift:crop:start-time", "%s crop=True start_time off by %.3g samples"
                            % (what, float((got - want) / dt_days))))
        elif yc.start_time is not None:
            out.append(("time_shift:crop:start-time", "%s start_time appeared from nowhere" % what))
    # ---- same object, later call: after a sanctioned in-place change of the data the result is that of
    #      the same call on a fresh signal holding the new data
    # ---- the same argument objects passed again denote the same request (judged against the first,
    #      itself judged against the expectation written down before any call)
    try:
        yr = materialise(pb.time_shift(z, arg)).reshape(N, -1)
        if not np.array_equal(yr, a):
            out.append(("time_shift:repeat-call-differs", "%s called again with the same objects returns another result" % what))
    except Exception as e:  # noqa
        out.append(("time_shift:raised", "%s called again with the same objects raised %r" % (what, e)))
    if not var["dask"] and not case["early"]:
        g = sl.inplace_update(z, var.get("hist", 0), var["kind"])
        if g is not None:
            try:
                y2 = materialise(pb.time_shift(z, arg)).reshape(N, -1).astype(np.complex128)
                yf = materialise(pb.time_shift(sl.fresh_copy(z), arg)).reshape(N, -1).astype(np.complex128)
            except Exception as e:  # noqa
                return out + [("time_shift:raised", "%s after an in-place update raised %r" % (what, e))], info
            info["history"] = 1
            if not np.allclose(y2, yf, rtol=0, atol=1e-5 * max(1.0, float(np.abs(materialise(z)).max()))):
                out.append(("time_shift:stale-after-inplace-update",
                            "%s: after data *= %r in place the same object gives %r..., a fresh signal with the new data %r..."
                            % (what, g, y2.ravel()[:2].tolist(), yf.ravel()[:2].tolist())))
    return out, info


def run_replay(chk, tab, cases, rnd, limit, nvar):
    usable = [c for c in cases if c["N"] <= 8 and all(tab.has(c["N"], q) for q in c["qe"])]
    run_sessions(chk, tab, sl.sessions(usable), rnd, max(60, limit // 12), nvar)
    by = {}
    for c in sl.first_calls(usable):
        by.setdefault((tuple(c["ssh"]), tuple(c["shsh"])), []).append(c)
    per = max(1, limit // max(1, len(by)))
    chosen = []
    for k in sorted(by):
        chosen += by[k] if len(by[k]) <= per else rnd.sample(by[k], per)
    forms, shapes = {}, {}
    shown = 0
    for i, case in enumerate(chosen):
        for var in variants(case, i, rnd, nvar):
            res, info = replay_case(tab, case, var)
            chk.validated += 1
            forms[info["form"]] = forms.get(info["form"], 0) + 1
            forms["same-object histories"] = forms.get("same-object histories", 0) + info.get("history", 0)
            k = "%r<-%r" % (tuple(case["ssh"]), tuple(case["shsh"]))
            shapes[k] = shapes.get(k, 0) + 1
            for key, desc in res:
                chk.violation(key, desc, {"kind": "gen", "case": case, "var": var, "table": sub_table(tab, case)})
        if shown < 3 and case["N"] >= 4 and any(q % 4 for q in case["qe"]) and len(set(case["qe"])) > 1:
            shown += 1
            chk.sample({"case": case, "expected_zero_rows_per_element": [tab.get(case["N"], 0, q)["zero"] for q in case["qe"]]})
    chk.notes["replayed_shift_forms"] = forms
    chk.notes["replayed_shape_pairs"] = shapes
    chk.notes["generated_cases"] = len(cases)


def run_sessions(chk, tab, pairs, rnd, limit, nvar):
    """histories of two calls in one process: the same values on two broadcast layouts, like signals
    (same length, dtype, class, back end); every call is judged on its own layout"""
    # layouts that differ in the padded shape AND carry at least two different values tell the calls apart
    pairs = [p for p in pairs if len(set(p[0]["S"])) > 1] or pairs
    if len(pairs) > limit:
        pairs = rnd.sample(pairs, limit)
    n = 0
    for i, (first, second) in enumerate(pairs):
        for var in variants(second, i, rnd, nvar):
            table = sl.merge_tables(sub_table(tab, first), sub_table(tab, second))
            for step, case in enumerate((first, second)):
                res, _ = replay_case(tab, case, var)
                n += 1
                for key, desc in res:
                    chk.violation(key + (":after-other-layout" if step else ""),
                                  desc + (" [second call of a session; first call: shift shape %r]" % (tuple(first["shsh"]),) if step else ""),
                                  {"kind": "session", "cases": [first, second], "var": var, "table": table})
    chk.validated += n
    chk.notes["session_calls"] = n
    if pairs:
        chk.sample({"session": [{k: c[k] for k in ("N", "ssh", "shsh", "S")} for c in pairs[0]]})


def sub_table(tab, case):
    """the TLC-expected columns a case needs, JSON-able (for --replay)"""
    N = case["N"]
    out = {"x": {}, "e": {}}
    for c in range(tab.ncols):
        out["x"][str(c)] = [[v.real, v.imag] for v in tab.col(N, c)]
        for q in set(case["qe"]):
            e = tab.get(N, c, q)
            out["e"]["%d,%d" % (c, q)] = {"zero": e["zero"], "yc": [[v.real, v.imag] for v in e["yc"]],
                                          "yr": None if e["yr"] is None else list(e["yr"])}
    return out


class JsonTable(sl.Table):
    def __init__(self, N, d):
        self.t, self.x = {}, {}
        for c, col in d["x"].items():
            self.x[(N, int(c))] = np.array([complex(a, b) for a, b in col])
        for k, e in d["e"].items():
            c, q = (int(v) for v in k.split(","))
            self.t[(N, c, q)] = {"zero": e["zero"], "yc": np.array([complex(a, b) for a, b in e["yc"]]),
                                 "yr": None if e["yr"] is None else np.array(e["yr"])}
        self.ncols = 1 + max(k[1] for k in self.x)
        self.nreal = 1 + max([k[1] for k, e in self.t.items() if e["yr"] is not None] or [-1])


# ------------------------------------------------------------------ code -> Trace (tone probes)
def probe_params(rnd, thorough):
    Ns = [1009, 1023, 1024, 4096, 64, 17, 9, 10, 2, 1] + ([2048, 4095, 8192, 997, 3, 5, 729] if thorough else [])
    sshs = [(), (2,), (3,), (1, 2), (2, 2), (3, 2), (4, 2), (2, 1, 2)]
    out = []
    n = 700 if thorough else 230
    for i in range(n):
        N = Ns[i % len(Ns)]
        ssh = sshs[(i // len(Ns)) % len(sshs)] if i >= len(Ns) else ()
        shsh = rnd.choice(sl.shift_shapes(ssh))
        nsh = int(np.prod(shsh)) if shsh else 1
        style = rnd.choice(["uniform", "uniform", "whole", "half", "edge", "mixed", "zero"])
        S = []
        for _ in range(nsh):
            if style == "uniform":
                s = rnd.uniform(-20, 20)
            elif style == "whole":
                s = float(rnd.randint(-25, 25))
            elif style == "half":
                s = rnd.randint(-40, 40) / 2
            elif style == "edge":
                s = rnd.choice([N - 1, N, N + 1, -(N - 1), -N, -(N + 1), N - 0.5, -(N + 0.25), 1.5 * N, -3.0 * N])
            elif style == "mixed":
                s = rnd.choice([0.0, 1e-3, -1e-3, rnd.uniform(-N, N), float(rnd.randint(-N, N)), 0.25, -0.75])
            else:
                s = 0.0
            if 0 < abs(s) <= 1e-6:
                s = 0.0
            S.append(float(s))
        if rnd.random() < 0.3:
            S = (-np.array(S, dtype=np.float64)).tolist()        # produced by negation: zeros become -0.0
        if style in ("mixed", "zero") and rnd.random() < 0.5:
            S[rnd.randrange(len(S))] = rnd.choice([-0.0, 0.0, 5e-324, -5e-324, 2.2250738585072014e-308])   # signed zeros, subnormals
        nel = int(np.prod(ssh)) if ssh else 1
        kind = ["c16", "f8", "c8", "f4"][i % 4]
        lo, hi = -(N // 2), (N - 1) // 2
        if kind in ("f8", "f4"):
            ks = [rnd.randint(1, max(1, hi)) if hi >= 1 else 0 for _ in range(nel)]
            if N % 2 == 0:
                ks = [min(k, N // 2 - 1) for k in ks]      # a real tone at Nyquist is its own case
        else:
            ks = [rnd.randint(lo, hi) for _ in range(nel)]
        out.append({"N": N, "ssh": list(ssh), "shsh": list(shsh), "S": S, "kind": kind, "ks": ks,
                    "dask": rnd.random() < 0.15, "quantity": rnd.random() < 0.25,
                    "rate": rnd.randrange(len(sl.RATES)), "baseband": kind[0] == "c" and len(ssh) >= 1 and rnd.random() < 0.3,
                    "again": i % 2 == 1, "layout": rnd.choice(sl.LAYOUTS), "chunks": rnd.randrange(5)})
    return out + anchor_probes(thorough)


def anchor_probes(thorough):
    """seed-independent part of the probe set: at the largest length, every data kind (complex64/128, float32/64),
    NumPy and Dask, non-integer shifts of a large fraction of the signal applied to tones near the band edge
    (accumulated ramp phase 2 pi s k / N of hundreds to thousands of cycles)"""
    out = []
    for N in ([4096, 16384] + ([65536] if thorough else [])):
        for kind in ("c8", "c16", "f4", "f8"):
            real = kind[0] == "f"
            for dask in (False, True):
                for ssh, shsh, S in (((), (), [N / 3 + 0.37]), ((2,), (2,), [-(N / 4 + 0.61), N / 2 - 0.25]),
                                     ((2, 2), (1, 2), [0.45 * N + 0.13, -(N / 5 + 0.5)])):
                    nel = int(np.prod(ssh)) if ssh else 1
                    ks = [(N // 2 - 5 - 11 * j) * (1 if real or j % 2 == 0 else -1) for j in range(nel)]
                    out.append({"N": N, "ssh": list(ssh), "shsh": list(shsh), "S": [float(v) for v in S], "kind": kind, "ks": ks,
                                "dask": dask, "quantity": False, "rate": 1, "baseband": False, "again": False,
                                "layout": "C", "chunks": 0})
    return out


def drive_probe(p, eid):
    """run pb.time_shift on a tone probe and record what was observed"""
    N, ssh, shsh = p["N"], tuple(p["ssh"]), tuple(p["shsh"])
    real = p["kind"] in ("f8", "f4")
    n = np.arange(N)
    nel = int(np.prod(ssh)) if ssh else 1
    cols = []
    for k in p["ks"]:
        th = 2 * np.pi * ((k * n) % N) / N
        cols.append(sl.REAL_DC + np.cos(th) if real else np.exp(1j * th))
    data = np.stack(cols, axis=1).reshape((N,) + ssh).astype(KINDS[p["kind"]])
    z = sl.make_signal(data, "BasebandSignal" if p["baseband"] else "Signal", sl.RATES[p["rate"]], EPOCH, p["dask"], chunks=p.get("chunks"))
    arr = sl.relayout(np.array(p["S"], dtype=np.float64).reshape(shsh), p.get("layout", "C")) if shsh else float(p["S"][0])
    arg = arr
    if p["quantity"]:
        arg = (arr / z.sample_rate).to(u.s)
        seen = np.asarray((arg * z.sample_rate).to_value(u.one), dtype=np.float64).ravel()
    else:
        seen = np.asarray(arr, dtype=np.float64).ravel()
    m0 = sl.meta_of(z)
    y = pb.time_shift(z, arg)
    if p.get("again"):
        y = pb.time_shift(z, arg)       # the same objects passed again: the observed call is the second one
    meta_changed = sl.meta_diff(m0, sl.meta_of(y))
    if y.shape != z.shape:
        raise MalformedResult("time_shift changed the shape %r -> %r" % (z.shape, y.shape))
    a = materialise(y).reshape(N, nel)
    el = []
    for j in range(nel):
        col = a[:, j]
        lead, trail, inner = sl.lead_trail(col == 0)
        r, dev, m = sl.fit_ratio(col, p["ks"][j], N, real)
        el.append({"k": p["ks"][j], "lead": lead, "trail": trail, "inner": inner,
                   "r": exact.cfix(r), "dev": exact.fix(dev), "nfit": m})
    ev = {"id": eid, "ev": "tshift", "N": N, "ssh": list(ssh), "shsh": list(shsh),
          "S": [exact.rat(float(s)) for s in seen], "el": el}
    return ev, meta_changed, [float(s) for s in seen]


def run_trace(chk, rnd, thorough):
    params = probe_params(rnd, thorough)
    events, ambiguous = [], 0
    for i, p in enumerate(params):
        try:
            ev, meta_changed, seen = drive_probe(p, i)
        except Exception as e:  # noqa   (valid input: an exception of the real call is a finding, not a crash)
            import traceback
            tb = traceback.extract_tb(e.__traceback__)
            if isinstance(e, MalformedResult) or any("pulsarbat" in f.filename and "/verif/" not in f.filename for f in tb):
                chk.violation("time_shift:raised", "tone probe %r raised %r" % (p, e), {"kind": "probe", "p": p})
                continue
            raise
        if any(0 < abs(s) <= 1e-7 for s in seen):
            ambiguous += 1            # inside the allclose(shift, 0) band: named deviation, not judged
            continue
        if meta_changed:
            chk.violation("time_shift:metadata", "probe %r changed %s" % (p, meta_changed), {"kind": "probe", "p": p})
        events.append(ev)
    rejected, n = sl.validate("Trace_Shift", events, chk=chk, name="tshift", batch=max(30, len(events) // 4 + 1), par=4)
    chk.validated += n
    for ev, failed in rejected:
        p = params[ev["id"]]
        tag = "broadcast-axis" if is_broadcast(tuple(p["ssh"]), tuple(p["shsh"])) else "probe"
        key = "time_shift:zero-fill:" + tag if set(failed) <= {"zero-region"} else "time_shift:probe:" + "+".join(sorted(failed))
        chk.violation(key, "tone probe N=%d sample shape %r shift %r (shape %r) %s: TLC rejects %s; observed %s"
                      % (p["N"], tuple(p["ssh"]), p["S"], tuple(p["shsh"]), p["kind"], sorted(failed),
                         [(e["lead"], e["trail"], e["inner"]) for e in ev["el"]]), {"kind": "probe", "p": p})
    chk.notes["trace_events"] = n
    chk.notes["trace_elements"] = sum(len(e["el"]) for e in events)
    chk.notes["trace_lengths"] = sorted({p["N"] for p in params})
    chk.notes["ambiguous"] = ambiguous
    for ev in events[:2]:
        chk.sample({"probe": params[ev["id"]], "observed": [(e["lead"], e["trail"], e["inner"], exact.uncfix(e["r"])) for e in ev["el"]]})


def tiny_shift_note(chk):
    """named deviation TinyShiftIsNoOp (DESIGN section 8 #12): recorded, not judged"""
    z = pb.Signal(np.arange(1.0, 9.0), sample_rate=1 * u.Hz)
    y = pb.time_shift(z, 1e-9)
    chk.notes["TinyShiftIsNoOp"] = {"time_shift(z, 1e-9) returns z itself": y is z,
                                    "first sample": float(np.asarray(y.data)[0]),
                                    "adjudication": "outside the check: |s| <= 1e-8 sits on the float decision boundary of "
                                                    "np.allclose(shift, 0); generated shifts stay on the quarter-sample lattice "
                                                    "or |s| >= 1e-3"}


def run(chk):
    thorough = chk.tier == "thorough"
    rnd = random.Random(chk.seed)
    t = "full" if thorough else "quick"
    res = sl.parallel({
        "mc": lambda: tlc.run("MC_TimeShift", "MC_TimeShift_%s.cfg" % t, workers=8, timeout=3000, heap="3g"),
        "neg": lambda: tlc.run("MC_TimeShift", "Neg_TimeShift_pinned.cfg", workers=1, timeout=900, heap="1g"),
        "cases": lambda: sl.gen("Gen_TimeShift", "Gen_TimeShift_%s.cfg" % t, workers=2),
        "table": lambda: sl.gen("Gen_Delay", "Gen_Delay_time_%s.cfg" % t, workers=5, timeout=3000),
        # the large-N probes are driven and validated side by side with the generation jobs
        "trace": lambda: run_trace(chk, random.Random(chk.seed + 104729), thorough),
    })
    chk.mc_must_hold("MC_TimeShift_" + t, res["mc"])
    chk.exhaustive = res["mc"].ok
    chk.add_tlc("Neg_TimeShift_pinned (must be rejected)", res["neg"])
    if res["neg"].ok or res["neg"].violation not in ("ZeroRegionExact", "IntegerShiftMovesSamples"):
        chk.machinery_errors.append("the model of the un-repaired zero loop was not rejected by TLC: %s"
                                    % res["neg"].stdout[-1500:])
    chk.notes["negative_config"] = "Neg_TimeShift_pinned.cfg rejected: %s" % res["neg"].violation
    for k in ("cases", "table"):
        chk.add_tlc("gen:" + k, res[k][0])
        if not res[k][0].ok:
            chk.machinery_errors.append("generation %s failed: %s" % (k, res[k][0].stdout[-2000:]))
    tab = sl.Table(res["table"][1])
    run_replay(chk, tab, res["cases"][1], rnd, 40000 if thorough else 3000, 2 if thorough else 1)
    tiny_shift_note(chk)
    chk.assumptions += [
        "TLC explores TimeShift exhaustively only within the constants of the MC configuration",
        "expected samples are TLC's (kernel DFT on 60-bit fixed point, N <= 8); values compared at 1e-5*max|x| "
        "(the code casts its phase ramp to complex64)",
        "large N: tone probes only (ratio out/in and the exact-zero edge counts), decided by TLC",
        "shifts 0 < |s| <= 1e-8 (np.allclose early return) are outside the check: TinyShiftIsNoOp",
    ]


def replay(doc):
    c = doc["case"]
    bad = []
    if c["kind"] == "session":
        tab = JsonTable(c["cases"][0]["N"], c["table"])
        bad = []
        for step, case in enumerate(c["cases"]):
            res, _ = replay_case(tab, case, c["var"])
            bad += [(k + (":after-other-layout" if step else ""), d) for k, d in res]
    elif c["kind"] == "gen":
        tab = JsonTable(c["case"]["N"], c["table"])
        bad, _ = replay_case(tab, c["case"], c["var"])
    else:
        ev, meta_changed, _ = drive_probe(c["p"], 0)
        rejected, _ = sl.validate("Trace_Shift", [ev], batch=10, par=1)
        bad = [("probe", "TLC rejects %s" % f) for _, f in rejected]
    for key, desc in bad:
        print("VIOLATION property=%s replay=(this case)  # %s: %s" % (PID, key, desc))
    if not bad:
        print("case passes")
    return 1 if bad else 0
