"""Drivers shared by C05 / C06 (spec/Dedisp.tla, MC_Dedisp.tla, Trace_Dedisp.tla).

A *case* is a JSON-serialisable dict that fully determines one or more calls of
the real code (floats survive JSON exactly); run_case(case) performs the calls
and returns the events TLC judges (spec/Trace_Dedisp.tla).  Nothing here
computes an expected value: exact Fractions are used only by the generators to
stay away from ceil / round boundaries, every verdict comes from TLC."""
import concurrent.futures
import json
import math
import os
import random
from fractions import Fraction

import numpy as np

import common
from common import pb, u, Time, da
import exact
import framework
import tlc

K = Fraction(10 ** 18, 241)                     # s Hz^2 per (pc cm^-3)
UN = {"Hz": u.Hz, "kHz": u.kHz, "MHz": u.MHz, "GHz": u.GHz}
SCALE = {"Hz": 1, "kHz": 10 ** 3, "MHz": 10 ** 6, "GHz": 10 ** 9}
TUN = {"s": (u.s, Fraction(1)), "ms": (u.ms, Fraction(1, 10 ** 3)), "us": (u.us, Fraction(1, 10 ** 6))}
DMUN = {"pc/cm3": (u.pc / u.cm ** 3, Fraction(1)), "pc/m3": (u.pc / u.m ** 3, Fraction(1, 10 ** 6)),
        "kpc/cm3": (u.kpc / u.cm ** 3, Fraction(1000))}
SCR = os.path.join(framework.ROOT, ".scratch")
CLASSES = common.CLASSES
rat = exact.rat


def Q(p):
    """[value, unit name] -> Quantity"""
    return float(p[0]) * UN[p[1]]


def QX(p):
    """[value, unit name] -> exact Fraction in Hz"""
    return Fraction(float(p[0])) * SCALE[p[1]]


def in_unit(hz, unit):
    return [float(hz / SCALE[unit]), unit]


def logu(rnd, lo, hi):
    return 10 ** rnd.uniform(math.log10(lo), math.log10(hi))


# ------------------------------------------------------------------ TLC side
def validate(events, chk, name, jobs=8, timeout=1500, min_cost=8.0):
    """Validate events with spec/Trace_Dedisp.tla in parallel TLC processes
    (each is single-threaded).  Returns [(event, failed clause names)]."""
    if not events:
        return []
    os.makedirs(SCR, exist_ok=True)
    total = sum(e.get("_cost", 1.0) for e in events)
    nb = max(1, min(jobs, int(total / min_cost) + 1, len(events)))
    bins, load = [[] for _ in range(nb)], [0.0] * nb
    for i in sorted(range(len(events)), key=lambda i: -events[i].get("_cost", 1.0)):
        j = load.index(min(load))
        bins[j].append(i)
        load[j] += events[i].get("_cost", 1.0)

    def one(j):
        idx = sorted(bins[j])
        part = [{k: v for k, v in events[i].items() if not k.startswith("_")} for i in idx]
        tf = os.path.join(SCR, "Trace_Dedisp_%s_%d_%d.trace.json" % (name, os.getpid(), j))
        vf = tf.replace(".trace.json", ".verdict.ndjson")
        with open(tf, "w") as f:
            json.dump(part, f)
        if os.path.exists(vf):
            os.remove(vf)
        r = tlc.run("Trace_Dedisp", "Trace_Dedisp.cfg", workers=1, timeout=timeout, heap="2g",
                    env={"TRACE_FILE": tf, "VERDICT_FILE": vf})
        rej, summary = [], None
        if os.path.exists(vf):
            for line in open(vf):
                line = line.strip()
                if not line:
                    continue
                v = json.loads(line)
                if isinstance(v, str):
                    v = json.loads(v)
                if v.get("summary"):
                    summary = v
                else:
                    rej.append((idx[v["line"] - 1], list(v["failed"])))
        if not r.ok or summary is None or summary["events"] != len(part):
            raise tlc.TLCError("trace validation did not consume the whole trace (%s batch %d):\n%s"
                               % (name, j, r.stdout[-3000:]))
        os.remove(tf)
        if os.path.exists(vf):
            os.remove(vf)
        return r, rej

    out = []
    with concurrent.futures.ThreadPoolExecutor(max_workers=nb) as ex:
        for j, (r, rej) in enumerate(ex.map(one, range(nb))):
            chk.add_tlc("trace:%s[batch %d, %d events]" % (name, j, len(bins[j])), r)
            out += [(events[i], f) for i, f in rej]
    return out


def judge(chk, events, cases, name, jobs=8, timeout=1500):
    """Validate, then turn TLC's verdicts into violations / counters."""
    rejected = validate(events, chk, name, jobs=jobs, timeout=timeout)
    amb = 0
    for e, failed in rejected:
        if failed == ["ambiguous"]:
            amb += 1
            continue
        case = cases[e["_case"]]
        if any(f.startswith("precondition") or f == "unknown-event" for f in failed):
            chk.machinery_errors.append("event %s of case %s: %s" % (e["ev"], json.dumps(case), failed))
            continue
        for f in sorted(failed):
            chk.violation("%s:%s" % (e["ev"], f),
                          "%s event rejected by Trace_Dedisp, clause %s; %s" % (e["ev"], f, e.get("_desc", "")),
                          {"case": case, "event": e["ev"], "clause": f})
    chk.validated += len(events) - amb
    by = chk.notes.setdefault("events_by_kind", {})
    for e in events:
        by[e["ev"]] = by.get(e["ev"], 0) + 1
    chk.notes["ambiguous"] = chk.notes.get("ambiguous", 0) + amb
    return rejected


def replay_cases(doc, runner):
    """--replay: re-execute the case on the real code and let TLC judge again."""
    case = doc["case"]["case"]
    try:
        events = runner(case)
    except Exception as ex:     # noqa
        print("VIOLATION property=%s replay=(this case)  # %s:raised: %r" % (doc["property"], case["kind"], ex))
        return 1
    for i, e in enumerate(events):
        e["_case"] = 0
        e["id"] = i

    class _C:
        def add_tlc(self, *a, **k):
            pass
    rej = validate(events, _C(), "replay", jobs=4)
    bad = [(e["ev"], f) for e, f in rej if f != ["ambiguous"]]
    for ev, f in bad:
        print("VIOLATION property=%s replay=(this case)  # %s rejected: %s" % (doc["property"], ev, f))
    if not bad:
        print("case passes (%d events accepted)" % len(events))
    return 1 if bad else 0


# ------------------------------------------------------------------ observation helpers
def meta_rec(z):
    """what must survive a dedispersion call (exact)"""
    return {"cls": type(z).__name__, "rate": rat(common.hz(z.sample_rate)),
            "fc": rat(common.hz(z.center_freq)), "cbw": rat(common.hz(z.chan_bw)),
            "align": z.freq_align, "pol": getattr(z, "pol_type", ""),
            "meta": json.dumps(z.meta, sort_keys=True, default=str),
            "trail": [int(x) for x in z.shape[2:]], "nchan": int(z.shape[1]),
            "labels": [rat(x) for x in common.hz(z.channel_freqs)]}


def start_fields(zin, zout):
    """hasT / outT / adv (exact Time difference in samples) / advtol"""
    rate = common.hz(zin.sample_rate)
    r = {"hasT": zin.start_time is not None, "outT": zout is not None and zout.start_time is not None,
         "adv": rat(0), "advtol": rat(0)}
    if r["hasT"] and r["outT"]:
        adv = (common.time_days(zout.start_time) - common.time_days(zin.start_time)) * 86400 * rate
        r["adv"] = rat(adv)
        r["advtol"] = rat(Fraction(86400, 2 ** 50) * rate + abs(adv) / 2 ** 50)
    return r


def compute(z):
    return np.asarray(common.materialise(z))


def build_signal(case, data):
    cls = CLASSES[case["cls"]]
    if case.get("dask"):
        if case.get("chunk1"):
            chunks = [max(1, data.shape[0])] + [1] * (data.ndim - 1)
        else:
            chunks = [max(1, s) for s in data.shape]
        if case.get("fchunks"):                 # chunk sizes along the frequency axis (1, 2, 3, mixed)
            chunks[1] = tuple(case["fchunks"])
        if case.get("tchunk") and data.shape[0] > 1:
            chunks[0] = max(1, min(int(case["tchunk"]), data.shape[0]))
        data = da.from_array(data, chunks=tuple(chunks))
    kw = dict(sample_rate=Q(case["rate"]), center_freq=Q(case["cf"]), freq_align=case["align"],
              start_time=common.EPOCHS[case["epoch"]] if case["hasT"] else None,
              meta={"verif": [1, {"k": "v"}], "tag": case["cls"]})
    if case["cls"] in ("RadioSignal", "IntensitySignal", "FullStokesSignal"):
        kw["chan_bw"] = Q(case["cbw"])
    if case["cls"] == "DualPolarizationSignal":
        kw["pol_type"] = case.get("pol", "linear")
    return cls(data, **kw)


# ================================================================== C06: the law
def gen_law_case(rnd):
    def freq():
        if rnd.random() < 0.04:
            return None                                  # infinite frequency
        unit = rnd.choice(list(UN))
        hz = logu(rnd, 1e7, 3e10)
        if rnd.random() < 0.2:
            hz = float(rnd.choice([10, 100, 327, 400, 600, 800, 1000, 1400, 8400, 30000])) * 1e6
        return in_unit(hz, unit)
    dm = rnd.choice([-1, 1]) * logu(rnd, 1e-4, 1e3)
    if rnd.random() < 0.15:
        dm = rnd.choice([2.41e-4, 2.41e-3, 1.0, 10.0, 56.7, 100.0, 0.0, -2.41e-4 * 7]) * rnd.choice([1, -1])
    case = {"kind": "law", "dm": dm, "dmu": rnd.choice(["pc/cm3", "pc/cm3", "pc/cm3", "pc/m3"])}
    if rnd.random() < 0.25:
        n = rnd.choice([3, 4, 5])
        case["chain"] = [in_unit(logu(rnd, 1e7, 3e10), rnd.choice(list(UN))) for _ in range(n)]
    else:
        case["f"], case["r"] = freq(), freq()
        if case["f"] is None and case["r"] is None:
            case["r"] = in_unit(1e9, "GHz")
        if rnd.random() < 0.5:
            case["rate"] = in_unit(logu(rnd, 1e3, 1e8), rnd.choice(["Hz", "kHz", "MHz"]))
        if rnd.random() < 0.2 and case["f"] is not None:
            # a vector of frequencies in one call
            case["fvec"] = [case["f"][0] * s for s in (1.0, 1.25, 0.75, 3.0)]
    return case


def dm_exact(DM):
    """exact value in pc cm^-3 of the float a DispersionMeasure holds, whatever (known) unit it is held in"""
    for un, sc in DMUN.values():
        if DM.unit == un:
            return Fraction(float(DM.value)) * sc
    raise ValueError("unexpected DM unit %r" % DM.unit)


def _dm(case):
    """case["dm"] is the value in unit case["dmu"]; optionally converted with .to(case["dmto"]) and / or
    built as the negation of the opposite DM (both keep / change the unit the object is held in)"""
    un, sc = DMUN[case.get("dmu", "pc/cm3")]
    v = float(case["dm"])
    DM = -pb.DM(-v, un) if case.get("dmneg") else pb.DM(v, un)
    if case.get("dmto"):
        DM = DM.to(DMUN[case["dmto"]][0])
    assert isinstance(DM, pb.DispersionMeasure)
    return DM, dm_exact(DM)


def dm_in_units(rnd, case, dm_pc):
    """hold a DM (given in pc cm^-3) in a randomly chosen equivalent unit / construction path"""
    for k in ("dmto", "dmneg"):
        case.pop(k, None)
    case["dmu"] = rnd.choice(["pc/cm3", "pc/cm3", "pc/m3", "kpc/cm3"])
    case["dm"] = float(Fraction(float(dm_pc)) / DMUN[case["dmu"]][1])
    r = rnd.random()
    if r < 0.2:
        case["dmto"] = rnd.choice(list(DMUN))
    elif r < 0.35:
        case["dmneg"] = True
    return case


def _fq_fields(p, pre):
    if p is None:
        return {pre: rat(1), pre + "s": rat(1), pre + "inf": True}
    return {pre: rat(float(p[0])), pre + "s": rat(SCALE[p[1]]), pre + "inf": False}


def run_law_case(case):
    DM, dmx = _dm(case)
    return _law_events(case, DM, dmx)


def _law_events(case, DM, dmx):
    evs = []
    if "chain" in case:
        fs = case["chain"]
        qs = [Q(p) for p in fs]
        fwd = [DM.time_delay(qs[i], qs[i + 1]) for i in range(len(qs) - 1)]
        bwd = [DM.time_delay(qs[i + 1], qs[i]) for i in range(len(qs) - 1)]
        tot = DM.time_delay(qs[0], qs[-1])
        assert all(x.unit == u.s for x in fwd + bwd + [tot])
        evs.append({"ev": "chain", "dm": rat(dmx), "fq": [rat(QX(p)) for p in fs],
                    "fwd": [rat(float(x.value)) for x in fwd], "bwd": [rat(float(x.value)) for x in bwd],
                    "tot": rat(float(tot.value)), "_cost": 0.02 * len(fs),
                    "_desc": "time_delay chain %r DM=%r" % (fs, case["dm"])})
        return evs
    f = np.inf if case["f"] is None else Q(case["f"])
    r = np.inf if case["r"] is None else Q(case["r"])
    base = {"dm": rat(dmx)}
    base.update(_fq_fields(case["f"], "f"))
    base.update(_fq_fields(case["r"], "r"))
    t = DM.time_delay(f, r)
    assert t.unit == u.s
    e = dict(base, ev="tdelay", out=rat(float(t.value)), _cost=0.01,
             _desc="time_delay(%r, %r) DM=%r %s = %r s" % (case["f"], case["r"], case["dm"], case.get("dmu"), float(t.value)))
    evs.append(e)
    if "rate" in case:
        s = DM.sample_delay(f, r, Q(case["rate"]))
        evs.append(dict(base, ev="sdelay", out=rat(float(s)), rate=rat(float(case["rate"][0])),
                        rates=rat(SCALE[case["rate"][1]]), _cost=0.01,
                        _desc="sample_delay(%r, %r, %r) DM=%r = %r" % (case["f"], case["r"], case["rate"], case["dm"], float(s))))
    if "fvec" in case:
        fv = np.array(case["fvec"]) * UN[case["f"][1]]
        tv = DM.time_delay(fv, r)
        for x, o in zip(case["fvec"], tv.to_value(u.s)):
            b = dict(base)
            b.update(_fq_fields([x, case["f"][1]], "f"))
            evs.append(dict(b, ev="tdelay", out=rat(float(o)), _cost=0.01,
                            _desc="time_delay(vector element %r %s, %r) DM=%r" % (x, case["f"][1], case["r"], case["dm"])))
    return evs


# ================================================================== C06: incoherent dedispersion
def incoh_extra(case):
    extra = tuple(case["trail"])
    if case["cls"] == "FullStokesSignal":
        extra = (4,) + extra
    elif case["cls"] == "DualPolarizationSignal":
        extra = (2,) + extra
    return extra


def ident(n, nchan, extra):
    """identifier samples: value at (i, c, e...) = i*10000 + c*100 + e_flat (exact in float32 for i < 1600)"""
    shape = (n, nchan) + tuple(extra)
    a = np.arange(n, dtype=np.float64).reshape((n,) + (1,) * (len(shape) - 1)) * 10000.0
    a = np.broadcast_to(a, shape).copy()
    a += (np.arange(nchan) * 100.0).reshape((1, nchan) + (1,) * (len(shape) - 2))
    if extra:
        a += np.arange(int(np.prod(extra)), dtype=np.float64).reshape((1, 1) + tuple(extra))
    return a


VARIANT_OFFSET = 100        # time indices of data variant v start at 100 * v


def incoh_signal(case, variant=0):
    a = ident(case["n"], case["nchan"], incoh_extra(case)) + variant * VARIANT_OFFSET * 10000.0
    dt = np.dtype(case["dtype"])
    if dt.kind == "c":
        data = (a + 1j * (a + 0.5)).astype(dt)
    else:
        data = a.astype(dt)
    return build_signal(case, data), data


def decode_ident(out, nchan, variant=0):
    """identifier samples -> (src[chan][k] time indices, everything else consistent?)"""
    d = np.asarray(out)
    if variant and d.size:
        d = d - np.asarray(variant * VARIANT_OFFSET * 10000.0 * (1 + 1j if d.dtype.kind == "c" else 1)).astype(d.dtype)
    L = d.shape[0]
    if d.ndim < 2 or d.shape[1] != nchan:
        return [[] for _ in range(nchan)], False
    if L == 0:
        return [[] for _ in range(nchan)], True
    re = d.real if d.dtype.kind == "c" else d
    v = np.rint(re).astype(np.int64).reshape(L, nchan, -1)
    ok = bool(np.array_equal(v, re.reshape(L, nchan, -1)))
    if d.dtype.kind == "c":
        ok = ok and bool(np.array_equal(d.imag, d.real + 0.5))
    t, c, e = v // 10000, (v % 10000) // 100, v % 100
    ok = ok and bool(np.array_equal(c, np.broadcast_to(np.arange(nchan)[None, :, None], c.shape)))
    ok = ok and bool(np.array_equal(e, np.broadcast_to(np.arange(v.shape[2])[None, None, :], e.shape)))
    ok = ok and bool(np.array_equal(t, np.broadcast_to(t[:, :, :1], t.shape)))
    return [[int(x) for x in t[:, i, 0]] for i in range(nchan)], ok


def exact_delays(z, dmx, ref):
    """generator-side only: exact sample delays at the channel labels"""
    rate = common.hz(z.sample_rate)
    rx = common.hz(ref)
    return [K * dmx * (1 / (f * f) - 1 / (rx * rx)) * rate for f in common.hz(z.channel_freqs)]


def incoh_event(case, z, DM, dmx, refp, note="", pre=None, variant=0):
    """one call of incoherent_dedispersion(z, DM[, ref_freq]) on the given objects -> event;
    pre = (result signal or None, computed samples, error) when the call was already made"""
    kw = {}
    ref = z.center_freq
    if refp is not None:
        ref = kw["ref_freq"] = Q(refp)
    err, y, out = False, None, None
    if pre is not None:
        y, out, err = pre
    else:
        try:
            y = pb.incoherent_dedispersion(z, DM, **kw)
            out = compute(y)
        except Exception as ex:      # noqa
            err, y = type(ex).__name__, None
    e = {"ev": "incoh", "cls": case["cls"], "len": case["n"], "dm": rat(dmx),
         "fq": [rat(x) for x in common.hz(z.channel_freqs)], "fref": rat(common.hz(ref)),
         "rate": rat(common.hz(z.sample_rate)), "err": bool(err), "outlen": 0 if err else int(out.shape[0]),
         "src": [[] for _ in range(case["nchan"])], "decoded": True, "xcheck": bool(case.get("xcheck")),
         "zin": meta_rec(z), "zout": meta_rec(z) if err else meta_rec(y),
         "_cost": 0.05 + 0.002 * case["n"] * case["nchan"],
         "_desc": "%sincoherent_dedispersion(%s len=%d nchan=%d %s trail=%r %s%s, DM=%r, ref=%r) -> %s"
                  % (note, case["cls"], case["n"], case["nchan"], case["align"], case["trail"], case["dtype"],
                     (" dask chunks %r" % (z.data.chunks[:2],)) if isinstance(z.data, da.Array) else "",
                     float(dmx), refp, err or "len %d" % out.shape[0])}
    e.update(start_fields(z, y))
    if not err:
        e["src"], e["decoded"] = decode_ident(out, case["nchan"], variant)
        if case.get("dask") and not isinstance(y.data, da.Array):
            e["decoded"] = False
    return e


def run_incoh_case(case):
    z, data = incoh_signal(case)
    DM, dmx = _dm(case)
    return [incoh_event(case, z, DM, dmx, case.get("ref"))]


RADIO = ["RadioSignal", "IntensitySignal", "FullStokesSignal", "BasebandSignal", "DualPolarizationSignal"]


def pick_chunks(rnd, n, nchan):
    """Dask chunking: frequency axis in chunks of 1, 2, 3 or mixed sizes (or whole),
    time axis whole or split"""
    out = {}
    mode = rnd.choice(["whole", "ones", "twos", "threes", "mixed", "mixed"])
    if mode != "whole" and nchan > 1:
        sizes, left = [], nchan
        while left > 0:
            k = {"ones": 1, "twos": 2, "threes": 3}.get(mode) or rnd.choice([1, 2, 3])
            k = min(k, left)
            sizes.append(k)
            left -= k
        out["fchunks"] = sizes
    if rnd.random() < 0.3 and n > 1:
        out["tchunk"] = rnd.randint(1, n)
    return out


def gen_incoh_case(rnd, i):
    """parameters whose exact channel delays are >= 1e-3 away from every half-integer"""
    for _ in range(200):
        cls = RADIO[i % 5]
        nchan = rnd.choice([1, 2, 2, 3, 3, 4, 4, 5, 6, 7, 8])
        n = rnd.choice([1, 2, 3, 5, 8, 8, 13, 16, 21, 32])
        case = {"kind": "incoh", "cls": cls, "n": n, "nchan": nchan, "align": rnd.choice(["bottom", "center", "top"]),
                "trail": rnd.choice([[], [], [2], [1, 3]]) if cls != "FullStokesSignal" else rnd.choice([[], [2]]),
                "hasT": rnd.random() < 0.7, "epoch": rnd.randrange(4), "dask": rnd.random() < 0.3,
                "chunk1": rnd.random() < 0.5}
        if case["dask"]:
            case.update(pick_chunks(rnd, n, nchan))
        if cls in ("BasebandSignal", "DualPolarizationSignal"):
            case["dtype"] = rnd.choice(["complex128", "complex64"])
        elif cls == "RadioSignal":
            case["dtype"] = rnd.choice(["float64", "float32", "complex64", "int32"])
        else:
            case["dtype"] = rnd.choice(["float64", "float32"])
        case["rate"] = rnd.choice([[1.0, "kHz"], [0.5, "Hz"], [1.0, "MHz"], [800 / 3, "MHz"], [32.0, "MHz"], [10.0, "Hz"], [2.5, "kHz"]])
        rate_hz = QX(case["rate"])
        if cls in ("BasebandSignal", "DualPolarizationSignal"):
            cbw_hz = rate_hz
        else:
            case["cbw"] = rnd.choice([[0.5, "MHz"], [125.0, "kHz"], [8.0, "MHz"], [0.2, "GHz"], [390.625, "kHz"]])
            cbw_hz = QX(case["cbw"])
        factor = rnd.choice([0.55, 0.6, 0.8, 1.5, 3.0, 30.0, 400.0])
        cf_hz = float(cbw_hz * nchan) * factor
        case["cf"] = in_unit(cf_hz, rnd.choice(["MHz", "GHz", "Hz", "kHz"]))
        mode = rnd.choice(["inside", "inside", "outside", "outside", "default", "default", "huge", "tiny", "edge"])
        case["dm"], case["dmu"] = 1.0, "pc/cm3"
        z, _ = incoh_signal(case)
        fr = common.hz(z.channel_freqs)
        f0, f1 = fr[0], fr[-1]
        sgn = rnd.choice([1, -1])
        span = rnd.uniform(0, 1.3) * n if rnd.random() < 0.85 else rnd.uniform(1.0, 3.0) * n
        if mode == "default" or (nchan == 1 and mode in ("inside", "edge")):
            rx = common.hz(z.center_freq)
            g = [1 / (f * f) - 1 / (rx * rx) for f in fr]
            w = max(abs(x) for x in g)
            if nchan == 1 and g[0] == 0:
                case["dm"] = sgn * logu(rnd, 1e-4, 1e3)
            else:
                w = max(g) - min(g) if nchan > 1 else w
                case["dm"] = float(sgn * Fraction(span + 0.01) / (K * w * rate_hz)) if w else 1.0
        elif mode == "huge":
            case["dm"] = sgn * logu(rnd, 10, 1e3)
            if rnd.random() < 0.5:
                case["ref"] = in_unit(float(f1) * rnd.uniform(0.3, 3), rnd.choice(list(UN)))
        elif mode == "tiny":
            case["dm"] = sgn * logu(rnd, 1e-4, 1e-3) * (0 if rnd.random() < 0.2 else 1)
        elif mode == "edge":
            case["ref"] = in_unit(float(rnd.choice([f0, f1])), z.center_freq.unit.to_string())
            g = abs(1 / (f0 * f0) - 1 / (f1 * f1))
            case["dm"] = float(sgn * Fraction(span + 0.01) / (K * g * rate_hz))
        else:
            if nchan == 1:
                d0 = sgn * (span + 0.01)
                rx = f0 * Fraction(rnd.choice([0.5, 0.9, 1.1, 2.0]))
                A = Fraction(d0) / (1 / (f0 * f0) - 1 / (rx * rx))
            else:
                p = rnd.uniform(0.05, 0.95) if mode == "inside" else rnd.choice([-1, 1]) * rnd.uniform(1.05, 2.5)
                # d0 - d1 = sgn*span ; d0 = p*(d0-d1) (inside: opposite signs)
                dd = sgn * (span + 0.01)
                d0 = p * dd
                i0, i1 = 1 / (f0 * f0), 1 / (f1 * f1)
                A = Fraction(dd) / (i0 - i1)
                ir = i0 - Fraction(d0) / A
                if ir <= 0:
                    continue
                rx = Fraction(1 / math.sqrt(float(ir)))
            case["ref"] = in_unit(float(rx), rnd.choice(list(UN)))
            case["dm"] = float(A / (K * rate_hz))
        if not (abs(case["dm"]) < 1e6):
            continue
        ref = Q(case["ref"]) if case.get("ref") is not None else z.center_freq
        dx = exact_delays(z, Fraction(float(case["dm"])), ref)
        if max(abs(d) for d in dx) >= 1e8:
            continue
        if any(abs(abs(d - math.floor(d)) - Fraction(1, 2)) < Fraction(1, 1000) for d in dx):
            continue
        case["mode"] = mode
        return case
    raise RuntimeError("no incoherent case found")


# ================================================================== C05: chirp and coherent dedispersion
def cfix_list(a):
    """exact 60-bit pairs; a non-finite sample is logged as 0 (the event's `finite` flag reports it)"""
    return [exact.cfix(complex(x)) if np.isfinite(x) else exact.cfix(0) for x in np.asarray(a).ravel()]


def all_finite(*arrays):
    return bool(all(np.all(np.isfinite(np.asarray(a))) for a in arrays))


INF = {"float": lambda: np.inf, "MHz": lambda: np.inf * u.MHz, "Hz": lambda: np.inf * u.Hz}


def ref_fields(ref):
    """fref / rinf of an event from the reference actually passed"""
    v = ref.value if isinstance(ref, u.Quantity) else ref
    if np.isinf(v):
        return {"fref": rat(1), "rinf": True}
    return {"fref": rat(common.hz(ref)), "rinf": False}


def pick_band(rnd, nchan):
    """centre 100 MHz..10 GHz, rate 1 kHz..100 MHz, every DFT bin of every channel above 0.2 fc"""
    while True:
        fc = logu(rnd, 1e8, 1e10)
        rate = logu(rnd, 1e3, 1e8)
        if rnd.random() < 0.3:
            fc = float(rnd.choice([100, 150.5, 327, 400, 600, 800, 1400, 2300, 8400, 10000])) * 1e6
        if rnd.random() < 0.3:
            rate = float(rnd.choice([1e3, 2.5e3, 1e4, 1e5, 1e6, 4e6, 16e6, 32e6, 64e6, 1e8]))
        if (nchan + 1) * rate / 2 <= 0.8 * fc:
            return fc, rate


def pick_bins(rnd, N, full):
    if N <= 16 or full:
        return list(range(N))
    ks = {0, 1, N - 1, N // 2, (N - 1) // 2}
    while len(ks) < 8:
        ks.add(rnd.randrange(N))
    return sorted(ks)


def gen_chirpfn_case(rnd, full=False):
    N = rnd.choice([8, 15, 16, 23, 64, 100])
    fc, rate = pick_band(rnd, 1)
    tun = rnd.choice(["s", "s", "ms", "us"])
    dtv = float(1 / Fraction(rate) / TUN[tun][1])
    lo, hi = fc - rate / 2, fc + rate / 2
    mode = rnd.choice(["center", "inside", "edge", "below", "above", "inf"])
    ref = {"inf": fc, "center": fc, "inside": fc + rnd.uniform(-0.5, 0.5) * rate, "edge": rnd.choice([lo, hi]),
           "below": lo * rnd.uniform(0.3, 0.95), "above": hi * rnd.uniform(1.05, 3)}[mode]
    fcq = in_unit(fc, rnd.choice(list(UN)))
    case = {"kind": "chirpfn", "N": N, "dt": [dtv, tun], "cf": fcq,
            "ref": fcq if mode == "center" else in_unit(ref, rnd.choice(list(UN))),
            "dask": rnd.random() < 0.25, "bins": pick_bins(rnd, N, full), "mode": mode}
    if mode == "inf":
        case["ref"], case["inf"] = None, rnd.choice(list(INF))
    return dm_in_units(rnd, case, rnd.choice([-1, 1]) * logu(rnd, 1e-4, 1e3))


def run_chirpfn_case(case, DM=None):
    if DM is None:
        DM, dmx = _dm(case)
    else:
        dmx = dm_exact(DM)
    tu, tsc = TUN[case["dt"][1]]
    dt = float(case["dt"][0]) * tu
    ref = INF[case["inf"]]() if case.get("ref") is None else Q(case["ref"])
    ch = DM.chirp_function(case["N"], dt, Q(case["cf"]), ref, use_dask=bool(case["dask"]))
    if case["dask"]:
        assert isinstance(ch, da.Array)
        ch = ch.compute(scheduler="synchronous")
    ch = np.asarray(ch)
    ok = ch.shape == (case["N"],) and ch.dtype.kind == "c"
    ks = case["bins"]
    return [{"ev": "chirp", "dm": rat(dmx), "N": case["N"], "dt": rat(Fraction(float(case["dt"][0])) * tsc),
             "fc": rat(QX(case["cf"])), "ks": ks, "xcheck": case.get("xcheck", -1), **ref_fields(ref),
             "finite": all_finite(ch),
             "vals": cfix_list(ch[ks]) if ok else [exact.cfix(0)] * len(ks), "_cost": 0.05 * len(ks),
             "_desc": "DM(%s).chirp_function(%d, %r, %r, %r, use_dask=%r) shape %r dtype %s"
                      % ("%r %s" % (float(DM.value), DM.unit), case["N"], case["dt"], case["cf"], case.get("ref") or "inf (%s)" % case.get("inf"),
                         case["dask"], ch.shape, ch.dtype)}]


def bb_signal(case, data):
    c = dict(case, cls=case.get("cls", "BasebandSignal"))
    return build_signal(c, data)


def bb_shape(case):
    extra = tuple(case["trail"])
    if case.get("cls") == "DualPolarizationSignal":
        extra = (2,) + extra
    return (case["N"], case["nchan"]) + extra


def ref_of(case, z):
    """(ref Quantity, kwargs for the call, refis)"""
    m = case["refmode"]
    if m == "inf":
        r = INF[case.get("inf", "float")]()
        return r, {"ref_freq": r}, ""
    if m == "none":
        return z.center_freq, {}, ""
    if m == "top":
        return z.max_freq, {"ref_freq": z.max_freq}, "top"
    if m == "bot":
        return z.min_freq, {"ref_freq": z.min_freq}, "bot"
    q = Q(case["ref"])
    return q, {"ref_freq": q}, ""


def edge_delays(z, dmx, ref, refis):
    """generator-side only: exact band-edge sample delays"""
    rate = common.hz(z.sample_rate)
    ir2 = 0 if ref_fields(ref)["rinf"] else 1 / common.hz(ref) ** 2
    out = []
    for name, f in (("top", common.hz(z.max_freq)), ("bot", common.hz(z.min_freq))):
        out.append(Fraction(0) if refis == name else K * dmx * (1 / (f * f) - ir2) * rate)
    return out


def gen_bb_case(rnd, kind, Ns, span=None, decades=False, nchans=(1, 2, 3, 4)):
    """a baseband signal + DM + reference whose exact band-edge delays are not
    within 1e-3 of an integer (unless structurally zero)"""
    for _ in range(500):
        nchan = rnd.choice(nchans)
        N = rnd.choice(Ns)
        fc, rate = pick_band(rnd, nchan)
        cls = "DualPolarizationSignal" if rnd.random() < 0.15 else "BasebandSignal"
        case = {"kind": kind, "cls": cls, "N": N, "nchan": nchan, "align": rnd.choice(["bottom", "center", "top"]),
                "trail": rnd.choice([[], [], [2], [1, 3]]) if cls == "BasebandSignal" else rnd.choice([[], [2]]),
                "dtype": rnd.choice(["complex128", "complex64"]), "dask": rnd.random() < 0.3, "chunk1": False,
                "hasT": rnd.random() < 0.75, "epoch": rnd.randrange(4), "pol": rnd.choice(["linear", "circular"]),
                "rate": in_unit(rate, rnd.choice(["Hz", "kHz", "MHz"])), "cf": in_unit(fc, rnd.choice(list(UN))),
                "dmu": "pc/cm3", "seed": rnd.randrange(1 << 30)}
        if case["dask"] and rnd.random() < 0.6:
            case.update({k: v for k, v in pick_chunks(rnd, N, nchan).items() if k == "fchunks"})
        z = bb_signal(case, np.zeros(bb_shape(case), case["dtype"]))
        lo, hi = float(common.hz(z.min_freq)), float(common.hz(z.max_freq))
        mode = rnd.choice(["none", "top", "bot", "inside", "below", "above", "inf"])
        case["refmode"] = mode if mode in ("none", "top", "bot", "inf") else "value"
        if mode == "inf":
            case["inf"] = rnd.choice(list(INF))
        if case["refmode"] == "value":
            ref = {"inside": lo + rnd.uniform(0.02, 0.98) * (hi - lo), "below": lo * rnd.uniform(0.3, 0.95),
                   "above": hi * rnd.uniform(1.05, 3)}[mode]
            case["ref"] = in_unit(ref, rnd.choice(list(UN)))
        case["mode"] = mode
        ref, _, refis = ref_of(case, z)
        if decades:
            dm_pc = rnd.choice([-1, 1]) * logu(rnd, 1e-4, 1e3)
        else:
            unit = edge_delays(z, Fraction(1), ref, refis)
            w = max(abs(x) for x in unit)
            sp = span(rnd, N) if span else rnd.uniform(0, 1.2) * N
            dm_pc = float(rnd.choice([-1, 1]) * Fraction(sp) / w)
        if not (1e-300 < abs(dm_pc) < 1e12):
            continue
        dm_in_units(rnd, case, dm_pc)
        d = edge_delays(z, _dm(case)[1], ref, refis)
        if any(x != 0 and abs(x - round(x)) < Fraction(1, 1000) for x in d):
            continue
        return case
    raise RuntimeError("no baseband case found")


def crop_fields(case, z, y, ref, refis, dmx, o=None):
    e = {"dm": rat(dmx), "N": case["N"], "rate": rat(common.hz(z.sample_rate)),
         "dt": rat(Fraction(float(z.dt.to_value(u.s)))), "top": rat(common.hz(z.max_freq)),
         "bot": rat(common.hz(z.min_freq)), "refis": refis, **ref_fields(ref), "finite": all_finite(compute(y) if o is None else o),
         "fq": [rat(x) for x in common.hz(z.channel_freqs)],
         "outlen": int(y.shape[0]), "zin": meta_rec(z), "zout": meta_rec(y), "xcheck": bool(case.get("xcheck"))}
    e.update(start_fields(z, y))
    return e


def describe(case):
    return ("%s N=%d nchan=%d %s trail=%r %s%s rate=%r fc=%r DM=%r ref=%s%r"
            % (case.get("cls"), case["N"], case["nchan"], case["align"], case["trail"], case["dtype"],
               " dask" if case.get("dask") else "", case["rate"], case["cf"],
               "%r %s%s%s" % (case["dm"], case.get("dmu"), " .to(%s)" % case["dmto"] if case.get("dmto") else "",
                              " negated" if case.get("dmneg") else ""),
               case["refmode"], case.get("ref") or case.get("inf")))


def supplied_event(case, z, DM, kw, y1, o1):
    """the same call with the chirp supplied by the caller"""
    chirp = DM.chirp_from_signal(z, **kw)
    if case["seed"] % 2:
        chirp = chirp.reshape(z.shape[:2])
    y2 = pb.coherent_dedispersion(z, DM, chirp=chirp, **kw)
    o2 = compute(y2)
    same = o1.shape == o2.shape
    scale = float(np.max(np.abs(compute(z)))) if z.data.size else 0.0
    md = float(np.max(np.abs(o1 - o2))) if same and o1.size else 0.0
    if not np.isfinite(md):
        md = 1e300
    t1, t2 = y1.start_time, y2.start_time
    return {"ev": "supplied", "samelen": bool(same),
            "samestart": (t1 is None and t2 is None) or (t1 is not None and t2 is not None and
                                                         common.time_days(t1) == common.time_days(t2)),
            "maxdiff": rat(md), "scale": rat(scale), "_bitwise": bool(same and np.array_equal(o1, o2)),
            "_cost": 0.01, "_desc": "coherent_dedispersion with supplied chirp: " + describe(case)}


def run_chirpsig_case(case):
    """chirp_from_signal: one chirp event per channel; coherent_dedispersion of
    random data: crop event (+ supplied chirp)"""
    rnd = np.random.default_rng(case["seed"])
    shape = bb_shape(case)
    data = (rnd.integers(-9, 10, shape) + 1j * rnd.integers(-9, 10, shape)).astype(case["dtype"])
    z = bb_signal(case, data)
    DM, dmx = _dm(case)
    ref, kw, refis = ref_of(case, z)
    ch = DM.chirp_from_signal(z, **kw)
    isdask = isinstance(ch, da.Array)
    ch = np.asarray(ch.compute(scheduler="synchronous") if isdask else ch)
    want = (case["N"], case["nchan"]) + (1,) * (len(shape) - 2)
    ok = ch.shape == want and ch.dtype.kind == "c" and isdask == bool(case["dask"])
    evs = []
    ks = case["bins"]
    for c, f in enumerate(common.hz(z.channel_freqs)):
        evs.append({"ev": "chirp", "dm": rat(dmx), "N": case["N"], "dt": rat(Fraction(float(z.dt.to_value(u.s)))),
                    "fc": rat(f), "ks": ks, **ref_fields(ref), "finite": all_finite(ch),
                    "xcheck": case.get("xcheck", -1) if c == 0 else -1,
                    "vals": cfix_list(ch.reshape(case["N"], case["nchan"])[ks, c]) if ok else [exact.cfix(0)] * len(ks),
                    "_cost": 0.05 * len(ks),
                    "_desc": "chirp_from_signal channel %d shape %r (want %r) %s: %s" % (c, ch.shape, want, ch.dtype, describe(case))})
    y = pb.coherent_dedispersion(z, DM, **kw)
    o = compute(y)
    e = crop_fields(case, z, y, ref, refis, dmx)
    e.update(ev="crop", _cost=0.03, _desc="coherent_dedispersion -> len %d: %s" % (len(y), describe(case)))
    evs.append(e)
    evs.append(supplied_event(case, z, DM, kw, y, o))
    return evs


def run_crop_case(case):
    rnd = np.random.default_rng(case["seed"])
    shape = bb_shape(case)
    data = (rnd.integers(-9, 10, shape) + 1j * rnd.integers(-9, 10, shape)).astype(case["dtype"])
    z = bb_signal(case, data)
    DM, dmx = _dm(case)
    ref, kw, refis = ref_of(case, z)
    y = pb.coherent_dedispersion(z, DM, **kw)
    compute(y)
    e = crop_fields(case, z, y, ref, refis, dmx)
    e.update(ev="crop", _cost=0.03, _desc="coherent_dedispersion -> len %d: %s" % (len(y), describe(case)))
    return [e]


def rows_of(case):
    """(channel, flat trailing index) rows of the sample array"""
    nt = int(np.prod(bb_shape(case)[2:])) if len(bb_shape(case)) > 2 else 1
    return [(c, t) for c in range(case["nchan"]) for t in range(nt)]


def tone_signal(case):
    """every (channel, trailing) row carries a pure tone in its own DFT bin"""
    N = case["N"]
    rows = rows_of(case)
    rnd = random.Random(case["seed"])
    shape = bb_shape(case)
    nt = len(rows) // case["nchan"]
    data = np.zeros((N, case["nchan"], nt), np.complex128)
    ks = []
    n = np.arange(N)
    for c, t in rows:
        k = rnd.randrange(N)
        a = complex(rnd.choice([1, 2, 3, -2]), rnd.choice([0, 1, -3]))
        ks.append(k)
        data[:, c, t] = a * np.exp(2j * np.pi * ((k * n) % N) / N)
    data = data.reshape(shape).astype(case["dtype"])
    return bb_signal(case, data), data, ks


def tone_event(case, z, data, ks, DM, dmx, note="", pre=None):
    N = case["N"]
    rows = rows_of(case)
    nt = len(rows) // case["nchan"]
    ref, kw, refis = ref_of(case, z)
    if pre is not None:
        y, o = pre
    else:
        y = pb.coherent_dedispersion(z, DM, **kw)
        o = compute(y)
    e = crop_fields(case, z, y, ref, refis, dmx, o)
    lab = e["fq"]
    x3 = np.asarray(data).reshape(N, case["nchan"], nt)
    o3 = o.reshape(o.shape[0], case["nchan"], nt)
    e.update(ev="tone", ks=ks, amp=5, fq=[lab[c] for c, t in rows],
             x=[cfix_list(x3[:, c, t]) for c, t in rows], out=[cfix_list(o3[:, c, t]) for c, t in rows],
             _cost=0.1 + 0.0012 * N * len(rows),
             _desc="%stones %r -> len %d: %s (DM object holds %r)" % (note, ks, len(y), describe(case), float(dmx)))
    return e, kw, y, o


def run_tone_case(case):
    z, data, ks = tone_signal(case)
    DM, dmx = _dm(case)
    e, kw, y, o = tone_event(case, z, data, ks, DM, dmx)
    evs = [e]
    if case.get("supplied"):
        evs.append(supplied_event(case, z, DM, kw, y, o))
    return evs


MULTS = {1: [[1, 0]], 2: [[1, 0], [0, 2]], 3: [[1, 0], [-2, 1], [3, 0]], 4: [[1, 0], [0, -1], [2, 2], [-3, 0]],
         6: [[1, 0], [0, 2], [-1, 1], [3, 0], [0, -1], [2, -2]]}


def run_cohdd_case(case):
    """N <= 8, small-integer input; the input of trailing element t is x * mult[t]"""
    N = case["N"]
    rnd = random.Random(case["seed"])
    shape = bb_shape(case)
    nt = int(np.prod(shape[2:])) if len(shape) > 2 else 1
    mult = MULTS[nt]
    xs = [[[rnd.randint(-4, 4), rnd.randint(-4, 4)] for _ in range(N)] for _ in range(case["nchan"])]
    if case["seed"] % 3 == 0:       # an impulse: the output is the chirp's impulse response
        xs = [[[0, 0] for _ in range(N)] for _ in range(case["nchan"])]
        for c in range(case["nchan"]):
            xs[c][rnd.randrange(N)] = [rnd.choice([1, -2, 3]), rnd.choice([0, 1])]
    base = np.array([[complex(*v) for v in ch] for ch in xs]).T            # (N, nchan)
    data = base[:, :, None] * np.array([complex(*m) for m in mult])[None, None, :]
    data = data.reshape(shape).astype(case["dtype"])
    z = bb_signal(case, data)
    DM, dmx = _dm(case)
    ref, kw, refis = ref_of(case, z)
    y = pb.coherent_dedispersion(z, DM, **kw)
    o = compute(y)
    e = crop_fields(case, z, y, ref, refis, dmx)
    o3 = o.reshape(o.shape[0], case["nchan"], nt)
    e.update(ev="cohdd", x=xs, mult=mult, mscale=[abs(m[0]) + abs(m[1]) for m in mult],
             scale=max(1, max(abs(v[0]) + abs(v[1]) for ch in xs for v in ch)),
             out=[[cfix_list(o3[:, c, t]) for t in range(nt)] for c in range(case["nchan"])],
             _cost=0.3 + 0.012 * N * N * case["nchan"],
             _desc="x=%r -> len %d: %s" % (xs, len(y), describe(case)))
    evs = [e]
    if case.get("supplied"):
        evs.append(supplied_event(case, z, DM, kw, y, o))
    return evs


def run_roundtrip_case(case):
    """a smooth, band-limited pulse in the middle of the signal; DM then -DM"""
    N = case["N"]
    rnd = random.Random(case["seed"])
    rows = rows_of(case)
    nt = len(rows) // case["nchan"]
    shape = bb_shape(case)
    n = np.arange(N)
    M = N / 20.0
    env = np.exp(-((n - N // 2) / M) ** 2)
    kmax = N // 2 - int(np.ceil(30 * 128 / N * N / 128)) - 5
    data = np.zeros((N, case["nchan"], nt), np.complex128)
    for c, t in rows:
        for _ in range(3):
            k = rnd.randint(-kmax, kmax)
            data[:, c, t] += complex(rnd.choice([1, 2, -1]), rnd.choice([0, 1, -2])) * env * np.exp(2j * np.pi * k * n / N)
    data = data.reshape(shape).astype(case["dtype"])
    z = bb_signal(case, data)
    DM, dmx = _dm(case)
    ref, kw, refis = ref_of(case, z)
    y = pb.coherent_dedispersion(z, DM, **kw)
    w = pb.coherent_dedispersion(y, -DM, **kw)
    ow = compute(w)
    x3 = np.asarray(data).reshape(N, case["nchan"], nt)
    w3 = ow.reshape(ow.shape[0], case["nchan"], nt)
    scale = float(np.max(np.abs(x3)))
    nz = np.nonzero(np.max(np.abs(x3), axis=(1, 2)) > 1e-9 * scale)[0]
    e = crop_fields(case, z, y, ref, refis, dmx)
    s1, s2 = start_fields(z, y), start_fields(z, w)
    e["finite"] = e["finite"] and all_finite(ow)
    e.update(ev="roundtrip", len1=int(len(y)), len2=int(len(w)), adv1=s1["adv"], adv2=s2["adv"],
             advtol=s2["advtol"], hasT=s1["hasT"] and s1["outT"] and s2["outT"],
             x=[cfix_list(x3[:, c, t]) for c, t in rows], w=[cfix_list(w3[:, c, t]) for c, t in rows],
             scale=exact.fix(scale), lo=int(nz[0]), hi=int(nz[-1]),
             _cost=0.2 + 0.0006 * N * len(rows), _desc="DM then -DM: lens %d -> %d -> %d: %s" % (N, len(y), len(w), describe(case)))
    return [e]


# ================================================================== sessions: several calls, shared objects
PCC = u.pc / u.cm ** 3


def dm_value(DM):
    return float(DM.to_value(PCC))


def mutate_dm(DM, op, target, dmu="pc/cm3"):
    """bring a DispersionMeasure to (about) `target` pc cm^-3: a new object (held in unit dmu), or the
    SAME object changed in place"""
    cur = None if DM is None else dm_value(DM)
    if op == "new" or DM is None:
        un, sc = DMUN[dmu]
        return pb.DM(float(Fraction(float(target)) / sc), un)
    if op == "iadd":
        DM += (float(target) - cur) * PCC
    elif op == "isub":
        DM -= (cur - float(target)) * PCC
    elif op == "imul" and cur != 0:
        DM *= float(target) / cur
    elif op == "neg":
        DM *= -1
    else:                                   # "set"
        DM[...] = pb.DM(float(target))
    return DM


def dm_walk(steps, dmu="pc/cm3"):
    """the values (pc cm^-3) a DM object really holds along a list of (op, target) steps"""
    DM, out = None, []
    for op, target in steps:
        DM = mutate_dm(DM, op, target, dmu)
        out.append(float(dm_exact(DM)))
    return out


NEARBY = (1e-9, 1e-7, 1e-6, 1e-5, 2e-5, 3e-5, 4e-5, 1e-4, 1e-3, 1e-2)


def nearby_dm(rnd, v):
    """another DM close to v: absolute or relative steps from 1e-9 to 1e-2, either direction"""
    s = rnd.choice(NEARBY) * rnd.choice([1, -1])
    if v == 0 or (abs(s) < 0.5 * abs(v) and rnd.random() < 0.6):
        return v + s
    return v * (1 + s)


def gen_dm_steps(rnd, v0, ok, k, dmu="pc/cm3"):
    """k (op, target) steps starting with a new object at v0; ok(value) says whether a DM value is usable
    (away from rounding / ceiling boundaries); the first value is repeated at the end"""
    steps = [("new", v0)]
    for i in range(k - 1):
        for _ in range(30):
            op = rnd.choice(["iadd", "isub", "imul", "set", "neg", "new", "iadd"])
            cur = dm_walk(steps, dmu)[-1]
            r = rnd.random()
            target = -cur if op == "neg" else nearby_dm(rnd, cur) if r < 0.6 else \
                cur * rnd.uniform(0.3, 1.7) if r < 0.9 else nearby_dm(rnd, 0.0)
            if i == k - 2:
                op, target = rnd.choice(["set", "iadd", "new"]), v0
            got = dm_walk(steps + [(op, target)], dmu)[-1]
            if ok(got):
                steps.append((op, target))
                break
    return [[op, float(t)] for op, t in steps]


def gen_lawseq_case(rnd):
    base = gen_law_case(rnd)
    while "chain" in base:
        base = gen_law_case(rnd)
    dmu = rnd.choice(list(DMUN))
    v0 = float(_dm(base)[1])
    return {"kind": "lawseq", "base": base, "dmu": dmu, "steps": gen_dm_steps(rnd, v0, lambda v: True, rnd.randint(3, 6), dmu)}


def run_lawseq_case(case):
    """time_delay / sample_delay with ONE DispersionMeasure object stepped in place between the calls"""
    evs, DM = [], None
    for i, (op, target) in enumerate(case["steps"]):
        DM = mutate_dm(DM, op, target, case.get("dmu", "pc/cm3"))
        c = dict(case["base"], dm=float(DM.value), dmu=str(DM.unit))
        c.pop("fvec", None)
        for e in _law_events(c, DM, dm_exact(DM)):
            e["_desc"] = "step %d (%s): %s" % (i, op, e["_desc"])
            evs.append(e)
    return evs


def gen_incohseq_case(rnd, i):
    base = gen_incoh_case(rnd, i)
    base["dmu"] = "pc/cm3"
    z, _ = incoh_signal(base)
    ref = Q(base["ref"]) if base.get("ref") is not None else z.center_freq

    def ok(v):
        dx = exact_delays(z, Fraction(float(v)), ref)
        return max(abs(d) for d in dx) < 1e8 and \
            not any(abs(abs(d - math.floor(d)) - Fraction(1, 2)) < Fraction(1, 1000) for d in dx)
    dmu = rnd.choice(list(DMUN))
    return {"kind": "incohseq", "base": base, "dmu": dmu, "steps": gen_dm_steps(rnd, base["dm"], ok, rnd.randint(3, 5), dmu)}


def run_incohseq_case(case):
    """several incoherent dedispersions of the SAME signal object, the DM object stepped in place;
    the first DM comes back at the end, once more on the same object and once on a fresh copy"""
    base = case["base"]
    z, _ = incoh_signal(base)
    evs, DM = [], None
    for i, (op, target) in enumerate(case["steps"]):
        DM = mutate_dm(DM, op, target, case.get("dmu", "pc/cm3"))
        evs.append(incoh_event(base, z, DM, dm_exact(DM), base.get("ref"), "call %d on one signal (%s): " % (i, op)))
    z2, _ = incoh_signal(base)
    evs.append(incoh_event(base, z2, DM, dm_exact(DM), base.get("ref"), "fresh copy of the signal: "))
    return evs


def gen_chirpseq_case(rnd, full=False):
    """one geometry, several nearby / different DMs; half of the geometries have a large phase per unit DM"""
    base = gen_chirpfn_case(rnd, full)
    if rnd.random() < 0.5:
        fc = logu(rnd, 1e8, 4e8)
        rate = min(logu(rnd, 1e6, 1e8), 0.75 * fc)
        base["cf"] = in_unit(fc, rnd.choice(list(UN)))
        base["dt"] = [float(1 / Fraction(rate)), "s"]
        base["ref"] = in_unit(rnd.choice([fc - rate / 2, fc + rate / 2, 0.7 * fc, 1.6 * fc]), rnd.choice(list(UN)))
    v0 = float(_dm(base)[1])
    if rnd.random() < 0.5:
        v0 = round(v0, 4) if rnd.random() < 0.7 else 0.0
    if len(base["bins"]) > 6:
        base["bins"] = sorted(rnd.sample(base["bins"], 6))
    dmu = rnd.choice(list(DMUN))
    return {"kind": "chirpseq", "base": base, "dmu": dmu, "steps": gen_dm_steps(rnd, v0, lambda v: True, rnd.randint(3, 5), dmu)}


def run_chirpseq_case(case):
    evs, DM = [], None
    for i, (op, target) in enumerate(case["steps"]):
        DM = mutate_dm(DM, op, target, case.get("dmu", "pc/cm3"))
        for e in run_chirpfn_case(case["base"], DM):
            e["_desc"] = "call %d on one geometry (%s): %s" % (i, op, e["_desc"])
            evs.append(e)
    return evs


def gen_toneseq_case(rnd, Ns):
    base = gen_bb_case(rnd, "tone", Ns)
    z = bb_signal(base, np.zeros(bb_shape(base), base["dtype"]))
    ref, _, refis = ref_of(base, z)

    def ok(v):
        d = edge_delays(z, Fraction(float(v)), ref, refis)
        return not any(x != 0 and abs(x - round(x)) < Fraction(1, 1000) for x in d)
    dmu = rnd.choice(list(DMUN))
    return {"kind": "toneseq", "base": base, "dmu": dmu, "steps": gen_dm_steps(rnd, float(_dm(base)[1]), ok, 3, dmu)}


def run_toneseq_case(case):
    """several coherent dedispersions of the SAME signal object with nearby DMs (DM object stepped in place)"""
    base = case["base"]
    z, data, ks = tone_signal(base)
    evs, DM = [], None
    for i, (op, target) in enumerate(case["steps"]):
        DM = mutate_dm(DM, op, target, case.get("dmu", "pc/cm3"))
        e, kw, y, o = tone_event(base, z, data, ks, DM, dm_exact(DM), "call %d on one signal (%s): " % (i, op))
        evs.append(e)
        if i == 1:
            evs.append(supplied_event(base, z, DM, kw, y, o))
    return evs


def arg_hash(x):
    """bytes + unit of an argument, to see whether a call changed what it was given"""
    import hashlib
    if isinstance(x, u.Quantity):
        return str(x.unit) + ":" + hashlib.blake2b(np.ascontiguousarray(x.value).tobytes(), digest_size=8).hexdigest()
    return "plain:" + hashlib.blake2b(np.ascontiguousarray(np.asarray(x)).tobytes(), digest_size=8).hexdigest()


def gen_lawarr_case(rnd):
    """frequency ARRAYS (float64 Quantity in Hz / kHz / MHz / GHz) handed to several calls as the same objects"""
    def arr():
        unit = rnd.choice(["MHz", "MHz", "Hz", "kHz", "GHz"])
        return [[float(logu(rnd, 1e7, 3e10) / SCALE[unit]) for _ in range(rnd.randint(1, 5))], unit]
    case = {"kind": "lawarr", "fa": arr(), "ra": arr() if rnd.random() < 0.4 else None,
            "rs": in_unit(logu(rnd, 1e7, 3e10), rnd.choice(list(UN))) if rnd.random() < 0.85 else None,
            "rate": in_unit(logu(rnd, 1e3, 1e8), rnd.choice(["Hz", "kHz", "MHz"])), "steps": []}
    if case["ra"] is not None:
        case["ra"][0] = (case["ra"][0] * 5)[:len(case["fa"][0])]          # same length: elementwise
    for _ in range(rnd.randint(2, 4)):
        case["steps"].append({"dm": rnd.choice([-1, 1]) * logu(rnd, 1e-4, 1e3), "dmu": rnd.choice(list(DMUN)),
                              "swap": rnd.random() < 0.3, "ref": "array" if case["ra"] is not None and rnd.random() < 0.5 else "scalar",
                              "sdelay": rnd.random() < 0.5})
    return case


def run_lawarr_case(case):
    """every call is judged against the values the caller's arrays held BEFORE the first call"""
    fq = np.array(case["fa"][0], dtype=np.float64) * UN[case["fa"][1]]
    rq = None if case["ra"] is None else np.array(case["ra"][0], dtype=np.float64) * UN[case["ra"][1]]
    rs = np.inf if case["rs"] is None else Q(case["rs"])
    rate = Q(case["rate"])
    intended = {"f": [[v, case["fa"][1]] for v in case["fa"][0]],
                "ra": None if rq is None else [[v, case["ra"][1]] for v in case["ra"][0]]}
    evs = []
    for i, st in enumerate(case["steps"]):
        DM, dmx = _dm(st)
        ref = rq if st["ref"] == "array" and rq is not None else rs
        refp = intended["ra"] if ref is rq else [case["rs"]] * len(intended["f"])
        a, b = (ref, fq) if st["swap"] else (fq, ref)
        pa, pb_ = (refp, intended["f"]) if st["swap"] else (intended["f"], refp)
        args = [a, b, rate, DM]
        before = [arg_hash(x) for x in args]
        t = DM.sample_delay(a, b, rate) if st["sdelay"] else DM.time_delay(a, b)
        after = [arg_hash(x) for x in args]
        what = "call %d of a session on the same frequency arrays: %s(%s %r, %s %r) DM=%r %s" % (
            i, "sample_delay" if st["sdelay"] else "time_delay", "ref" if st["swap"] else "f", case["fa"],
            "f" if st["swap"] else "ref", case["ra"] if ref is rq else case["rs"], st["dm"], st["dmu"])
        evs.append({"ev": "lawargs", "before": before, "after": after, "_cost": 0.005,
                    "_desc": what + ": arguments (f, ref, rate, DM) %r -> %r" % (before, after)})
        vals = np.atleast_1d(np.asarray(t if st["sdelay"] else t.to_value(u.s), dtype=np.float64))
        vals = np.broadcast_to(vals, (len(intended["f"]),))
        for j, o in enumerate(vals):
            e = {"dm": rat(dmx), "_cost": 0.01, "_desc": what + " element %d = %r" % (j, float(o))}
            e.update(_fq_fields(pa[j], "f"))
            e.update(_fq_fields(pb_[j], "r"))
            if st["sdelay"]:
                e.update(ev="sdelay", out=rat(float(o)), rate=rat(float(case["rate"][0])), rates=rat(SCALE[case["rate"][1]]))
            else:
                e.update(ev="tdelay", out=rat(float(o)))
            evs.append(e)
    return evs


# ---- several lazy Dask results of one geometry evaluated in ONE graph
def joint_event(lazy_a, lazy_b, twin_a, twin_b, scale, what):
    """two lazy results combined lazily -- concatenated along time, and subtracted when their lengths agree --
    and computed once, against the same combination of the NumPy twins"""
    same = lazy_a.shape == twin_a.shape and lazy_b.shape == twin_b.shape
    md = 0.0
    if same:
        c = np.asarray(da.concatenate([lazy_a, lazy_b], axis=0).compute(scheduler="synchronous"))
        t = np.concatenate([twin_a, twin_b], axis=0)
        md = float(np.max(np.abs(c - t))) if t.size else 0.0
        if lazy_a.shape == lazy_b.shape and twin_a.size:
            d = np.asarray((lazy_a - lazy_b).compute(scheduler="synchronous"))
            md = max(md, float(np.max(np.abs(d - (twin_a - twin_b)))))
        if not np.isfinite(md):
            md = 1e300
    return {"ev": "joint", "samelen": bool(same), "maxdiff": rat(md), "scale": rat(scale), "_cost": 0.01,
            "_desc": "lazy concatenate / (a - b) of two Dask results of one geometry vs their NumPy twins, max deviation %r: %s" % (md, what)}


def gen_incohjoint_case(rnd, i):
    """a Dask-backed incoherent case with a non-empty result + a second usable DM"""
    for _ in range(100):
        base = gen_incoh_case(rnd, i)
        if base["n"] < 3:
            continue
        base["dask"] = True
        for k in ("fchunks", "tchunk"):
            base.pop(k, None)
        base.update(pick_chunks(rnd, base["n"], base["nchan"]))
        tw = dict(base, dask=False)
        z, _ = incoh_signal(tw)
        try:
            if len(pb.incoherent_dedispersion(z, _dm(tw)[0], **({"ref_freq": Q(tw["ref"])} if tw.get("ref") is not None else {}))) == 0:
                continue
        except Exception:       # noqa
            continue
        ref = Q(base["ref"]) if base.get("ref") is not None else z.center_freq

        def ok(v):
            dx = exact_delays(z, Fraction(float(v)), ref)
            return max(abs(d) for d in dx) < 1e8 and \
                not any(abs(abs(d - math.floor(d)) - Fraction(1, 2)) < Fraction(1, 1000) for d in dx)
        steps = gen_dm_steps(rnd, base["dm"], ok, 3)
        return {"kind": "incohjoint", "base": base, "dm2": steps[1][1], "nvar": rnd.choice([2, 2, 3])}
    raise RuntimeError("no joint incoherent case found")


def run_incohjoint_case(case):
    """signals of identical shape / chunking / dtype / band but DIFFERENT data dedispersed by the same DM, and
    the first one also by another DM; all lazy results computed in one dask.compute and combined lazily;
    every result is judged like a single call, the NumPy twins too"""
    import dask
    base = case["base"]
    tw = dict(base, dask=False)
    DM1, dmx1 = _dm(base)
    DM2 = pb.DM(float(case["dm2"]))
    kw = {"ref_freq": Q(base["ref"])} if base.get("ref") is not None else {}
    jobs = [(v, DM1, dmx1) for v in range(case["nvar"])] + [(0, DM2, dm_exact(DM2))]
    sigs = {v: incoh_signal(base, v)[0] for v in range(case["nvar"])}
    lazy = []
    for v, DM, dmx in jobs:
        try:
            lazy.append(pb.incoherent_dedispersion(sigs[v], DM, **kw))
        except Exception as ex:      # noqa
            lazy.append(type(ex).__name__)
    good = [y for y in lazy if not isinstance(y, str)]
    outs = iter(dask.compute(*[y.data for y in good], scheduler="synchronous"))
    evs, twins = [], []
    for (v, DM, dmx), y in zip(jobs, lazy):
        pre = (None, None, y) if isinstance(y, str) else (y, np.asarray(next(outs)), False)
        evs.append(incoh_event(base, sigs[v], DM, dmx, base.get("ref"),
                               "one of %d Dask results computed together (data variant %d): " % (len(jobs), v), pre, v))
        zt, _ = incoh_signal(tw, v)
        e = incoh_event(tw, zt, DM, dmx, tw.get("ref"), "NumPy twin (data variant %d): " % v, None, v)
        evs.append(e)
        try:
            twins.append(compute(pb.incoherent_dedispersion(zt, DM, **kw)))
        except Exception:        # noqa
            twins.append(None)
    for a, b in ((0, 1), (0, len(jobs) - 1)):
        if not isinstance(lazy[a], str) and not isinstance(lazy[b], str) and twins[a] is not None and twins[b] is not None:
            evs.append(joint_event(lazy[a].data, lazy[b].data, twins[a], twins[b], 0.0,
                                   "incoherent_dedispersion results %d and %d of %s" % (a, b, evs[0]["_desc"][:200])))
    return evs


def gen_tonejoint_case(rnd, Ns):
    for _ in range(100):
        base = gen_bb_case(rnd, "tone", Ns, nchans=(1, 2, 3))
        base["dask"] = True
        z = bb_signal(base, np.zeros(bb_shape(base), base["dtype"]))
        ref, _, refis = ref_of(base, z)

        def ok(v):
            d = edge_delays(z, Fraction(float(v)), ref, refis)
            return not any(x != 0 and abs(x - round(x)) < Fraction(1, 1000) for x in d)
        steps = gen_dm_steps(rnd, float(_dm(base)[1]), ok, 3)
        return {"kind": "tonejoint", "base": base, "dm2": steps[1][1]}


def run_tonejoint_case(case):
    """two Dask-backed signals of one geometry with different tones, same DM, + the first with another DM:
    computed in one dask.compute, each judged as a single call; lazy (a - b) against the NumPy twins"""
    import dask
    base = case["base"]
    DM1, dmx1 = _dm(base)
    DM2 = pb.DM(float(case["dm2"]))
    jobs = [(0, DM1, dmx1), (1, DM1, dmx1), (0, DM2, dm_exact(DM2))]
    sig = {v: tone_signal(dict(base, seed=base["seed"] + v)) for v in (0, 1)}
    _, kw, _ = ref_of(base, sig[0][0])
    lazy = [pb.coherent_dedispersion(sig[v][0], DM, **kw) for v, DM, _ in jobs]
    outs = dask.compute(*[y.data for y in lazy], scheduler="synchronous")
    evs, twins = [], []
    for (v, DM, dmx), y, o in zip(jobs, lazy, outs):
        z, data, ks = sig[v]
        e, _, _, _ = tone_event(base, z, data, ks, DM, dmx, "one of 3 Dask results computed together (tones %d): " % v,
                                (y, np.asarray(o)))
        evs.append(e)
        zt, dt_, _ = tone_signal(dict(base, seed=base["seed"] + v, dask=False))
        twins.append(compute(pb.coherent_dedispersion(zt, DM, **kw)))
    for a, b in ((0, 1), (0, 2)):
        evs.append(joint_event(lazy[a].data, lazy[b].data, twins[a], twins[b], 5.0,
                               "coherent_dedispersion results %d and %d: %s" % (a, b, describe(base))))
    return evs


RUNNERS = {"incohjoint": run_incohjoint_case, "tonejoint": run_tonejoint_case, "lawarr": run_lawarr_case, "lawseq": run_lawseq_case, "incohseq": run_incohseq_case, "chirpseq": run_chirpseq_case,
           "toneseq": run_toneseq_case, "law": run_law_case, "incoh": run_incoh_case, "chirpfn": run_chirpfn_case, "chirpsig": run_chirpsig_case,
           "crop": run_crop_case, "tone": run_tone_case, "cohdd": run_cohdd_case, "roundtrip": run_roundtrip_case}


def run_case(case):
    return RUNNERS[case["kind"]](case)


def collect(cases, chk=None, repo_marker="pulsarbat"):
    """run all cases on the real code -> events (tagged with their case index).
    An exception raised inside pulsarbat / astropy on these (valid) inputs is a
    violation of the property (key <kind>:raised); anything else is a harness bug."""
    import traceback
    events = []
    for ci, case in enumerate(cases):
        try:
            evs = run_case(case)
        except Exception as ex:     # noqa
            frames = traceback.extract_tb(ex.__traceback__)
            inside = any(("/%s/" % repo_marker) in f.filename or "/astropy/" in f.filename for f in frames)
            if chk is None or not inside:
                raise
            chk.violation("%s:raised" % case["kind"], "%s case raised %r" % (case["kind"], ex), {"case": case, "event": "raised", "clause": "raised"})
            continue
        for e in evs:
            e["_case"] = ci
            e["id"] = len(events)
            events.append(e)
    return events


# ================================================================== C06: spec -> code (Gen_Dedisp)
def load_gen(path):
    cases = []
    with open(path) as f:
        for line in f:
            line = line.strip()
            if line:
                c = json.loads(line)
                cases.append(json.loads(c) if isinstance(c, str) else c)
    return cases


GEOMS = (0.51, 0.55, 0.7, 1.0, 3.0, 30.0, 1000.0)


def realise(gen, rnd, i):
    """abstract (len, rounded delay vector) -> a real signal description, DM and
    reference whose exact channel delays round to the vector (margin >= 0.02
    sample); None if no band geometry tried can produce the vector."""
    from scipy.optimize import linprog
    d = gen["d"]
    nchan = len(d)
    for factor in rnd.sample(GEOMS, len(GEOMS)):
        cls = RADIO[(i + int(factor * 7)) % 5]
        case = {"kind": "incoh", "cls": cls, "n": gen["len"], "nchan": nchan,
                "align": rnd.choice(["bottom", "center", "top"]),
                "trail": rnd.choice([[], [], [2]]), "hasT": bool(gen["hasT"]), "epoch": rnd.randrange(4),
                "dask": rnd.random() < 0.25, "chunk1": rnd.random() < 0.5, "dmu": "pc/cm3", "dm": 0.0}
        case["dtype"] = {"BasebandSignal": "complex64", "DualPolarizationSignal": "complex128",
                         "RadioSignal": "float32"}.get(cls, "float64")
        case["rate"] = rnd.choice([[1.0, "kHz"], [1.0, "MHz"], [32.0, "MHz"], [10.0, "Hz"]])
        if cls in ("BasebandSignal", "DualPolarizationSignal"):
            cbw = QX(case["rate"])
        else:
            case["cbw"] = rnd.choice([[0.5, "MHz"], [125.0, "kHz"], [8.0, "MHz"]])
            cbw = QX(case["cbw"])
        case["cf"] = in_unit(float(cbw * nchan) * factor, rnd.choice(["MHz", "GHz", "kHz"]))
        z, _ = incoh_signal(case)
        fr = common.hz(z.channel_freqs)
        if min(fr) <= 0:
            continue
        if all(x == 0 for x in d):
            sol = (0.0, None)
        else:
            gref = 1 / (fr[0] * fr[0])
            G = [float(1 / (f * f) / gref) for f in fr]
            sol = None
            for sgn in (1, -1):
                # variables A', B, m : delay_i = A' G_i - B ; maximise the rounding margin m
                A_ub, b_ub = [], []
                for Gi, di in zip(G, d):
                    A_ub += [[Gi, -1.0, 1.0], [-Gi, 1.0, 1.0]]
                    b_ub += [di + 0.5, -di + 0.5]
                eps = 1e-7
                A_ub.append([sgn * eps, -sgn * 1.0, 0.0])          # sgn * (B - eps A') >= 0
                b_ub.append(0.0)
                res = linprog([0, 0, -1.0], A_ub=A_ub, b_ub=b_ub,
                              bounds=[(0, None) if sgn > 0 else (None, 0), (None, None), (None, 0.45)])
                if res.status == 0 and res.x[2] >= 0.05 and abs(res.x[0]) > 1e-9 and res.x[1] / res.x[0] > 0:
                    a1, b1 = Fraction(float(res.x[0])), Fraction(float(res.x[1]))
                    dm = float(a1 / (gref * K * common.hz(z.sample_rate)))
                    ref_hz = 1 / math.sqrt(float(b1 * gref / a1))
                    sol = (dm, in_unit(ref_hz, rnd.choice(list(UN))))
                    break
            if sol is None:
                continue
        case["dm"] = sol[0]
        if sol[1] is not None:
            case["ref"] = sol[1]
        ref = Q(case["ref"]) if case.get("ref") is not None else z.center_freq
        dx = exact_delays(z, Fraction(float(case["dm"])), ref)
        if all(abs(x - di) < Fraction(48, 100) for x, di in zip(dx, d)):
            return case
    return None


def replay_gen(gen, case):
    """perform the realised call, compare with the record TLC printed.
    Returns a list of (key, description)."""
    z, data = incoh_signal(case)
    DM, _ = _dm(case)
    kw = {"ref_freq": Q(case["ref"])} if case.get("ref") is not None else {}
    what = "incoherent_dedispersion(%s len=%d d=%r hasT=%s; DM=%r ref=%r cf=%r)" % (
        case["cls"], gen["len"], gen["d"], gen["hasT"], case["dm"], case.get("ref"), case["cf"])
    try:
        y = pb.incoherent_dedispersion(z, DM, **kw)
        out = compute(y)
    except Exception as ex:      # noqa
        if gen["ok"] and gen["outlen"] > 0:
            return [("gen:incoh:refused", "%s raised %r, spec returns %d samples" % (what, ex, gen["outlen"]))]
        return []
    if not gen["ok"] or gen["outlen"] == 0:
        if out.shape[0] != 0:
            return [("gen:incoh:no-valid-time-but-samples-returned", "%s returned %d samples, spec: none valid"
                     % (what, out.shape[0]))]
        return []
    bad = []
    if out.shape[0] > gen["outlen"]:
        return [("gen:incoh:length", "%s returned %d samples, only %d have in-range sources" % (what, out.shape[0], gen["outlen"]))]
    if out.shape[0] < gen["outlen"]:
        return []       # fewer than all valid samples: not excluded by the property; judged by the trace clauses
    src, ok = decode_ident(out, case["nchan"])
    if not ok:
        bad.append(("gen:incoh:channel-or-trailing-moved", "%s: samples moved across channels / trailing axes" % what))
    if src != [list(r) for r in gen["src"]]:
        bad.append(("gen:incoh:source", "%s: output samples come from %r, spec says %r" % (what, src, gen["src"])))
    s = start_fields(z, y)
    if gen["hasT"]:
        if not s["outT"]:
            bad.append(("gen:incoh:start-lost", "%s lost its start time" % what))
        elif abs(exact.unrat(s["adv"]) - gen["adv"]) > exact.unrat(s["advtol"]):
            bad.append(("gen:incoh:start", "%s: start advanced by %s samples, spec says %d"
                        % (what, float(exact.unrat(s["adv"])), gen["adv"])))
    elif s["outT"]:
        bad.append(("gen:incoh:start-none", "%s: start time from nowhere" % what))
    if meta_rec(z) != meta_rec(y):
        bad.append(("gen:incoh:metadata", "%s: class / band / labels / trailing shape / meta changed" % what))
    return bad
