"""C08 - polyco prediction equals the tempo formula on every entry's span.

spec/PolycoSpans.tla   validity spans: the `intervals` loop, the declared union, searchsorted selection
spec/MC_Polyco.tla     exhaustive check of the span logic on a TMID lattice (+ two negative models)
spec/Polyco.tla        decimal reader, polyco text parser, tempo formula and derivatives (exact)
spec/Trace_Polyco.tla  decides every recorded call of the real PhasePredictor

This driver only *generates inputs* (polyco texts, times, phases) and *records* what the real code
returns; every expected value is computed by TLC from the text bytes.
"""
import concurrent.futures
import io
import json
import math
import os
import random
import tempfile
import uuid
from fractions import Fraction as F

import exact
import framework
import tlc

PID = "C08"
SCR = os.path.join(framework.ROOT, ".scratch")
TIMING_DAT = os.path.join(os.environ.get("VERIF_REPO", "/repo"), "tests", "data", "timing.dat")

# (MJD of the first day with the new TAI-UTC, TAI-UTC): the day before is a leap-second day
LEAPS = [41317, 41499, 41683, 42048, 42413, 42778, 43144, 43509, 43874, 44239, 44786, 45151, 45516,
         46247, 47161, 47892, 48257, 48804, 49169, 49534, 50083, 50630, 51179, 53736, 54832, 56109,
         57204, 57754]


class HarnessError(Exception):
    """the harness itself is inconsistent (never an outcome of the real code)"""


# ------------------------------------------------------------------ exact interchange
def dy(x):
    """float -> dyadic record {m: BigInt, e: int}, exactly x = m * 2**e (m odd or 0)."""
    x = float(x)
    if x == 0.0:
        return {"m": exact.big(0), "e": 0}
    if math.isnan(x) or math.isinf(x):
        raise ValueError("non-finite value in a result: %r" % x)
    fr, e = math.frexp(x)
    m = int(fr * (1 << 53))
    e -= 53
    tz = (m & -m).bit_length() - 1
    return {"m": exact.big(m >> tz), "e": e + tz}


def hx(x):
    return float(x).hex()


def unhx(s):
    return float.fromhex(s)


# ------------------------------------------------------------------ the real code (imported lazily)
_mods = {}


def libs():
    if not _mods:
        import warnings
        warnings.filterwarnings("ignore")
        import numpy as np
        import astropy.units as u
        from astropy.time import Time
        import pulsarbat as pb
        _mods.update(np=np, u=u, Time=Time, pb=pb)
    return _mods


def time_args(t):
    """astropy Time (scalar or array) -> replayable description (exact two-doubles)."""
    np = libs()["np"]
    return {"jd1": [hx(v) for v in np.ravel(t.jd1)], "jd2": [hx(v) for v in np.ravel(t.jd2)],
            "scale": t.scale, "shape": None if t.isscalar else list(t.shape)}


def make_time(a):
    m = libs()
    np, Time = m["np"], m["Time"]
    j1 = np.array([unhx(v) for v in a["jd1"]])
    j2 = np.array([unhx(v) for v in a["jd2"]])
    if a["shape"] is None:
        t = Time(j1[0], j2[0], format="jd", scale=a["scale"], precision=9)
    else:
        t = Time(j1.reshape(a["shape"]), j2.reshape(a["shape"]), format="jd", scale=a["scale"], precision=9)
    if not (np.array_equal(np.ravel(t.jd1), j1) and np.array_equal(np.ravel(t.jd2), j2)):
        raise HarnessError("Time two-doubles were renormalised; the event would not describe the call")
    return t


def time_recs(t, tai=True):
    """Time -> list of {u1,u2,a1,a2}: jd1, jd2 of the instant in UTC and in TAI (exact)."""
    np = libs()["np"]
    tu = t.utc
    out = []
    u1, u2 = np.ravel(tu.jd1), np.ravel(tu.jd2)
    if tai:
        ta = t.tai
        a1, a2 = np.ravel(ta.jd1), np.ravel(ta.jd2)
    for i in range(len(u1)):
        r = {"u1": dy(u1[i]), "u2": dy(u2[i])}
        if tai:
            r["a1"], r["a2"] = dy(a1[i]), dy(a2[i])
        out.append(r)
    return out


def phase_rec(i, f):
    fi = float(i)
    if fi != math.floor(fi):
        raise ValueError("Phase int part is not an integer: %r" % fi)
    return {"i": exact.big(int(fi)), "f": dy(f)}


class Session:
    """One polyco text on the real code; perform(args) -> event (dict for the trace)."""

    def __init__(self):
        self.full = None
        self.cur = None

    def perform(self, a):
        m = libs()
        np, u, pb = m["np"], m["u"], m["pb"]
        op = a["op"]
        ev = {"ev": op, "args": a}
        if op == "load":
            text = a["text"]
            ev["text"] = list(text.encode("latin-1"))
            ev["raised"], ev["rows"] = "", []
            try:
                if a.get("via") == "file":
                    with tempfile.NamedTemporaryFile("w", suffix=".dat", delete=False, dir=SCR,
                                                     encoding="latin-1", newline="") as fh:
                        fh.write(text)
                    try:
                        p = pb.PhasePredictor.from_polyco(fh.name)
                    finally:
                        os.remove(fh.name)
                else:
                    p = pb.PhasePredictor.from_polyco(io.StringIO(text, newline=""))
                ev["rows"] = time_recs(p["tmid"])
                ev["obs"] = {"rphase": [int(x) for x in p["rphase"]], "len": len(p)}
            except Exception as ex:        # the outcome is judged by the specification
                p = None
                ev["raised"] = type(ex).__name__
                ev["msg"] = str(ex)[:200]
            self.full = self.cur = p
            return ev
        if op == "subset":
            ev["rows"] = [r + 1 for r in a["rows"]]
            how = a.get("how", "list")
            if how == "mask":
                mask = np.zeros(len(self.full), dtype=bool)
                mask[a["rows"]] = True
                self.cur = self.full[mask]
            elif how == "slice":
                self.cur = self.full[a["rows"][0]:a["rows"][-1] + 1]
            else:
                self.cur = self.full[list(a["rows"])]
            return ev
        p = self.cur
        out = {"raised": ""}
        ev["out"] = out
        try:
            if op == "intervals":
                iv = p.intervals
                ev["out"] = [[time_recs(s, tai=False)[0], time_recs(e, tai=False)[0]] for s, e in iv]
                return ev
            if op in ("call", "f0"):
                t = make_time(a["times"])
                ev["t"] = time_recs(t)
                if op == "call":
                    ph = p(t)
                    if type(ph) is not pb.Phase:
                        raise TypeError("result is %s, not Phase" % type(ph).__name__)
                    if tuple(ph.shape) != tuple(t.shape):
                        raise TypeError("result shape %s for times of shape %s" % (ph.shape, t.shape))
                    out["ph"] = [phase_rec(i, f) for i, f in zip(np.ravel(ph.int.value), np.ravel(ph.frac.value))]
                else:
                    ev["n"] = a["n"]
                    f = p.f0(t, a["n"])
                    if tuple(np.shape(f)) != tuple(t.shape):
                        raise TypeError("result shape %s for times of shape %s" % (np.shape(f), t.shape))
                    out["v"] = [dy(v) for v in np.ravel(f.to_value(u.cycle / u.s ** (a["n"] + 1)))]
                return ev
            if op == "phasepol":
                t = make_time(a["times"])
                ev["t"] = time_recs(t)[0]
                xd = [unhx(v) for v in a["xd"]]
                ev["xd"] = [dy(v) for v in xd]
                pol, ref = p.phasepol(t)
                out["ref"] = phase_rec(ref.int.value, ref.frac.value)
                vs = []
                for d in xd:
                    x = 15.0 * d
                    if F(x) != 15 * F(d):
                        raise HarnessError("offset 15*%r is not exact" % d)
                    vs.append(dy(pol(x)))
                out["v"] = vs
                out["degree"] = int(pol.degree())
                return ev
            if op == "time_at":
                if a.get("at"):
                    # the phase the predictor itself gives at a boundary instant of the table (the end or
                    # start of a row's span, or of a merged interval), optionally moved by ulps of its
                    # fractional part: time_at(p(t_boundary)); the specification sees only the exact phase
                    at = a["at"]
                    ev["phi"] = phase_rec(0, 0.0)
                    if at["of"] == "entry":
                        half = p["span"][at["row"]] / 2
                        tb = p["tmid"][at["row"]] + (half if at["edge"] == "end" else -half)
                    else:
                        tb = p.intervals[at["ivl"]][1 if at["edge"] == "end" else 0]
                    pb_ = p(tb)
                    fi, ff = float(pb_.int.value), float(pb_.frac.value)
                    for _ in range(abs(at["ulps"])):
                        ff = float(np.nextafter(ff, math.inf if at["ulps"] > 0 else -math.inf))
                    phi = pb.Phase(np.int64(fi), ff)
                else:
                    phi = pb.Phase(np.int64(a["phi"]["i"]), unhx(a["phi"]["f"]))
                ev["phi"] = phase_rec(phi.int.value, phi.frac.value)
                g = make_time(a["guess"]) if a.get("guess") else None
                t1 = p.time_at(phi) if g is None else p.time_at(phi, guess=g)
                out["t"] = time_recs(t1)[0]
                return ev
            raise HarnessError("unknown op " + op)
        except HarnessError:
            raise
        except Exception as ex:
            ev["out"] = {"raised": type(ex).__name__, "msg": str(ex)[:200]}
            # keep the shape of the event: the specification decides whether raising was right
            if op == "intervals":
                ev["out"] = []
                ev["raised_intervals"] = type(ex).__name__
            return ev


# ------------------------------------------------------------------ generator of polyco texts
def fmt_sci(x, digits, ech, style, plus):
    """Exact Fraction x -> decimal numeral with `digits` significant digits (round half even on
    the exact value), exponent mark ech; style 'sci' d.ddd or 'fortran' 0.ddd / .ddd."""
    if x == 0:
        s = "0." + "0" * (digits - 1) + ech + "+00"
        return s
    neg = x < 0
    ax = -x if neg else x
    e10 = len(str(ax.numerator)) - len(str(ax.denominator))
    while ax >= F(10) ** (e10 + 1):
        e10 += 1
    while ax < F(10) ** e10:
        e10 -= 1
    q = ax / F(10) ** (e10 - digits + 1)
    n = q.numerator // q.denominator
    r = q - n
    if r > F(1, 2) or (r == F(1, 2) and n % 2 == 1):
        n += 1
    if n == 10 ** digits:
        n //= 10
        e10 += 1
    ds = str(n)
    if style == "sci":
        mant = ds[0] + "." + ds[1:]
        ex = e10
    elif style == "fortran":
        mant = "0." + ds
        ex = e10 + 1
    else:                       # 'dot': .ddd
        mant = "." + ds
        ex = e10 + 1
    sign = "-" if neg else ("+" if plus else "")
    return "%s%s%s%s%02d" % (sign, mant, ech, "-" if ex < 0 else "+", abs(ex))


def fmt_fixed(x, decimals, lead_zero=True):
    """Exact Fraction x >= 0 (or negative) -> fixed-point numeral, truncated toward zero."""
    neg = x < 0
    ax = -x if neg else x
    n = (ax * 10 ** decimals).numerator // (ax * 10 ** decimals).denominator
    s = str(n).rjust(decimals + 1, "0")
    ip, fp = (s[:-decimals], s[-decimals:]) if decimals else (s, "")
    if not lead_zero and ip == "0" and decimals:
        ip = ""
    return ("-" if neg else "") + ip + ("." + fp if decimals else "")


def leap_free(lo, hi):
    """no leap-second day (MJD L-1 for L in LEAPS) within [lo-2, hi+2]"""
    return all(not (lo - 3 <= L <= hi + 3) for L in LEAPS)


def budget(f0, span, s_other):
    """the double-precision budget of Trace_Polyco!Budget at the span edge (floats, for stratifying only)"""
    return f0 * (5e-12 + 1.2e-15 * 30 * span) + 4.5e-15 * s_other


def directed_rphase(rnd, rdec):
    """a reference phase of magnitude 1e9..1e12 (either sign) whose fraction, written with `rdec`
    decimals, sits next to an integer or a half: .99999x, .999999, .00000x, .000001, .500000, .499999,
    .000000 -- where a float64 of the whole numeral rounds across the integer although the text does not"""
    q = 10 ** rdec
    mag = rnd.randrange(10 ** 9, 10 ** rnd.choice([10, 11, 12, 12, 12]))
    k = rnd.choice([1, 1, 1, 2, 3, 5, 10, rnd.randint(1, 60)])
    k = min(k, q // 2 - 1) if q > 2 else 0
    kind = rnd.choice(["below", "below", "below", "above", "above", "half", "below-half", "above-half", "zero"])
    frac = {"below": q - k, "above": k, "half": q // 2, "below-half": q // 2 - k, "above-half": q // 2 + k, "zero": 0}[kind]
    return rnd.choice([-1, 1]) * F(mag * q + frac % q, q)


class PolyGen:
    """Seeded generator of one polyco text and its description (exact Fractions, for choosing times)."""

    def __init__(self, rnd):
        self.rnd = rnd

    def layout(self, n, span, kind):
        """TMIDs (Fractions of MJD, decimal with <= 11..13 places) of n entries of `span` minutes."""
        rnd = self.rnd
        dec = rnd.choice([5, 8, 11, 11, 11, 13])
        step_days = F(span, 1440)
        for _ in range(200):
            day0 = rnd.randint(41400, 61000)
            t0 = F(day0) + F(rnd.randrange(10 ** 6), 10 ** 6)
            tm = [t0]
            for i in range(1, n):
                k = kind if kind != "mixed" else rnd.choice(["touch", "overlap", "ms", "apart"])
                if k == "touch":
                    d = step_days
                elif k == "overlap":
                    d = step_days * F(rnd.randint(5, 95), 100)
                elif k == "ms":       # sub-millisecond or few-millisecond gaps, never within 0.05 ms of 1 ms
                    g = rnd.choice([0.2, 0.5, 0.9, 1.1, 1.5, 3.0]) / 86400e3
                    d = step_days + F(g).limit_denominator(10 ** 15)
                else:
                    d = step_days * rnd.choice([F(3, 2), 2, 3, 7]) + F(rnd.randrange(1000), 10 ** 5)
                tm.append(tm[-1] + d)
            q = 10 ** dec
            tm = [F(round(t * q), q) for t in tm]
            if len(set(tm)) < n:
                continue
            # gaps must stay clear of the 1 ms decision (0.02 ms) after rounding TMID to `dec` places
            ok = True
            for i in range(n):
                for j in range(n):
                    if i != j:
                        gap = (tm[j] - tm[i] - step_days) * 86400000
                        if abs(gap - 1) < F(2, 100):
                            ok = False
            if ok and leap_free(int(tm[0]) - 3, int(tm[-1]) + 4):
                return tm, dec
        raise HarnessError("no layout found")

    def make(self, family, wide=False, n=None, ncoeff=None, force=None, directed=False):
        rnd = self.rnd
        n = n or rnd.choice([1, 1, 2, 2, 3, 3, 4, 5, 6])
        ncoeff = ncoeff or rnd.choice([1, 2, 2, 3, 4, 5, 6, 7, 8, 9, 10, 11, 12, 12, 13, 14, 15, 15])
        for _ in range(1000):
            span = rnd.choice([10, 15, 30, 60, 90, 120, 240, 360, 720, 1440, rnd.randint(10, 1440)])
            f0 = math.exp(rnd.uniform(math.log(0.1), math.log(700.0)))
            if force:
                f0, span = force
                break
            b = budget(f0, span, 2e3)
            if (b <= 0.9e-8) != (not wide):
                continue
            break
        else:
            raise HarnessError("no (F0, span) found")
        kind = rnd.choice(["touch", "touch", "overlap", "ms", "apart", "mixed", "mixed"])
        tmids, tdec = self.layout(n, span, kind)
        f0dec = rnd.choice([6, 9, 12, 12, 12, 15])
        F0 = F(round(f0 * 10 ** f0dec), 10 ** f0dec)
        H = F(span, 2)
        digits = rnd.choice([17, 18, 18, 20] if family == "A" else [8, 12, 17, 17, 18, 18, 18, 20])
        entries = []
        if family == "A":
            # one global phase model phi(tau) = phi0 + 60 F tau + SUM g_k tau^k (tau: minutes from tmids[0]);
            # every entry is its exact Taylor expansion at TMID, so all entries agree wherever they overlap
            K = min(ncoeff - 1, rnd.randint(1, 5))
            R = max(F(1), (tmids[-1] - tmids[0]) * 1440 + H)
            Ftrue = F0 + F(rnd.randint(-10 ** 6, 10 ** 6), 10 ** 6) * F0 / 10 ** 5     # F0 text is a rounded reference
            if ncoeff == 1:
                Ftrue = F0          # no COEFF(2) to carry the difference
            g = [F(0), 60 * Ftrue]
            for k in range(2, K + 1):
                amp = 60 * Ftrue * R * F(rnd.randint(1, 1000), 10 ** 7)             # <= 1e-4 of the linear phase
                g.append(rnd.choice([-1, 1]) * amp / R ** k)
            phi0 = F(rnd.randrange(10 ** rnd.randint(0, 12)) * 10 ** 6 + rnd.randrange(10 ** 6), 10 ** 6)
            # reference phases of either sign: all positive, all negative (TMID before the phase-zero
            # epoch), or changing sign within the file
            sign_kind = rnd.choice(["pos", "pos", "neg", "neg", "cross"])
            if sign_kind == "pos":
                g[0] = phi0 + 60 * Ftrue * H * 2
            elif sign_kind == "neg":
                g[0] = -(phi0 + 60 * Ftrue * (R + 2 * H))
            else:
                g[0] = -60 * Ftrue * R * F(rnd.randint(1, 99), 100) + F(rnd.randrange(10 ** 6), 10 ** 6)
            if directed or rnd.random() < 0.25:
                # the phase at the first TMID lies just inside the six-decimal cell of a directed RPHASE
                d = directed_rphase(rnd, 6)
                g[0] = d + (1 if d > 0 else -1) * F(rnd.randint(1, 10 ** 12 - 1), 10 ** 19)
            for tm in tmids:
                tau = (tm - tmids[0]) * 1440
                c = []
                for j in range(ncoeff):
                    c.append(sum(F(math.comb(k, j)) * g[k] * tau ** (k - j) for k in range(j, len(g))) if j < len(g) else F(0))
                # RPHASE with six decimals, cut downwards or towards zero; COEFF(1) takes the rest
                rph = F(math.floor(c[0] * 10 ** 6), 10 ** 6)
                if c[0] < 0 and rnd.random() < 0.5:
                    rph = -F(math.floor(-c[0] * 10 ** 6), 10 ** 6)
                c[0] -= rph
                if ncoeff >= 2:
                    c[1] -= 60 * F0
                entries.append({"tmid": tm, "rphase": rph, "f0": F0, "c": c})
        else:
            for tm in tmids:
                rdec = 6 if rnd.random() < 0.7 else rnd.choice([0, 1, 3, 9])
                rph = F(rnd.randrange(10 ** rnd.randint(0, 12)) * 10 ** rdec + rnd.randrange(10 ** rdec), 10 ** rdec)
                if rnd.random() < 0.35:
                    rph = -rph
                if rnd.random() < (0.6 if directed else 0.25) or (directed and tm == tmids[0]):
                    rdec = rnd.choice([6, 6, 6, 6, 9, 5, 4, 7])
                    rph = directed_rphase(rnd, rdec)
                c = []
                for j in range(ncoeff):
                    top = 0 if j == 0 else 3
                    mag = F(10) ** rnd.randint(-9 if j == 0 else -6, top) * F(rnd.randint(10 ** 17, 10 ** 18 - 1), 10 ** 18)
                    c.append(rnd.choice([-1, 1]) * mag / H ** j)
                if rnd.random() < 0.15 and ncoeff > 2:
                    c[rnd.randrange(ncoeff)] = F(0)
                f0e = F0 if rnd.random() < 0.7 else F0 + F(rnd.randint(-999, 999), 10 ** f0dec)
                entries.append({"tmid": tm, "rphase": rph, "f0": f0e, "c": c, "rdec": rdec})
        order = list(range(n))
        how = rnd.choice(["sorted", "sorted", "reversed", "shuffled"])
        if how == "reversed":
            order.reverse()
        elif how == "shuffled":
            rnd.shuffle(order)
        ech = rnd.choice(["e", "e", "E", "D", "D", "d", "mix"])
        style = rnd.choice(["sci", "sci", "fortran", "dot", "mix"])
        eol = rnd.choice(["\n", "\n", "\n", "\r\n"])
        final_nl = rnd.random() < 0.8
        lead = rnd.choice([True, True, False])
        lines = []
        psr = rnd.choice(["B1937+21", "J0437-4715", "0531+21", "FAKE"])
        obs = rnd.choice(["ao", "1", "@", "gbt"])          # psr, obs, freq, span must agree in a table
        for k in order:
            e = entries[k]
            tms = fmt_fixed(e["tmid"], tdec)
            utc = "%9.2f" % float((e["tmid"] % 1) * 240000)
            h1 = "%-10s %9s%11s%20s%21s" % (psr, "%d-May-18" % rnd.randint(1, 28), utc, tms, "71.020168")
            if rnd.random() < 0.6:
                h1 += " %6.3f%7.3f" % (rnd.uniform(-1, 1), rnd.uniform(-7, -5))
            rdec = e.get("rdec", 6)
            rs = fmt_fixed(e["rphase"], rdec, lead_zero=lead or e["rphase"] >= 1 or e["rphase"] <= -1)
            if rdec == 0 and rnd.random() < 0.5:
                rs += "."
            f0s = fmt_fixed(e["f0"], f0dec)
            h2 = "%20s %17s%5s%5d%5d%10.3f" % (rs, f0s, obs, span, ncoeff, 327.0)
            if rnd.random() < 0.3:
                h2 += "%7.4f%9.4f" % (rnd.random(), rnd.uniform(0.1, 9))
            lines += [h1, h2]
            row = []
            for j, cj in enumerate(e["c"]):
                ec = rnd.choice(["e", "E", "D", "d"]) if ech == "mix" else ech
                st = rnd.choice(["sci", "fortran", "dot"]) if style == "mix" else style
                s = fmt_sci(cj, digits, ec, st, plus=rnd.random() < 0.1)
                # what the text says is what counts: keep the rounded value
                row.append(s)
                if len(row) == 3 or j == ncoeff - 1:
                    sep = rnd.choice([" ", "  ", "\t"]) if rnd.random() < 0.2 else " "
                    lines.append(sep.join("%25s" % v if sep == " " else v for v in row))
                    row = []
        text = eol.join(lines) + (eol if final_nl else "")
        # description used only to aim times and phases (entries sorted by TMID, as the table is)
        desc = {"family": family, "wide": wide, "span": span, "ncoeff": ncoeff, "n": n, "kind": kind,
                "tmids": tmids, "f0": float(F0), "order": how,
                "monotone": family == "A", "entries": entries}
        return text, desc


def read_real_file():
    with open(TIMING_DAT, encoding="latin-1", newline="") as f:
        text = f.read()
    tm = []
    ls = text.split("\n")
    for i in range(0, len(ls) - 1, 6):
        tm.append(F(ls[i].split()[3]))
    desc = {"family": "real", "wide": False, "span": 90, "ncoeff": 12, "n": len(tm), "kind": "touch",
            "tmids": tm, "f0": 641.928232294317, "order": "sorted", "monotone": True, "entries": None}
    return text, desc


# ------------------------------------------------------------------ choosing times and phases
def merged_of(tmids, span):
    """merged validity intervals (Fractions of MJD) -- only to aim the inputs; TLC decides."""
    h = F(span, 2880)
    iv = sorted((t - h, t + h) for t in tmids)
    out = [list(iv[0])]
    for a, b in iv[1:]:
        if a <= out[-1][1] + F(1, 86400000):
            out[-1][1] = max(out[-1][1], b)
        else:
            out.append([a, b])
    return out


class Aim:
    def __init__(self, rnd, desc, rows):
        self.rnd, self.desc = rnd, desc
        self.tm = [desc["tmids"][r] for r in rows]
        self.span = desc["span"]
        self.h = F(self.span, 2880)
        self.merged = merged_of(self.tm, self.span)

    def mjd_time(self, x, scale="utc"):
        """Fraction of MJD (UTC) -> Time whose two-doubles are close to x (several constructions)."""
        m = libs()
        Time, u = m["Time"], m["u"]
        day = math.floor(x)
        fr = float(x - day)
        how = self.rnd.choice(["mjd2", "mjd2", "mjd1", "jd", "plus"])
        if how == "mjd2":
            t = Time(float(day), fr, format="mjd", scale="utc", precision=9)
        elif how == "mjd1":
            t = Time(float(x), format="mjd", scale="utc", precision=9)
        elif how == "jd":
            t = Time(float(day) + 2400000.5, fr, format="jd", scale="utc", precision=9)
        else:
            t = Time(float(day), 0.0, format="mjd", scale="utc", precision=9) + fr * 86400 * u.s
        if scale != "utc":
            t = getattr(t, scale)
        return t

    def inside(self):
        """a UTC MJD inside some span, >= 20 us away from every span boundary"""
        rnd = self.rnd
        for _ in range(100):
            t = rnd.choice(self.tm)
            r = rnd.random()
            if r < 0.15:
                # close to an end, still inside (>= 1e-6 of the half span)
                x = t + self.h * F(rnd.choice([-1, 1])) * (1 - F(rnd.randint(1, 1000), 10 ** 6))
            elif r < 0.25:
                x = t + F(rnd.randint(-1000, 1000), 10 ** 9)          # around TMID
            elif r < 0.3:
                x = t
            else:
                x = t + self.h * F(rnd.randint(-999999, 999999), 10 ** 6)
            if self.clear(x) and any(abs(x - c) < self.h for c in self.tm):
                return x
        return self.tm[0] + self.h / 3

    def outside(self):
        rnd = self.rnd
        for _ in range(100):
            r = rnd.random()
            a, b = rnd.choice(self.merged)
            d = min(F(10) ** rnd.randint(-9, 0) * rnd.randint(1, 9) * F(self.span, 1440), F(3, 2)) + F(30, 86400 * 10 ** 6)
            x = a - d if r < 0.5 else b + d
            if self.clear(x) and all(not (m[0] - F(1, 10 ** 9) <= x <= m[1] + F(1, 10 ** 9)) for m in self.merged):
                return x
        return self.merged[0][0] - 1

    def clear(self, x):
        """>= 20 us from every span boundary (the specification treats 10.8 us as undecided)"""
        d = F(20, 86400 * 10 ** 6)
        return all(abs(x - (c - self.h)) > d and abs(x - (c + self.h)) > d for c in self.tm)

    def near_end_for_scale(self):
        """inside a span, 5..60 s before its end: where a TT/TAI time's own MJD is past the span end"""
        t = self.rnd.choice(self.tm)
        return t + self.h - F(self.rnd.randint(5, 60), 86400)


def times_arg(ts):
    """list of scalar Times (same scale) + shape -> args"""
    a = {"jd1": [], "jd2": [], "scale": ts[0].scale, "shape": None}
    for t in ts:
        a["jd1"].append(hx(t.jd1))
        a["jd2"].append(hx(t.jd2))
    return a


def gen_session(rnd, text, desc, nevents, via):
    """-> list of args (load first)."""
    acts = [{"op": "load", "text": text, "via": via}]
    n = desc["n"]
    rows = list(range(n))
    aim = Aim(rnd, desc, rows)
    acts.append({"op": "intervals", "fresh": True})
    XD = [0.0, 2.0 ** -14, -2.0 ** -14, 1.0 / 16, -1.0 / 16, 0.5, -0.5, 2.0, -2.0, 0.25, 1.0 / 1024, -4.0]
    scales = ["utc"]
    if desc.get("other_scale"):            # times handed over in TAI / TT instead of the table's UTC
        scales = ["tai", "tt"]
    inverse_ok = desc["monotone"] and (desc["entries"] is not None or desc["family"] == "real") and scales == ["utc"]
    if inverse_ok:
        acts += gen_boundary_inverse(rnd, desc, aim, n, 3)
    while len(acts) < nevents:
        r = rnd.random()
        scale = rnd.choice(scales)

        def T(x):
            return aim.mjd_time(x, scale)
        if r < 0.06 and n > 1:
            k = rnd.randint(1, n)
            rows = sorted(rnd.sample(range(n), k))
            how = rnd.choice(["list", "list", "mask"])
            if rows == list(range(rows[0], rows[-1] + 1)) and rnd.random() < 0.5:
                how = "slice"
            acts.append({"op": "subset", "rows": rows, "how": how})
            aim = Aim(rnd, desc, rows)
            acts.append({"op": "intervals"})
            if inverse_ok:
                acts += gen_boundary_inverse(rnd, desc, aim, len(rows), 1)
        elif r < 0.40:
            if scale != "utc" and rnd.random() < 0.6:
                acts.append({"op": "call", "times": times_arg([T(aim.near_end_for_scale())]), "cls": "scale-near-end"})
            else:
                acts.append({"op": "call", "times": times_arg([T(aim.inside())])})
        elif r < 0.52:
            k = rnd.randint(2, 8)
            ts = [T(aim.inside()) for _ in range(k)]
            a = times_arg(ts)
            a["shape"] = [k] if (k % 2 or rnd.random() < 0.6) else [2, k // 2]
            acts.append({"op": "call", "times": a})
        elif r < 0.60:
            # out of range: scalar, or an array with a single outside element
            if rnd.random() < 0.5:
                acts.append({"op": rnd.choice(["call", "call", "f0", "phasepol"]), "times": times_arg([T(aim.outside())]),
                             "n": rnd.randint(0, 2), "xd": [hx(0.0)]})
            else:
                k = rnd.randint(2, 5)
                ts = [T(aim.inside()) for _ in range(k)]
                ts[rnd.randrange(k)] = T(aim.outside())
                a = times_arg(ts)
                a["shape"] = [k]
                acts.append({"op": rnd.choice(["call", "f0"]), "times": a, "n": rnd.randint(0, 2)})
        elif r < 0.76:
            k = 1 if rnd.random() < 0.6 else rnd.randint(2, 5)
            ts = [T(aim.inside()) for _ in range(k)]
            a = times_arg(ts)
            if k > 1:
                a["shape"] = [k]
            nn = rnd.choice([0, 0, 0, 1, 1, 2, 3, max(0, desc["ncoeff"] - 3), desc["ncoeff"] - 2, desc["ncoeff"] - 1, desc["ncoeff"]])
            acts.append({"op": "f0", "times": a, "n": max(0, nn)})
        elif r < 0.88:
            xd = [0.0] + rnd.sample(XD[1:], rnd.randint(2, 4))
            acts.append({"op": "phasepol", "times": times_arg([T(aim.inside())]), "xd": [hx(v) for v in xd]})
        else:
            if desc["monotone"] and (desc["entries"] is not None or desc["family"] == "real") and scale == "utc":
                acts.append(gen_time_at(rnd, desc, aim))
            else:
                acts.append({"op": "call", "times": times_arg([T(aim.inside())])})
    return acts


def model_phase(desc, x):
    """phase of the (consistent) model at UTC MJD x, as a float pair (int, frac) -- only to aim time_at
    inputs inside / outside the range; accuracy irrelevant (>= 0.01 cycle margins)."""
    ent = desc["entries"]
    best = min(range(len(ent)), key=lambda i: abs(desc["tmids"][i] - x))
    e = ent[best]
    dt = (x - e["tmid"]) * 1440
    return e["rphase"] + 60 * e["f0"] * dt + sum(c * dt ** j for j, c in enumerate(e["c"]))


def gen_boundary_inverse(rnd, desc, aim, nrows, limit):
    """time_at(p(t)) for t exactly at the boundaries of the current table: where consecutive rows meet
    (end of row k / start of row k+1: inside a merged interval whenever they touch or overlap), at the
    start and end of every merged interval, the phase taken exactly and one ulp to either side, with and
    without guess=.  Which of these must succeed and which must raise is decided by the specification."""
    acts = []

    def guess():
        return times_arg([aim.mjd_time(aim.inside())]) if rnd.random() < 0.4 else None
    pairs = list(range(nrows - 1))
    rnd.shuffle(pairs)
    for k in pairs[:limit]:
        acts.append({"op": "time_at", "at": {"of": "entry", "row": k, "edge": "end", "ulps": 0}, "guess": None})
        acts.append({"op": "time_at", "at": {"of": "entry", "row": k + 1, "edge": "start", "ulps": 0}, "guess": guess()})
        acts.append({"op": "time_at", "at": {"of": "entry", "row": rnd.choice([k, k + 1]), "edge": rnd.choice(["end", "start"]),
                                            "ulps": rnd.choice([-1, 1, -2, 2])}, "guess": guess()})
    for j in range(min(len(aim.merged), 2)):
        for edge in ("start", "end"):
            acts.append({"op": "time_at", "at": {"of": "interval", "ivl": j, "edge": edge, "ulps": rnd.choice([0, 0, -1, 1])},
                         "guess": guess()})
    return acts


def gen_time_at(rnd, desc, aim):
    """a phase inside (>= 1 % of a span from the interval ends) or outside (>= 0.01 cycle) the range"""
    if desc["family"] == "real":
        # timing.dat: phases around the ones of the repository's own test
        i = 146760000000 + rnd.randint(0, 30000000)
        if rnd.random() < 0.25:
            i = rnd.choice([1000, 146750000000, 146810000000])
        guess = None
        if rnd.random() < 0.5:
            # real tempo entries are separate fits: a guess in another entry than the answer must not be
            # extrapolated (the iteration has to follow the table)
            gx = rnd.choice(aim.tm) + F(rnd.randint(-40, 40), 1440)   # inside a span of the CURRENT row subset
            guess = times_arg([aim.mjd_time(gx)])
            # with a far guess the first Newton step is only good to ~1e-4 of the distance (Doppler drift of
            # F0 over a day): keep the answer >= 10 % of the table away from its ends so the iteration
            # never leaves the predictor range (a raise there would be the caller's poor guess, not a defect)
            i = 146760000000 + rnd.randint(3000000, 27000000)
        return {"op": "time_at", "phi": {"i": i, "f": hx(rnd.choice([0.0, 0.3, 0.5, -0.25, rnd.uniform(-0.5, 0.5)]))},
                "guess": guess}
    span_d = F(desc["span"], 1440)
    a, b = rnd.choice(aim.merged)
    if rnd.random() < 0.75:
        x = a + span_d / 100 + (b - a - span_d / 50) * F(rnd.randint(0, 10 ** 6), 10 ** 6)
        guess = None
        if rnd.random() < 0.5:
            gx = a + span_d / 100 + (b - a - span_d / 50) * F(rnd.randint(0, 10 ** 6), 10 ** 6)
            # half of the guesses are aimed at a DIFFERENT entry than the answer (one or more spans away,
            # still inside the same merged interval): the iteration must follow the table, not one entry
            if rnd.random() < 0.5 and (b - a) > 2 * span_d:
                for _ in range(20):
                    gx = a + span_d / 100 + (b - a - span_d / 50) * F(rnd.randint(0, 10 ** 6), 10 ** 6)
                    if abs(gx - x) > span_d:
                        break
            guess = times_arg([aim.mjd_time(gx)])
        ph = model_phase(desc, x)
    else:
        guess = None
        lo, hi = model_phase(desc, a), model_phase(desc, b)
        d = F(rnd.randint(1, 10 ** 6), 100)
        ph = lo - d if rnd.random() < 0.5 else hi + d
    i = math.floor(ph + F(1, 2))
    return {"op": "time_at", "phi": {"i": int(i), "f": hx(float(ph - i))}, "guess": guess}


# ------------------------------------------------------------------ TLC validation (parallel batches)
def run_batch(events, name, timeout):
    """events of whole sessions -> (rejected [(event, names)], TLCResult)"""
    os.makedirs(SCR, exist_ok=True)
    tag = uuid.uuid4().hex[:12]
    tf = os.path.join(SCR, "Trace_Polyco_%s.trace.json" % tag)
    vf = os.path.join(SCR, "Trace_Polyco_%s.verdict.ndjson" % tag)
    slim = []
    for i, e in enumerate(events):
        d = {k: v for k, v in e.items() if k not in ("args", "meta", "msg", "obs")}
        d["id"] = i + 1
        slim.append(d)
    with open(tf, "w") as f:
        json.dump(slim, f)
    try:
        r = tlc.run("Trace_Polyco", "Trace_Polyco.cfg", workers=1, timeout=timeout, heap="2g",
                    env={"TRACE_FILE": tf, "VERDICT_FILE": vf})
        rejected, summary = [], None
        if os.path.exists(vf):
            for line in open(vf):
                line = line.strip()
                if not line:
                    continue
                v = json.loads(line)
                if isinstance(v, str):
                    v = json.loads(v)
                if v.get("summary"):
                    summary = v
                else:
                    rejected.append((v["line"] - 1, sorted(v["failed"])))
        if not r.ok or summary is None or summary["events"] != len(events):
            raise tlc.TLCError("trace validation did not consume the whole trace (%s):\n%s" % (name, r.stdout[-3000:]))
        return rejected, r
    finally:
        for p in (tf, vf):
            if os.path.exists(p):
                os.remove(p)


def classify(names):
    amb = [n for n in names if n.startswith("ambiguous:") or n.startswith("note:")]
    # assumptions of the machinery; generated texts are always polycos, so a text the specification
    # cannot read is a deficiency of the specification, not of pulsarbat
    assume = [n for n in names if n.startswith("assume-") or n in ("ambiguous:not-a-polyco", "ambiguous:no-table")]
    amb = [n for n in amb if n not in assume]
    bad = [n for n in names if n not in amb and n not in assume]
    return bad, amb, assume


def key_of(ev, bad):
    """stable name of the failing input class:
         scale-not-utc:<call>:<clause>[Exc]      times given in another scale than the table's (UTC)
         <call>:<clause>[Exc]                    everything else"""
    a = ev.get("args", {})
    meta = ev.get("meta", {})
    raised = ev.get("raised") or (ev.get("out", {}).get("raised") if isinstance(ev.get("out"), dict) else "") or ""
    k = "%s:%s" % (ev["ev"], "+".join(bad))
    if raised:
        k += "[%s]" % raised
    sc = (a.get("times") or {}).get("scale", "utc")
    if sc != "utc":
        return "scale-not-utc:" + k
    return k


# ------------------------------------------------------------------ the check
def build_sessions(chk):
    rnd = random.Random(chk.seed * 7919 + 8)
    thorough = chk.tier == "thorough"
    nfiles = 420 if thorough else 30
    per = 40 if thorough else 30
    sessions = []
    gen = PolyGen(rnd)
    real_text, real_desc = read_real_file()
    for k in range(4 if thorough else 1):
        sessions.append((real_text, real_desc, gen_session(rnd, real_text, real_desc, 45 if thorough else 30, "file")))
    for i in range(nfiles):
        fam = "A" if i % 3 == 0 else "B"
        wide = (i % 8 == 7)
        text, desc = gen.make(fam, wide=wide, directed=(i % 2 == 1))
        if i % 10 == 4:
            desc["other_scale"] = True
        via = "file" if i % 4 == 1 else "stringio"
        sessions.append((text, desc, gen_session(rnd, text, desc, per, via)))
    return sessions


def decimal_selftest(rnd, n):
    """numerals in every spelling the reader accepts (and some it must refuse) with their exact value
    from fractions.Fraction: a self-test of the specification's decimal reader, not of pulsarbat"""
    evs = []
    for i in range(n):
        nint, nfrac = rnd.randint(0, 13), rnd.randint(0, 20)
        ip = "".join(rnd.choice("0123456789") for _ in range(nint))
        fp = "".join(rnd.choice("0123456789") for _ in range(nfrac))
        sign = rnd.choice(["", "", "-", "+"])
        dot = "." if (nfrac or rnd.random() < 0.3) else ""
        ex = ""
        xv = 0
        if rnd.random() < 0.7:
            xv = rnd.randint(-45, 20)
            ex = rnd.choice("eEdD") + rnd.choice(["%+03d" % xv, "%d" % xv, "%+d" % xv])
        body = ip + dot + fp
        s = sign + body + ex
        bad = (nint + nfrac == 0)
        if rnd.random() < 0.08:
            s = rnd.choice([s + "x", "e5", sign + ".", s.replace(".", ",") if "." in s else s + "e", "", "1e+", "--1", "1.2.3"])
            bad = True
            if s and all(c in "0123456789" for c in s):
                bad = False
        ev = {"ev": "decimal", "s": list(s.encode()), "bad": bad, "val": exact.rat(0), "args": {"op": "decimal", "s": s},
              "meta": {"family": "selftest", "wide": False, "span": 0, "ncoeff": 0, "f0": 0.0, "n": 0}}
        if not bad:
            digits = (ip + fp) or "0"
            ev["val"] = exact.rat(F(-1 if sign == "-" else 1) * F(int(digits)) * F(10) ** (xv - len(fp)) if not bad else 0)
            try:                                            # Python's own reading of the same numeral agrees
                assert F(s.replace("D", "e").replace("d", "e")) == exact.unrat(ev["val"])
            except (ValueError, AssertionError) as ex_:
                raise HarnessError("decimal self-test generator inconsistent for %r: %r" % (s, ex_))
        evs.append(ev)
    return evs


def execute(sessions):
    """run every session on the real code -> list of event lists"""
    out = []
    for text, desc, acts in sessions:
        s = Session()
        evs = []
        for a in acts:
            ev = s.perform(a)
            ev["meta"] = {"family": desc["family"], "wide": desc["wide"],
                          "span": desc["span"], "ncoeff": desc["ncoeff"], "f0": desc["f0"], "n": desc["n"]}
            evs.append(ev)
            if a["op"] == "load" and ev["raised"]:
                break
        out.append(evs)
    return out


def case_of(evs, idx):
    """a replayable case: the load, the last subset before the event, and the event"""
    acts = [evs[0]["args"]]
    sub = None
    for e in evs[1:idx]:
        if e["ev"] == "subset":
            sub = e["args"]
    if sub:
        acts.append(sub)
    if idx > 0:
        acts.append(evs[idx]["args"])
    return {"acts": acts, "meta": evs[idx].get("meta", {})}


def check_leap_table():
    """LEAPS (and LeapTable of Trace_Polyco.tla) must be the leap seconds astropy/erfa knows"""
    import erfa
    Time = libs()["Time"]
    have = sorted(int(round(Time("%04d-%02d-01T00:00:00" % (r["year"], r["month"]), scale="utc").mjd))
                  for r in erfa.leap_seconds.get() if r["year"] >= 1972)
    if have != LEAPS:
        raise HarnessError("leap second table differs from erfa's: %r" % sorted(set(have) ^ set(LEAPS)))


def run(chk):
    thorough = chk.tier == "thorough"
    check_leap_table()
    # 1. the span logic, exhaustively on the lattice; the two negative models must be rejected
    r = tlc.run("MC_Polyco", "MC_Polyco_full.cfg" if thorough else "MC_Polyco_quick.cfg", timeout=2400, heap="2g")
    chk.mc_must_hold("MC_Polyco_" + ("full" if thorough else "quick"), r)
    chk.exhaustive = r.ok
    for cfg, inv in (("Neg_Polyco_notol.cfg", "MergeLoopIsDeclared"), ("Neg_Polyco_right.cfg", "SelectIsContaining"),
                     ("Neg_Polyco_entry.cfg", "InverseRange")):
        rn = tlc.run("MC_Polyco", cfg, workers=4, timeout=1200, heap="2g")
        chk.add_tlc(cfg, rn)
        if rn.violation != inv:
            chk.machinery_errors.append("negative model %s was not rejected by %s (got %r)" % (cfg, inv, rn.violation))
    chk.notes["negative_models_rejected"] = ["Neg_Polyco_notol (merge without 1 ms tolerance)",
                                             "Neg_Polyco_right (searchsorted side='right')",
                                             "Neg_Polyco_entry (time_at range check strictly inside one row's span)"]
    # 2. drive the real code
    sessions = build_sessions(chk)
    traces = execute(sessions)
    traces.append(decimal_selftest(random.Random(chk.seed + 17), 400 if thorough else 80))
    # 3. TLC decides every event; sessions are packed into batches, batches run in parallel
    target = 150 if thorough else 35          # samples (polynomial evaluations) per batch, roughly
    batches, cur, w = [], [], 0
    for evs in traces:
        cost = sum(len(e.get("t", [])) if isinstance(e.get("t"), list) else 1 for e in evs) + 5
        if cur and w + cost > target * 4:
            batches.append(cur)
            cur, w = [], 0
        cur.append(evs)
        w += cost
    if cur:
        batches.append(cur)
    counts, amb_counts, kinds, amb_examples = {}, {}, {}, []
    nev = 0

    def job(b):
        flat = [e for evs in b for e in evs]
        return b, flat, run_batch(flat, "batch", timeout=1800 if thorough else 900)
    with concurrent.futures.ThreadPoolExecutor(max_workers=8) as ex:
        results = list(ex.map(job, batches))
    for bi, (b, flat, (rejected, r)) in enumerate(results):
        chk.add_tlc("trace:Trace_Polyco[batch %d, %d events]" % (bi, len(flat)), r)
        nev += len(flat)
        owner = []
        for evs in b:
            for i in range(len(evs)):
                owner.append((evs, i))
        rej = dict(rejected)
        for gi, e in enumerate(flat):
            out = e.get("out")
            raised = e.get("raised") or (out.get("raised") if isinstance(out, dict) else "")
            k = e["ev"] + (":raised" if raised else "")
            counts[k] = counts.get(k, 0) + 1
            fam = e["meta"]["family"] + ("/wide" if e["meta"]["wide"] else "")
            kinds[fam] = kinds.get(fam, 0) + 1
            if gi not in rej:
                continue
            bad, amb, assume = classify(rej[gi])
            for n in amb:
                amb_counts[n] = amb_counts.get(n, 0) + 1
                if n.startswith("ambiguous:") and len(amb_examples) < 8:
                    amb_examples.append({"event": e["ev"], "why": n, "family": e["meta"]["family"], "wide": e["meta"]["wide"],
                                         "F0_Hz": e["meta"]["f0"], "span_min": e["meta"]["span"], "ncoeff": e["meta"]["ncoeff"]})
            if assume:
                chk.machinery_errors.append("assumption %s failed for event %s" % (assume, json.dumps(e.get("args"))[:400]))
            if bad:
                evs, i = owner[gi]
                desc = "%s rejected by clause(s) %s" % (e["ev"], ",".join(bad))
                if raised:
                    desc += " (real code raised %s: %s)" % (raised, e.get("msg") or (out.get("msg") if isinstance(out, dict) else ""))
                desc += " [F0=%.6g Hz span=%d min ncoeff=%d entries=%d family=%s]" % (
                    e["meta"]["f0"], e["meta"]["span"], e["meta"]["ncoeff"], e["meta"]["n"], e["meta"]["family"])
                chk.violation(key_of(e, bad), desc, case_of(evs, i))
    chk.validated += nev
    def human(e):
        """an event in plain numbers (floats, for reading only; the trace carries exact values)"""
        a, out = e["args"], e["out"]
        d = {"event": e["ev"], "polyco": e["meta"]["family"], "F0_Hz": e["meta"]["f0"], "span_min": e["meta"]["span"],
             "ncoeff": e["meta"]["ncoeff"], "entries": e["meta"]["n"]}
        if a.get("times"):
            d["times_mjd_%s" % a["times"]["scale"]] = [unhx(x) - 2400000.5 + unhx(y) for x, y in
                                                     zip(a["times"]["jd1"][:3], a["times"]["jd2"][:3])]
        if "n" in a and e["ev"] == "f0":
            d["n"] = a["n"]
        if e["ev"] == "time_at":
            d["phase"] = ("%d%+.12f" % (a["phi"]["i"], unhx(a["phi"]["f"]))) if a.get("phi") else "p(boundary %r)" % (a["at"],)
        if out["raised"]:
            d["real_result"] = "raised " + out["raised"]
        elif e["ev"] == "call":
            d["real_result"] = ["%d%+.12f" % (exact.unbig(p["i"]), float(exact.unbig(p["f"]["m"]) * F(2) ** p["f"]["e"]))
                                for p in out["ph"][:3]]
        elif e["ev"] == "f0":
            d["real_result"] = [float(exact.unbig(v["m"]) * F(2) ** v["e"]) for v in out["v"][:3]]
        elif e["ev"] == "time_at":
            t = out["t"]
            d["real_result_mjd_utc"] = float(sum(exact.unbig(t[k]["m"]) * F(2) ** t[k]["e"] for k in ("u1", "u2")) - F(4800001, 2))
        d["verdict"] = "accepted by Trace_Polyco"
        return d
    for evs in traces[:3]:
        for gi, e in enumerate(evs):
            if e["ev"] in ("call", "f0", "time_at") and len(chk.samples) < 6 and \
                    not any(x["event"] == e["ev"] and x["polyco"] == e["meta"]["family"] for x in chk.samples):
                chk.sample(human(e))
    chk.notes["events_by_kind"] = counts
    chk.notes["events_by_family"] = kinds
    chk.notes["ambiguous"] = amb_counts
    chk.notes["ambiguous_examples"] = amb_examples
    chk.notes["polyco_texts"] = len(sessions)
    ents = [e for _, d, _ in sessions if d.get("entries") for e in d["entries"]]
    chk.notes["population"] = {"entries": len(ents),
                               "negative_rphase_entries": sum(1 for e in ents if e["rphase"] < 0),
                               "negative_rphase_with_fraction": sum(1 for e in ents if e["rphase"] < 0 and e["rphase"] % 1 != 0),
                               "rphase_1e9_to_1e12_fraction_next_to_integer_or_half": sum(
                                   1 for e in ents if abs(e["rphase"]) >= 10 ** 9 and
                                   min((e["rphase"] * 2) % 1, 1 - (e["rphase"] * 2) % 1) <= F(1, 5000)),
                               "ncoeff_1_texts": sum(1 for _, d, _ in sessions if d["ncoeff"] == 1),
                               "texts_with_tai_or_tt_times": sum(1 for _, d, _ in sessions if d.get("other_scale"))}
    chk.notes["tolerances"] = {"phase": "1e-8 cycle (events beyond the float64 budget of the code's poly(dt) are 'ambiguous:double-limit')",
                               "f0": "1e-9 relative + 1e-12 * SUM|terms|", "time_at": "1e-8 cycle + f * 2^-49 day",
                               "intervals": "2^-49 day", "tmid": "2^-51 day", "span boundary": "10.8 us undecided"}
    chk.assumptions += ["astropy Time: UTC->TAI conversion and Time arithmetic accurate to 2^-51 day per operation (checked per event: clauses assume-tai, tmid)",
                        "no leap-second day within 2 days of any generated time (UTC MJD is then uniform)",
                        "time_at is exercised only on polycos whose entries describe one smooth monotone phase (generated from a global model) and on tests/data/timing.dat",
                        "TLC explores MC_Polyco exhaustively only within its constants (L=8 half-ms units, TMID 0..24/30, <= 4/5 rows)"]


# ------------------------------------------------------------------ replay
def replay(doc):
    acts = doc["case"]["acts"]
    s = Session()
    evs = []
    for a in acts:
        ev = s.perform(a)
        ev["meta"] = doc["case"].get("meta", {})
        evs.append(ev)
        if a["op"] == "load" and ev["raised"]:
            break
    last = evs[-1]
    show = {k: v for k, v in last.items() if k in ("ev", "raised", "msg", "out", "obs") and k != "text"}
    print("real code:", json.dumps(show, default=str)[:1500])
    rejected, r = run_batch(evs, "replay", timeout=600)
    rc = 0
    for line, names in rejected:
        bad, amb, assume = classify(names)
        print("TLC verdict for event %d (%s): %s" % (line + 1, evs[line]["ev"], names))
        if bad:
            print("VIOLATION property=%s replay=(this case)  # %s" % (doc["property"], key_of(evs[line], bad)))
            rc = 1
    if not rc:
        print("case passes")
    return rc
