"""C20 - pb.fft equals the reference DFT on both backends; STFT / ISTFT invert and label right.

spec/FftFamily.tla  the fourteen transforms defined from the kernel DFT (n/s, axis/axes, norm)
spec/FftDefs.tla    NamesDistinct (any two names are told apart by a probe), inverse pairs     [MC]
spec/MC_Fft.tla     case matrix; Gen_Fft prints every case with the specification's result     [Gen -> code]
spec/Stft.tla       STFT / ISTFT model on the band model; StftLabelsAreTrueFrequencies,
                    StftMeta, IstftInvertsStft; Gen_Stft prints every case                     [MC + Gen -> code]
spec/Trace_Stft.tla tone / noise events of the real stft / istft at sizes TLC does not transform [code -> Trace]
"""
import os
import random
import threading
import warnings

import numpy as np

import exact
import framework
import pfhelp
import tlc

PID = "C20"
SCR = os.path.join(framework.ROOT, ".scratch")
NONE = 1000000
NAMES = ["fft", "fft2", "fftn", "hfft", "ifft", "ifft2", "ifftn", "ihfft", "irfft", "irfft2", "irfftn", "rfft", "rfft2", "rfftn"]
NAMES1 = {"fft", "ifft", "rfft", "irfft", "hfft", "ihfft"}
NORMS = ["backward", "forward", "ortho"]
CNT = [0]


def _sent(b):
    if b.size:                      # dask probes the function with an empty array to infer meta
        CNT[0] += 1
    return b


def _tlc(res, name, module, cfg, **kw):
    out = os.path.join(SCR, "%s_%s_%d.ndjson" % (PID, name, os.getpid()))
    if os.path.exists(out):
        os.remove(out)
    try:
        res[name] = (tlc.run(module, cfg, env={"GEN_OUT": out}, **kw), out)
    except Exception as e:  # noqa
        res[name] = (e, out)


# ---------------------------------------------------------------- fft family
def contain(v, ct):
    """the argument value v (int or tuple of ints) in the container form ct of the call record:
    py = int / tuple, list, range (consecutive values only), nd64 / nd32 = NumPy int64 / int32 scalar or array"""
    if isinstance(v, tuple):
        if v == (NONE,):                 # the specification's EmptyT: the empty tuple
            v = ()
            if ct == "range":
                return range(0)
        if ct == "list":
            return list(v)
        if ct == "range" and v and all(b == a + 1 for a, b in zip(v, v[1:])):
            return range(v[0], v[-1] + 1)
        if ct in ("nd64", "nd32"):
            return np.array(v, dtype=np.int64 if ct == "nd64" else np.int32)
        return v
    if ct in ("nd64", "nd32"):
        return (np.int64 if ct == "nd64" else np.int32)(v)
    return v


def kwargs_of(c, norm=None):
    kw = {}
    ct = c.get("ct", "py")
    if c["name"] in NAMES1:
        if c["n"] != NONE:
            kw["n"] = contain(c["n"], ct)
        if c["axis"] != NONE:
            kw["axis"] = contain(c["axis"], ct)
    else:
        if c["s"]:
            kw["s"] = contain(tuple(c["s"]), ct)
        if c["axes"]:
            kw["axes"] = contain(tuple(c["axes"]), ct)
    nm = c["norm"] if norm is None else norm
    if nm != "none":
        kw["norm"] = nm
    return kw


def transformed_axes(c, ndim):
    if c["name"] in NAMES1:
        return {(c["axis"] if c["axis"] != NONE else -1) % ndim}
    if c["axes"] == [NONE] or c["s"] == [NONE]:
        return set()
    if c["axes"]:
        return {a % ndim for a in c["axes"]}
    if c["name"].endswith("2"):
        return {ndim - 2, ndim - 1}
    if c["s"]:
        return set(range(ndim - len(c["s"]), ndim))
    return set(range(ndim))


def make_input(c, x, dtype):
    """-> (array of dtype holding the case's small integers cast to it, do they survive the cast exactly?)"""
    a = np.array([complex(r, i) for r, i in x]).reshape(c["sh"])
    dt = np.dtype(dtype)
    with np.errstate(all="ignore"):
        b = (a if dt.kind == "c" else a.real.astype(np.int64) if dt.kind in "iub" else a.real).astype(dt)
    return b, bool(np.array_equal(b.astype(np.clongdouble), a.astype(np.clongdouble)))


class _Sub(np.ndarray):
    """an ndarray subclass"""


class _ArrayLike:
    """an object whose __array__ hands out its own buffer"""

    def __init__(self, a):
        self._a = a

    def __array__(self, dtype=None, copy=None):
        return self._a if dtype is None else self._a.astype(dtype)


def hold(a, ck):
    """the array a held by an input container of kind ck -> (object to pass, the buffer that must stay as it is)"""
    if ck == "subclass":
        b = a.copy()
        return b.view(_Sub), b
    if ck == "memmap":
        import tempfile
        f = tempfile.NamedTemporaryFile(prefix="c20-", suffix=".dat", dir=SCR)
        mm = np.memmap(f, dtype=a.dtype, mode="w+", shape=a.shape)
        mm[...] = a
        mm._c20_file = f
        return mm, mm
    if ck == "readonly":
        b = a.copy()
        b.setflags(write=False)
        return b, b
    if ck == "arraylike":
        b = a.copy()
        return _ArrayLike(b), b
    b = a.copy()
    return b, b


def rel_err(got, ref):
    got, ref = np.asarray(got), np.asarray(ref)
    if got.shape != ref.shape:
        return float("inf")
    if got.size == 0:
        return 0.0
    return float(np.max(np.abs(got.astype(np.complex128) - ref.astype(np.complex128))) / max(1.0, float(np.max(np.abs(ref)))))


ORDER1, ORDERN = ("n", "axis", "norm"), ("s", "axes", "norm")
DEFAULTS = {"n": None, "axis": -1, "s": None, "axes": None, "norm": None}     # the documented defaults of scipy.fft


def call_form(name, kw, form):
    """Call form `form` in 0..3: the first `form` parameters after x are passed positionally (a parameter the case does
    not set is then passed as its documented default), the rest by keyword.  -> (args, kwargs)"""
    order = ORDER1 if name in NAMES1 else ORDERN
    dflt = dict(DEFAULTS, axes=(-2, -1)) if name.endswith("2") else DEFAULTS
    args = tuple(kw.get(k, dflt[k]) for k in order[:form])
    return args, {k: v for k, v in kw.items() if k not in order[:form]}


def run_fft_case(c, x, dtype, expected=None, norm=None, dask=True, form=0):
    """-> (list of (key, description), dask judged?)"""
    import scipy.fft
    import dask.array as da
    from common import pb
    name = c["name"]
    kw = kwargs_of(c, norm)
    a, exact_input = make_input(c, x, dtype)
    if not exact_input:
        expected = None            # the specification's result is for the integers themselves
    form = {True: 2, False: 0}.get(form, form) if isinstance(form, bool) else int(form)
    args, kw2 = call_form(name, kw, form)
    what = "pb.fft.%s(%s%r array%s%s)" % (name, dtype, tuple(c["sh"]), "".join(", %r" % (v,) for v in args),
                                          "".join(", %s=%r" % kv for kv in kw2.items()))
    bad = []
    with warnings.catch_warnings():
        warnings.simplefilter("ignore")
        try:
            ref = getattr(scipy.fft, name)(a.copy(), *args, **kw2)
        except Exception as e:  # noqa
            return [("unjudged:reference-raised", "%s: reference raised %r" % (what, e))], False
        single = ref.dtype in (np.float32, np.complex64)      # precision the reference works in
        tol_spec = 1e-5 if single else 1e-12
        tol_same = 1e-6 if single else 1e-14
        ck = c.get("ck", "ndarray")
        xin, buf = hold(a, ck)
        before = np.array(buf, copy=True).tobytes()
        try:
            got = getattr(pb.fft, name)(xin, *args, **kw2)
        except Exception as e:  # noqa
            return [("numpy:raised", "%s raised %r, the reference returns %s%r" % (what, e, ref.dtype, ref.shape))], False
        if np.asarray(buf).tobytes() != before:
            bad.append(("numpy:input-modified:" + ck, "%s overwrote its input (held by: %s)" % (what, ck)))
        else:
            try:
                again = getattr(pb.fft, name)(xin, *args, **kw2)
                if not np.array_equal(np.asarray(again), np.asarray(got), equal_nan=True):
                    bad.append(("numpy:second-call-differs:" + ck, "%s: a second identical call returns something else (input held by: %s)" % (what, ck)))
            except Exception as e:  # noqa
                bad.append(("numpy:second-call-raised:" + ck, "%s: a second identical call raised %r" % (what, e)))
        if ck != "ndarray":
            what += " [input held by: %s]" % ck
            dask = False
            got = np.asarray(got)
        if type(got) is not np.ndarray:
            bad.append(("numpy:type", "%s returned %s" % (what, type(got).__name__)))
        if got.shape != ref.shape:
            bad.append(("numpy:shape", "%s has shape %r, reference %r" % (what, got.shape, ref.shape)))
        elif got.dtype != ref.dtype:
            bad.append(("numpy:dtype", "%s has dtype %s, reference %s" % (what, got.dtype, ref.dtype)))
        elif rel_err(got, ref) > tol_same:
            bad.append(("numpy:values-vs-scipy", "%s differs from scipy.fft.%s by %.3g" % (what, name, rel_err(got, ref))))
        try:
            nref = getattr(np.fft, name)(a.copy(), *args, **kw2)
        except Exception:  # noqa
            nref = None
        # numpy.fft scales half-precision input in half precision (scipy.fft works in single): its own accuracy bounds the comparison
        tol_np = 4e-3 if (a.dtype.kind == "f" and a.dtype.itemsize == 2) else tol_spec
        if nref is not None and got.shape == nref.shape and rel_err(got, nref) > tol_np:
            bad.append(("numpy:values-vs-numpy", "%s differs from numpy.fft.%s by %.3g" % (what, name, rel_err(got, nref))))
        if nref is not None and got.shape != nref.shape:
            bad.append(("numpy:shape-vs-numpy", "%s has shape %r, numpy.fft.%s %r" % (what, got.shape, name, nref.shape)))
        if expected is not None:
            if tuple(expected.shape) != got.shape:
                bad.append(("spec:shape", "%s has shape %r, specification %r" % (what, got.shape, tuple(expected.shape))))
            elif rel_err(got, expected) > tol_spec:
                bad.append(("spec:values", "%s differs from the specification's %s by %.3g (got %s, expected %s)"
                            % (what, name, rel_err(got, expected), np.asarray(got).ravel()[:4], expected.ravel()[:4])))
        if not dask:
            return bad, False
        # ---- Dask: chunked off the transformed axes, lazy
        bad2, judged = _dask_part(c, a, name, what, args, kw2, ref, tol_same)
        return bad + bad2, judged


def _dask_part(c, a, name, what, args, kw2, ref, tol_same):
    import dask.array as da
    from common import pb
    bad = []
    T = transformed_axes(c, a.ndim)
    chunks = tuple(a.shape[i] if i in T else 1 for i in range(a.ndim))
    CNT[0] = 0
    xd = da.from_array(a.copy(), chunks=chunks).map_blocks(_sent, dtype=a.dtype)
    try:
        lazy = getattr(pb.fft, name)(xd, *args, **kw2)
    except Exception as e:  # noqa
        bad.append(("dask:raised", "%s on a Dask array (chunks %r) raised %r, the reference returns %s%r"
                    % (what, chunks, e, ref.dtype, ref.shape)))
        return bad, True
    if not isinstance(lazy, da.Array):
        bad.append(("dask:type", "%s on a Dask array returned %s" % (what, type(lazy).__name__)))
        return bad, True
    if CNT[0]:
        bad.append(("dask:not-lazy", "%s on a Dask array computed %d input blocks before compute()" % (what, CNT[0])))
    if tuple(lazy.shape) != ref.shape:
        bad.append(("dask:shape", "%s on a Dask array announces shape %r, reference %r" % (what, tuple(lazy.shape), ref.shape)))
    if lazy.dtype != ref.dtype:
        bad.append(("dask:dtype", "%s on a Dask array announces dtype %s, reference %s" % (what, lazy.dtype, ref.dtype)))
    try:
        val = lazy.compute(scheduler="synchronous")
    except Exception as e:  # noqa
        bad.append(("dask:compute-raised", "%s on a Dask array: compute() raised %r" % (what, e)))
        return bad, True
    if val.shape != ref.shape:
        bad.append(("dask:computed-shape", "%s on a Dask array computes shape %r, reference %r" % (what, val.shape, ref.shape)))
    elif val.dtype != ref.dtype:
        bad.append(("dask:computed-dtype", "%s on a Dask array computes dtype %s, reference %s" % (what, val.dtype, ref.dtype)))
    elif rel_err(val, ref) > tol_same * 10:
        bad.append(("dask:values", "%s on a Dask array differs from scipy.fft.%s by %.3g" % (what, name, rel_err(val, ref))))
    return bad, True


def expected_array(rec):
    v = np.array([complex(float(exact.unfix(e["re"])), float(exact.unfix(e["im"]))) for e in rec["out"]["v"]])
    return v.reshape(rec["out"]["sh"])


def replay_fft(chk, recs, rnd):
    """every generated call record (case + input dtype dt + container form ct + positional prefix cf) on both backends"""
    thorough = chk.tier == "thorough"
    n = ndask = unjudged = 0
    by_name, by_dt, by_form, dt_name = {}, {}, {}, set()
    for i, rec in enumerate(sorted(recs, key=lambda r: (r["c"]["name"], r["c"]["sh"], r["c"]["kind"], str(r["c"])))):
        c, x = rec["c"], rec["x"]
        exp = expected_array(rec)
        runs = [(c["dt"], exp, None, True, c["cf"])]
        # reference-only variants: the other normalisations for this call
        if c["norm"] == "none" and (thorough or i % 5 == 0):
            for nm in NORMS if thorough else [NORMS[(i // 5) % 3]]:
                runs.append((c["dt"], None, nm, True, (c["cf"] + 1 + NORMS.index(nm)) % 4))
        for dt, e, nm, dk, cf in runs:
            bad, judged = run_fft_case(c, x, dt, e, nm, dk, cf)
            if bad and bad[0][0].startswith("unjudged"):
                unjudged += 1
                chk.notes.setdefault("reference_refused_examples", [])
                if len(chk.notes["reference_refused_examples"]) < 5:
                    chk.notes["reference_refused_examples"].append(bad[0][1][:200])
                continue
            n += 1
            ndask += judged
            by_name[c["name"]] = by_name.get(c["name"], 0) + 1
            by_dt[dt] = by_dt.get(dt, 0) + 1
            by_form["%s/%d" % (c["ct"], cf)] = by_form.get("%s/%d" % (c["ct"], cf), 0) + 1
            dt_name.add((dt, c["name"]))
            for key, desc in bad:
                chk.violation("fft:%s:%s" % (key, c["name"]), desc,
                              {"kind": "fft", "c": c, "x": x, "dtype": dt, "norm": nm, "dask": dk, "form": cf,
                               "out": rec["out"] if e is not None else None})
        if i % 1500 == 5:
            chk.sample({"call": {k: v for k, v in c.items()}, "expected_first": [str(z) for z in exp.ravel()[:3]]})
    chk.validated += n
    chk.notes["fft_calls_from_tlc"] = len(recs)
    chk.notes["fft_calls_judged"] = n
    chk.notes["fft_dask_calls_judged"] = ndask
    chk.notes["fft_calls_reference_refused"] = unjudged
    chk.notes["fft_calls_by_name"] = by_name
    chk.notes["fft_calls_by_input_dtype"] = by_dt
    chk.notes["fft_calls_by_container_and_positional_prefix"] = by_form
    chk.notes["fft_dtype_x_name_pairs"] = len(dt_name)


def check_names(chk):
    from common import pb
    import types
    d = dir(pb.fft)
    if list(d) != sorted(NAMES):
        chk.violation("names:dir", "dir(pulsarbat.fft) = %r, expected the fourteen transform names" % (d,), {"kind": "names"})
    for nm in NAMES:
        try:
            f = getattr(pb.fft, nm)
            if not callable(f):
                chk.violation("names:attribute", "pulsarbat.fft.%s is %r" % (nm, f), {"kind": "names"})
        except Exception as e:  # noqa
            chk.violation("names:missing", "pulsarbat.fft.%s raised %r" % (nm, e), {"kind": "names"})
    unknown = ["fish", "dct", "idct", "fftshift", "ifftshift", "fftfreq", "rfftfreq", "next_fast_len", "FFT", "fft_", "fft3", "rfft1",
               "ihfft2", "hfft2", "hfftn", "set_workers", "__wrapped__", "fht", "dst"]
    n = 0
    for nm in unknown:
        try:
            v = getattr(pb.fft, nm)
            chk.violation("names:unknown-accepted", "pulsarbat.fft.%s did not raise AttributeError (returned %r)" % (nm, v),
                          {"kind": "names", "name": nm})
        except AttributeError:
            n += 1
        except Exception as e:  # noqa
            chk.violation("names:wrong-exception", "pulsarbat.fft.%s raised %r, expected AttributeError" % (nm, e), {"kind": "names", "name": nm})
    if hasattr(pb.fft, "fish"):
        chk.violation("names:hasattr", "hasattr(pulsarbat.fft, 'fish')", {"kind": "names"})
    chk.validated += n + len(NAMES)
    chk.notes["unknown_names_refused"] = n


# ---------------------------------------------------------------- STFT / ISTFT
def sig_kw(i):
    from common import u, Time
    return [dict(sample_rate=1 * u.MHz, center_freq=1.4 * u.GHz, start_time=Time("2020-02-02T02:02:02.123456789", format="isot", precision=9)),
            dict(sample_rate=800 / 3 * u.kHz, center_freq=327 * u.MHz, start_time=Time(58849.5, format="mjd")),
            dict(sample_rate=32 * u.MHz, center_freq=0 * u.Hz, start_time=Time("2031-07-14T23:59:59.999", format="isot", precision=9)),
            dict(sample_rate=4 * u.Hz, center_freq=400 * u.MHz, start_time=Time(50000.25, format="mjd"))][i % 4]


def weights(xs):
    """one distinct complex weight per trailing sample index (shape xs); (2,) gives (1, 1j)"""
    k = np.arange(int(np.prod(xs, dtype=int)))
    return ((1 + k // 2) * 1j ** k).reshape(tuple(xs))


def build_bb(data, nch, align, dual, dtype, dask, kwi, xs=None):
    """data (n, nch) complex -> baseband signal of shape (n, nch) + xs whose trailing index e holds data * weights(xs)[e];
    xs defaults to (2,) for dual.  DualPolarizationSignal if dual and xs[0] == 2, else BasebandSignal."""
    from common import pb, da
    xs = tuple(xs) if xs else ((2,) if dual else ())
    dual = bool(dual and xs and xs[0] == 2)
    d = np.asarray(data, dtype=complex)
    if xs:
        d = d.reshape(d.shape + (1,) * len(xs)) * weights(xs)
    d = d.astype(dtype)
    if dask:
        d = da.from_array(d.copy(), chunks=(d.shape[0],) + (1,) * (d.ndim - 1))
    kw = dict(sig_kw(kwi), freq_align=align)
    if dual:
        return pb.DualPolarizationSignal(d, pol_type="linear", **kw)
    return pb.BasebandSignal(d, **kw)


def fresh(sig):
    """an equal signal on its own buffer (istft scales its argument in place: C14, not judged here)"""
    import common
    return type(sig).like(sig, np.array(common.materialise(sig), copy=True))


def tone_data(n, nch, c0, k, p):
    d = np.zeros((n, nch), dtype=complex)
    d[:, c0] = np.exp(2j * np.pi * ((k * np.arange(n)) % p) / p)
    return d


def label_tol(sig_in):
    import common
    return 8 * 2.0 ** -52 * float(abs(common.hz(sig_in.center_freq)) + common.hz(sig_in.chan_bw) * sig_in.nchan)


def stft_roundtrip(z, p, orig, single):
    """real calls; -> (y, w, problems[(key, desc)])"""
    import common
    from common import pb
    bad = []
    try:
        y = pb.contrib.stft(z, nperseg=p)
    except Exception as e:  # noqa
        return None, None, [("stft:raised", "stft(nperseg=%d) raised %r" % (p, e))]
    try:
        w = pb.contrib.istft(fresh(y), nperseg=p)
    except Exception as e:  # noqa
        return y, None, [("istft:raised", "istft(stft(z)) raised %r" % (e,))]
    m = len(z) - len(z) % p
    tol = (1e-6 if single else 1e-12) * max(1.0, float(np.max(np.abs(orig))))
    if len(w) != m or w.shape[1:] != z.shape[1:]:
        bad.append(("istft:shape", "istft(stft(z)) has shape %r, expected (%d,)+%r" % (tuple(w.shape), m, tuple(z.shape[1:]))))
    else:
        err = float(np.max(np.abs(common.materialise(w) - orig[:m]))) if m else 0.0
        if err > tol:
            bad.append(("istft:samples", "istft(stft(z)) differs from z[:%d] by %.3g (tolerance %.3g)" % (m, err, tol)))
    r0, r1 = common.hz(z.sample_rate), common.hz(w.sample_rate)
    if abs(r1 - r0) > 4 * 2.0 ** -52 * r0:
        bad.append(("istft:rate", "sample_rate %r, original %r" % (w.sample_rate, z.sample_rate)))
    if abs(common.time_days(w.start_time) - common.time_days(z.start_time)) > 3 * 2.0 ** -52:
        bad.append(("istft:start", "start_time %s, original %s" % (w.start_time, z.start_time)))
    if w.nchan == z.nchan:
        le = max(abs(a - b) for a, b in zip(common.hz(w.channel_freqs), common.hz(z.channel_freqs)))
        if le > label_tol(z):
            bad.append(("istft:labels", "channel labels %s, original %s" % (w.channel_freqs, z.channel_freqs)))
    return y, w, bad


def replay_stft_case(rec, dual, dtype, dask, kwi):
    """one Gen_Stft case (incl. its trailing sample shape xs) on the real code -> [(key, desc)]"""
    import common
    from fractions import Fraction
    c = rec["c"]
    n, nch, p = c["n"], c["nch"], c["p"]
    if c["mode"] == "data":
        data = np.array([[complex(*rec["x"][t][ch]) for ch in range(nch)] for t in range(n)])
    else:
        data = tone_data(n, nch, c["c0"], c["k"], p)
    single = dtype == "complex64"
    xs = tuple(rec.get("xs") or ()) or ((2,) if dual else ())
    z = build_bb(data, nch, c["align"], dual, dtype, dask, kwi, xs)
    orig = np.array(common.materialise(z), copy=True)
    where = "%s %s n=%d nchan=%d sample shape %r %s nperseg=%d %s%s [%s]" % (type(z).__name__, dtype, n, nch, (nch,) + xs, c["align"], p, c["mode"],
                                                              (" c0=%d k=%d" % (c["c0"], c["k"])) if c["mode"] == "tone" else "",
                                                              "dask" if dask else "numpy")
    y, w, bad = stft_roundtrip(z, p, orig, single)
    if y is None:
        return [(k, d + " | " + where) for k, d in bad]
    st = rec["st"]
    if tuple(y.shape) != (st["n"], st["nch"]) + xs:
        bad.append(("stft:shape", "stft has shape %r, specification %r" % (tuple(y.shape), (st["n"], st["nch"]) + xs)))
    else:
        exp = np.array([[complex(float(exact.unfix(v["re"])), float(exact.unfix(v["im"]))) for v in row] for row in st["d"]]).reshape(st["n"], st["nch"])
        got = common.materialise(y)
        tol = (1e-6 if single else 1e-12) * max(1.0, float(np.max(np.abs(orig))))
        g0 = got[(slice(None), slice(None)) + (0,) * len(xs)]
        full = exp.reshape(exp.shape + (1,) * len(xs)) * weights(xs) if xs else exp
        err = float(np.max(np.abs(got - full))) if exp.size and got.shape == full.shape else (0.0 if not exp.size else float("inf"))
        if err > tol:
            bad.append(("stft:values", "stft differs from the specification by %.3g (tolerance %.3g)" % (err, tol)))
        cf, cbw = common.hz(z.center_freq), common.hz(z.chan_bw)
        labs = [cf + Fraction(q[0], q[1]) * cbw for q in st["labels"]]
        le = max(abs(a - b) for a, b in zip(common.hz(y.channel_freqs), labs))
        if le > label_tol(z):
            bad.append(("stft:labels", "sub-channel labels %s, specification %s" % (y.channel_freqs, [float(v) for v in labs])))
        if c["mode"] == "tone" and exp.size:
            j = int(np.argmax(np.abs(g0[0])))
            f_tone = common.hz(z.channel_freqs)[c["c0"]] + Fraction(c["k"], p) * cbw
            f_alias = common.hz(z.channel_freqs)[c["c0"]] - Fraction(c["k"], p) * cbw
            f_lab = common.hz(y.channel_freqs)[j]
            if abs(f_lab - f_tone) > label_tol(z) and not (2 * c["k"] == -p and abs(f_lab - f_alias) <= label_tol(z)):
                bad.append(("stft:tone-label", "the tone at %.17g Hz appears in the sub-channel labelled %.17g Hz"
                            % (float(f_tone), float(f_lab))))
    r_exp = common.hz(z.sample_rate) / p
    if abs(common.hz(y.sample_rate) - r_exp) > 4 * 2.0 ** -52 * r_exp or common.hz(y.chan_bw) != common.hz(y.sample_rate):
        bad.append(("stft:rate", "sample_rate %r / chan_bw %r, expected %r / %d" % (y.sample_rate, y.chan_bw, z.sample_rate, p)))
    if abs(common.time_days(y.start_time) - common.time_days(z.start_time)) > 3 * 2.0 ** -52:
        bad.append(("stft:start", "start_time %s, original %s" % (y.start_time, z.start_time)))
    return [(k, d + " | " + where) for k, d in bad]


def replay_stft(chk, recs, rnd):
    thorough = chk.tier == "thorough"
    n = 0
    modes = {}
    for i, rec in enumerate(sorted(recs, key=lambda r: str(r["c"]))):
        if rec.get("xs"):
            combos = [(True, "complex128", False), (False, "complex64", i % 2 == 0)]
        else:
            combos = [(False, "complex128", False), (True, "complex64", False), (i % 2 == 0, "complex128", True)]
        if thorough:
            combos += [(True, "complex128", False), (False, "complex64", True)]
        for j, (dual, dt, dk) in enumerate(combos):
            for key, desc in replay_stft_case(rec, dual, dt, dk, i + j):
                chk.violation(key, desc, {"kind": "stft", "rec": {"c": rec["c"], "xs": rec.get("xs"), "x": rec["x"], "st": rec["st"]}, "dual": dual,
                                          "dtype": dt, "dask": dk, "kwi": i + j})
            n += 1
        modes[rec["c"]["mode"]] = modes.get(rec["c"]["mode"], 0) + 1
        if i in (7, 150):
            chk.sample({"stft_case": rec["c"], "expected_labels_in_input_chan_bw": rec["st"]["labels"][:4], "expected_align": rec["st"]["align"]})
    chk.validated += n
    chk.notes["stft_cases_from_tlc"] = modes
    chk.notes["stft_runs"] = n


def stft_events(rnd, count):
    """larger sizes on the real code -> trace events (+ replay source)"""
    import common
    from pfhelp import dy
    ev = []
    sizes = [5, 8, 16, 33, 32, 64, 7, 100, 256, 0]
    for i in range(count):
        nch = 1 + i % 3
        align = ["bottom", "center", "top"][(i // 3) % 3]
        p = sizes[i % len(sizes)]
        nseg = rnd.choice([1, 2, 5])
        if p == 0:                                  # nperseg equal to the length
            p, nseg, tail = rnd.choice([6, 9, 31, 50]), 1, 0
        else:
            tail = rnd.randrange(0, p)
        n = p * nseg + tail
        c0 = rnd.randrange(nch)
        k = rnd.randrange(-(p // 2), p - (p // 2))
        dual = i % 2 == 1
        dtype = "complex64" if i % 4 >= 2 else "complex128"
        dask = i % 5 == 4
        src = {"n": n, "nch": nch, "align": align, "p": p, "c0": c0, "k": k, "dual": dual, "dtype": dtype, "dask": dask, "kwi": i, "seed": rnd.randrange(2 ** 31)}
        ev += events_of(src, first_id=len(ev))
    return ev


def events_of(src, first_id=0):
    import common
    from pfhelp import dy
    n, nch, p, c0, k = src["n"], src["nch"], src["p"], src["c0"], src["k"]
    single = src["dtype"] == "complex64"
    eb = 23 if single else 52
    out = []
    # tone through stft
    z = build_bb(tone_data(n, nch, c0, k, p), nch, src["align"], src["dual"], src["dtype"], src["dask"], src["kwi"])
    orig = np.array(common.materialise(z), copy=True)
    y, w, bad = stft_roundtrip(z, p, orig, single)
    if y is None or w is None:
        return [{"id": first_id, "ev": "failed", "src": src, "why": bad}]
    a2 = {"bottom": 0, "center": 1, "top": 2}[z.freq_align]
    g = common.materialise(y)
    g0 = np.abs(g[:, :, 0] if src["dual"] else g).astype(float)
    peaks = np.argmax(g0, axis=1)
    peak = int(peaks[0])
    gc = (g[:, :, 0] if src["dual"] else g).astype(complex)
    peakerr = float(np.max(np.abs(gc[:, peak] - 1.0)))
    rest = np.delete(g0, peak, axis=1)
    leak = float(rest.max()) if rest.size else 0.0
    same_t = abs(common.time_days(y.start_time) - common.time_days(z.start_time)) <= 3 * 2.0 ** -52
    out.append({"id": first_id, "ev": "stft", "nch": nch, "a2": a2, "p": p, "c0": c0, "k": k, "n": n, "eb": eb,
                "cf": dy(common.hz(z.center_freq)), "cbw": dy(common.hz(z.chan_bw)),
                "peak": peak, "allsame": bool((peaks == peak).all()), "peakerr": dy(peakerr), "leak": dy(leak),
                "lab_peak": dy(common.hz(y.channel_freqs)[peak]), "len_out": len(y), "nch_out": int(y.nchan),
                "rate_out": dy(common.hz(y.sample_rate)), "t_same": bool(same_t), "src": src})
    # noise through stft + istft
    r = np.random.default_rng(src["seed"])
    data = r.standard_normal((n, nch)) + 1j * r.standard_normal((n, nch))
    z = build_bb(data, nch, src["align"], src["dual"], src["dtype"], src["dask"], src["kwi"] + 1)
    orig = np.array(common.materialise(z), copy=True)
    y, w, bad = stft_roundtrip(z, p, orig, single)
    if w is None:
        return out + [{"id": first_id + 1, "ev": "failed", "src": src, "why": bad}]
    m = n - n % p
    wd = common.materialise(w)
    ok_shape = wd.shape == orig[:m].shape
    err = float(np.max(np.abs(wd - orig[:m])) / max(1.0, float(np.max(np.abs(orig))))) if ok_shape and m else 0.0
    scale = float(abs(common.hz(z.center_freq)) + common.hz(z.chan_bw) * nch)
    lab_err = max(abs(a - b) for a, b in zip(common.hz(w.channel_freqs), common.hz(z.channel_freqs))) / exact.frac(scale) \
        if w.nchan == z.nchan else 1
    same_t = abs(common.time_days(w.start_time) - common.time_days(z.start_time)) <= 3 * 2.0 ** -52
    out.append({"id": first_id + 1, "ev": "istft", "n": n, "p": p, "nch": nch, "eb": eb, "len_back": len(w) if ok_shape else -1,
                "nch_back": int(w.nchan), "recon_err": dy(err), "rate_back": dy(common.hz(w.sample_rate)), "rate": dy(common.hz(z.sample_rate)),
                "lab_err": dy(float(lab_err)), "t_same": bool(same_t), "src": src})
    return out


def run_stft_trace(chk, rnd):
    events = stft_events(rnd, 400 if chk.tier == "thorough" else 90)
    failed = [e for e in events if e["ev"] == "failed"]
    for e in failed:
        for key, desc in e["why"]:
            chk.violation(key, desc + " | %r" % (e["src"],), {"kind": "stft-trace", "src": e["src"]})
    events = [e for e in events if e["ev"] != "failed"]
    src = {e["id"]: e.pop("src") for e in events}
    rejected, done = pfhelp.validate_parallel("Trace_Stft", events, nproc=4, timeout=900, heap="2g", chk=chk)
    chk.validated += done
    chk.notes["stft_trace_events"] = done
    for e, fl in rejected:
        s = src[e["id"]]
        chk.violation("stft-trace:%s:%s" % (e["ev"], "+".join(sorted(fl))),
                      "%s event rejected by Trace_Stft (%s): %r; recorded %r"
                      % (e["ev"], ",".join(sorted(fl)), s, {k: v for k, v in e.items() if not isinstance(v, dict)}),
                      {"kind": "stft-trace", "src": s})
    if events:
        e = events[0]
        chk.sample({"stft_trace_event": {k: v for k, v in e.items() if not isinstance(v, dict)}, "src": src[e["id"]]})


# ---------------------------------------------------------------- main
def run(chk):
    rnd = random.Random(chk.seed)
    thorough = chk.tier == "thorough"
    os.makedirs(SCR, exist_ok=True)
    res = {}
    jobs = [("fft", "Gen_Fft", "Gen_Fft_mid.cfg" if thorough else "Gen_Fft_quick.cfg", dict(workers=14 if thorough else 12, timeout=3000, heap="3g")),
            ("stft", "Gen_Stft", "Gen_Stft_full.cfg" if thorough else "Gen_Stft_quick.cfg", dict(workers=4, timeout=1500, heap="2g")),
            ("defs", "FftDefs", "FftDefs.cfg", dict(workers=1, timeout=900, heap="2g")),
            ("neg-defs", "FftDefs", "Neg_FftDefs.cfg", dict(workers=1, timeout=900, heap="2g"))]
    th = [threading.Thread(target=_tlc, args=(res, name, mod, cfg), kwargs=kw) for name, mod, cfg, kw in jobs]
    for t in th:
        t.start()
    check_names(chk)
    negs = {}
    nth = [threading.Thread(target=_tlc, args=(res, "neg-" + v, "Gen_Stft", "Neg_Stft_%s.cfg" % v), kwargs=dict(workers=1, timeout=600, heap="2g"))
           for v in ("noshift", "parity", "norecentre")]
    for t in nth:
        t.start()
    run_stft_trace(chk, rnd)
    for t, v in zip(nth, ("noshift", "parity", "norecentre")):
        t.join()
        r, _ = res["neg-" + v]
        if isinstance(r, Exception):
            raise r
        chk.add_tlc("neg:stft-" + v, r)
        negs["stft-" + v] = r.violation
        if r.ok or r.violation is None:
            chk.machinery_errors.append("wrong STFT variant %s was not rejected by TLC" % v)
    th[1].join()
    r, out = res["stft"]
    if isinstance(r, Exception):
        raise r
    chk.mc_must_hold("mc+gen:Stft", r)
    if r.ok:
        recs = pfhelp.load_ndjson(out)
        replay_stft(chk, recs, rnd)
    if os.path.exists(out):
        os.remove(out)
    th[0].join()
    r, out = res["fft"]
    if isinstance(r, Exception):
        raise r
    chk.mc_must_hold("gen:FftFamily", r)
    if r.ok:
        replay_fft(chk, pfhelp.load_ndjson(out), rnd)
    if os.path.exists(out):
        os.remove(out)
    th[2].join()
    th[3].join()
    r, _ = res["defs"]
    if isinstance(r, Exception):
        raise r
    chk.mc_must_hold("mc:FftDefs", r)
    r, _ = res["neg-defs"]
    if isinstance(r, Exception):
        raise r
    chk.add_tlc("neg:FftDefs-1D-probe", r)
    negs["names-on-1D-probe"] = r.violation
    if r.ok or r.violation is None:
        chk.machinery_errors.append("NamesDistinctOn1D was not rejected by TLC")
    chk.notes["negative_models_rejected"] = negs
    chk.exhaustive = not chk.machinery_errors
    chk.assumptions += [
        "the reference implementation of pulsarbat.fft.<name> is scipy.fft.<name> (values, shape, dtype); numpy.fft.<name> and the "
        "specification's own definition from the DFT pin what the name means",
        "TLC evaluates the definitions on the stated shapes / argument matrix only; further normalisations and dtypes are judged "
        "against the reference alone",
        "STFT/ISTFT: TLC transforms nperseg <= 4 (6 in thorough) itself; larger sizes are judged from recorded peak / error measurements",
        "contrib.istft is given a private copy of the STFT (its in-place scaling is property C14)"]


def replay(doc):
    c = doc["case"]
    kind = c["kind"]
    if kind == "fft":
        exp = None
        if c.get("out"):
            exp = expected_array({"out": c["out"]})
        bad, _ = run_fft_case(c["c"], c["x"], c["dtype"], exp, c["norm"], c["dask"], c.get("form", c.get("positional", 0)))
        bad = [("fft:%s:%s" % (k, c["c"]["name"]), d) for k, d in bad]
    elif kind == "stft":
        bad = replay_stft_case(c["rec"], c["dual"], c["dtype"], c["dask"], c["kwi"])
    elif kind == "stft-trace":
        ev = events_of(c["src"])
        bad = []
        for e in ev:
            if e["ev"] == "failed":
                bad += e["why"]
        ev = [e for e in ev if e["ev"] != "failed"]
        for e in ev:
            e.pop("src")
        rejected, _ = pfhelp.validate_parallel("Trace_Stft", ev, nproc=1, timeout=300)
        bad += [("stft-trace:%s:%s" % (e["ev"], "+".join(sorted(f))), "rejected by Trace_Stft: %r" % (c["src"],)) for e, f in rejected]
    else:
        chk = framework.Check(PID, "quick", 0)
        chk._known = []
        check_names(chk)
        bad = [(k, d) for k, d, _ in chk.violations]
    same = [b for b in bad if b[0] == doc["key"]] or bad
    for k, d in same:
        print("VIOLATION property=C20 replay=(this case)  # %s: %s" % (k, d))
    if not same:
        print("case passes")
    return 1 if same else 0
