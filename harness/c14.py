"""C14 - no operation modifies the signal or arguments it is given
(spec/Alias.tla; behaviours replayed on the real code, buffer hashes validated by Trace_Alias)."""
import copy
import hashlib
import os
import random

import numpy as np

import tlc
import framework
import trace_util
import c01

SCR = os.path.join(framework.ROOT, ".scratch")


def _h(b):
    return hashlib.blake2b(b, digest_size=10).hexdigest()


def base_of(a):
    while isinstance(getattr(a, "base", None), np.ndarray):
        a = a.base
    return a


class Pool:
    """live signals + every buffer (data bases, argument arrays) seen so far"""

    def __init__(self):
        self.sigs = []          # (signal, buffer id)
        self.bufs = {}          # id -> ndarray (ultimate base)
        self._byid = {}

    def buf_id(self, arr):
        """arr: ndarray (tracked through its ultimate base) or Quantity (tracked with its unit)"""
        from common import u, Time
        if isinstance(arr, (u.Quantity, Time)):
            k, b = id(arr), arr
        else:
            b = base_of(np.asarray(arr))
            k = id(b)
        if k not in self._byid:
            self._byid[k] = len(self.bufs) + 1
            self.bufs[self._byid[k]] = b
        return self._byid[k]

    @staticmethod
    def _hash_one(b):
        from common import u, Time
        if isinstance(b, Time):
            return _h(np.asarray(b.jd1).tobytes() + np.asarray(b.jd2).tobytes() + str((b.scale, b.format, b.shape)).encode())
        if isinstance(b, u.Quantity):
            v = b.view(np.ndarray) if type(b).__name__ == "Phase" else np.asarray(b.value)     # Phase: the raw two-part buffer
            return _h(np.ascontiguousarray(v).tobytes() + str((v.shape, v.dtype, str(b.unit), type(b).__name__)).encode())
        return _h(np.ascontiguousarray(b).tobytes() + str((b.shape, b.dtype, b.strides)).encode())

    def hashes(self):
        return [{"b": i, "h": self._hash_one(b)} for i, b in sorted(self.bufs.items())]

    def metas(self):
        import common
        out = []
        for s, _ in self.sigs:
            sn = common.snapshot(s)
            sn.pop("data", None)
            sn.pop("id_data", None)
            out.append(_h(repr(sorted(sn.items(), key=lambda kv: kv[0])).encode()))
        return out


def make_root(root, rnd):
    import common
    from common import pb, u, Time
    kind, contig = root["kind"], root["contig"]
    n = 48
    shape = {"dp": (n, 2, 2), "bb": (n, 2), "st": (n, 2, 4), "in": (n, 3), "rd": (n, 2), "sg": (n, 3)}[kind]
    big = (2 * n,) + shape[1:]
    rs = np.random.default_rng(rnd.randrange(1 << 30))
    if kind in ("dp", "bb"):
        base = (rs.standard_normal(big) + 1j * rs.standard_normal(big)).astype(rnd.choice(["complex128", "complex64"]))
    elif kind in ("rd", "sg"):
        # classes without a dtype contract keep whatever they are given, e.g. non-native byte order
        # straight from a file, integers, complex
        base = (rs.standard_normal(big) * 50 + 1j * rs.standard_normal(big) * 50)
        dt = rnd.choice([">c16", ">f8", "<f4", ">i4", "complex64", "int16"])
        base = (base if "c" in dt else base.real).astype(dt)
    else:
        base = np.abs(rs.standard_normal(big)).astype(rnd.choice(["float64", "float32"])) + 1
    if rnd.random() < 0.35 and base.dtype.kind in "fc":
        # non-finite samples are data like any other: nothing may "clean" the caller's buffer
        base[rnd.randrange(2 * n)] = np.nan
        base[rnd.randrange(2 * n)] = np.inf
        base[rnd.randrange(2 * n)] = -np.inf
    z = base[:n].copy() if contig else base[::2]
    kw = dict(sample_rate=1 * u.MHz, start_time=Time("2022-02-02T02:02:02", precision=9),
              center_freq=400 * u.MHz, meta=rnd.choice([{"a": [1, {"b": 2}]}, {}, None, {"x": 1}]))
    if kind in ("st", "in", "rd"):
        kw["chan_bw"] = 1 * u.MHz
    if kind == "dp":
        kw["pol_type"] = rnd.choice(["linear", "circular"])
    if kind == "sg":
        kw.pop("center_freq")
    cls = {"dp": pb.DualPolarizationSignal, "bb": pb.BasebandSignal, "st": pb.FullStokesSignal,
           "in": pb.IntensitySignal, "rd": pb.RadioSignal, "sg": pb.Signal}[kind]
    return cls(z, **kw)


def real_ops():
    import common
    from common import pb, u, Time
    import dask.array as da
    DM = pb.DM(0.02)

    def concat_self(z, P):
        k = len(z) // 2
        return pb.concatenate([z[:k], z[k:]])

    def tshift(z, P, crop=False):
        sh = np.array(1.5) if z.ndim == 1 else np.full(z.shape[1:2], 1.5)
        sh[..., 0] = -2.25
        P.buf_id(sh)
        return pb.time_shift(z, sh, crop=crop)

    def fshift(z, P):
        q = np.array([0.1, -0.2])[: z.shape[1]] * u.MHz
        P.buf_id(q)
        return pb.freq_shift(z, q)

    def chirp(z, P):
        DM.chirp_from_signal(z)
        return z

    def cdd(z, P):
        c = np.asarray(DM.chirp_from_signal(z))
        P.buf_id(c)
        return pb.coherent_dedispersion(z, DM, chirp=c)

    def bad_concat(z, P):
        k = len(z) // 2
        return pb.concatenate([z[:k], z[k + 1:]])

    def out_self(z, P):
        r = np.multiply(z, 2, out=z)
        assert r is z
        return z

    def inplace(z, P):
        z0 = z
        z *= 2
        assert z is z0
        return z

    def contains(z, P):
        z.contains(z.start_time + 3 * z.dt)
        return z

    return {
        "time_slice": lambda z, P: z[2:len(z) - 3],
        "time_slice_step": lambda z, P: z[1::2],
        "freq_slice": lambda z, P: z[:, 0:1],
        "like": lambda z, P: type(z).like(z),
        "fast_len": lambda z, P: pb.fast_len(z),
        "snippet_int": lambda z, P: pb.snippet(z, 2, max(len(z) - 4, 0)),
        "snippet_frac": lambda z, P: pb.snippet(z, 1.5, max(len(z) - 4, 0)),
        "time_shift": lambda z, P: tshift(z, P),
        "time_shift_crop": lambda z, P: tshift(z, P, True),
        "time_shift_zero": lambda z, P: pb.time_shift(z, 0.0),
        "freq_shift": fshift,
        "coherent_dd": cdd,
        "incoherent_dd": lambda z, P: pb.incoherent_dedispersion(z, DM),
        "to_intensity": lambda z, P: z.to_intensity(),
        "to_stokes": lambda z, P: z.to_stokes(),
        "to_circular": lambda z, P: z.to_circular(),
        "to_linear": lambda z, P: z.to_linear(),
        "stokes_item": lambda z, P: z["Q"],
        "stft": lambda z, P: pb.contrib.stft(z, nperseg=4),
        "istft": lambda z, P: pb.contrib.istft(z, nperseg=2),
        "concat_self": concat_self,
        "ufunc_add": lambda z, P: z + 1,
        "ufunc_out_self": out_self,
        "inplace_mul": inplace,
        "to_dask": lambda z, P: z.to_dask_array(),
        "compute": lambda z, P: z.compute(),
        "asarray": lambda z, P: (np.asarray(z), z)[1],
        "chirp": chirp,
        "contains": contains,
        "bad_snippet": lambda z, P: pb.snippet(z, len(z) - 1, 5),
        "bad_shift_dims": lambda z, P: pb.time_shift(z, np.ones(z.shape)),
        "bad_freq_shift_unit": lambda z, P: pb.freq_shift(z, 1 * u.s),
        "bad_concat_gap": bad_concat,
    }


def replay_behaviour(case, rnd, eid0):
    """Runs one generated behaviour on the real code; returns the list of events."""
    import dask.array as da
    ops = real_ops()
    P = Pool()
    root = make_root(case["root"], rnd)
    P.sigs.append((root, P.buf_id(root.data)))
    events = []
    for step, h in enumerate(case["hist"]):
        i = h["arg"] - 1
        if i >= len(P.sigs):
            break
        z, zb = P.sigs[i]
        pre_n = len(P.bufs)
        pre, mpre = P.hashes(), P.metas()
        raised = None
        try:
            r = ops[h["op"]](z, P)
        except Exception as e:  # noqa
            r, raised = None, repr(e)[:200]
        # buffers registered during the call (argument arrays): their pre-hash is not known;
        # they are tracked from the next step on.  Compare only buffers known before the call.
        post = [x for x in P.hashes() if x["b"] <= pre_n]
        mpost = P.metas()
        events.append({"id": eid0 + len(events), "ev": "call", "op": h["op"], "argbuf": zb, "pre": pre, "post": post,
                       "mpre": mpre, "mpost": mpost, "raised": raised or "",
                       "case": {"root": case["root"], "hist": case["hist"][:step + 1]}})
        if r is not None and r is not z and isinstance(getattr(r, "meta", None), dict):
            # a user-level write to the result's meta must not reach any input (like()/setter copy the dict)
            before = P.metas()
            r.meta["__verif_probe__"] = step
            after = P.metas()
            del r.meta["__verif_probe__"]
            events.append({"id": eid0 + len(events), "ev": "call", "op": "api_call", "argbuf": 0, "pre": [], "post": [],
                           "mpre": before, "mpost": after, "raised": "",
                           "case": {"root": case["root"], "hist": case["hist"][:step + 1], "probe": "result.meta write"}})
        if r is not None and r is not z and hasattr(r, "data") and len(P.sigs) < 6:
            d = r.data
            if isinstance(d, da.Array):
                P.sigs.append((r, zb))
            else:
                P.sigs.append((r, P.buf_id(d)))
    return events


def more_arg_events(rnd, eid0):
    """Public calls whose arguments are Quantities / Times / frequency arrays: every argument object is
    registered before the call, so TLC sees its hash before and after (and the same objects are passed to
    a second call, which must behave like the first)."""
    from common import pb, u, Time
    events = []
    DM = pb.DM(0.02)
    for kind in ("dp", "bb", "in", "rd"):
        z = make_root({"kind": kind, "contig": True}, rnd)
        calls = []
        tq = (3.5 / z.sample_rate).to(rnd.choice([u.us, u.s, u.ms]))
        calls.append(("snippet_frac" if kind in ("dp", "bb") else "snippet_int", [tq], lambda z=z, tq=tq: pb.snippet(z, tq, 5)))
        tt = z.start_time + 4 * z.dt
        calls.append(("snippet_int", [tt], lambda z=z, tt=tt: pb.snippet(z, tt, 5)))
        sq = (np.array([1.5, -2.0])[: z.shape[1]] / z.sample_rate).to(u.us)
        calls.append(("time_shift", [sq], lambda z=z, sq=sq: pb.time_shift(z, sq)))
        for unit in (u.MHz, u.Hz, u.GHz):
            f = (np.array([399.0, 400.0, 401.5]) * u.MHz).to(unit)
            fr = (400.25 * u.MHz).to(unit)
            calls.append(("api_call", [f, fr], lambda f=f, fr=fr: DM.time_delay(f, fr)))
            calls.append(("api_call", [f, fr], lambda f=f, fr=fr, z=z: DM.sample_delay(f, fr, z.sample_rate)))
        ref = 399.5 * u.MHz
        calls.append(("incoherent_dd", [ref], lambda z=z, ref=ref: pb.incoherent_dedispersion(z, DM, ref_freq=ref)))
        if kind in ("dp", "bb"):
            calls.append(("coherent_dd", [ref], lambda z=z, ref=ref: pb.coherent_dedispersion(z, DM, ref_freq=ref)))
        ts = z.start_time + np.arange(4) * z.dt
        calls.append(("contains", [ts], lambda z=z, ts=ts: z.contains(ts)))
        pieces = [z[:10], z[10:]]
        calls.append(("concat_self", [], lambda pieces=pieces: pb.concatenate(pieces)))
        for name, argobjs, call in calls:
            P = Pool()
            zb = P.buf_id(z.data)
            P.sigs.append((z, zb))
            for a in argobjs:
                P.buf_id(a)
            for rep in (0, 1):                       # the same argument objects, twice
                pre, mpre = P.hashes(), P.metas()
                try:
                    call()
                    raised = ""
                except Exception as e:  # noqa
                    raised = repr(e)[:200]
                events.append({"id": eid0 + len(events), "ev": "call", "op": name, "argbuf": zb, "pre": pre,
                               "post": P.hashes(), "mpre": mpre, "mpost": P.metas(), "raised": raised,
                               "case": {"direct2": name, "kind": kind, "rep": rep}})
    return events


def extreme_arg_events(rnd, eid0):
    """Array / Quantity / Phase arguments in unusual value regimes (shifts beyond the signal length, huge, tiny,
    exactly zero, 0-d arrays) and forms (float64 arrays that a no-copy conversion would alias, copy=False
    conversions): every argument object registered before the call, the same objects passed twice."""
    from common import pb, u
    events = []
    calls = []
    for kind in ("dp", "bb", "in"):
        z = make_root({"kind": kind, "contig": True}, rnd)
        n = len(z)
        ch = z.shape[1]
        vals = [[n + 5.0, -1.25], [-(n + 0.5), 0.0], [1e6, -1e6], [1e-12, 0.0], [0.0, 0.0], [float(n), -float(n)], [0.25, n * 3.0]]
        for v in vals:
            for crop in (False, True):
                a = np.array(v[:ch] if ch <= 2 else (v * ch)[:ch], dtype=np.float64)
                calls.append((z, "time_shift_crop" if crop else "time_shift", [a], lambda z=z, a=a, crop=crop: pb.time_shift(z, a, crop=crop)))
            a0 = np.array(v[0], dtype=np.float64)                     # 0-d float64 array
            calls.append((z, "time_shift", [a0], lambda z=z, a0=a0: pb.time_shift(z, a0)))
            q = (np.array(v[:1], dtype=np.float64) / z.sample_rate.to_value(u.Hz)) * u.s
            calls.append((z, "time_shift", [q], lambda z=z, q=q: pb.time_shift(z, q[0])))
            if kind != "in":
                f = np.array([v[0] / n, v[1] / n][:ch] if ch <= 2 else ([v[0] / n] * ch), dtype=np.float64) * z.sample_rate.unit
                f = f * z.sample_rate.value
                calls.append((z, "freq_shift", [f], lambda z=z, f=f: pb.freq_shift(z, f)))
        for t in (np.array(2.0), np.array(2.5), np.array(float(n)), np.array(-1.0), np.array(0.0)):
            calls.append((z, "snippet_int" if float(t) == int(t) else "snippet_frac", [t], lambda z=z, t=t: pb.snippet(z, t, 3)))
        # offsets a hair off a whole sample (below any "is it zero" tolerance of the sub-sample shift), in every form,
        # at rates where that hair is resolvable in a Time
        for rate in (1 * u.Hz, 1 * u.kHz):
            zl = type(z).like(z, sample_rate=rate)
            for k, eps in ((4, 1e-9), (4, 5e-9), (7, 1e-8), (3, 2e-10), (5, -1e-9), (0, 3e-9)):
                tf = k + eps
                tq = (tf / rate).to(u.s)
                tt = zl.start_time + tq
                for form, t in (("float", tf), ("duration", tq), ("time", tt)):
                    calls.append((zl, "snippet_frac", [t] if not isinstance(t, float) else [],
                                  lambda zl=zl, t=t: pb.snippet(zl, t, 3)))
    for z, name, argobjs, call in calls:
        P = Pool()
        zb = P.buf_id(z.data)
        P.sigs.append((z, zb))
        for a in argobjs:
            P.buf_id(a)
        for rep in (0, 1):
            pre, mpre = P.hashes(), P.metas()
            try:
                call()
                raised = ""
            except Exception as e:  # noqa
                raised = repr(e)[:200]
            events.append({"id": eid0 + len(events), "ev": "call", "op": name, "argbuf": zb, "pre": pre,
                           "post": P.hashes(), "mpre": mpre, "mpost": P.metas(), "raised": raised,
                           "case": {"extreme": name, "rep": rep, "args": [repr(a)[:80] for a in argobjs]}})
    # conversions of Phase objects (a Quantity subclass over a two-part buffer): the object converted is an argument
    z = make_root({"kind": "in", "contig": True}, rnd)
    for im in (False, True):
        mk = lambda: pb.Phase(np.array([3.0, -7.0, 1e9]), np.array([0.25, -0.125, 0.4]) ) * (1j if im else 1)    # noqa
        convs = [("astype-f8-nocopy", lambda p: p.astype(np.float64, copy=False)),
                 ("astype-f8", lambda p: p.astype(np.float64)),
                 ("astype-f4-nocopy", lambda p: p.astype(np.float32, copy=False)),
                 ("astype-unsafe-i8", lambda p: p.astype(np.int64, casting="unsafe", copy=False)),
                 ("astype-c16-nocopy", lambda p: p.astype(np.complex128, copy=False)),
                 ("astype-own", lambda p: p.astype(p.dtype, copy=False)),
                 ("to_value", lambda p: p.to_value(u.cycle)), ("to-rad", lambda p: p.to(u.rad)), ("value", lambda p: p.value),
                 ("asarray", lambda p: np.asarray(p)), ("array-nocopy", lambda p: np.asarray(p, dtype=np.float64)),
                 ("cycle", lambda p: p.cycle), ("int-frac", lambda p: (p.int, p.frac)), ("str", lambda p: str(p)),
                 ("to_string", lambda p: p.to_string()), ("neg", lambda p: -p), ("add", lambda p: p + p), ("mul", lambda p: p * 2.0),
                 ("cmp", lambda p: p < p), ("sort", lambda p: np.sort(p)), ("min", lambda p: p.min()), ("copy", lambda p: p.copy()),
                 ("getitem", lambda p: p[1:]), ("isclose", lambda p: np.isclose(p, p)), ("float0", lambda p: float(p[0])),
                 ("imag-real", lambda p: (p.imag, p.real)),
                 ("FractionalPhase", lambda p: pb.pulsar.FractionalPhase(p)),
                 ("FractionalPhase-wrap1", lambda p: pb.pulsar.FractionalPhase(p, wrap_angle=1 * u.cycle)),
                 ("FractionalPhase-wrap0", lambda p: pb.pulsar.FractionalPhase(p, wrap_angle=0 * u.cycle)),
                 ("FractionalPhase-wrap-deg", lambda p: pb.pulsar.FractionalPhase(p, wrap_angle=90 * u.deg)),
                 ("Phase-of-phase", lambda p: pb.Phase(p)), ("Phase-nocopy", lambda p: pb.Phase(p, copy=False)),
                 ("Angle", lambda p: __import__("astropy.coordinates").coordinates.Angle(p)),
                 ("Longitude", lambda p: __import__("astropy.coordinates").coordinates.Longitude(p.frac, wrap_angle=1 * u.cycle))]
        for cname, conv in convs:
            p = mk()
            P = Pool()
            zb = P.buf_id(z.data)
            P.sigs.append((z, zb))
            P.buf_id(p)
            for rep in (0, 1):
                pre, mpre = P.hashes(), P.metas()
                try:
                    conv(p)
                    raised = ""
                except Exception as e:  # noqa
                    raised = repr(e)[:200]
                events.append({"id": eid0 + len(events), "ev": "call", "op": "api_call", "argbuf": zb, "pre": pre,
                               "post": P.hashes(), "mpre": mpre, "mpost": P.metas(), "raised": raised,
                               "case": {"phase-conversion": cname, "imag": im, "rep": rep}})
    # Phase arithmetic with array / Quantity second operands: both operands are registered arguments
    def phases():
        return {"real": pb.Phase(np.array([3.0, -7.0, 1e9]), np.array([0.25, -0.125, 0.4])),
                "imag": pb.Phase(np.array([3.0, -7.0, 1e9]), np.array([0.25, -0.125, 0.4])) * 1j}
    others = {"c16-imag": lambda: np.array([2j, -1j, 0.5j]), "c16": lambda: np.array([1 + 2j, 2.0, -1j]),
              "f8": lambda: np.array([2.0, -3.0, 0.5]), "i8": lambda: np.array([2, -3, 4]),
              "dimless": lambda: np.array([2.0, -3.0, 0.5]) * u.one, "dimless-imag": lambda: np.array([2j, -1j, 0.5j]) * u.one,
              "cycle": lambda: np.array([2.0, -3.0, 0.5]) * u.cycle, "percent": lambda: np.array([200.0, -300.0, 50.0]) * u.percent,
              "phase": lambda: pb.Phase(np.array([1.0, 2.0, 3.0]), np.array([0.1, 0.2, 0.3]))}
    binops = [("mul", lambda a, b: a * b), ("rmul", lambda a, b: b * a), ("div", lambda a, b: a / b),
              ("add", lambda a, b: a + b), ("sub", lambda a, b: a - b), ("rsub", lambda a, b: b - a),
              ("mod", lambda a, b: a % b), ("floordiv", lambda a, b: a // b), ("lt", lambda a, b: a < b),
              ("eq", lambda a, b: a == b), ("np.multiply", lambda a, b: np.multiply(a, b)),
              ("np.divide", lambda a, b: np.divide(a, b))]
    for pk in ("real", "imag"):
        for ok, mk in others.items():
            for bname, f in binops:
                p, o = phases()[pk], mk()
                P = Pool()
                zb = P.buf_id(z.data)
                P.sigs.append((z, zb))
                P.buf_id(p)
                P.buf_id(o)
                for rep in (0, 1):
                    pre, mpre = P.hashes(), P.metas()
                    try:
                        f(p, o)
                        raised = ""
                    except Exception as e:  # noqa
                        raised = repr(e)[:200]
                    events.append({"id": eid0 + len(events), "ev": "call", "op": "api_call", "argbuf": zb, "pre": pre,
                                   "post": P.hashes(), "mpre": mpre, "mpost": P.metas(), "raised": raised,
                                   "case": {"phase-conversion": "%s:%s:%s" % (pk, bname, ok), "imag": pk == "imag", "rep": rep}})
    # results that must be NEW: after the call the result is overwritten in place (an operation naming only the
    # result as its target); the inputs must still be bit-identical
    def wipe(r):
        for x in (r if isinstance(r, (tuple, list)) else [r]):
            d = getattr(x, "data", x) if not isinstance(x, np.ndarray) else x
            if isinstance(d, np.ndarray) and d.flags.writeable and d.size:
                if isinstance(x, np.ndarray):
                    x[...] = 0
                else:
                    x *= 0
    for kind in ("dp", "bb", "in", "rd"):
        for nch1 in (False, True):
            z0 = make_root({"kind": kind, "contig": True}, rnd)
            z = z0[:, :1] if nch1 else z0
            z = type(z).like(z, np.array(np.asarray(z.data)))            # own contiguous buffer
            fresh = [("array", lambda z=z: np.array(z)), ("array-own-dtype", lambda z=z: np.array(z, dtype=z.dtype)),
                     ("array-own-dtype-copy", lambda z=z: np.array(z, dtype=z.dtype, copy=True)),
                     ("array-copy", lambda z=z: np.array(z, copy=True)), ("np.copy", lambda z=z: np.copy(z)),
                     ("mul", lambda z=z: z * 1), ("add0", lambda z=z: z + 0), ("positive", lambda z=z: np.positive(z)),
                     ("concat1", lambda z=z: pb.concatenate([z])), ("concat2", lambda z=z: pb.concatenate([z[:10], z[10:]])),
                     ("time_shift", lambda z=z: pb.time_shift(z, 1.5)), ("time_shift-int", lambda z=z: pb.time_shift(z, 2)),
                     ("snippet", lambda z=z: pb.snippet(z, 2.5, 8))]
            if kind != "rd" or True:
                for dmv in (0.0, 1e-9, 0.02, -0.02):
                    fresh.append(("incoh_dd dm=%g" % dmv, lambda z=z, dmv=dmv: pb.incoherent_dedispersion(z, pb.DM(dmv))))
                    fresh.append(("incoh_dd dm=%g ref" % dmv, lambda z=z, dmv=dmv: pb.incoherent_dedispersion(z, pb.DM(dmv), ref_freq=z.center_freq)))
            if kind in ("dp", "bb"):
                for dmv in (0.0, 1e-9, 0.02):
                    fresh.append(("coh_dd dm=%g" % dmv, lambda z=z, dmv=dmv: pb.coherent_dedispersion(z, pb.DM(dmv))))
                fresh += [("to_intensity", lambda z=z: z.to_intensity()), ("freq_shift", lambda z=z: pb.freq_shift(z, 0.1 * u.MHz)),
                          ("stft", lambda z=z: pb.contrib.stft(z, nperseg=4)),
                          ("istft", lambda z=z: pb.contrib.istft(pb.contrib.stft(z, nperseg=4), nperseg=4))]
            if kind == "dp":
                # (a conversion to the basis the signal is already in returns a view: Alias!OpTable "view")
                fresh += [("to_stokes", lambda z=z: z.to_stokes()),
                          ("to-other-basis", lambda z=z: z.to_circular() if z.pol_type == "linear" else z.to_linear())]
            for name, call in fresh:
                P = Pool()
                zb = P.buf_id(z.data)
                P.sigs.append((z, zb))
                pre, mpre = P.hashes(), P.metas()
                try:
                    wipe(call())
                    raised = ""
                except Exception as e:  # noqa
                    raised = repr(e)[:200]
                events.append({"id": eid0 + len(events), "ev": "call", "op": "api_call", "argbuf": zb, "pre": pre,
                               "post": P.hashes(), "mpre": mpre, "mpost": P.metas(), "raised": raised,
                               "case": {"extreme": "result-overwritten:" + name, "rep": 0, "args": [kind, str(nch1)]}})
    # concatenate of DIFFERENT signals (not pieces of one): their metadata dicts differ in keys and values
    for kind in ("dp", "bb", "in", "sg"):
        z0 = make_root({"kind": kind, "contig": True}, rnd)
        for axis in (0, "time", 1, "freq"):
            if axis in (1, "freq"):
                if kind == "sg":
                    continue
                a, b = z0[:, :1], z0[:, 1:]
            else:
                a, b = z0[:20], z0[20:]
            metas = [({"first": 1, "shared": [1, 2]}, {"second": {"k": "v"}, "shared": [3]}), (None, {"only-later": 1}),
                     ({}, {"x": 1}), ({"a": 1}, None), ({"a": {"n": [1]}}, {"a": {"n": [2], "m": 3}, "b": 2})]
            for m1, m2 in metas:
                a2, b2 = type(a).like(a, meta=copy.deepcopy(m1)), type(b).like(b, meta=copy.deepcopy(m2))
                P = Pool()
                zb = P.buf_id(a2.data)
                P.sigs.append((a2, zb))
                P.sigs.append((b2, P.buf_id(b2.data)))
                for rep in (0, 1):
                    pre, mpre = P.hashes(), P.metas()
                    try:
                        pb.concatenate([a2, b2], axis=axis)
                        raised = ""
                    except Exception as e:  # noqa
                        raised = repr(e)[:200]
                    events.append({"id": eid0 + len(events), "ev": "call", "op": "concat_self", "argbuf": zb, "pre": pre,
                                   "post": P.hashes(), "mpre": mpre, "mpost": P.metas(), "raised": raised,
                                   "case": {"extreme": "concat-metas", "rep": rep, "args": [kind, str(axis), repr(m1), repr(m2)]}})
    return events


def arg_events(rnd, eid0):
    """Direct calls with array / Quantity arguments whose pre-hash is known (arguments are registered
    before the call)."""
    from common import pb, u
    events = []
    for kind in ("dp", "bb", "in"):
        for contig in (True, False):
            z = make_root({"kind": kind, "contig": contig}, rnd)
            for name, mk in (("time_shift", lambda: np.array([0.5, -1.25])),
                             ("time_shift_crop", lambda: np.array([[2.0], [-3.5]]) if z.ndim > 2 else np.array([2.0, -3.5])),
                             ("freq_shift", lambda: np.array([0.1, 0.3])),
                             ("coherent_dd", lambda: None)):
                if name in ("freq_shift", "coherent_dd") and kind == "in":
                    continue
                P = Pool()
                zb = P.buf_id(z.data)
                P.sigs.append((z, zb))
                arr = mk()
                if name == "coherent_dd":
                    arr = np.asarray(pb.DM(0.02).chirp_from_signal(z)).copy()
                P.buf_id(arr)
                qarg = None
                if name == "freq_shift":
                    qarg = arr * rnd.choice([u.MHz, u.kHz, u.Hz, 1 / u.us])
                    P.buf_id(qarg)
                pre, mpre = P.hashes(), P.metas()
                try:
                    if name == "time_shift":
                        pb.time_shift(z, arr)
                    elif name == "time_shift_crop":
                        pb.time_shift(z, arr, crop=True)
                    elif name == "freq_shift":
                        pb.freq_shift(z, qarg)
                    else:
                        pb.coherent_dedispersion(z, pb.DM(0.02), chirp=arr)
                    raised = ""
                except Exception as e:  # noqa
                    raised = repr(e)[:200]
                events.append({"id": eid0 + len(events), "ev": "call", "op": name, "argbuf": zb, "pre": pre,
                               "post": P.hashes(), "mpre": mpre, "mpost": P.metas(), "raised": raised,
                               "case": {"direct": name, "kind": kind, "contig": contig}})
    return events


def run(chk):
    import pipeline_replay as pr
    rnd = random.Random(chk.seed)
    thorough = chk.tier == "thorough"
    r = tlc.run("Alias", "MC_Alias.cfg", timeout=900)
    chk.mc_must_hold("MC_Alias", r)
    chk.exhaustive = r.ok
    r = tlc.run("Alias", "Neg_Alias_istft.cfg", timeout=900)
    chk.add_tlc("Neg_Alias_istft (must be rejected)", r)
    if r.violation != "Frame":
        chk.machinery_errors.append("negative Alias config not rejected: %r" % r.violation)
    os.makedirs(SCR, exist_ok=True)
    out = os.path.join(SCR, "C14_gen_%d.ndjson" % os.getpid())
    cases = []
    for cfg in ("Gen_Alias_d2.cfg", "Gen_Alias.cfg"):
        if os.path.exists(out):
            os.remove(out)
        r = tlc.run("Gen_Alias", cfg, env={"GEN_OUT": out}, timeout=1800)
        chk.add_tlc(cfg, r)
        part = pr.load(out)
        os.remove(out)
        if cfg == "Gen_Alias.cfg":
            lim = 40000 if thorough else 1200
            if len(part) > lim:
                part = rnd.sample(part, lim)
        elif not thorough and len(part) > 1500:
            part = rnd.sample(part, 1500)
        cases += part
    events = arg_events(rnd, 0)
    events += more_arg_events(rnd, len(events))
    events += extreme_arg_events(rnd, len(events))
    opcount = {}
    for c in cases:
        ev = replay_behaviour(c, rnd, len(events))
        events += ev
        for e in ev:
            opcount[e["op"]] = opcount.get(e["op"], 0) + 1
    slim = [{k: v for k, v in e.items() if k not in ("case", "raised")} for e in events]
    rejected, n = trace_util.validate("Trace_Alias", slim, batch=4000, chk=chk)
    chk.validated += n
    byid = {e["id"]: e for e in events}
    for e, failed in rejected:
        full = byid[e["id"]]
        changed = [p["b"] for p, q in zip(full["pre"], full["post"]) if p["h"] != q["h"]]
        chk.violation("alias:%s:%s" % (full["op"], "+".join(sorted(failed))),
                      "%s changed buffers %s (argument buffer %s) / metadata; failed clauses %s; raised=%r"
                      % (full["op"], changed, full["argbuf"], failed, full["raised"]),
                      {"kind": "alias", "case": full["case"], "seed": chk.seed})
    for e in events[:3]:
        chk.sample({"op": e["op"], "argbuf": e["argbuf"], "buffers": len(e["pre"]), "raised": e["raised"]})
    chk.notes["events_by_operation"] = opcount
    chk.notes["raised_events"] = sum(1 for e in events if e["raised"])
    # the repository's own tests, executed under the external tracer: every public call they make
    import suite
    ev = suite.trace_suite(chk)
    if ev:
        chk.notes["suite_events_validated"] = suite.validate_frame(chk, ev)
    # every generated Pipeline behaviour is also a C14 case (snapshots before/after each call)
    c01.run_pipeline(chk, want=("C14",), mc=None, quick_cases=500, full_cases=20000, nconc=(2, 6))
    chk.assumptions += ["buffer identity = ultimate .base ndarray; hashes are blake2b of the bytes",
                        "operations are those in Alias!OpTable plus the Pipeline alphabet; readers are covered by C11"]


def replay(doc):
    c = doc["case"]
    if c.get("kind") == "pipeline":
        return c01.replay(doc)
    if c.get("kind") == "suite":
        print("re-run the traced test: %s (api %s)" % (c["test"], c["api"]))
        return 1
    rnd = random.Random(c["seed"])
    if "direct2" in c["case"]:
        evs = [e for e in more_arg_events(rnd, 0) if e["case"] == c["case"]]
    elif "extreme" in c["case"] or "phase-conversion" in c["case"]:
        evs = [e for e in extreme_arg_events(rnd, 0) if e["case"] == c["case"]]
    elif "direct" in c["case"]:
        evs = [e for e in arg_events(rnd, 0) if e["case"] == c["case"]]
    else:
        evs = replay_behaviour(c["case"], rnd, 0)
    bad = 0
    for e in evs:
        ch = [p["b"] for p, q in zip(e["pre"], e["post"]) if p["h"] != q["h"]]
        san = {e["argbuf"]} if e["op"] in ("ufunc_out_self", "inplace_mul") else set()
        if [b for b in ch if b not in san] or e["mpre"] != e["mpost"][:len(e["mpre"])]:
            print("VIOLATION property=C14 replay=(this case)  # %s changed buffers %s" % (e["op"], ch))
            bad = 1
    if not bad:
        print("case passes")
    return bad
