"""MANIFEST.setup_cmd: parse every specification module with SANY, run the
kernel self-test, make sure the scratch directories exist."""
import glob
import os
import sys

import tlc
import kernel_selftest


def main():
    os.makedirs(os.path.join(os.path.dirname(tlc.SPEC), ".scratch"), exist_ok=True)
    os.makedirs(os.path.join(os.path.dirname(tlc.SPEC), "evidence"), exist_ok=True)
    os.makedirs(os.path.join(os.path.dirname(tlc.SPEC), "cases"), exist_ok=True)
    bad = 0
    for p in sorted(glob.glob(os.path.join(tlc.SPEC, "*.tla")) + glob.glob(os.path.join(tlc.SPEC, "kernel", "*.tla"))):
        ok, out = tlc.sany(p)
        print("SANY %-40s %s" % (os.path.relpath(p, tlc.SPEC), "ok" if ok else "FAILED"))
        if not ok:
            print(out[-1500:])
            bad += 1
    rc = kernel_selftest.main(n=120)
    import pulsarbat
    print("pulsarbat imported from", os.path.dirname(pulsarbat.__file__))
    return 2 if (bad or rc) else 0


if __name__ == "__main__":
    sys.exit(main())
