"""C09 code -> trace: seeded drivers on larger signals, more operand kinds and
random chunk layouts than the model enumerates; real readers with use_dask.

Every public call on a signal yields one event for spec/Trace_Dask.tla
(Lazy / StaysDask / ContainerOnly / legitimate refusals decided by TLC); the
values, types and metadata are compared here with the NumPy twin."""
import os
import threading

import numpy as np
import astropy.units as u
from astropy.time import Time
import dask
import dask.array as da

import pulsarbat as pb
import dask_sched as ds
import dask_replay as dr

DATA = None


def composition(n, rnd, maxparts=4):
    """random composition of n into at most maxparts parts"""
    if n <= 1:
        return (n,)
    k = rnd.randint(1, min(maxparts, n))
    cuts = sorted(rnd.sample(range(1, n), k - 1))
    return tuple(b - a for a, b in zip([0] + cuts, cuts + [n]))


def random_pair(rnd, cls=None, time_single=None, held=None):
    """(NumPy twin, Dask-backed signal on sentinel blocks), random shape / dtype / chunks"""
    cls = cls or rnd.choice(["Signal", "BasebandSignal", "DualPolarizationSignal", "IntensitySignal",
                             "FullStokesSignal", "RadioSignal"])
    N = rnd.choice([12, 16, 20, 27, 32, 45, 64])
    C = rnd.choice([1, 2, 3, 4, 6])
    if cls == "DualPolarizationSignal":
        rest = (2,) + rnd.choice([(), (), (2,)])
    elif cls == "FullStokesSignal":
        rest = (4,) + rnd.choice([(), (3,)])
    else:
        rest = rnd.choice([(), (), (2,), (3, 2)])
    sh = (N, C) + rest
    if cls == "Signal" and rnd.random() < 0.3:
        sh = (N,)
    variant = rnd.randrange(1000)
    root = {"cls": cls, "sh": list(sh), "back": "dask"}
    a = dr.root_arrays(root, rnd, variant)
    if time_single is None:
        time_single = rnd.random() < 0.6
    chunks = ((N,) if time_single else composition(N, rnd),) + tuple(composition(n, rnd, 3) for n in sh[1:])
    kw = dr.signal_kwargs(cls, variant)
    K = dr.CLASSES[cls]
    if cls == "DualPolarizationSignal":
        kw["pol_type"] = rnd.choice(["linear", "circular"])
    # what the graph of the input holds: sentinel tasks that make a fresh block at every run, blocks
    # persisted in memory, or one concrete array (from_array) cut into the chunks
    held = held or rnd.choice(["sentinel", "sentinel", "persisted", "from_array"])
    if held == "from_array":
        zd = K(a.copy(), **kw).to_dask_array()
        if rnd.random() < 0.5:
            zd = zd.rechunk(chunks)
        else:
            chunks = zd.data.chunks
    else:
        zd = K(ds.sentinel_array(a.copy(), chunks), **kw)
        if held == "persisted":
            zd = zd.persist(scheduler="synchronous")
    return K(a, **kw), zd, chunks


def _dm_for(z, rnd):
    # a delay of a few samples across the band
    bw = z.bandwidth.to_value(u.MHz)
    f = z.center_freq.to_value(u.MHz)
    if f <= bw:
        return None
    want = rnd.uniform(0.3, 3.0) / z.sample_rate.to_value(u.MHz) * 1e-6     # seconds
    k = 1 / 2.41e-4
    spread = abs(1 / (f - bw / 2) ** 2 - 1 / (f + bw / 2) ** 2) * k
    return pb.DM(want / spread)


def _to_f4(x):
    return np.real(x).astype(np.float32)


def driver_ops(zn, rnd):
    """operations applicable to signal zn: list of (name for the trace spec, a, callable, fft?)"""
    ops = []
    N = len(zn)
    ops.append(("tslice", [], (lambda a, b, c: (lambda z: z[a:b:c]))(rnd.randint(0, N // 2), rnd.randint(N // 2, N), rnd.choice([1, 1, 2, 3])), False))
    ops.append(("fast_len", [], lambda z: pb.fast_len(z), False))
    ti = rnd.randint(0, N // 2)
    nn = rnd.randint(1, N // 2 - 1)
    tform = rnd.choice(["int", "quantity", "time"]) if zn.start_time is not None else rnd.choice(["int", "quantity"])
    if tform == "int":
        t = ti
    elif tform == "quantity":
        t = (ti / zn.sample_rate).to(u.us)
    else:
        t = zn.start_time + ti / zn.sample_rate
    if tform != "int":
        # a time goes through float arithmetic: the sample position may come out just below ti,
        # then snippet takes the fractional (FFT) route; allowed, and judged with the FFT tolerance
        ops.append(("snippet", [], (lambda t, n: (lambda z: pb.snippet(z, t, n)))(t, nn), True))
    else:
        ops.append(("snippet_int", [], (lambda t, n: (lambda z: pb.snippet(z, t, n)))(t, nn), False))
    tf = ti + rnd.choice([0.25, 0.5, 0.3, 0.75])
    ops.append(("snippet", [], (lambda t, n: (lambda z: pb.snippet(z, t, n)))(tf, nn), True))
    # shifts on and off the lattices where an implementation might branch: whole numbers (as int and
    # as float), zero, negative, fractional
    sh = rnd.choice([1.5, -2.25, 3.0, -0.4, 7.75, 2, -5.0, 0, -1, 4.0, 0.0, 1])
    ops.append(("time_shift", [], (lambda s, c: (lambda z: pb.time_shift(z, s, crop=c)))(sh, rnd.random() < 0.5), True))
    if zn.ndim >= 2:
        vec = np.array([rnd.choice([1.5, -2.25, 0.5, 0.0, 3.0]) for _ in range(zn.shape[1])])
        if np.any(vec != 0):
            ops.append(("time_shift", [], (lambda s, c: (lambda z: pb.time_shift(z, s, crop=c)))(vec, rnd.random() < 0.5), True))
    # array-valued shifts: per channel, per trailing axis (broadcast over the channels), per element
    if zn.ndim >= 2:
        shapes = [(zn.shape[1],)] + ([(zn.shape[1],) + (1,) * (zn.ndim - 2), (1,) + zn.shape[2:], zn.shape[1:]] if zn.ndim > 2 else [])
        for _ in range(2):
            shp = rnd.choice(shapes)
            vals = np.array([rnd.choice([1.5, -2.25, 0.5, 3.0, -1.0, 2.75]) for _ in range(int(np.prod(shp)))]).reshape(shp)
            ops.append(("time_shift", [], (lambda s, c: (lambda z: pb.time_shift(z, s, crop=c)))(vals, rnd.random() < 0.4), True))
            if isinstance(zn, pb.BasebandSignal):
                fvals = np.array([rnd.choice([0.2, -0.31, 1.0, 2.4, -1.7]) for _ in range(int(np.prod(shp)))]).reshape(shp)
                fq = fvals * zn.sample_rate / N
                ops.append(("freq_shift", [], (lambda f: (lambda z: pb.freq_shift(z, f)))(fq), True))
    ops.append(("ufunc", [], rnd.choice(dr.UFUNCS), False))
    ops.append(("ufunc", [], lambda z: z + z, False))
    ops.append(("ufunc", [], lambda z: np.multiply(z, np.arange(1, z.shape[-1] + 1, dtype=z.dtype)), False))
    ops.append(("map_blocks", [], lambda z: dr.mb_elem(z), False))
    # functions whose output dtype differs from the input dtype: the lazy result must announce the
    # dtype the NumPy path produces (and keep it across compute)
    ops.append(("map_blocks", [], lambda z: pb.signal_transform(np.abs)(z, signal_type=pb.Signal), False))
    ops.append(("map_blocks", [], lambda z: pb.signal_transform(_to_f4)(z, signal_type=pb.Signal), False))
    ops.append(("map_blocks", [], lambda z: pb.signal_transform(np.isfinite)(z, signal_type=pb.Signal), False))
    ops.append(("rechunk", [], lambda z: z.rechunk(), False))
    ops.append(("to_dask", [], lambda z: z.to_dask_array(), False))
    # the pb.fft family applied directly to the data (every name, the axes it transforms)
    cplx = zn.dtype.kind == "c"
    fam = [("fft", 1), ("ifft", 1)] + ([("hfft", 1), ("irfft", 1)] if cplx else [("rfft", 1), ("ihfft", 1)])
    if zn.ndim >= 2:
        fam += [("fft2", 2), ("ifft2", 2), ("fftn", 2), ("ifftn", 2)] + ([("irfft2", 2), ("irfftn", 2)] if cplx else [("rfft2", 2), ("rfftn", 2)])
    for _ in range(2):
        fname, nax = rnd.choice(fam)
        if nax == 1:
            ax = rnd.randrange(zn.ndim)
            kwf, axes = {"axis": ax}, [ax]
        else:
            axes = sorted(rnd.sample(range(zn.ndim), 2))
            kwf = {"axes": tuple(axes)}
        if fname in ("irfft", "hfft", "irfft2", "irfftn") and zn.shape[(kwf.get("axes") or (kwf["axis"],))[-1]] < 2:
            continue       # a one-sample half spectrum has no even length: scipy / dask disagree with themselves there
        ops.append(("fft_axis", [x + 1 for x in axes],
                    (lambda fname, kwf: (lambda z: pb.Signal(getattr(pb.fft, fname)(z.data, **kwf), sample_rate=z.sample_rate)))(fname, kwf), True))
    if zn.ndim >= 2:
        C = zn.shape[1]
        a0 = rnd.randint(0, C - 1)
        ops.append(("fslice", [], (lambda a, b: (lambda z: z[:, a:b]))(a0, rnd.randint(a0 + 1, C)), False))
        k = rnd.randint(1, N - 1)
        ops.append(("concat", [], (lambda k: (lambda z: pb.concatenate([z[:k], z[k:]], axis=0)))(k), False))
        if C >= 2:
            k = rnd.randint(1, C - 1)
            ops.append(("concat", [], (lambda k: (lambda z: pb.concatenate([z[:, :k], z[:, k:]], axis=1)))(k), False))
    if isinstance(zn, pb.RadioSignal):
        dm = _dm_for(zn, rnd)
        if dm is not None:
            ops.append(("incoh_dd", [], (lambda dm: (lambda z: pb.incoherent_dedispersion(z, dm * 40)))(dm), False))
            if isinstance(zn, pb.BasebandSignal):
                ref = rnd.choice([None, zn.max_freq, zn.min_freq])
                ops.append(("coh_dd", [], (lambda dm, ref: (lambda z: pb.coherent_dedispersion(z, dm, ref_freq=ref)))(dm, ref), True))
                ops.append(("coh_dd", [], (lambda dm: (lambda z: pb.coherent_dedispersion(z, dm, chirp=dm.chirp_from_signal(z))))(dm), True))
                # the same geometry dedispersed with ANOTHER DM first, in the same process: nothing of the
                # first call (chirp, graph keys) may leak into the second
                ops.append(("coh_dd", [], (lambda dm, ref: (lambda z: (pb.coherent_dedispersion(z, dm * 3.5, ref_freq=ref),
                                                                        pb.coherent_dedispersion(z, dm, ref_freq=ref))[1]))(dm, ref), True))
                ops.append(("incoh_dd", [], (lambda dm: (lambda z: (pb.incoherent_dedispersion(z, dm * 15),
                                                                   pb.incoherent_dedispersion(z, dm * 40))[1]))(dm), False))
    if isinstance(zn, pb.BasebandSignal):
        ops.append(("to_intensity", [], lambda z: z.to_intensity(), False))
        fs = rnd.choice([0.2, -0.31, 1.0]) * zn.sample_rate / N * rnd.choice([1, 3])
        ops.append(("freq_shift", [], (lambda f: (lambda z: pb.freq_shift(z, f)))(fs), True))
        n = rnd.choice([2, 3, 4])
        ops.append(("stft", [], (lambda n: (lambda z: pb.contrib.stft(z, nperseg=n)))(n), True))
        for n in (2, 3):
            if zn.shape[1] % n == 0:
                ops.append(("istft", [], (lambda n: (lambda z: pb.contrib.istft(type(z).like(z, z.data * 1), nperseg=n)))(n), True))
    if isinstance(zn, pb.DualPolarizationSignal):
        ops.append(("to_stokes", [], lambda z: z.to_stokes(), False))
        ops.append(("to_circular", [], lambda z: z.to_circular(), False))
        ops.append(("to_linear", [], lambda z: z.to_linear(), False))
    if isinstance(zn, pb.FullStokesSignal):
        ops.append(("stokes_item", [], (lambda k: (lambda z: z[k]))(rnd.choice("IQUV")), False))
    return ops


def axis_chunked(name, z, a=()):
    axes = {"snippet": (0,), "fft_axis": tuple(x - 1 for x in a)}.get(name, dr.FFT_AXES.get(name, ()))
    return isinstance(z.data, da.Array) and any(len(z.data.chunks[ax]) > 1 for ax in axes if ax < z.ndim)


def run_driver(n, rnd, schedules, out):
    """n random single-operation cases (+ final compute under a rotating scheduler).
    out: Result-like collector with .viol .events .notes .ambiguous"""
    for i in range(n):
        zn, zd, chunks = random_pair(rnd)
        ops = driver_ops(zn, rnd)
        _drive(out, zn, zd, chunks, rnd.choice(ops), schedules[i % len(schedules)])


FFT_FAMILY = ["fft", "ifft", "fft2", "ifft2", "fftn", "ifftn", "rfft", "irfft", "rfft2", "irfft2", "rfftn", "irfftn",
              "hfft", "ihfft"]


def run_fft_family(n, rnd, schedules, out):
    """pb.fft.<name> applied directly to the data of a signal: every member of the family in turn,
    real and complex samples, inputs whose graph holds sentinel tasks / persisted blocks / one concrete
    array, transformed axes in one chunk (mostly) or chunked (refusal expected)."""
    for i in range(n):
        fname = FFT_FAMILY[i % len(FFT_FAMILY)]
        cplx = fname in ("irfft", "irfft2", "irfftn", "hfft") or (fname not in ("rfft", "rfft2", "rfftn", "ihfft") and rnd.random() < 0.7)
        cls = rnd.choice(["BasebandSignal", "DualPolarizationSignal"]) if cplx else rnd.choice(["IntensitySignal", "RadioSignal"])
        held = ["persisted", "from_array", "sentinel"][(i // len(FFT_FAMILY) + i) % 3]
        zn, zd, chunks = random_pair(rnd, cls=cls, time_single=True, held=held)
        nax = 1 if fname in ("fft", "ifft", "rfft", "irfft", "hfft", "ihfft") else 2
        axes = sorted(rnd.sample(range(zn.ndim), nax))
        if rnd.random() < 0.7 and isinstance(zd.data, da.Array):      # the transformed axes in one chunk
            zd = zd.rechunk({ax: -1 for ax in axes})
            chunks = zd.data.chunks
        if fname in ("irfft", "hfft", "irfft2", "irfftn") and zn.shape[axes[-1]] < 2:
            continue
        kwf = {"axis": axes[0]} if nax == 1 else {"axes": tuple(axes)}
        f = (lambda fname, kwf: (lambda z: pb.Signal(getattr(pb.fft, fname)(z.data, **kwf), sample_rate=z.sample_rate)))(fname, kwf)
        _drive(out, zn, zd, chunks, ("fft_axis", [x + 1 for x in axes], f, True), schedules[i % len(schedules)], label="pb.fft." + fname)


def _drive(out, zn, zd, chunks, op, sch, label=None):
    """one operation on a (twin, Dask-backed) pair: events, lazy announcement, values under scheduler
    sch, a second compute, and the input recomputed afterwards"""
    for _once in (0,):
        name, a, f, fft = op
        i = 0
        schedules = [sch]
        kind = "container" if name in ("rechunk", "to_dask") else "transform"
        what = "%s on %s%s chunks %s" % (label or name, type(zn).__name__, list(zn.shape), [list(c) for c in chunks])
        case = {"driver": True}
        pre = dr.summary(zd)
        zn0 = np.array(zn.data, copy=True)
        s0, t0 = ds.sentinel_count(), ds.task_count()
        try:
            rn = f(zn)
        except Exception as e:  # noqa
            out.note("driver_np_raises")
            continue
        try:
            rd = f(zd)
            raised = None
        except Exception as e:  # noqa
            raised = e
        s1, t1 = ds.sentinel_count(), ds.task_count()
        evname = {"snippet_int": "tslice", "fast_len": "tslice", "concat": "splitcat"}.get(name, name)
        if raised is not None:
            out.events.append(dr.event(evname, kind, a, True, pre, pre, s0, s1, t0, t1))
            if not (axis_chunked(name, zd, a) and isinstance(raised, ValueError)):
                out.viol.append(("raises:%s" % name, "Dask path raised %r where the NumPy path succeeds | %s" % (raised, what)))
            else:
                out.note("refusals")
            continue
        out.events.append(dr.event(evname, kind, a, False, pre, dr.summary(rd), s0, s1, t0, t1))
        out.note("driver_op:" + name)
        if kind != "container" and (rd.dtype != rn.dtype or rd.shape != rn.shape or type(rd) is not type(rn)):
            out.viol.append(("lazy-announce:%s" % name, "lazy result announces %s %s %s, NumPy path gives %s %s %s | %s"
                             % (type(rd).__name__, rd.shape, rd.dtype, type(rn).__name__, rn.shape, rn.dtype, what)))
        sch = schedules[i % len(schedules)]
        if not isinstance(rd.data, da.Array):
            got = rd
        else:
            try:
                pre2 = dr.summary(rd)
                s0, t0 = ds.sentinel_count(), ds.task_count()
                got = rd.compute(**dr.sched_kwargs(sch))
                out.events.append(dr.event("compute", "run", [], False, pre2, dr.summary(got), s0, ds.sentinel_count(), t0, ds.task_count()))
            except Exception as e:  # noqa
                out.viol.append(("compute-raises:%s" % name, "compute(%s) raised %r | %s" % (dr.sched_name(sch), e, what)))
                continue
        if kind == "container":
            rn = zn
        if isinstance(rd.data, da.Array):
            # (a) a second compute of the same lazy result gives the same samples; (b) the input
            # collection is what it was (computing a derived result must not touch what the graph holds)
            try:
                g2 = np.asarray(rd.compute(scheduler="synchronous").data)
                g1 = np.asarray(got.data)
                if g1.shape != g2.shape or g1.tobytes() != g2.tobytes():
                    out.viol.append(("recompute-differs:%s" % name, "computing the same lazy result twice gives different samples | %s" % what))
                zin = np.asarray(zd.compute(scheduler="synchronous").data)
                for c, m, amb in dr.compare_values(zin, np.asarray(zn0), False, "the INPUT recomputed after its result was computed | " + what):
                    out.viol.append(("input-changed:%s" % name, m))
            except Exception as e:  # noqa
                out.viol.append(("recompute-raises:%s" % name, "%r | %s" % (e, what)))
        if fft:
            dr.note_fft(np.asarray(got.data), np.asarray(rn.data))
        for c, m, amb in dr.compare_signals(got, rn, fft, what + " compute(%s)" % dr.sched_name(sch)):
            if amb:
                out.ambiguous += 1
            else:
                out.viol.append(("%s:%s" % (c, name), m))


# ------------------------------------------------------------------ sessions: several calls in one process
def run_dm_sessions(rnd, out, n=4):
    """The same geometry dedispersed with several DMs one after the other (coherent and incoherent, Dask and
    NumPy twins): every call must equal its own NumPy twin -- nothing of an earlier call (a chirp, a graph
    key, a memoised coefficient) may leak into a later one.  Deterministic part of every run."""
    for i in range(n):
        zn, zd, chunks = random_pair(rnd, cls="BasebandSignal" if i % 2 else "DualPolarizationSignal", time_single=True)
        dm0 = _dm_for(zn, rnd)
        if dm0 is None:
            out.note("dm_session_skipped")
            continue
        ref = [None, zn.max_freq, zn.min_freq][i % 3]
        what = "DM session on %s%s chunks %s" % (type(zn).__name__, list(zn.shape), [list(c) for c in chunks])
        for k, fac in enumerate((3.5, 1.0, 1.00004, -1.0)):
            dm = dm0 * fac
            for name, f, fft in (("coh_dd", lambda z: pb.coherent_dedispersion(z, dm, ref_freq=ref), True),
                                 ("incoh_dd", lambda z: pb.incoherent_dedispersion(z, dm * 40), False)):
                try:
                    rn = f(zn)
                except Exception:  # noqa
                    out.note("driver_np_raises")
                    continue
                try:
                    got = f(zd).compute(scheduler="synchronous")
                except Exception as e:  # noqa
                    out.viol.append(("raises:%s-session" % name, "call %d of a %s raised %r" % (k + 1, what, e)))
                    continue
                out.note("driver_op:%s-session" % name)
                for c, m, amb in dr.compare_signals(got, rn, fft, "%s, call %d (DM x %g)" % (what, k + 1, fac)):
                    if amb:
                        out.ambiguous += 1
                    else:
                        out.viol.append(("%s:%s" % (c, name), m))


# ------------------------------------------------------------------ binary operations, mixed containers
def run_binary(n, rnd, out):
    for i in range(n):
        zn, zd, chunks = random_pair(rnd, cls=rnd.choice(["Signal", "BasebandSignal", "IntensitySignal"]))
        other_chunks = tuple(composition(k, rnd, 3) for k in zn.shape)
        kind = rnd.choice(["dask-dask", "dask-np-signal", "np-signal-dask", "dask-ndarray", "dask-daskarray"])
        arr = np.asarray(zn.data)
        b = (arr * 0.5 + 1).astype(arr.dtype)
        K = type(zn)
        meta = {k: getattr(zn, k) for k in ("sample_rate", "start_time", "center_freq", "freq_align", "pol_type", "chan_bw", "meta")
                if hasattr(zn, k) and not (k == "chan_bw" and isinstance(zn, pb.BasebandSignal))}
        bn = K(b, **meta)
        bd = K(ds.sentinel_array(b.copy(), other_chunks), **meta)
        uf = rnd.choice([np.add, np.subtract, np.multiply])
        pre = dr.summary(zd)
        s0, t0 = ds.sentinel_count(), ds.task_count()
        try:
            if kind == "dask-dask":
                rn, rd = uf(zn, bn), uf(zd, bd)
            elif kind == "dask-np-signal":
                rn, rd = uf(zn, bn), uf(zd, bn)
            elif kind == "np-signal-dask":
                rn, rd = uf(bn, zn), uf(bn, zd)
                pre = dr.summary(zd)
            elif kind == "dask-ndarray":
                rn, rd = uf(zn, b), uf(zd, b)
            else:
                rn, rd = uf(zn, b), uf(zd, da.from_array(b, chunks=other_chunks))
        except Exception as e:  # noqa
            out.viol.append(("raises:binary-ufunc", "%s %s raised %r" % (uf.__name__, kind, e)))
            continue
        s1, t1 = ds.sentinel_count(), ds.task_count()
        out.events.append(dr.event("ufunc", "transform", [], False, pre, dr.summary(rd), s0, s1, t0, t1))
        out.note("driver_op:binary-" + kind)
        got = rd.compute(scheduler=rnd.choice(["synchronous", "threads"])) if isinstance(rd.data, da.Array) else rd
        for c, m, amb in dr.compare_signals(got, rn, False, "%s(%s) on %s" % (uf.__name__, kind, list(zn.shape))):
            if amb:
                out.ambiguous += 1
            else:
                out.viol.append(("%s:binary-ufunc" % c, m))


# ------------------------------------------------------------------ call sequences of one decorated transform
def run_transform_calls(n, rnd, out):
    """ONE signal_transform-decorated function with optional keywords, called again and again on
    Dask-backed signals and their twins: with keywords, without (defaults expected), with dask_kwargs /
    signal_kwargs given or omitted.  Every call must equal its NumPy twin: nothing of an earlier call
    may survive into a later one, and the dicts handed in must come back unchanged."""
    for i in range(n):
        zn, zd, chunks = random_pair(rnd)
        seq = [rnd.randrange(len(dr.KW_SETS)) for _ in range(rnd.randint(2, 4))]
        if i % 2:
            seq[-1] = 0                         # ... and finally without any keyword
        for j, k in enumerate(seq):
            v = rnd.randrange(12)
            what = "call %d of mb_kw keyword sets %s (variant %d) on %s%s chunks %s" % (
                j + 1, [dr.KW_SETS[q] for q in seq[:j + 1]], v, type(zn).__name__, list(zn.shape), [list(c) for c in chunks])
            probs = []
            pre = dr.summary(zd)
            s0, t0 = ds.sentinel_count(), ds.task_count()
            try:
                rn = dr.call_mb_kw(zn, k, v)
            except Exception:  # noqa   (e.g. a negative offset on unsigned samples): not defined for this input
                out.note("driver_np_raises")
                break
            try:
                rd = dr.call_mb_kw(zd, k, v, probs)
            except Exception as e:  # noqa
                out.viol.append(("raises:transform-calls", "%r | %s" % (e, what)))
                break
            out.events.append(dr.event("map_blocks", "transform", [], False, pre, dr.summary(rd), s0, ds.sentinel_count(), t0, ds.task_count()))
            for name_, b_, a_ in probs:
                out.viol.append(("argument-modified:%s" % name_, "%s came back as %r (was %r) | %s" % (name_, a_, b_, what)))
            got = rd.compute(scheduler="synchronous") if isinstance(rd.data, da.Array) else rd
            for c, m, amb in dr.compare_signals(got, rn, False, what):
                if amb:
                    out.ambiguous += 1
                else:
                    out.viol.append(("%s:transform-calls" % c, m))
        out.note("driver_op:transform-calls")


# ------------------------------------------------------------------ same-object histories
def run_histories(n, rnd, out):
    """Histories on ONE Dask-backed signal object next to its NumPy twin: looks (compute under some
    scheduler, persist, np.asarray) interleaved with the sanctioned in-place changes (x += y, x *= c,
    np.add(x, y, out=x), np.multiply(x, arr, out=x)).  Every look must show the samples the twin has now."""
    for i in range(n):
        zn, zd, chunks = random_pair(rnd, cls=rnd.choice(["Signal", "IntensitySignal", "BasebandSignal", "RadioSignal"]))
        arr = np.asarray(zn.data)
        step_arr = (arr * 0.25 + 1).astype(arr.dtype)
        K = type(zn)
        meta = {k: getattr(zn, k) for k in ("sample_rate", "start_time", "center_freq", "freq_align", "chan_bw", "meta")
                if hasattr(zn, k) and not (k == "chan_bw" and isinstance(zn, pb.BasebandSignal))}
        step_n = K(step_arr.copy(), **meta)
        step_d = K(ds.sentinel_array(step_arr.copy(), tuple(composition(k, rnd, 3) for k in zn.shape)), **meta)
        hist = []
        for j in range(rnd.randint(3, 6)):
            act = rnd.choice(["compute", "compute", "persist", "asarray", "iadd-signal", "iadd-dask-signal", "imul-scalar",
                              "add-out", "mul-out-array"]) if j else "compute"
            hist.append(act)
            what = "history %s on one %s%s chunks %s" % (" > ".join(hist), K.__name__, list(zn.shape), [list(c) for c in chunks])
            pre = dr.summary(zd)
            s0, t0 = ds.sentinel_count(), ds.task_count()
            try:
                if act in ("compute", "persist", "asarray"):
                    sch = rnd.choice(["synchronous", "threads"])
                    if act == "compute":
                        look = zd.compute(scheduler=sch)
                    elif act == "persist":
                        look = zd.persist(scheduler=sch)
                    else:
                        look = K.like(zn, np.asarray(zd))
                    post = dr.summary(look) if act != "asarray" else dr.summary(zd)
                    out.events.append(dr.event({"compute": "peek"}.get(act, act) if act != "persist" else "persist", "run", [], False,
                                               pre, post if act != "compute" else dr.summary(zd),
                                               s0, ds.sentinel_count(), t0, ds.task_count()))
                    got = look.compute(scheduler="synchronous") if isinstance(look.data, da.Array) else look
                    for c, m, amb in dr.compare_signals(got, zn, False, what):
                        if amb:
                            out.ambiguous += 1
                        else:
                            out.viol.append(("%s:history" % c, m))
                    if act == "compute" and isinstance(look.data, da.Array):
                        out.viol.append(("peek-not-computed:history", "compute() returned a Dask-backed signal | " + what))
                    continue
                def change(z, step):
                    if act in ("iadd-signal", "iadd-dask-signal"):
                        z += step
                    elif act == "imul-scalar":
                        z *= 2
                    elif act == "add-out":
                        np.add(z, step, out=z)
                    else:
                        np.multiply(z, step_arr, out=z)
                try:
                    change(zn, step_n)
                except Exception:  # noqa   the change is not defined for these samples whatever the container
                    out.note("driver_np_raises")
                    break
                change(zd, step_d if act == "iadd-dask-signal" else step_n)
            except Exception as e:  # noqa
                out.viol.append(("raises:history", "%r | %s" % (e, what)))
                break
            out.events.append(dr.event("ufunc", "transform", [], False, pre, dr.summary(zd), s0, ds.sentinel_count(), t0, ds.task_count()))
        out.note("driver_op:history")


# ------------------------------------------------------------------ concatenate of differently chunked pieces
def run_concat(n, rnd, out):
    for i in range(n):
        zn, zd, chunks = random_pair(rnd, cls=rnd.choice(["Signal", "BasebandSignal", "IntensitySignal", "DualPolarizationSignal"]))
        if zn.ndim < 2:
            continue
        ax = rnd.choice([0, 1]) if zn.shape[1] > 1 else 0
        L = zn.shape[ax]
        cuts = sorted(rnd.sample(range(1, L), min(L - 1, rnd.randint(1, 3))))
        bounds = list(zip([0] + cuts, cuts + [L]))

        def pieces(z, rechunk):
            out_ = []
            for j, (a, b) in enumerate(bounds):
                p = z[a:b] if ax == 0 else z[:, a:b]
                if rechunk and isinstance(p.data, da.Array):
                    p = p.rechunk(tuple(composition(k, rnd, 3) for k in p.shape))
                elif rechunk and j % 2:
                    pass
                out_.append(p)
            return out_
        pn = pieces(zn, False)
        pd = pieces(zd, True)
        if rnd.random() < 0.3:
            pd[0] = pd[0].compute(scheduler="synchronous")     # a NumPy-backed piece among Dask-backed ones
        pre = dr.summary(pd[-1])
        s0, t0 = ds.sentinel_count(), ds.task_count()
        try:
            rn = pb.concatenate(pn, axis=ax)
            rd = pb.concatenate(pd, axis=ax)
        except Exception as e:  # noqa
            out.viol.append(("raises:concatenate", "concatenate of %d pieces along %d raised %r" % (len(pn), ax, e)))
            continue
        s1, t1 = ds.sentinel_count(), ds.task_count()
        out.events.append(dr.event("splitcat", "transform", [], False, pre, dr.summary(rd), s0, s1, t0, t1))
        out.note("driver_op:concat-pieces")
        got = rd.compute(scheduler="threads")
        for c, m, amb in dr.compare_signals(got, rn, False, "concatenate(%d pieces, axis=%d) of %s" % (len(pn), ax, list(zn.shape))):
            if amb:
                out.ambiguous += 1
            else:
                out.viol.append(("%s:concatenate" % c, m))


# ------------------------------------------------------------------ readers
class CountingReader(pb.readers.BaseReader):
    """A reader whose _read_array counts its calls (the sentinel of a dask read).  `salt` makes two readers
    of identical geometry hold different content (like two files of one observation)."""
    calls = 0
    lock = threading.Lock()

    def __init__(self, shape, dtype, salt=0, **kw):
        super().__init__(shape=shape, dtype=dtype, **kw)
        self.salt = salt

    def _read_array(self, offset, n, /, **kwargs):
        with CountingReader.lock:
            CountingReader.calls += 1
        x = np.arange(offset, offset + n, dtype=np.float64).reshape((-1,) + (1,) * (self.ndim - 1))
        x = x * 1000 + np.arange(int(np.prod(self.sample_shape)), dtype=np.float64).reshape(self.sample_shape)
        return (x + 500 * getattr(self, "salt", 0)).astype(self.dtype)


def twin_readers(rnd, out):
    """Two readers with equal geometry and different content, same (offset, n), combined in ONE graph
    (dask.compute of both, concatenate along frequency, difference): each must keep its own data."""
    import dask
    kw = dict(signal_type=pb.RadioSignal, sample_rate=1 * u.MHz, start_time=dr.EPOCH,
              center_freq=1 * u.GHz, chan_bw=1 * u.MHz)
    r1 = CountingReader((64, 2), np.float64, salt=0, **kw)
    r2 = CountingReader((64, 2), np.float64, salt=1, **dict(kw, center_freq=1.002 * u.GHz))
    for j in range(3):
        off, n = rnd.randint(0, 30), rnd.randint(1, 30)
        a, b = r1.read(off, n, use_dask=True), r2.read(off, n, use_dask=True)
        ea, eb = r1.read(off, n), r2.read(off, n)
        ga, gb = dask.compute(a.data, b.data, scheduler="synchronous")
        if not (np.array_equal(ga, ea.data) and np.array_equal(gb, eb.data)):
            out.viol.append(("values:reader-twins", "two dask reads of equal geometry computed in one graph returned "
                             "the same block for both readers (offset %d, n %d)" % (off, n)))
        cat = pb.concatenate([a, b], axis="freq").compute(scheduler="threads")
        ref = pb.concatenate([ea, eb], axis="freq")
        for c, m, amb in dr.compare_signals(cat, ref, False, "frequency-concatenate of dask reads from twin readers"):
            if amb:
                out.ambiguous += 1
            else:
                out.viol.append(("%s:reader-twins" % c, m))
        out.note("driver_op:reader-twins")
    # the sample files with and without lower_sideband: same file, same geometry, different samples
    return


def concurrent_reads(r, name, rnd, out, reps, nread=6, maxn=400):
    """Several lazy reads of ONE reader computed together (dask.compute of all of them, and their
    time-concatenation) under the threaded scheduler, `reps` times; every repetition must equal the
    eager reads.  Synchronous once, as the reference of what the graph itself gives."""
    import dask
    n = min(maxn, max(1, len(r) // (nread + 1)))
    spans = [(j * n, n) for j in range(nread)]
    if rnd.random() < 0.5:
        spans = [(o + rnd.randint(0, n // 2), m) for o, m in spans]      # not adjacent: no concatenate
        adjacent = False
    else:
        adjacent = True
    eager = [r.read(o, m) for o, m in spans]
    lazy = [r.read(o, m, use_dask=True) for o, m in spans]
    cat = pb.concatenate(lazy) if adjacent else None
    for rep_ in range(reps + 1):
        sch = {"scheduler": "synchronous"} if rep_ == 0 else {"scheduler": "threads", "num_workers": 8}
        what = "%d dask reads of one %s computed together, %s, repetition %d" % (nread, name, sch["scheduler"], rep_)
        try:
            got = dask.compute(*[z.data for z in lazy], **sch)
            ok = all(np.array_equal(g, e.data) for g, e in zip(got, eager))
            if ok and cat is not None:
                ok = np.array_equal(cat.compute(**sch).data, np.concatenate([e.data for e in eager]))
        except Exception as e:  # noqa
            out.viol.append(("raises:concurrent-reads", "%r | %s" % (e, what)))
            return
        if not ok:
            out.viol.append(("values:concurrent-reads", "samples differ from the eager reads | " + what))
            return
    out.note("driver_op:concurrent-reads-" + name)


def _span(rnd, length, j):
    """(offset, n) of the j-th read of a population: ordinary spans and the boundary ones -
    nothing (n = 0, anywhere up to the very end), one sample, everything up to the end"""
    k = j % 4
    if k == 1:
        return rnd.choice([0, length, rnd.randint(0, length)]), 0
    if k == 2:
        return rnd.randint(0, length - 1), 1
    if k == 3:
        off = rnd.randint(0, length // 2)
        return off, length - off
    return rnd.randint(0, length // 2), rnd.randint(2, length // 2)


def _reader_event(out, pre_like, z, n0, n1):
    pre = dict(dr.summary(z))
    pre.update(back="dask", ch=pre["ch"] or [[n] for n in pre["sh"]])
    out.events.append(dr.event("reader", "transform", [], False, pre, dr.summary(z), n0, n1, n0, n1))


def run_readers(rnd, out, repo, nreads=6):
    # 1. a pure-python reader: the read itself is the sentinel
    for sigtype, dtype, shape, kw in [
            (pb.Signal, np.float64, (200, 3), {}),
            (pb.DualPolarizationSignal, np.complex64, (128, 4, 2), {"center_freq": 1 * u.GHz, "pol_type": "linear"}),
            (pb.FullStokesSignal, np.float32, (96, 3, 4), {"center_freq": 1 * u.GHz, "chan_bw": 1 * u.MHz})]:
        r = CountingReader(shape, dtype, signal_type=sigtype, sample_rate=1 * u.MHz,
                           start_time=dr.EPOCH, **kw)
        for j in range(nreads):
            off, n = _span(rnd, shape[0], j)
            chunks = rnd.choice([None, tuple(composition(k, rnd, 3) for k in (n,) + shape[1:]), (-1,) + (1,) * (len(shape) - 1),
                                 (composition(n, rnd, 4),) + (-1,) * (len(shape) - 1)])
            kwr = {} if chunks is None else {"chunks": chunks}
            c0 = CountingReader.calls
            try:
                zd = r.read(off, n, use_dask=True, **kwr) if j % 2 else r.dask_read(off, n, **kwr)
            except Exception as e:  # noqa
                out.viol.append(("raises:reader", "dask read(%d, %d, chunks=%r) raised %r" % (off, n, chunks, e)))
                continue
            c1 = CountingReader.calls
            zn = r.read(off, n)
            _reader_event(out, None, zd, c0, c1)
            out.note("driver_op:reader-python")
            if not isinstance(zd.data, da.Array):
                continue
            got = zd.compute(scheduler=rnd.choice(["synchronous", "threads"]))
            for c, m, amb in dr.compare_signals(got, zn, False, "CountingReader.read(%d, %d, use_dask, chunks=%r)" % (off, n, chunks)):
                if amb:
                    out.ambiguous += 1
                else:
                    out.viol.append(("%s:reader" % c, m))
    twin_readers(rnd, out)
    # 1b. a reader whose _read_array depends on the whole span read (not block-local), every kind of chunks
    for sigtype, dtype, shape, kw in [
            (pb.BasebandSignal, np.complex128, (300, 3), {"center_freq": 1.4 * u.GHz}),
            (pb.Signal, np.float64, (256, 2, 2), {}),
            (pb.BasebandSignal, np.complex64, (200, 2), {"center_freq": 1.4 * u.GHz})]:
        r = dr.SpanReader(shape=shape, dtype=dtype, signal_type=sigtype, sample_rate=2 * u.MHz, start_time=dr.EPOCH, **kw)
        for j in range(nreads):
            off, n = _span(rnd, shape[0], j)
            chunks = rnd.choice([None, tuple(composition(k, rnd, 3) for k in (n,) + shape[1:]),
                                 (composition(n, rnd, 4),) + (-1,) * (len(shape) - 1)]
                                + ([(max(1, n // 3),) + (-1,) * (len(shape) - 1)] if n else []))
            kwr = {} if chunks is None else {"chunks": chunks}
            c0 = ds.sentinel_count()
            try:
                zd = r.read(off, n, use_dask=True, **kwr)
            except Exception as e:  # noqa
                out.viol.append(("raises:reader", "dask read(%d, %d, chunks=%r) raised %r" % (off, n, chunks, e)))
                continue
            c1 = ds.sentinel_count()
            zn = r.read(off, n)
            _reader_event(out, None, zd, c0, c1)
            out.note("driver_op:reader-span")
            got = zd.compute(scheduler=rnd.choice(["synchronous", "threads"]))
            for c, m, amb in dr.compare_signals(got, zn, False, "SpanReader.read(%d, %d, use_dask, chunks=%r)" % (off, n, chunks)):
                if amb:
                    out.ambiguous += 1
                else:
                    out.viol.append(("%s:reader" % c, m))
    # 2. the repository's sample files through baseband
    data = os.path.join(repo, "tests", "data")
    opens = {"n": 0}
    orig = pb.readers.BasebandReader._get_fh

    def counting(self):
        opens["n"] += 1
        return orig(self)
    pb.readers.BasebandReader._get_fh = counting
    try:
        readers = []
        for name, mk in [("sample.vdif", lambda p: pb.readers.BasebandReader(p)),
                         ("sample.dada", lambda p: pb.readers.BasebandReader(p, signal_type=pb.Signal)),
                         ("stokes_ef.dada", lambda p: pb.readers.DADAStokesReader(p)),
                         ("fake.0.raw", lambda p: pb.readers.GUPPIRawReader(p))]:
            p = os.path.join(data, name)
            if os.path.exists(p):
                try:
                    readers.append((name, mk(p)))
                except Exception as e:  # noqa
                    out.note("reader_open_failed:" + name)
        for name, r in readers:
            for j in range(5):
                n = rnd.randint(1, min(16, len(r))) if j == 0 else rnd.randint(min(8, len(r)), min(96, len(r)))
                n = {3: 0, 4: 1}.get(j, n)                      # and the boundary reads: nothing, one sample
                off = rnd.choice([0, len(r)]) if (j == 3 and rnd.random() < 0.5) else rnd.randint(0, len(r) - n)
                chunks = [None, (-1,) + (1,) * (r.ndim - 1), (composition(n, rnd, 4),) + (-1,) * (r.ndim - 1)][(j + len(name)) % 3] \
                    if j < 2 else (composition(n, rnd, 4),) + (-1,) * (r.ndim - 1)
                kwr = {} if chunks is None else {"chunks": chunks}
                c0 = opens["n"]
                zd = r.read(off, n, use_dask=True, **kwr)
                c1 = opens["n"]
                zn = r.read(off, n)
                _reader_event(out, None, zd, c0, c1)
                out.note("driver_op:reader-" + name)
                got = zd.compute(scheduler="threads" if j else "synchronous")
                for c, m, amb in dr.compare_signals(got, zn, False, "%s.read(%d, %d, use_dask, chunks=%r)" % (name, off, n, chunks)):
                    if amb:
                        out.ambiguous += 1
                    else:
                        out.viol.append(("%s:reader" % c, m))
        for name, r in readers:
            concurrent_reads(r, name, rnd, out, reps=10 if nreads > 4 else 6, nread=8)
        concurrent_reads(CountingReader((4000, 3), np.float64, sample_rate=1 * u.MHz), "CountingReader", rnd, out, reps=2)
        concurrent_reads(dr.SpanReader(shape=(4000, 2), dtype=np.complex64, signal_type=pb.BasebandSignal, sample_rate=1 * u.MHz,
                                       center_freq=1 * u.GHz), "SpanReader", rnd, out, reps=2)
        p_dada = os.path.join(data, "sample.dada")
        if os.path.exists(p_dada):
            import dask
            ru = pb.readers.BasebandReader(p_dada, signal_type=pb.Signal)
            rl = pb.readers.BasebandReader(p_dada, signal_type=pb.Signal, lower_sideband=True)
            au, al = ru.read(3, 9, use_dask=True), rl.read(3, 9, use_dask=True)
            gu, gl = dask.compute(au.data, al.data, scheduler="synchronous")
            if not (np.array_equal(gu, ru.read(3, 9).data) and np.array_equal(gl, rl.read(3, 9).data)):
                out.viol.append(("values:reader-twins", "dask reads of sample.dada with and without lower_sideband, "
                                 "computed in one graph, do not both equal their eager reads"))
            out.note("driver_op:reader-sideband-twins")
        # two readers, same offsets, combined in one graph: the pure=True keys must differ
        if len(readers) >= 1:
            name, r = readers[0]
            a_, b_ = r.read(0, 8, use_dask=True), r.read(8, 8, use_dask=True)
            cat = pb.concatenate([a_, b_])
            ref = pb.concatenate([r.read(0, 8), r.read(8, 8)])
            for c, m, amb in dr.compare_signals(cat.compute(), ref, False, "concatenate of two dask reads of " + name):
                if amb:
                    out.ambiguous += 1
                else:
                    out.viol.append(("%s:reader" % c, m))
    finally:
        pb.readers.BasebandReader._get_fh = orig
