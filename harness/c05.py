"""C05 - coherent dedispersion applies the cold-plasma chirp and crops to valid times.

spec/Dedisp.tla (ChirpPhase, CohWindow / CohValid), MC_Dedisp (invariants),
Trace_Dedisp (code -> spec: chirp law per bin, whole outputs for N <= 8, tones
for larger N, crop / start / metadata, supplied chirp, DM then -DM)."""
import random

import numpy as np

import c06

PID = "C05"
NS = [8, 15, 16, 23, 64, 100]


def gen_cases(rnd, tier):
    import dedisp_util as D
    k = 5 if tier == "thorough" else 1
    full = tier == "thorough"
    cases = []
    # sessions: one geometry / one signal object, several nearby DMs, DM object stepped in place
    for i in range(40 * k):
        cases.append(D.gen_chirpseq_case(rnd))
    for i in range(18 * k):
        cases.append(D.gen_toneseq_case(rnd, NS[1:]))
    # Dask: signals of one geometry but different data (and one signal, two DMs) evaluated in ONE graph
    for i in range(10 * k):
        cases.append(D.gen_tonejoint_case(rnd, NS[1:4]))
    for i in range(100 * k):
        c = D.gen_chirpfn_case(rnd, full and i % 4 == 0)
        if i % 100 == 0:
            c["xcheck"] = rnd.choice(c["bins"])
        cases.append(c)
    for i in range(65 * k):
        c = D.gen_bb_case(rnd, "chirpsig", NS, decades=True)
        c["bins"] = D.pick_bins(rnd, c["N"], full and i % 4 == 0)
        if i % 40 == 0:
            c["xcheck"] = rnd.choice(c["bins"])
        cases.append(c)
    for i in range(42 * k):
        c = D.gen_bb_case(rnd, "tone", NS[1:])
        c["supplied"] = i % 3 == 0
        cases.append(c)
    for i in range(30 * k):      # tones under DMs over all decades (mostly everything cropped or nothing)
        cases.append(D.gen_bb_case(rnd, "tone", NS[1:], decades=True))
    for i in range(80 * k):
        c = D.gen_bb_case(rnd, "cohdd", [1, 2, 3, 4, 5, 6, 7, 8, 8], nchans=(1, 1, 2, 3))
        c["supplied"] = i % 3 == 0
        c["xcheck"] = i % 60 == 0
        cases.append(c)
    for i in range(40 * k):
        cases.append(D.gen_bb_case(rnd, "roundtrip", [128, 250, 256], nchans=(1, 2),
                                   span=lambda r, N: r.uniform(0.005, 0.09) * N))
    for i in range(280 * k):
        c = D.gen_bb_case(rnd, "crop", NS + [1, 2, 5], decades=i % 2 == 0,
                          span=lambda r, N: r.uniform(0, 1.4) * N)
        cases.append(c)
    return cases


def run(chk):
    import dedisp_util as D
    rnd = random.Random(chk.seed)
    c06.model_check(chk, [("Neg_Dedisp_pinned.cfg", "CropIsValidTimes")])
    cases = gen_cases(rnd, chk.tier)
    events = D.collect(cases, chk)
    D.judge(chk, events, cases, "C05", jobs=8, timeout=6000 if chk.tier == "thorough" else 1500)
    shown = set()
    for e in events:
        if e["ev"] in ("chirp", "cohdd", "tone", "roundtrip", "crop") and e["ev"] not in shown and e.get("outlen", 1) > 0:
            shown.add(e["ev"])
            chk.sample(e["_desc"][:600])
    ch = [e for e in events if e["ev"] == "chirp"]
    chk.notes["chirp_bins_checked"] = sum(len(e["ks"]) for e in ch)
    sup = [e for e in events if e["ev"] == "supplied"]
    chk.notes["supplied_chirp_bitwise_identical"] = "%d of %d" % (sum(1 for e in sup if e["_bitwise"]), len(sup))
    beh = [e for e in events if e["ev"] in ("cohdd", "tone", "crop", "roundtrip")]
    cases = [c.get("base", c) for c in cases]
    chk.notes["sessions"] = {"chirp_one_geometry": 40 * (5 if chk.tier == "thorough" else 1),
                             "tones_one_signal_object": 18 * (5 if chk.tier == "thorough" else 1)}
    chk.notes["coherent_calls"] = {
        "numpy": sum(1 for e in beh if not cases[e["_case"]].get("dask")),
        "dask": sum(1 for e in beh if cases[e["_case"]].get("dask")),
        "complex64": sum(1 for e in beh if cases[e["_case"]]["dtype"] == "complex64"),
        "with_trailing_dims": sum(1 for e in beh if cases[e["_case"]]["trail"] or cases[e["_case"]]["cls"] != "BasebandSignal"),
        "ref": {m: sum(1 for e in beh if cases[e["_case"]]["mode"] == m) for m in ("none", "top", "bot", "inside", "below", "above")},
        "all_cropped": sum(1 for e in beh if e.get("outlen") == 0), "nothing_cropped": sum(1 for e in beh if e.get("outlen") == e["N"])}
    chk.assumptions += [
        "TLC explores MC_Dedisp exhaustively only within the stated constants (len <= 8, quarter-sample band-edge delays)",
        "chirp tolerance 2e-6 + 7*B per component, B = 2^-49 * rho * (|phase| + K|DM||1/fref - 1/f|(1 + f/fref)) cycles "
        "bounds the float64 evaluation of the phase (derivation in spec/Trace_Dedisp.tla)",
        "the frequency of DFT bin k of channel c is channel_freqs[c] + k/(N*dt) with the floats the signal holds (labels are C02)",
        "band edges are the floats z.max_freq / z.min_freq; a band-edge delay within 1e-6 sample of an integer is not judged (ambiguous)",
        "the bounded-precision phase / delay of Dedisp 1b (errors < 2^-60 cycle, 2^-44 sample) are cross-checked against the exact rationals on sampled events",
        "outputs are compared at 1e-5 * max|x| (complex64 chirp and FFT floor)",
        "astropy Time arithmetic is accurate to 2^-50 day per operation"]


def replay(doc):
    import dedisp_util as D
    return D.replay_cases(doc, D.run_case)
